package main

import (
	"encoding/json"
	"fmt"
	"go/ast"
	"go/types"
	"os"
	"path/filepath"
	"strings"

	"golang.org/x/tools/go/ssa"

	"verif/internal/kit"
	"verif/internal/load"
)

// prepare loads the repository and normalises it against the reference tree (anchors.json):
// pure renames of functions and fields are followed, and calls to helpers that do not exist in the
// reference tree are expanded in place (internal/load/reinline.go) so that "extract method" does
// not hide a guard or an effect from the per-function rules. On a tree that has the same
// functions as the reference tree this is exactly load.Load.
func prepare(repo, verif string) (*load.Program, error) {
	prog, err := load.Load(repo)
	if err != nil {
		return nil, err
	}
	prog.RawID = kit.RawFuncID
	anchorsPath := filepath.Join(verif, "anchors.json")
	if a := os.Getenv("VCHECK_ANCHORS"); a != "" {
		anchorsPath = a
	}
	if _, serr := os.Stat(anchorsPath); serr != nil {
		exe, _ := os.Executable()
		anchorsPath = filepath.Join(filepath.Dir(filepath.Dir(exe)), "anchors.json")
	}
	table, aerr := load.ReadAnchors(anchorsPath)
	if aerr != nil {
		prog.Notes = append(prog.Notes, "no anchor table: renames are not followed")
		return prog, nil
	}
	inTable := map[string]bool{}
	for _, f := range table.Funcs {
		inTable[f.ID] = true
	}
	var notes []string
	if os.Getenv("VCHECK_NO_REINLINE") == "" {
		overlay := map[string][]byte{}
		read := func(name string) ([]byte, error) {
			if b, ok := overlay[name]; ok {
				return b, nil
			}
			return os.ReadFile(name)
		}
		if sw, ns := load.NormaliseSwitches(prog.Pkgs, read); len(sw) > 0 {
			for k, v := range sw {
				overlay[k] = v
			}
			if next, lerr := load.LoadOverlay(repo, overlay); lerr == nil {
				next.RawID = kit.RawFuncID
				prog = next
				notes = append(notes, ns...)
			} else {
				notes = append(notes, fmt.Sprintf("switch normalisation abandoned (%v)", lerr))
				for k := range sw {
					delete(overlay, k)
				}
			}
		}
		if cl, ns := load.InlineCondLocals(prog.Pkgs, read); len(cl) > 0 {
			saved := map[string][]byte{}
			for k, v := range cl {
				if old, ok := overlay[k]; ok {
					saved[k] = old
				}
				overlay[k] = v
			}
			if next, lerr := load.LoadOverlay(repo, overlay); lerr == nil {
				next.RawID = kit.RawFuncID
				prog = next
				notes = append(notes, ns...)
			} else {
				notes = append(notes, fmt.Sprintf("reading one-use condition variables as conditions abandoned (%v)", lerr))
				for k := range cl {
					if old, ok := saved[k]; ok {
						overlay[k] = old
					} else {
						delete(overlay, k)
					}
				}
			}
		}
		if ur, ns := load.UnrollConstRanges(prog.Pkgs, read); len(ur) > 0 {
			for k, v := range ur {
				overlay[k] = v
			}
			if next, lerr := load.LoadOverlay(repo, overlay); lerr == nil {
				next.RawID = kit.RawFuncID
				prog = next
				notes = append(notes, ns...)
			} else {
				notes = append(notes, fmt.Sprintf("unrolling of constant-table loops abandoned (%v)", lerr))
				for k := range ur {
					delete(overlay, k)
				}
				// restore the switch-normalised text of those files, if any
				if sw, _ := load.NormaliseSwitches(prog.Pkgs, func(name string) ([]byte, error) { return os.ReadFile(name) }); len(sw) > 0 {
					for k := range ur {
						if v, ok := sw[k]; ok {
							overlay[k] = v
						}
					}
				}
			}
		}
		if ur, ns := load.UnrollStepTables(prog.Pkgs, read); len(ur) > 0 {
			saved := map[string][]byte{}
			for k, v := range ur {
				if old, ok := overlay[k]; ok {
					saved[k] = old
				}
				overlay[k] = v
			}
			if next, lerr := load.LoadOverlay(repo, overlay); lerr == nil {
				next.RawID = kit.RawFuncID
				prog = next
				notes = append(notes, ns...)
			} else {
				notes = append(notes, fmt.Sprintf("unrolling of step tables abandoned (%v)", lerr))
				for k := range ur {
					if old, ok := saved[k]; ok {
						overlay[k] = old
					} else {
						delete(overlay, k)
					}
				}
			}
		}
		reinlineRounds := func() {
			for round := 0; round < 4; round++ {
				kit.Canonical = map[string]string{}
				rn := prog.DetectRenames(table, kit.RawFuncID, kit.CallID)
				isNew := func(fn *types.Func) bool {
					if fn.Pkg() == nil || !strings.HasPrefix(fn.Pkg().Path(), load.RootPkg) {
						return false
					}
					id := kit.RawMethodID(fn)
					if inTable[id] {
						return false
					}
					if _, renamed := rn.FuncToCanonical[id]; renamed {
						return false
					}
					return true
				}
				more, ns := load.Reinline(prog.Pkgs, isNew, read)
				if len(more) == 0 {
					notes = append(notes, ns...)
					break
				}
				for k, v := range more {
					overlay[k] = v
				}
				next, lerr := load.LoadOverlay(repo, overlay)
				if lerr != nil {
					notes = append(notes, fmt.Sprintf("expansion of new helpers abandoned in round %d (the expanded source does not type-check: %v); the tree is analysed as written", round+1, lerr))
					if os.Getenv("VCHECK_DEBUG_REINLINE") != "" {
						for k, v := range overlay {
							os.WriteFile("/tmp/reinline_"+filepath.Base(k), v, 0o644)
						}
					}
					if round > 0 {
						// keep the last good expansion
						break
					}
					break
				}
				if d := os.Getenv("VCHECK_DUMP_OVERLAY"); d != "" {
					for k, v := range overlay {
						os.WriteFile(filepath.Join(d, filepath.Base(k)), v, 0o644)
					}
				}
				notes = append(notes, ns...)
				next.RawID = kit.RawFuncID
				prog = next
			}
		}
		reinlineRounds()
		// calls through a local function variable that is bound once (a method value handed to an
		// expanded helper) are read as calls of the function it is bound to
		for flRound := 0; flRound < 2; flRound++ {
			fl, ns := load.ResolveFuncLocals(prog.Pkgs, read)
			if len(fl) == 0 {
				break
			}
			saved := map[string][]byte{}
			for k, v := range fl {
				if old, ok := overlay[k]; ok {
					saved[k] = old
				}
				overlay[k] = v
			}
			next, lerr := load.LoadOverlay(repo, overlay)
			if lerr != nil {
				notes = append(notes, fmt.Sprintf("resolution of function-valued locals abandoned (%v)", lerr))
				for k := range fl {
					if old, ok := saved[k]; ok {
						overlay[k] = old
					} else {
						delete(overlay, k)
					}
				}
				break
			}
			next.RawID = kit.RawFuncID
			prog = next
			notes = append(notes, ns...)
			reinlineRounds()
		}
		// scalar replacement of local aggregates of struct types the reference tree does not have
		{
			refStruct := map[string]bool{}
			for _, sa := range table.Structs {
				refStruct[sa.Pkg+"."+sa.Name] = true
			}
			isNewStruct := func(pkgPath, name string) bool {
				return strings.HasPrefix(pkgPath, load.RootPkg) && !refStruct[pkgPath+"."+name]
			}
			for svRound := 0; svRound < 3; svRound++ {
				sv, ns := load.ExplodeStructValues(prog.Pkgs, isNewStruct, read)
				if len(sv) == 0 {
					break
				}
				saved := map[string][]byte{}
				for k, v := range sv {
					if old, ok := overlay[k]; ok {
						saved[k] = old
					}
					overlay[k] = v
				}
				if next, lerr := load.LoadOverlay(repo, overlay); lerr == nil {
					next.RawID = kit.RawFuncID
					prog = next
					notes = append(notes, ns...)
					if d := os.Getenv("VCHECK_DUMP_OVERLAY"); d != "" {
						for k, v := range overlay {
							os.WriteFile(filepath.Join(d, filepath.Base(k)), v, 0o644)
						}
					}
				} else {
					notes = append(notes, fmt.Sprintf("field-by-field reading of struct values abandoned (%v)", lerr))
					for k := range sv {
						if old, ok := saved[k]; ok {
							overlay[k] = old
						} else {
							delete(overlay, k)
						}
					}
					break
				}
			}
			if sr, ns := load.ScalarReplace(prog.Pkgs, isNewStruct, read); len(sr) > 0 {
				saved := map[string][]byte{}
				for k, v := range sr {
					if old, ok := overlay[k]; ok {
						saved[k] = old
					}
					overlay[k] = v
				}
				if next, lerr := load.LoadOverlay(repo, overlay); lerr == nil {
					next.RawID = kit.RawFuncID
					prog = next
					notes = append(notes, ns...)
					if d := os.Getenv("VCHECK_DUMP_OVERLAY"); d != "" {
						for k, v := range overlay {
							os.WriteFile(filepath.Join(d, filepath.Base(k)), v, 0o644)
						}
					}
				} else {
					notes = append(notes, fmt.Sprintf("scalar replacement abandoned (%v)", lerr))
					for k := range sr {
						if old, ok := saved[k]; ok {
							overlay[k] = old
						} else {
							delete(overlay, k)
						}
					}
				}
			}
		}
		// helpers that are dead after expansion are not analysed on their own
		kit.Canonical = map[string]string{}
		prog.Skip = deadNewHelpers(prog, inTable, prog.DetectRenames(table, kit.RawFuncID, kit.CallID).FuncToCanonical)
		for id := range prog.Skip {
			notes = append(notes, "new helper "+kit.ShortID(id)+" has no remaining caller after expansion: not analysed separately")
		}
	}
	kit.Canonical = map[string]string{}
	rn := prog.DetectRenames(table, kit.RawFuncID, kit.CallID)
	prog.Renames = rn
	for cur, canon := range rn.FuncToCanonical {
		kit.Canonical[cur] = canon
	}
	byID := map[string]*ssa.Function{}
	for _, f := range prog.OwnFunctions() {
		byID[kit.FuncID(f)] = f
	}
	prog.FuncByID = func(id string) *ssa.Function { return byID[id] }
	for _, n := range rn.Notes {
		notes = append(notes, "rename followed: "+n)
	}
	prog.Notes = notes
	if b, rerr := os.ReadFile(filepath.Join(filepath.Dir(anchorsPath), "errdisp.json")); rerr == nil {
		var ed map[string]map[string][]string
		if json.Unmarshal(b, &ed) == nil {
			prog.RefErrDisp = ed
		}
	}
	if b, rerr := os.ReadFile(filepath.Join(filepath.Dir(anchorsPath), "lockcover.json")); rerr == nil {
		var lc struct {
			Cover map[string]map[string][]string `json:"cover"`
		}
		if json.Unmarshal(b, &lc) == nil {
			prog.RefLockCover = lc.Cover
		}
	}
	if b, rerr := os.ReadFile(filepath.Join(filepath.Dir(anchorsPath), "retfields.json")); rerr == nil {
		var rf map[string][]string
		if json.Unmarshal(b, &rf) == nil {
			prog.RefRetFields = rf
		}
	}
	prog.RefFields = map[string]map[string]bool{}
	for _, sa := range table.Structs {
		m := map[string]bool{}
		for _, f := range sa.Fields {
			m[f[0]] = true
		}
		prog.RefFields[sa.Pkg+"."+sa.Name] = m
	}
	return prog, nil
}

// deadNewHelpers: unexported functions/methods of the module that are not in the reference tree and
// are referenced nowhere (outside other such functions).
func deadNewHelpers(prog *load.Program, inTable map[string]bool, renamed map[string]string) map[string]bool {
	cand := map[*types.Func]bool{}
	ifaceMethods := map[string]bool{}
	for _, p := range prog.Pkgs {
		sc := p.Types.Scope()
		for _, n := range sc.Names() {
			if tn, ok := sc.Lookup(n).(*types.TypeName); ok {
				if it, ok := tn.Type().Underlying().(*types.Interface); ok {
					for i := 0; i < it.NumMethods(); i++ {
						ifaceMethods[it.Method(i).Name()] = true
					}
				}
			}
		}
		for _, f := range p.Syntax {
			for _, d := range f.Decls {
				fd, ok := d.(*ast.FuncDecl)
				if !ok || fd.Body == nil {
					continue
				}
				obj, ok := p.TypesInfo.Defs[fd.Name].(*types.Func)
				if !ok || obj.Exported() || inTable[kit.RawMethodID(obj)] {
					continue
				}
				if obj.Name() == "init" || obj.Name() == "main" || ifaceMethods[obj.Name()] {
					continue
				}
				if _, isRenamed := renamed[kit.RawMethodID(obj)]; isRenamed {
					continue
				}
				cand[obj] = true
			}
		}
	}
	if len(cand) == 0 {
		return nil
	}
	// renamed functions are not candidates: recompute with the rename table
	dead := map[*types.Func]bool{}
	for c := range cand {
		dead[c] = true
	}
	for changed := true; changed; {
		changed = false
		for _, p := range prog.Pkgs {
			for _, f := range p.Syntax {
				for _, d := range f.Decls {
					fd, ok := d.(*ast.FuncDecl)
					if !ok || fd.Body == nil {
						continue
					}
					encl, _ := p.TypesInfo.Defs[fd.Name].(*types.Func)
					if encl != nil && dead[encl] {
						continue
					}
					ast.Inspect(fd.Body, func(n ast.Node) bool {
						if id, ok := n.(*ast.Ident); ok {
							if fn, ok := p.TypesInfo.Uses[id].(*types.Func); ok && dead[fn] {
								delete(dead, fn)
								changed = true
							}
						}
						return true
					})
				}
				// package-level variable initialisers
				for _, d := range f.Decls {
					if gd, ok := d.(*ast.GenDecl); ok {
						ast.Inspect(gd, func(n ast.Node) bool {
							if id, ok := n.(*ast.Ident); ok {
								if fn, ok := p.TypesInfo.Uses[id].(*types.Func); ok && dead[fn] {
									delete(dead, fn)
									changed = true
								}
							}
							return true
						})
					}
				}
			}
		}
	}
	out := map[string]bool{}
	for f := range dead {
		out[kit.RawMethodID(f)] = true
	}
	return out
}
