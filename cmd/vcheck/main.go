// vcheck decides the properties of /verif/properties.jsonl for tokenized/bitcoin_reader by static
// analysis of the repository's current source.
package main

import (
	"encoding/json"
	"flag"
	"fmt"
	"golang.org/x/tools/go/ssa"
	"os"
	"path/filepath"
	"runtime/debug"
	"strconv"

	"verif/internal/kit"
	"verif/internal/load"
	"verif/internal/props"
)

func main() {
	property := flag.String("property", "", "property id (C01..C20) or 'all'")
	tier := flag.String("tier", "quick", "quick|thorough")
	repo := flag.String("repo", "/repo", "repository to analyse")
	verif := flag.String("verif", "", "verif directory (default: directory above the binary)")
	genAnchors := flag.Bool("gen-anchors", false, "write anchors.json (the reference table used to follow pure renames) from the current tree")
	exploreLocks := flag.Bool("explore-locks", false, "discovery aid: print the lock discipline observed per struct field")
	flag.Parse()
	if t := os.Getenv("VERIF_TIER"); t == "quick" || t == "thorough" {
		*tier = t
	}
	var seed int64
	if s := os.Getenv("VERIF_SEED"); s != "" {
		seed, _ = strconv.ParseInt(s, 10, 64)
	}
	if *verif == "" {
		exe, _ := os.Executable()
		*verif = filepath.Dir(filepath.Dir(exe))
		if _, err := os.Stat(filepath.Join(*verif, "properties.jsonl")); err != nil {
			*verif = "/verif"
		}
	}
	ids := []string{*property}
	if *property == "all" {
		ids = props.IDs()
	}
	for _, id := range ids {
		if props.Get(id) == nil {
			fmt.Printf("unknown property %q\n", id)
			os.Exit(2)
		}
	}
	if *genAnchors {
		prog, err := load.Load(*repo)
		if err != nil {
			fmt.Println(err)
			os.Exit(2)
		}
		t := prog.BuildAnchors(kit.RawFuncID, kit.CallID)
		b, _ := json.MarshalIndent(t, "", " ")
		if werr := os.WriteFile(filepath.Join(*verif, "anchors.json"), b, 0o644); werr != nil {
			fmt.Println(werr)
			os.Exit(2)
		}
		fmt.Printf("anchors.json: %d functions, %d structs\n", len(t.Funcs), len(t.Structs))
		// reference table of error dispositions (ERR-DISPOSITION)
		prog.RawID = kit.RawFuncID
		byID := map[string]*ssa.Function{}
		for _, f := range prog.OwnFunctions() {
			byID[kit.FuncID(f)] = f
		}
		prog.FuncByID = func(id string) *ssa.Function { return byID[id] }
		ed := props.ErrDisposition(prog)
		eb, _ := json.MarshalIndent(ed, "", " ")
		if werr := os.WriteFile(filepath.Join(*verif, "errdisp.json"), eb, 0o644); werr != nil {
			fmt.Println(werr)
			os.Exit(2)
		}
		np := 0
		for _, m := range ed {
			np += len(m)
		}
		fmt.Printf("errdisp.json: %d functions, %d (function, callee) pairs\n", len(ed), np)
		rf := props.RetFields(prog)
		rb, _ := json.MarshalIndent(rf, "", " ")
		if werr := os.WriteFile(filepath.Join(*verif, "retfields.json"), rb, 0o644); werr != nil {
			fmt.Println(werr)
			os.Exit(2)
		}
		fmt.Printf("retfields.json: %d accessors\n", len(rf))
		lc := props.LockCover(prog)
		lb, _ := json.MarshalIndent(lc, "", " ")
		if werr := os.WriteFile(filepath.Join(*verif, "lockcover.json"), lb, 0o644); werr != nil {
			fmt.Println(werr)
			os.Exit(2)
		}
		nl := 0
		for _, m := range lc.Cover {
			nl += len(m)
		}
		fmt.Printf("lockcover.json: %d mutable fields, %d functions, %d (function, field) pairs\n", len(lc.Mutable), len(lc.Cover), nl)
		return
	}
	prog, err := prepare(*repo, *verif)
	if d := os.Getenv("VCHECK_DUMP_FUNC"); d != "" && err == nil {
		for _, f := range prog.OwnFunctions() {
			if kit.ShortID(kit.FuncID(f)) == d {
				f.WriteTo(os.Stdout)
			}
		}
	}
	if err == nil && *exploreLocks {
		props.ExploreLocks(prog)
		return
	}
	if err == nil {
		for _, n := range prog.Notes {
			fmt.Println("note:", n)
		}
	}
	code := 0
	for _, id := range ids {
		rep := kit.NewReport(id, *tier, seed)
		if err != nil {
			rep.Rule("analysis-failed", "the whole program must load and type-check", 0)
			rep.Unknown("analysis-failed", "load", "-", "%v", err)
		} else {
			func() {
				defer func() {
					if r := recover(); r != nil {
						rep.Rule("analysis-failed", "an analyser panic fails the check", 0)
						rep.Unknown("analysis-failed", "panic", "-", "%v\n%s", r, debug.Stack())
					}
				}()
				props.Get(id)(prog, rep)
			}()
			if *tier == "thorough" && os.Getenv("VCHECK_NO_WITNESSES") == "" {
				runWitnesses(*repo, *verif, id, rep)
			}
		}
		if c := rep.Finish(*verif); c != 0 {
			code = 1
		}
	}
	os.Exit(code)
}
