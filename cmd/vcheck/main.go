// vcheck decides the properties of /verif/properties.jsonl for tokenized/bitcoin_reader by static
// analysis of the repository's current source.
package main

import (
	"flag"
	"fmt"
	"os"
	"path/filepath"
	"runtime/debug"
	"strconv"

	"verif/internal/kit"
	"verif/internal/load"
	"verif/internal/props"
)

func main() {
	property := flag.String("property", "", "property id (C01..C20) or 'all'")
	tier := flag.String("tier", "quick", "quick|thorough")
	repo := flag.String("repo", "/repo", "repository to analyse")
	verif := flag.String("verif", "", "verif directory (default: directory above the binary)")
	flag.Parse()
	if t := os.Getenv("VERIF_TIER"); t == "quick" || t == "thorough" {
		*tier = t
	}
	var seed int64
	if s := os.Getenv("VERIF_SEED"); s != "" {
		seed, _ = strconv.ParseInt(s, 10, 64)
	}
	if *verif == "" {
		exe, _ := os.Executable()
		*verif = filepath.Dir(filepath.Dir(exe))
		if _, err := os.Stat(filepath.Join(*verif, "properties.jsonl")); err != nil {
			*verif = "/verif"
		}
	}
	ids := []string{*property}
	if *property == "all" {
		ids = props.IDs()
	}
	for _, id := range ids {
		if props.Get(id) == nil {
			fmt.Printf("unknown property %q\n", id)
			os.Exit(2)
		}
	}
	prog, err := load.Load(*repo)
	code := 0
	for _, id := range ids {
		rep := kit.NewReport(id, *tier, seed)
		if err != nil {
			rep.Rule("analysis-failed", "the whole program must load and type-check", 0)
			rep.Unknown("analysis-failed", "load", "-", "%v", err)
		} else {
			func() {
				defer func() {
					if r := recover(); r != nil {
						rep.Rule("analysis-failed", "an analyser panic fails the check", 0)
						rep.Unknown("analysis-failed", "panic", "-", "%v\n%s", r, debug.Stack())
					}
				}()
				props.Get(id)(prog, rep)
			}()
			if *tier == "thorough" && os.Getenv("VCHECK_NO_WITNESSES") == "" {
				runWitnesses(*repo, *verif, id, rep)
			}
		}
		if c := rep.Finish(*verif); c != 0 {
			code = 1
		}
	}
	os.Exit(code)
}
