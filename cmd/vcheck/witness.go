package main

import (
	"encoding/json"
	"fmt"
	"io"
	"os"
	"os/exec"
	"path/filepath"
	"sort"
	"strings"
	"sync"

	"verif/internal/kit"
)

// Thorough tier: besides the verdict on /repo, replay the property's rules on variants of the
// current tree — the seeded breaking changes of /verif/seeded (the rule is expected to fire) and
// the behaviour-preserving refactorings of /verif/preserving (expected to stay silent). Each
// variant is a scratch copy of /repo's working tree under /tmp with one patch applied; it is
// analysed statically like /repo itself and removed. Variants never influence the verdict on /repo;
// they are recorded in the evidence so that a reader can see that the rules are neither vacuous nor
// brittle on today's tree. A patch that no longer applies is recorded as not applicable.

type witness struct {
	ID       string   `json:"id"`
	Kind     string   `json:"kind"` // breaking | preserving
	Expect   string   `json:"expect"`
	Outcome  string   `json:"outcome"` // fired | silent | not-applicable | load-error
	AsWanted bool     `json:"as_expected"`
	Reports  []string `json:"reports,omitempty"`
}

func copyTree(src, dst string) error {
	return filepath.Walk(src, func(path string, info os.FileInfo, err error) error {
		if err != nil {
			return err
		}
		rel, _ := filepath.Rel(src, path)
		if info.IsDir() {
			if info.Name() == ".git" || info.Name() == "_out" {
				return filepath.SkipDir
			}
			return os.MkdirAll(filepath.Join(dst, rel), 0o755)
		}
		if !info.Mode().IsRegular() {
			return nil
		}
		in, err := os.Open(path)
		if err != nil {
			return err
		}
		defer in.Close()
		out, err := os.Create(filepath.Join(dst, rel))
		if err != nil {
			return err
		}
		defer out.Close()
		_, err = io.Copy(out, in)
		return err
	})
}

func runWitnesses(repo, verif, prop string, rep *kit.Report) {
	type cand struct{ id, kind, patch string }
	var cands []cand
	// breaking: own property's seeded changes and those the matrix says this check reports
	matrix := map[string]map[string][]string{}
	if b, err := os.ReadFile(filepath.Join(verif, "seeded", "MATRIX.json")); err == nil {
		var rows []struct {
			ID         string              `json:"id"`
			Violations map[string][]string `json:"violations"`
		}
		if json.Unmarshal(b, &rows) == nil {
			for _, r := range rows {
				matrix[r.ID] = r.Violations
			}
		}
	}
	dirs, _ := filepath.Glob(filepath.Join(verif, "seeded", "*", "patch.diff"))
	for _, pf := range dirs {
		id := filepath.Base(filepath.Dir(pf))
		own := strings.HasPrefix(id, prop+"-")
		_, cross := matrix[id][prop]
		if own || cross {
			cands = append(cands, cand{id, "breaking", pf})
		}
	}
	pres, _ := filepath.Glob(filepath.Join(verif, "preserving", "*", "patch.diff"))
	for _, pf := range pres {
		cands = append(cands, cand{filepath.Base(filepath.Dir(pf)), "preserving", pf})
	}
	sort.Slice(cands, func(i, j int) bool { return cands[i].id < cands[j].id })
	results := make([]witness, len(cands))
	sem := make(chan struct{}, 8)
	var wg sync.WaitGroup
	for i, c := range cands {
		wg.Add(1)
		go func(i int, c cand) {
			defer wg.Done()
			sem <- struct{}{}
			defer func() { <-sem }()
			w := witness{ID: c.id, Kind: c.kind, Expect: map[string]string{"breaking": "fired", "preserving": "silent"}[c.kind]}
			defer func() {
				if r := recover(); r != nil {
					w.Outcome = "load-error"
					w.Reports = []string{fmt.Sprint(r)}
				}
				w.AsWanted = w.Outcome == w.Expect
				results[i] = w
			}()
			tmp, err := os.MkdirTemp("/tmp", "vwit")
			if err != nil {
				w.Outcome = "not-applicable"
				return
			}
			defer os.RemoveAll(tmp)
			if err := copyTree(repo, tmp); err != nil {
				w.Outcome = "not-applicable"
				return
			}
			cmd := exec.Command("patch", "-p1", "-s", "-f", "-d", tmp, "-i", c.patch)
			if out, err := cmd.CombinedOutput(); err != nil {
				w.Outcome = "not-applicable"
				w.Reports = []string{"patch does not apply to the current tree: " + strings.TrimSpace(string(out))}
				return
			}
			// analyse the variant in a fresh process (the normalisation state is per process)
			sc, err := os.MkdirTemp("/tmp", "vwsc")
			if err != nil {
				w.Outcome = "not-applicable"
				return
			}
			defer os.RemoveAll(sc)
			exe, _ := os.Executable()
			sub := exec.Command(exe, "-repo", tmp, "-verif", sc, "-property", prop, "-tier", "quick")
			sub.Env = append(os.Environ(), "VCHECK_NO_WITNESSES=1", "VERIF_TIER=quick", "VCHECK_ANCHORS="+filepath.Join(verif, "anchors.json"))
			out, _ := sub.CombinedOutput()
			sawSummary := false
			for _, line := range strings.Split(string(out), "\n") {
				if strings.HasPrefix(line, "REPORT ") {
					l := strings.ReplaceAll(line, tmp+"/", "")
					if i := strings.Index(l, " at "); i > 0 {
						l = l[:i]
					}
					w.Reports = append(w.Reports, strings.TrimPrefix(l, "REPORT "))
				}
				if strings.HasPrefix(line, "property "+prop+" tier") {
					sawSummary = true
				}
			}
			if !sawSummary {
				w.Outcome = "load-error"
				w.Reports = []string{strings.TrimSpace(string(out))}
				return
			}
			if len(w.Reports) > 0 {
				w.Outcome = "fired"
			} else {
				w.Outcome = "silent"
			}
		}(i, c)
	}
	wg.Wait()
	ok, na := 0, 0
	for _, w := range results {
		if w.Outcome == "not-applicable" {
			na++
		} else if w.AsWanted {
			ok++
		}
	}
	rep.Extra["witnesses"] = results
	rep.Extra["witness_summary"] = fmt.Sprintf("%d variants of the current tree analysed (%d breaking expected to fire, %d preserving expected silent): %d as expected, %d not applicable, %d unexpected",
		len(results), countKind(results, "breaking"), countKind(results, "preserving"), ok, na, len(results)-ok-na)
	fmt.Printf("witnesses: %s\n", rep.Extra["witness_summary"])
	for _, w := range results {
		if !w.AsWanted && w.Outcome != "not-applicable" {
			fmt.Printf("WITNESS-UNEXPECTED %s (%s): expected %s, got %s %v\n", w.ID, w.Kind, w.Expect, w.Outcome, w.Reports)
		}
	}
}

func countKind(ws []witness, k string) int {
	n := 0
	for _, w := range ws {
		if w.Kind == k {
			n++
		}
	}
	return n
}
