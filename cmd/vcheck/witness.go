package main

import (
	"crypto/sha256"
	"encoding/json"
	"fmt"
	"io"
	"os"
	"os/exec"
	"path/filepath"
	"runtime"
	"sort"
	"strings"
	"sync"
	"time"

	"verif/internal/kit"
)

// Thorough tier: besides the verdict on /repo, replay the property's rules on variants of the
// current tree — the seeded breaking changes of /verif/seeded (the rule is expected to fire) and
// the behaviour-preserving refactorings of /verif/preserving (expected to stay silent). Each
// variant is a scratch copy of /repo's working tree under /tmp with one patch applied; it is
// analysed statically like /repo itself and removed. Variants never influence the verdict on /repo;
// they are recorded in the evidence so that a reader can see that the rules are neither vacuous nor
// brittle on today's tree. A patch that no longer applies is recorded as not applicable.

type witness struct {
	ID       string   `json:"id"`
	Kind     string   `json:"kind"` // breaking | preserving
	Expect   string   `json:"expect"`
	Outcome  string   `json:"outcome"` // fired | silent | not-applicable | load-error
	AsWanted bool     `json:"as_expected"`
	Reports  []string `json:"reports,omitempty"`
}

func copyTree(src, dst string) error {
	return filepath.Walk(src, func(path string, info os.FileInfo, err error) error {
		if err != nil {
			return err
		}
		rel, _ := filepath.Rel(src, path)
		if info.IsDir() {
			if info.Name() == ".git" || info.Name() == "_out" {
				return filepath.SkipDir
			}
			return os.MkdirAll(filepath.Join(dst, rel), 0o755)
		}
		if !info.Mode().IsRegular() {
			return nil
		}
		in, err := os.Open(path)
		if err != nil {
			return err
		}
		defer in.Close()
		out, err := os.Create(filepath.Join(dst, rel))
		if err != nil {
			return err
		}
		defer out.Close()
		_, err = io.Copy(out, in)
		return err
	})
}

func runWitnesses(repo, verif, prop string, rep *kit.Report) {
	type cand struct{ id, kind, patch string }
	var cands []cand
	// breaking: own property's seeded changes and those the matrix says this check reports
	matrix := map[string]map[string][]string{}
	if b, err := os.ReadFile(filepath.Join(verif, "seeded", "MATRIX.json")); err == nil {
		var rows []struct {
			ID         string              `json:"id"`
			Violations map[string][]string `json:"violations"`
		}
		if json.Unmarshal(b, &rows) == nil {
			for _, r := range rows {
				matrix[r.ID] = r.Violations
			}
		}
	}
	dirs, _ := filepath.Glob(filepath.Join(verif, "seeded", "*", "patch.diff"))
	for _, pf := range dirs {
		id := filepath.Base(filepath.Dir(pf))
		own := strings.HasPrefix(id, prop+"-")
		_, cross := matrix[id][prop]
		if own || cross {
			cands = append(cands, cand{id, "breaking", pf})
		}
	}
	pres, _ := filepath.Glob(filepath.Join(verif, "preserving", "*", "patch.diff"))
	for _, pf := range pres {
		cands = append(cands, cand{filepath.Base(filepath.Dir(pf)), "preserving", pf})
	}
	// documented limits: behaviour-preserving moves of anchored functions to another signature;
	// the checks lose the anchor and say so (recorded, not expected to be silent)
	lims, _ := filepath.Glob(filepath.Join(verif, "preserving_limits", "*", "patch.diff"))
	for _, pf := range lims {
		cands = append(cands, cand{filepath.Base(filepath.Dir(pf)), "limit", pf})
	}
	// this property's own variants first, then the others: a wall-clock budget (default 8 min,
	// VCHECK_WITNESS_BUDGET=<minutes>, 0 = none) bounds one run; variants not yet analysed when it
	// runs out are recorded as skipped (results already in the cache are always used). The budget
	// never touches the verdict on /repo, which is computed before any variant is looked at.
	sort.Slice(cands, func(i, j int) bool {
		oi, oj := strings.HasPrefix(cands[i].id, prop+"-"), strings.HasPrefix(cands[j].id, prop+"-")
		if oi != oj {
			return oi
		}
		return cands[i].id < cands[j].id
	})
	budget := 8 * time.Minute
	if v := os.Getenv("VCHECK_WITNESS_BUDGET"); v != "" {
		var m int
		if _, err := fmt.Sscanf(v, "%d", &m); err == nil {
			budget = time.Duration(m) * time.Minute
		}
	}
	started := time.Now()
	repoHash := treeHash(repo)
	results := make([]witness, len(cands))
	workers := runtime.NumCPU() - 2
	if workers < 4 {
		workers = 4
	}
	if workers > 14 {
		workers = 14
	}
	sem := make(chan struct{}, workers)
	var wg sync.WaitGroup
	for i, c := range cands {
		wg.Add(1)
		go func(i int, c cand) {
			defer wg.Done()
			sem <- struct{}{}
			defer func() { <-sem }()
			w := witness{ID: c.id, Kind: c.kind, Expect: map[string]string{"breaking": "fired", "preserving": "silent", "limit": "any"}[c.kind]}
			defer func() {
				if r := recover(); r != nil {
					w.Outcome = "load-error"
					w.Reports = []string{fmt.Sprint(r)}
				}
				w.AsWanted = w.Outcome == w.Expect || (w.Expect == "any" && (w.Outcome == "fired" || w.Outcome == "silent"))
				results[i] = w
			}()
			if budget > 0 && time.Since(started) > budget && !variantCached(repoHash, c.patch, verif) {
				w.Outcome = "skipped"
				return
			}
			tmp, err := os.MkdirTemp("/tmp", "vwit")
			if err != nil {
				w.Outcome = "not-applicable"
				return
			}
			defer os.RemoveAll(tmp)
			if err := copyTree(repo, tmp); err != nil {
				w.Outcome = "not-applicable"
				return
			}
			cmd := exec.Command("patch", "-p1", "-s", "-f", "-d", tmp, "-i", c.patch)
			if out, err := cmd.CombinedOutput(); err != nil {
				w.Outcome = "not-applicable"
				w.Reports = []string{"patch does not apply to the current tree: " + strings.TrimSpace(string(out))}
				return
			}
			// analyse the variant in a fresh process (the normalisation state is per process); all
			// properties at once, shared between the thorough runs of the 20 properties through a
			// cache keyed by the binary, the tree and the patch (an optimisation only)
			res, lerr := variantResults(repoHash, tmp, c.patch, verif)
			if lerr != "" {
				w.Outcome = "load-error"
				w.Reports = []string{lerr}
				return
			}
			w.Reports = res[prop]
			if len(w.Reports) > 0 {
				w.Outcome = "fired"
			} else {
				w.Outcome = "silent"
			}
		}(i, c)
	}
	wg.Wait()
	ok, na, skipped := 0, 0, 0
	for _, w := range results {
		if w.Outcome == "not-applicable" {
			na++
		} else if w.Outcome == "skipped" {
			skipped++
		} else if w.AsWanted {
			ok++
		}
	}
	rep.Extra["witnesses"] = results
	rep.Extra["witness_summary"] = fmt.Sprintf("%d variants of the current tree (%d breaking expected to fire, %d preserving expected silent, %d documented limits): %d as expected, %d not applicable, %d unexpected, %d not analysed within the time budget of this run (this property's own variants come first; a later run continues from the cache)",
		len(results), countKind(results, "breaking"), countKind(results, "preserving"), countKind(results, "limit"), ok, na, len(results)-ok-na-skipped, skipped)
	fmt.Printf("witnesses: %s\n", rep.Extra["witness_summary"])
	for _, w := range results {
		if !w.AsWanted && w.Outcome != "not-applicable" && w.Outcome != "skipped" {
			fmt.Printf("WITNESS-UNEXPECTED %s (%s): expected %s, got %s %v\n", w.ID, w.Kind, w.Expect, w.Outcome, w.Reports)
		}
	}
}

func countKind(ws []witness, k string) int {
	n := 0
	for _, w := range ws {
		if w.Kind == k {
			n++
		}
	}
	return n
}

// treeHash hashes the Go sources (and go.mod/go.sum) of a tree.
func treeHash(dir string) string {
	h := sha256.New()
	var files []string
	filepath.Walk(dir, func(path string, info os.FileInfo, err error) error {
		if err != nil {
			return nil
		}
		if info.IsDir() {
			if info.Name() == ".git" || info.Name() == "_out" {
				return filepath.SkipDir
			}
			return nil
		}
		if strings.HasSuffix(path, ".go") || strings.HasSuffix(path, "go.mod") || strings.HasSuffix(path, "go.sum") {
			files = append(files, path)
		}
		return nil
	})
	sort.Strings(files)
	for _, f := range files {
		rel, _ := filepath.Rel(dir, f)
		b, _ := os.ReadFile(f)
		fmt.Fprintf(h, "%s %d\n", rel, len(b))
		h.Write(b)
	}
	return fmt.Sprintf("%x", h.Sum(nil))
}

// variantResults analyses the patched copy in tmp for every property and returns the reports per
// property. Results are cached under /tmp by (binary, unpatched tree, patch).
// variantCacheFile names the cache entry of (this binary, the unpatched tree, the patch).
func variantCacheFile(repoHash, patch, verif string) (string, string) {
	exe, _ := os.Executable()
	h := sha256.New()
	if st, err := os.Stat(exe); err == nil {
		fmt.Fprintf(h, "%s %d %d\n", exe, st.Size(), st.ModTime().UnixNano())
	}
	if b, err := os.ReadFile(filepath.Join(verif, "anchors.json")); err == nil {
		h.Write(b)
	}
	pb, _ := os.ReadFile(patch)
	h.Write([]byte(repoHash))
	h.Write(pb)
	key := fmt.Sprintf("%x", h.Sum(nil))[:32]
	cacheDir := filepath.Join(os.TempDir(), "vcheck_wcache")
	return cacheDir, filepath.Join(cacheDir, key+".json")
}

func variantCached(repoHash, patch, verif string) bool {
	_, f := variantCacheFile(repoHash, patch, verif)
	_, err := os.Stat(f)
	return err == nil
}

func variantResults(repoHash, tmp, patch, verif string) (map[string][]string, string) {
	exe, _ := os.Executable()
	cacheDir, cacheFile := variantCacheFile(repoHash, patch, verif)
	type entry struct {
		Reports map[string][]string `json:"reports"`
		Ran     []string            `json:"ran"`
		Err     string              `json:"err"`
	}
	if b, err := os.ReadFile(cacheFile); err == nil {
		var e entry
		if json.Unmarshal(b, &e) == nil && (len(e.Ran) > 0 || e.Err != "") {
			return e.Reports, e.Err
		}
	}
	sc, err := os.MkdirTemp("/tmp", "vwsc")
	if err != nil {
		return nil, err.Error()
	}
	defer os.RemoveAll(sc)
	sub := exec.Command(exe, "-repo", tmp, "-verif", sc, "-property", "all", "-tier", "quick")
	sub.Env = append(os.Environ(), "VCHECK_NO_WITNESSES=1", "VERIF_TIER=quick", "VCHECK_ANCHORS="+filepath.Join(verif, "anchors.json"))
	out, _ := sub.CombinedOutput()
	e := entry{Reports: map[string][]string{}}
	for _, line := range strings.Split(string(out), "\n") {
		if strings.HasPrefix(line, "VIOLATION property=") {
			rest := strings.TrimPrefix(line, "VIOLATION property=")
			i := strings.Index(rest, " ")
			j := strings.Index(rest, "#")
			if i > 0 && j > i {
				e.Reports[rest[:i]] = append(e.Reports[rest[:i]], strings.Replace(rest[j+1:], "/", " · ", 1))
			}
		}
		if strings.HasPrefix(line, "property ") && strings.Contains(line, " tier ") {
			e.Ran = append(e.Ran, strings.Fields(line)[1])
		}
	}
	if len(e.Ran) == 0 {
		e.Err = strings.TrimSpace(string(out))
		if len(e.Err) > 600 {
			e.Err = e.Err[:600]
		}
	}
	os.MkdirAll(cacheDir, 0o755)
	// drop entries of earlier binaries/trees
	if ents, err := os.ReadDir(cacheDir); err == nil {
		for _, en := range ents {
			if info, err := en.Info(); err == nil && time.Since(info.ModTime()) > 6*time.Hour {
				os.Remove(filepath.Join(cacheDir, en.Name()))
			}
		}
	}
	if b, err := json.Marshal(e); err == nil {
		tmpf := cacheFile + fmt.Sprintf(".%d", os.Getpid())
		if os.WriteFile(tmpf, b, 0o644) == nil {
			os.Rename(tmpf, cacheFile)
		}
	}
	return e.Reports, e.Err
}
