package kit

import (
	"fmt"
	"go/token"
	"go/types"
	"sort"
	"strings"

	"golang.org/x/tools/go/ssa"
)

// Pt is the program point "about to execute B.Instrs[I]".
type Pt struct {
	B *ssa.BasicBlock
	I int
	// Via > 0: the point is "on the (Via-1)-th outgoing edge of B" (I is B's terminator): the
	// traversal starts by taking that edge, so that what the edge implies (the branch condition,
	// the values the successor's phis take) is known from the start.
	Via int
}

// Edge is the Succ-th outgoing edge of From (for an If: 0 = true, 1 = false).
type Edge struct {
	From *ssa.BasicBlock
	Succ int
}

func (e Edge) To() *ssa.BasicBlock { return e.From.Succs[e.Succ] }

// Opts restricts a traversal.
type Opts struct {
	// StopAt: the instruction is reached but the traversal does not continue past it.
	StopAt func(ssa.Instruction) bool
	// BlockEdge: the edge is not followed.
	BlockEdge func(Edge) bool
	// NoFlags disables the exact tracking of constant boolean flags.
	NoFlags bool
	// CondKey gives a canonical key to a branch condition (after negations are stripped) and says
	// whether the key holds when the condition is true. Once an edge has been taken the key's value
	// is remembered along the path and later branches on the same key follow only the consistent
	// edge, until an instruction for which Kill returns the key is passed.
	CondKey func(cond ssa.Value) (key string, holdsWhenTrue bool, ok bool)
	Kill    func(ssa.Instruction) []string
	// Assume seeds the condition memo at the start points (key → value).
	Assume map[string]bool
	// AssumeNonNil: these values (error results of calls) are known to be non-nil at the start
	// points: "what can happen once this call has failed".
	AssumeNonNil []ssa.Value
	// AssumeConds fixes the truth of boolean values (comparisons) that are not branch conditions
	// themselves but are merged into a tracked boolean phi (`return a == X || a == Y` of an expanded
	// helper): the phi takes the given value when it comes in through that edge.
	AssumeConds map[ssa.Value]bool
}

// Reached is the result of a traversal.
type Reached struct {
	fn     *ssa.Function
	Instr  map[ssa.Instruction]bool
	Edges  map[Edge]bool
	parent map[state]state
	first  map[ssa.Instruction]state
}

type state struct {
	pt  Pt
	env string // known values of tracked boolean phis: "name=0;name=1" sorted
}

func (r *Reached) Has(in ssa.Instruction) bool { return r.Instr[in] }

// PathTo renders the blocks of one path that reaches in.
func (r *Reached) PathTo(in ssa.Instruction, pos func(token.Pos) string) string {
	st, ok := r.first[in]
	if !ok {
		return ""
	}
	var blocks []*ssa.BasicBlock
	for {
		if len(blocks) == 0 || blocks[len(blocks)-1] != st.pt.B {
			blocks = append(blocks, st.pt.B)
		}
		p, ok := r.parent[st]
		if !ok {
			break
		}
		st = p
	}
	var parts []string
	for i := len(blocks) - 1; i >= 0; i-- {
		b := blocks[i]
		line := ""
		for _, x := range b.Instrs {
			if x.Pos().IsValid() {
				line = pos(x.Pos())
				if j := strings.LastIndex(line, ":"); j >= 0 {
					line = line[j+1:]
				}
				break
			}
		}
		if line != "" {
			parts = append(parts, fmt.Sprintf("b%d@%s", b.Index, line))
		} else {
			parts = append(parts, fmt.Sprintf("b%d", b.Index))
		}
	}
	if len(parts) > 14 {
		parts = append(parts[:6], append([]string{"..."}, parts[len(parts)-6:]...)...)
	}
	return strings.Join(parts, "→")
}

// trackedPhis returns the phis of fn whose value is tracked exactly along a path: boolean phis (the
// incoming value is a constant or another tracked phi whose value is known; unknown otherwise) and
// nil-able phis (interfaces, pointers: tracked as nil / non-nil, see nilClass).
type phiInfo struct {
	// ints: integer result temporaries of expanded helpers, tracked as I:<name>=<k> (a constant) or
	// I:<name>=+ (some value >= 0: a slice index or length)
	ints map[*ssa.Phi]bool
	phis map[*ssa.Phi]bool
	// relevant: non-phi values whose nil-ness, once tested on the path, decides an incoming edge of
	// a tracked nil-able phi
	relevant map[ssa.Value]bool
	// shared: some condition value decides more than one branch (`isNew := x == nil; if isNew {…};
	// …; if isNew {…}`): its outcome is remembered along the path
	shared bool
}

var phiCache = map[*ssa.Function]*phiInfo{}

func nilable(t types.Type) bool {
	switch t.Underlying().(type) {
	case *types.Interface, *types.Pointer, *types.Slice, *types.Map:
		return true
	}
	return false
}

func trackedPhis(fn *ssa.Function) *phiInfo {
	if pi, ok := phiCache[fn]; ok {
		return pi
	}
	out := &phiInfo{phis: map[*ssa.Phi]bool{}, ints: map[*ssa.Phi]bool{}, relevant: map[ssa.Value]bool{}}
	for _, b := range fn.Blocks {
		for _, in := range b.Instrs {
			p, ok := in.(*ssa.Phi)
			if !ok {
				break
			}
			if bt, ok := p.Type().Underlying().(*types.Basic); ok && bt.Kind() == types.Bool {
				out.phis[p] = true
			} else if ok && bt.Info()&types.IsInteger != 0 && (strings.HasPrefix(p.Comment, "_ir") || hasNegativeConstEdge(p)) {
				// integer result of an expanded helper, or a "found index" variable that starts at a
				// negative sentinel: tracked as "the constant k" or "not negative"
				out.ints[p] = true
			} else if nilable(p.Type()) {
				// only worth tracking when some incoming value is the nil constant, or for the
				// result temporary of an expanded helper (every return of the helper may wrap a
				// value whose nil-ness the path has already learnt)
				for _, e := range p.Edges {
					if IsNilConst(e) {
						out.phis[p] = true
					}
				}
				if strings.HasPrefix(p.Comment, "_ir") {
					out.phis[p] = true
				}
			}
		}
	}
	// a nil-able phi that merges another tracked nil-able phi (the result temporary of a helper
	// expanded inside another expanded helper) is tracked as well
	for changed := true; changed; {
		changed = false
		for _, b := range fn.Blocks {
			for _, in := range b.Instrs {
				p, ok := in.(*ssa.Phi)
				if !ok {
					break
				}
				if out.phis[p] || !nilable(p.Type()) {
					continue
				}
				for _, e := range p.Edges {
					if ip, ok := e.(*ssa.Phi); ok && out.phis[ip] && nilable(ip.Type()) {
						out.phis[p] = true
						changed = true
					}
				}
			}
		}
	}
	for p := range out.phis {
		if !nilable(p.Type()) {
			// boolean phi: incoming values that are plain conditions (or their negation) are
			// resolved from what the path has learnt about them
			for _, e := range p.Edges {
				v := e
				for {
					if u, ok := v.(*ssa.UnOp); ok && u.Op == token.NOT {
						v = u.X
						continue
					}
					break
				}
				if _, isC := v.(*ssa.Const); isC {
					continue
				}
				if _, isPhi := v.(*ssa.Phi); isPhi {
					continue
				}
				out.relevant[v] = true
			}
			continue
		}
		for _, e := range p.Edges {
			v := e
			for depth := 0; depth < 4; depth++ {
				if c, ok := v.(*ssa.Call); ok {
					switch CallID(c) {
					case "github.com/pkg/errors.Wrap", "github.com/pkg/errors.Wrapf", "github.com/pkg/errors.WithStack", "github.com/pkg/errors.WithMessage":
						v = c.Call.Args[0]
						continue
					}
				}
				break
			}
			if _, isPhi := v.(*ssa.Phi); !isPhi && !IsNilConst(v) {
				out.relevant[v] = true
			}
		}
	}
	// a condition value (not a phi, not a constant) that two or more branches test: the second
	// test has the outcome of the first as long as the value is not recomputed
	uses := map[ssa.Value]int{}
	for _, b := range fn.Blocks {
		if len(b.Instrs) == 0 {
			continue
		}
		ifi, ok := b.Instrs[len(b.Instrs)-1].(*ssa.If)
		if !ok {
			continue
		}
		c := ifi.Cond
		for {
			if u, ok := c.(*ssa.UnOp); ok && u.Op == token.NOT {
				c = u.X
				continue
			}
			break
		}
		switch c.(type) {
		case *ssa.Phi, *ssa.Const:
			continue
		}
		uses[c]++
	}
	for c, n := range uses {
		if n >= 2 {
			if _, _, isNil := nilTest(c); isNil {
				// nil tests are remembered through the tested value when that is relevant;
				// remembering the comparison itself as well is harmless
			}
			out.relevant[c] = true
			out.shared = true
		}
	}
	phiCache[fn] = out
	return out
}

// hasNegativeConstEdge: the phi merges a negative constant (a "not found" sentinel) with other
// values; loop counters (phi + 1 edges) are excluded.
func hasNegativeConstEdge(p *ssa.Phi) bool {
	neg := false
	for _, e := range p.Edges {
		if k, ok := ConstInt(e); ok && k < 0 {
			neg = true
		}
		if b, ok := e.(*ssa.BinOp); ok && (b.X == ssa.Value(p) || b.Y == ssa.Value(p)) {
			return false
		}
	}
	return neg
}

// nilClass: 0 nil, 1 non-nil, -1 unknown, for value v under env.
func nilClass(v ssa.Value, env string, pi *phiInfo, depth int) int {
	if IsNilConst(v) {
		return 0
	}
	if depth > 5 {
		return -1
	}
	// what the path has learnt (or was told) about this very value comes first
	if pi.relevant[v] {
		if b, ok := envGet(env, "N:"+v.Name()); ok {
			if b {
				return 1
			}
			return 0
		}
	}
	switch x := v.(type) {
	case *ssa.MakeInterface, *ssa.Alloc, *ssa.IndexAddr, *ssa.FieldAddr, *ssa.MakeSlice, *ssa.MakeMap, *ssa.MakeChan, *ssa.MakeClosure, *ssa.Function:
		return 1
	case *ssa.UnOp:
		if x.Op == token.MUL {
			if _, ok := x.X.(*ssa.Global); ok && types.Identical(x.Type(), errorType) {
				return 1 // package level Err... variables are initialised non-nil
			}
		}
	case *ssa.Phi:
		if pi.phis[x] {
			if b, ok := envGet(env, x.Name()); ok {
				if b {
					return 1
				}
				return 0
			}
		}
		return -1
	case *ssa.Call:
		switch CallID(x) {
		case "github.com/pkg/errors.New", "errors.New", "fmt.Errorf", "github.com/pkg/errors.Errorf":
			return 1
		case "github.com/pkg/errors.Wrap", "github.com/pkg/errors.Wrapf", "github.com/pkg/errors.WithStack", "github.com/pkg/errors.WithMessage":
			return nilClass(x.Call.Args[0], env, pi, depth+1)
		}
	}
	if pi.relevant[v] {
		if b, ok := envGet(env, "N:"+v.Name()); ok {
			if b {
				return 1
			}
			return 0
		}
	}
	return -1
}

// envRaw returns the raw value stored for name.
func envRaw(env, name string) (string, bool) {
	for _, kv := range strings.Split(env, ";") {
		if strings.HasPrefix(kv, name+"=") {
			return kv[len(name)+1:], true
		}
	}
	return "", false
}

// envPut sets or deletes (val == "") one raw entry.
func envPut(env, name, val string) string {
	var parts []string
	if env != "" {
		for _, kv := range strings.Split(env, ";") {
			if !strings.HasPrefix(kv, name+"=") {
				parts = append(parts, kv)
			}
		}
	}
	if val != "" {
		parts = append(parts, name+"="+val)
	}
	sort.Strings(parts)
	return strings.Join(parts, ";")
}

// nonNegative: v is a slice/array index of a range loop or a length.
func nonNegative(v ssa.Value) bool {
	for i := 0; i < 4; i++ {
		switch x := v.(type) {
		case *ssa.Convert:
			v = x.X
			continue
		case *ssa.Call:
			if id := CallID(x); id == "builtin.len" || id == "builtin.cap" {
				return true
			}
		case *ssa.BinOp:
			// rangeindex: t = phi + 1 with phi starting at -1
			if x.Op == token.ADD {
				if k, ok := ConstInt(x.Y); ok && k == 1 {
					if ph, ok := x.X.(*ssa.Phi); ok && ph.Comment == "rangeindex" {
						return true
					}
				}
			}
		case *ssa.Phi:
			// an explicit counter: constant non-negative start, steps of +1
			okAll := len(x.Edges) > 0
			for _, e := range x.Edges {
				if k, isC := ConstInt(e); isC {
					if k < 0 {
						okAll = false
					}
					continue
				}
				b, isB := e.(*ssa.BinOp)
				if !isB || b.Op != token.ADD || b.X != ssa.Value(x) {
					okAll = false
					continue
				}
				if k, isC := ConstInt(b.Y); !isC || k < 0 {
					okAll = false
				}
			}
			return okAll
		}
		return false
	}
	return false
}

// intClass abstracts an integer value under env: ("k", true) for the constant k, ("+", true) for a
// value known to be >= 0.
func intClass(v ssa.Value, env string, pi *phiInfo) (string, bool) {
	if k, ok := ConstInt(v); ok {
		return fmt.Sprint(k), true
	}
	if ph, ok := v.(*ssa.Phi); ok && pi.ints[ph] {
		return envRaw(env, "I:"+ph.Name())
	}
	if nonNegative(v) {
		return "+", true
	}
	return "", false
}

// intCompare decides `a op k` for an abstract value a and a constant k: 1, 0 or -1 (unknown).
func intCompare(a string, op token.Token, k int64) int {
	b2 := func(b bool) int {
		if b {
			return 1
		}
		return 0
	}
	if a == "+" {
		switch op {
		case token.EQL:
			if k < 0 {
				return 0
			}
		case token.NEQ:
			if k < 0 {
				return 1
			}
		case token.LSS:
			if k <= 0 {
				return 0
			}
		case token.GEQ:
			if k <= 0 {
				return 1
			}
		case token.GTR:
			if k < 0 {
				return 1
			}
		case token.LEQ:
			if k < 0 {
				return 0
			}
		}
		return -1
	}
	var av int64
	if _, err := fmt.Sscan(a, &av); err != nil {
		return -1
	}
	switch op {
	case token.EQL:
		return b2(av == k)
	case token.NEQ:
		return b2(av != k)
	case token.LSS:
		return b2(av < k)
	case token.LEQ:
		return b2(av <= k)
	case token.GTR:
		return b2(av > k)
	case token.GEQ:
		return b2(av >= k)
	}
	return -1
}

// nilTest decomposes `v != nil` / `v == nil`: the tested value and whether the condition being
// true means non-nil.
func nilTest(c ssa.Value) (ssa.Value, bool, bool) {
	b, ok := c.(*ssa.BinOp)
	if !ok || (b.Op != token.NEQ && b.Op != token.EQL) {
		return nil, false, false
	}
	switch {
	case IsNilConst(b.Y) && !IsNilConst(b.X):
		return b.X, b.Op == token.NEQ, true
	case IsNilConst(b.X) && !IsNilConst(b.Y):
		return b.Y, b.Op == token.NEQ, true
	}
	return nil, false, false
}

func envGet(env string, name string) (bool, bool) {
	for _, kv := range strings.Split(env, ";") {
		if strings.HasPrefix(kv, name+"=") {
			return kv[len(name)+1:] == "1", true
		}
	}
	return false, false
}

func envSet(env string, upd map[string]int) string {
	m := map[string]string{}
	if env != "" {
		for _, kv := range strings.Split(env, ";") {
			i := strings.LastIndex(kv, "=")
			m[kv[:i]] = kv[i+1:]
		}
	}
	for k, v := range upd {
		switch v {
		case 0:
			m[k] = "0"
		case 1:
			m[k] = "1"
		default:
			delete(m, k)
		}
	}
	var ks []string
	for k := range m {
		ks = append(ks, k)
	}
	sort.Strings(ks)
	var parts []string
	for _, k := range ks {
		parts = append(parts, k+"="+m[k])
	}
	return strings.Join(parts, ";")
}

// condValue evaluates a branch condition under env: 1 true, 0 false, -1 unknown.
func condValue(v ssa.Value, env string, tracked *phiInfo) int {
	if b, ok := ConstBool(v); ok {
		if b {
			return 1
		}
		return 0
	}
	// `nil == nil` (a variable just set to nil, after constant propagation into the test)
	if b, ok := v.(*ssa.BinOp); ok && (b.Op == token.EQL || b.Op == token.NEQ) && IsNilConst(b.X) && IsNilConst(b.Y) {
		if b.Op == token.EQL {
			return 1
		}
		return 0
	}
	if tracked != nil && tracked.relevant[v] {
		if b, ok := envGet(env, "N:"+v.Name()); ok {
			if b {
				return 1
			}
			return 0
		}
	}
	switch x := v.(type) {
	case *ssa.UnOp:
		if x.Op == token.NOT {
			r := condValue(x.X, env, tracked)
			if r < 0 {
				return -1
			}
			return 1 - r
		}
	case *ssa.Phi:
		if tracked != nil && tracked.phis[x] {
			if b, ok := envGet(env, x.Name()); ok {
				if b {
					return 1
				}
				return 0
			}
		}
	case *ssa.BinOp:
		if tracked == nil {
			return -1
		}
		if tv, nonNilWhenTrue, ok := nilTest(x); ok {
			c := nilClass(tv, env, tracked, 0)
			if c < 0 {
				return -1
			}
			if (c == 1) == nonNilWhenTrue {
				return 1
			}
			return 0
		}
		// len of a slice known to be nil, compared with a constant
		if c, ok := x.X.(*ssa.Call); ok && CallID(c) == "builtin.len" && len(c.Call.Args) == 1 {
			if k, isC := ConstInt(x.Y); isC && nilClass(c.Call.Args[0], env, tracked, 0) == 0 {
				return intCompare("0", x.Op, k)
			}
		}
		if len(tracked.ints) > 0 {
			// tracked integer compared with a constant
			var ph *ssa.Phi
			var k int64
			op := x.Op
			if p, ok := x.X.(*ssa.Phi); ok && tracked.ints[p] {
				if c, isC := ConstInt(x.Y); isC {
					ph, k = p, c
				}
			} else if p, ok := x.Y.(*ssa.Phi); ok && tracked.ints[p] {
				if c, isC := ConstInt(x.X); isC {
					ph, k = p, c
					switch op {
					case token.LSS:
						op = token.GTR
					case token.LEQ:
						op = token.GEQ
					case token.GTR:
						op = token.LSS
					case token.GEQ:
						op = token.LEQ
					}
				}
			}
			if ph != nil {
				if a, ok := envRaw(env, "I:"+ph.Name()); ok {
					return intCompare(a, op, k)
				}
			}
		}
	}
	return -1
}

// Reach explores forward from the start points.
func Reach(fn *ssa.Function, starts []Pt, o Opts) *Reached {
	r := &Reached{fn: fn, Instr: map[ssa.Instruction]bool{}, Edges: map[Edge]bool{},
		parent: map[state]state{}, first: map[ssa.Instruction]state{}}
	var tracked *phiInfo
	if !o.NoFlags {
		tracked = trackedPhis(fn)
		if len(tracked.phis) == 0 && len(tracked.ints) == 0 && len(o.AssumeNonNil) == 0 && !tracked.shared {
			tracked = nil
		}
	}
	seen := map[state]bool{}
	var queue []state
	push := func(s state, from *state) {
		if seen[s] {
			return
		}
		seen[s] = true
		if from != nil {
			r.parent[s] = *from
		}
		queue = append(queue, s)
	}
	for _, p := range starts {
		env := ""
		// the facts of the nil tests (and tracked conditions) whose edge dominates the start hold
		// there: every path to the start took that edge after the tested value was last defined
		if tracked != nil {
			for blk := p.B; blk != nil; blk = blk.Idom() {
				idom := blk.Idom()
				if idom == nil || len(idom.Instrs) == 0 {
					break
				}
				ifi, ok := idom.Instrs[len(idom.Instrs)-1].(*ssa.If)
				if !ok || len(idom.Succs) != 2 || idom.Succs[0] == idom.Succs[1] {
					continue
				}
				taken := -1
				for i, sc := range idom.Succs {
					if len(sc.Preds) == 1 && (sc == p.B || sc.Dominates(p.B)) {
						taken = i
					}
				}
				if taken < 0 {
					continue
				}
				c := ifi.Cond
				neg := false
				for {
					if u, ok := c.(*ssa.UnOp); ok && u.Op == token.NOT {
						c, neg = u.X, !neg
						continue
					}
					break
				}
				if tv, pol, ok := nilTest(c); ok && tracked.relevant[tv] {
					if _, known := envGet(env, "N:"+tv.Name()); !known {
						pol = pol != neg
						val := 0
						if (taken == 0) == pol {
							val = 1
						}
						env = envSet(env, map[string]int{"N:" + tv.Name(): val})
					}
				} else if tracked.relevant[c] {
					if _, known := envGet(env, "N:"+c.Name()); !known {
						val := 0
						if (taken == 0) == !neg {
							val = 1
						}
						env = envSet(env, map[string]int{"N:" + c.Name(): val})
					}
				} else if ph, isPhi := c.(*ssa.Phi); isPhi && tracked.phis[ph] && !nilable(ph.Type()) {
					// a tracked flag tested directly (`for !done { … }`): it keeps the tested value
					// until its block is entered again
					if _, known := envGet(env, ph.Name()); !known {
						val := 0
						if (taken == 0) == !neg {
							val = 1
						}
						env = envSet(env, map[string]int{ph.Name(): val})
					}
				}
			}
		}
		for k, v := range o.Assume {
			val := 0
			if v {
				val = 1
			}
			env = envSet(env, map[string]int{"K:" + k: val})
		}
		if tracked != nil {
			for _, v := range o.AssumeNonNil {
				tracked.relevant[v] = true
				env = envSet(env, map[string]int{"N:" + v.Name(): 1})
			}
		}
		push(state{pt: normalize(p), env: env}, nil)
	}
	for len(queue) > 0 {
		s := queue[0]
		queue = queue[1:]
		b := s.pt.B
		if s.pt.I >= len(b.Instrs) {
			continue
		}
		in := b.Instrs[s.pt.I]
		via := s.pt.Via
		if via == 0 {
			if !r.Instr[in] {
				r.Instr[in] = true
				r.first[in] = s
			}
			if o.StopAt != nil && o.StopAt(in) {
				continue
			}
		}
		if tracked != nil && s.env != "" {
			// a value recomputed (next loop iteration) forgets what was known about the previous one
			if v, ok := in.(ssa.Value); ok && tracked.relevant[v] {
				if _, known := envGet(s.env, "N:"+v.Name()); known {
					s = state{pt: s.pt, env: envSet(s.env, map[string]int{"N:" + v.Name(): -1})}
				}
			}
		}
		if o.Kill != nil {
			if ks := o.Kill(in); len(ks) > 0 {
				upd := map[string]int{}
				for _, k := range ks {
					upd["K:"+k] = -1
				}
				s = state{pt: s.pt, env: envSet(s.env, upd)}
			}
		}
		if s.pt.I+1 < len(b.Instrs) {
			push(state{pt: Pt{B: b, I: s.pt.I + 1}, env: s.env}, &s)
			continue
		}
		// last instruction: follow successors
		only := -1
		condKey, condPol := "", false
		var nilFactVal, boolFactVal ssa.Value
		nilFactPol, boolFactPol := false, false
		if ifi, ok := in.(*ssa.If); ok {
			only = condValue(ifi.Cond, s.env, tracked)
			if only < 0 && tracked != nil {
				c := ifi.Cond
				neg := false
				for {
					if u, ok := c.(*ssa.UnOp); ok && u.Op == token.NOT {
						c, neg = u.X, !neg
						continue
					}
					break
				}
				if tv, pol, ok := nilTest(c); ok && tracked.relevant[tv] {
					nilFactVal, nilFactPol = tv, pol != neg
				} else if tracked.relevant[c] {
					// a plain boolean condition that feeds a tracked flag
					boolFactVal, boolFactPol = c, !neg
				}
			}
			if only >= 0 {
				only = 1 - only // value 1 (true) -> successor 0
			}
			if only < 0 && o.CondKey != nil {
				c := ifi.Cond
				neg := false
				for {
					if u, ok := c.(*ssa.UnOp); ok && u.Op == token.NOT {
						c, neg = u.X, !neg
						continue
					}
					break
				}
				if k, pol, ok := o.CondKey(c); ok {
					if neg {
						pol = !pol
					}
					condKey, condPol = "K:"+k, pol
					if v, known := envGet(s.env, condKey); known {
						// key value v; cond true iff v == pol
						if v == pol {
							only = 0
						} else {
							only = 1
						}
					}
				}
			}
		}
		if via > 0 {
			only = via - 1
		}
		for i, succ := range b.Succs {
			if only >= 0 && i != only {
				continue
			}
			e := Edge{b, i}
			if via == 0 && o.BlockEdge != nil && o.BlockEdge(e) {
				continue
			}
			r.Edges[e] = true
			env := s.env
			if condKey != "" {
				val := 0
				if (i == 0) == condPol {
					val = 1
				}
				env = envSet(env, map[string]int{condKey: val})
			}
			if nilFactVal != nil {
				val := 0
				if (i == 0) == nilFactPol {
					val = 1
				}
				env = envSet(env, map[string]int{"N:" + nilFactVal.Name(): val})
			}
			if boolFactVal != nil {
				val := 0
				if (i == 0) == boolFactPol {
					val = 1
				}
				env = envSet(env, map[string]int{"N:" + boolFactVal.Name(): val})
			}
			if tracked != nil {
				// which predecessor index is b in succ?
				upd := map[string]int{}
				for pi, pred := range succ.Preds {
					if pred != b {
						continue
					}
					// handle duplicate edges conservatively: first match
					for _, x := range succ.Instrs {
						p, ok := x.(*ssa.Phi)
						if !ok {
							break
						}
						if !tracked.phis[p] {
							continue
						}
						inc := p.Edges[pi]
						if nilable(p.Type()) {
							// the phis of a block are assigned in parallel: read the old env
							upd[p.Name()] = nilClass(inc, env, tracked, 0)
							continue
						}
						negInc := false
						for {
							if u, ok := inc.(*ssa.UnOp); ok && u.Op == token.NOT {
								inc, negInc = u.X, !negInc
								continue
							}
							break
						}
						flip := func(v int) int {
							if negInc && v >= 0 {
								return 1 - v
							}
							return v
						}
						if cb, ok := ConstBool(inc); ok {
							if cb {
								upd[p.Name()] = flip(1)
							} else {
								upd[p.Name()] = flip(0)
							}
						} else if av, ok := o.AssumeConds[inc]; ok {
							if av {
								upd[p.Name()] = flip(1)
							} else {
								upd[p.Name()] = flip(0)
							}
						} else if tracked.relevant[inc] {
							if v, ok := envGet(env, "N:"+inc.Name()); ok {
								if v {
									upd[p.Name()] = flip(1)
								} else {
									upd[p.Name()] = flip(0)
								}
							} else {
								upd[p.Name()] = -1
							}
						} else if ip, ok := inc.(*ssa.Phi); ok && tracked.phis[ip] && !nilable(ip.Type()) {
							if v, ok := envGet(s.env, ip.Name()); ok {
								if v {
									upd[p.Name()] = flip(1)
								} else {
									upd[p.Name()] = flip(0)
								}
							} else {
								upd[p.Name()] = -1
							}
						} else {
							upd[p.Name()] = -1
						}
					}
					break
				}
				if len(upd) > 0 {
					env = envSet(env, upd)
				}
				if len(tracked.ints) > 0 {
					for pi, pred := range succ.Preds {
						if pred != b {
							continue
						}
						old := env
						for _, x := range succ.Instrs {
							p, ok := x.(*ssa.Phi)
							if !ok {
								break
							}
							if !tracked.ints[p] {
								continue
							}
							if a, ok := intClass(p.Edges[pi], old, tracked); ok {
								env = envPut(env, "I:"+p.Name(), a)
							} else {
								env = envPut(env, "I:"+p.Name(), "")
							}
						}
						break
					}
				}
			}
			push(state{pt: Pt{B: succ, I: 0}, env: env}, &s)
		}
	}
	return r
}

func normalize(p Pt) Pt {
	return p
}

// Entry is the first point of fn.
func Entry(fn *ssa.Function) Pt { return Pt{B: fn.Blocks[0]} }

// After returns the points that follow instruction in.
func After(in ssa.Instruction) []Pt {
	b := in.Block()
	for i, x := range b.Instrs {
		if x == in {
			if i+1 < len(b.Instrs) {
				return []Pt{{B: b, I: i + 1}}
			}
			// after a terminator: on each outgoing edge
			var out []Pt
			for si := range b.Succs {
				out = append(out, Pt{B: b, I: i, Via: si + 1})
			}
			return out
		}
	}
	return nil
}

// At returns the point of instruction in.
func At(in ssa.Instruction) Pt {
	b := in.Block()
	for i, x := range b.Instrs {
		if x == in {
			return Pt{B: b, I: i}
		}
	}
	return Pt{B: b}
}

// EdgeStart returns the point reached by following e.
func EdgeStart(e Edge) Pt { return Pt{B: e.From, I: len(e.From.Instrs) - 1, Via: e.Succ + 1} }

// Returns lists the Return instructions of fn.
func Returns(fn *ssa.Function) []*ssa.Return {
	var out []*ssa.Return
	AllInstrs(fn, func(in ssa.Instruction) {
		if r, ok := in.(*ssa.Return); ok {
			if fn.Recover != nil && r.Block() == fn.Recover {
				return // synthetic return of the recover block
			}
			out = append(out, r)
		}
	})
	return out
}

// RetOperand returns the idx-th result of ret, looking through the result spill that go/ssa
// introduces in functions with defers (`*slot = v; rundefers; t = *slot; return t`).
func RetOperand(ret *ssa.Return, idx int) ssa.Value {
	if idx < 0 || idx >= len(ret.Results) {
		return nil
	}
	v := ret.Results[idx]
	u, ok := v.(*ssa.UnOp)
	if !ok || u.Op != token.MUL {
		return v
	}
	a, ok := u.X.(*ssa.Alloc)
	if !ok || a.Heap {
		return v
	}
	// nearest preceding store to the slot in the same block
	b := ret.Block()
	var last ssa.Value
	for _, in := range b.Instrs {
		if in == ssa.Instruction(u) {
			break
		}
		if st, ok := in.(*ssa.Store); ok && st.Addr == ssa.Value(a) {
			last = st.Val
		}
	}
	if last != nil {
		return last
	}
	return v
}

// EdgeSet builds a BlockEdge predicate from a list of edges.
func EdgeSet(edges ...Edge) func(Edge) bool {
	m := map[Edge]bool{}
	for _, e := range edges {
		m[e] = true
	}
	return func(e Edge) bool { return m[e] }
}

// InstrSet builds a StopAt predicate from instructions.
func InstrSet(ins ...ssa.Instruction) func(ssa.Instruction) bool {
	m := map[ssa.Instruction]bool{}
	for _, i := range ins {
		m[i] = true
	}
	return func(i ssa.Instruction) bool { return m[i] }
}

// Guard is an If whose Pass-th successor is the edge on which the guarded condition holds.
type Guard struct {
	If   *ssa.If
	Pass int
}

func (g Guard) PassEdge() Edge { return Edge{g.If.Block(), g.Pass} }
func (g Guard) FailEdge() Edge { return Edge{g.If.Block(), 1 - g.Pass} }

// FindGuards returns every If of fn whose condition, after removing negations, satisfies match.
// match returns (matched, holdsWhenTrue): holdsWhenTrue says the guarded fact holds when the
// matched expression is true.
func FindGuards(fn *ssa.Function, match func(cond ssa.Value) (bool, bool)) []Guard {
	var out []Guard
	for _, b := range fn.Blocks {
		if len(b.Instrs) == 0 {
			continue
		}
		ifi, ok := b.Instrs[len(b.Instrs)-1].(*ssa.If)
		if !ok {
			continue
		}
		cond := ifi.Cond
		neg := false
		for {
			u, ok := cond.(*ssa.UnOp)
			if ok && u.Op == token.NOT {
				cond = u.X
				neg = !neg
				continue
			}
			break
		}
		m, whenTrue := match(cond)
		if !m {
			continue
		}
		pass := 0
		if !whenTrue {
			pass = 1
		}
		if neg {
			pass = 1 - pass
		}
		out = append(out, Guard{ifi, pass})
	}
	return out
}

// CallCond matches a condition that is the result of a call to one of ids, optionally filtered.
func CallCond(filter func(*ssa.Call) bool, ids ...string) func(ssa.Value) (bool, bool) {
	return func(v ssa.Value) (bool, bool) {
		c, ok := v.(*ssa.Call)
		if !ok {
			return false, false
		}
		id := CallID(c)
		for _, w := range ids {
			if id == w && (filter == nil || filter(c)) {
				return true, true
			}
		}
		return false, false
	}
}

// DominatedByEdges reports whether every path from the entry of fn to target passes through at
// least one of the pass edges, ignoring the edges in assume (edges that cannot be taken under the
// stated assumptions). When it is not, a path is returned.
func DominatedByEdges(fn *ssa.Function, target ssa.Instruction, pass []Edge, assume []Edge, pos func(token.Pos) string) (bool, string) {
	blocked := EdgeSet(append(append([]Edge{}, pass...), assume...)...)
	r := Reach(fn, []Pt{Entry(fn)}, Opts{BlockEdge: blocked})
	if r.Has(target) {
		return false, r.PathTo(target, pos)
	}
	return true, ""
}

// Resolved is a value a phi can take on the explored paths, with the instruction at which it
// enters the phi (the terminator of the predecessor block).
type Resolved struct {
	V  ssa.Value
	At ssa.Instruction
}

// Resolve expands v through phis, following only the incoming edges that the traversal took: the
// result is a superset of the values v can denote on the explored paths.
func (r *Reached) Resolve(v ssa.Value, at ssa.Instruction) []Resolved {
	var out []Resolved
	seen := map[ssa.Value]bool{}
	var rec func(v ssa.Value, at ssa.Instruction)
	rec = func(v ssa.Value, at ssa.Instruction) {
		ph, ok := v.(*ssa.Phi)
		if !ok {
			out = append(out, Resolved{v, at})
			return
		}
		if seen[v] {
			return
		}
		seen[v] = true
		any := false
		for i, e := range ph.Edges {
			pred := ph.Block().Preds[i]
			taken := false
			for si, s := range pred.Succs {
				if s == ph.Block() && r.Edges[Edge{pred, si}] {
					taken = true
				}
			}
			if !taken {
				continue
			}
			any = true
			rec(e, pred.Instrs[len(pred.Instrs)-1])
		}
		if !any {
			// the traversal started inside or after the phi's block: nothing is known
			out = append(out, Resolved{v, at})
		}
	}
	rec(v, at)
	return out
}

// ErrClass classifies the error operand of ret over the explored paths.
func (r *Reached) ErrClass(ret *ssa.Return) ErrClass {
	idx := ErrResultIndex(ret.Parent())
	if idx < 0 || idx >= len(ret.Results) {
		return ErrNil
	}
	v := RetOperand(ret, idx)
	if c := ClassifyErr(v, ret); c != ErrMaybe {
		return c
	}
	rs := r.Resolve(v, ret)
	if len(rs) == 0 {
		return ErrMaybe
	}
	c := ClassifyErr(rs[0].V, rs[0].At)
	for _, x := range rs[1:] {
		if ClassifyErr(x.V, x.At) != c {
			return ErrMaybe
		}
	}
	return c
}
