package kit

import (
	"sort"
	"strings"

	"golang.org/x/tools/go/ssa"
)

// Reacquire is one report of the NO-REACQUIRE rule: Caller calls Callee at Call while it holds the
// (non-reentrant) lock Key on every path, and Callee — directly or through Via — acquires the same
// lock of the same object.
type Reacquire struct {
	Caller *ssa.Function
	Call   ssa.CallInstruction
	Callee *ssa.Function
	Key    string // in the caller's terms
	Via    []string
}

type acquireSummary struct {
	// lock key (in terms of the function's own parameters / globals) → chain of functions down to
	// the one that takes the lock
	keys map[string][]string
}

// translate maps a callee-side key to the caller's terms: a key that starts with a parameter name
// is rewritten onto the key of the argument.
func translateKey(li *LockInfo, callee *ssa.Function, args []ssa.Value, key string) (string, bool) {
	for i, prm := range callee.Params {
		if i >= len(args) {
			break
		}
		n := prm.Name()
		if key == n || strings.HasPrefix(key, n+".") {
			return li.Key(args[i]) + key[len(n):], true
		}
	}
	// free variables, globals: same name on both sides only for globals
	if !strings.Contains(key, ".") {
		return key, true
	}
	return "", false
}

// SelfReacquire finds calls made while a sync.Mutex/RWMutex is (must-)held to a statically resolved
// callee that may acquire the same lock of the same object. entry gives the locks held on entry
// (EntryLocks). Returns the reports and the number of call sites examined under a held lock.
func SelfReacquire(funcs []*ssa.Function, entry map[*ssa.Function]map[string]bool) ([]Reacquire, int) {
	inSet := map[*ssa.Function]bool{}
	for _, f := range funcs {
		inSet[f] = true
	}
	infos := map[*ssa.Function]*LockInfo{}
	info := func(f *ssa.Function) *LockInfo {
		if li, ok := infos[f]; ok {
			return li
		}
		li := Lockset(f, entry[f])
		infos[f] = li
		return li
	}
	sums := map[*ssa.Function]*acquireSummary{}
	for _, f := range funcs {
		sums[f] = &acquireSummary{keys: map[string][]string{}}
	}
	// may-acquire summaries, to a fixed point (call depth bounded by the iteration count)
	for round := 0; round < 8; round++ {
		changed := false
		for _, f := range funcs {
			if f.Blocks == nil {
				continue
			}
			li := info(f)
			s := sums[f]
			AllInstrs(f, func(in ssa.Instruction) {
				c, ok := in.(ssa.CallInstruction)
				if !ok {
					return
				}
				if _, isGo := in.(*ssa.Go); isGo {
					return
				}
				if key, mode, op := LockOp(li.lin, c); op > 0 {
					if _, isDefer := in.(*ssa.Defer); isDefer {
						return
					}
					if _, have := s.keys[key+":"+mode]; !have {
						s.keys[key+":"+mode] = []string{ShortID(FuncID(f))}
						changed = true
					}
					return
				}
				g := StaticCallee(c)
				if g == nil || !inSet[g] || g == f {
					return
				}
				for km, via := range sums[g].keys {
					k, mode := km[:len(km)-2], km[len(km)-2:]
					tk, ok := translateKey(li, g, c.Common().Args, k)
					if !ok {
						continue
					}
					if _, have := s.keys[tk+mode]; !have {
						s.keys[tk+mode] = append([]string{ShortID(FuncID(f))}, via...)
						changed = true
					}
				}
			})
		}
		if !changed {
			break
		}
	}
	var out []Reacquire
	sites := 0
	for _, f := range funcs {
		if f.Blocks == nil {
			continue
		}
		li := info(f)
		AllInstrs(f, func(in ssa.Instruction) {
			c, ok := in.(ssa.CallInstruction)
			if !ok {
				return
			}
			if _, isGo := in.(*ssa.Go); isGo {
				return
			}
			if _, isDefer := in.(*ssa.Defer); isDefer {
				return
			}
			held := li.held[in]
			if len(held) == 0 {
				return
			}
			if _, _, op := LockOp(li.lin, c); op != 0 {
				if op > 0 {
					// direct re-lock in the same function
					key, mode, _ := LockOp(li.lin, c)
					sites++
					if held[key+":w"] || (mode == "w" && held[key+":r"]) {
						out = append(out, Reacquire{Caller: f, Call: c, Callee: f, Key: key, Via: []string{ShortID(FuncID(f))}})
					}
				}
				return
			}
			g := StaticCallee(c)
			if g == nil || !inSet[g] {
				return
			}
			sites++
			var ks []string
			for k := range sums[g].keys {
				ks = append(ks, k)
			}
			sort.Strings(ks)
			for _, km := range ks {
				k, mode := km[:len(km)-2], km[len(km)-2:]
				tk, ok := translateKey(li, g, c.Common().Args, k)
				if !ok {
					continue
				}
				if held[tk+":w"] || (mode == ":w" && held[tk+":r"]) {
					out = append(out, Reacquire{Caller: f, Call: c, Callee: g, Key: tk, Via: sums[g].keys[km]})
					break
				}
			}
		})
	}
	return out, sites
}
