package kit

import (
	"fmt"
	"go/token"
	"go/types"
	"sort"
	"strings"

	"golang.org/x/tools/go/ssa"
)

// Lin is a linear form Σ cᵢ·atomᵢ + K over symbolic atoms. OK=false means "could not normalise".
type Lin struct {
	T   map[string]int64
	K   int64
	OK  bool
	Why string
}

func LinConst(k int64) Lin { return Lin{T: map[string]int64{}, K: k, OK: true} }
func LinAtom(a string) Lin { return Lin{T: map[string]int64{a: 1}, OK: true} }
func LinBad(why string, args ...interface{}) Lin {
	return Lin{Why: fmt.Sprintf(why, args...)}
}

func (a Lin) comb(b Lin, s int64) Lin {
	if !a.OK {
		return a
	}
	if !b.OK {
		return b
	}
	out := Lin{T: map[string]int64{}, K: a.K + s*b.K, OK: true}
	for k, v := range a.T {
		out.T[k] += v
	}
	for k, v := range b.T {
		out.T[k] += s * v
	}
	for k, v := range out.T {
		if v == 0 {
			delete(out.T, k)
		}
	}
	return out
}

func (a Lin) Add(b Lin) Lin { return a.comb(b, 1) }
func (a Lin) Sub(b Lin) Lin { return a.comb(b, -1) }
func (a Lin) AddK(k int64) Lin {
	return a.comb(LinConst(k), 1)
}
func (a Lin) Scale(c int64) Lin {
	if !a.OK {
		return a
	}
	return LinConst(0).comb(a, c)
}

func (a Lin) Equal(b Lin) bool {
	if !a.OK || !b.OK {
		return false
	}
	d := a.Sub(b)
	return len(d.T) == 0 && d.K == 0
}

// IsConst reports whether a is the constant k.
func (a Lin) IsConst() (int64, bool) {
	if a.OK && len(a.T) == 0 {
		return a.K, true
	}
	return 0, false
}

func (a Lin) String() string {
	if !a.OK {
		return "⊥(" + a.Why + ")"
	}
	var ks []string
	for k := range a.T {
		ks = append(ks, k)
	}
	sort.Strings(ks)
	var parts []string
	for _, k := range ks {
		c := a.T[k]
		switch c {
		case 1:
			parts = append(parts, "+"+k)
		case -1:
			parts = append(parts, "-"+k)
		default:
			parts = append(parts, fmt.Sprintf("%+d·%s", c, k))
		}
	}
	if a.K != 0 || len(parts) == 0 {
		parts = append(parts, fmt.Sprintf("%+d", a.K))
	}
	return strings.TrimPrefix(strings.Join(parts, " "), "+")
}

// LinEval normalises integer SSA values of one function to linear forms.
//
// Atoms: parameters ("p:name"), field loads ("f:<base>.<field>", base canonicalised through
// parameters, field loads and calls; resolved to the stored value when a single store of the same
// base.field dominates the load), slice lengths ("len:<base>.<field>"), induction counts
// ("iter:b<n>" = number of times loop header n has been re-entered) and opaque calls.
// Simple getters of the module (single return of a linear expression over receiver fields) are
// inlined.
type LinEval struct {
	fn      *ssa.Function
	memo    map[ssa.Value]Lin
	busy    map[ssa.Value]bool
	inline  func(*ssa.Function) bool
	recvKey string // when evaluating an inlined callee: the caller's key for parameter 0
	args    []Lin  // caller's values for the parameters
	argKeys []string
	at      ssa.Instruction // caller's call instruction (for versioned field resolution)
	caller  *LinEval
	depth   int
	lenBusy map[ssa.Value]bool
}

func NewLin(fn *ssa.Function) *LinEval {
	return &LinEval{fn: fn, memo: map[ssa.Value]Lin{}, busy: map[ssa.Value]bool{},
		inline: func(f *ssa.Function) bool {
			return f.Pkg != nil && strings.HasPrefix(f.Pkg.Pkg.Path(), "github.com/tokenized/bitcoin_reader")
		}}
}

// Key canonicalises a (pointer or struct or slice) value to a string that is equal for values
// denoting the same object within the function.
func (e *LinEval) Key(v ssa.Value) string {
	for i := 0; i < 32; i++ {
		switch x := v.(type) {
		case *ssa.Parameter:
			if e.caller != nil {
				for pi, prm := range e.fn.Params {
					if prm == x && pi < len(e.argKeys) {
						return e.argKeys[pi]
					}
				}
			}
			return x.Name()
		case *ssa.UnOp:
			if x.Op == token.MUL {
				// load: of a field address, of a pointer (struct copy), or of a local
				if fa, ok := x.X.(*ssa.FieldAddr); ok {
					f, base := FieldOfAddr(fa)
					return e.Key(base) + "." + f.Name()
				}
				if a, ok := x.X.(*ssa.Alloc); ok {
					// local variable: single store?
					if sv := singleStore(a); sv != nil {
						v = sv
						continue
					}
					return a.Name()
				}
				v = x.X
				continue
			}
			return x.Name()
		case *ssa.Alloc:
			if sv := singleStore(x); sv != nil {
				// spilled value parameter: `t0 = local T (b); *t0 = b` (or `new T (b)` when its
				// address escapes)
				if _, ok := sv.(*ssa.Parameter); ok {
					v = sv
					continue
				}
				// a struct copy made for a value-receiver call (`tmp := *b; tmp.f …`): the copy's
				// fields are the original's at the time of the copy
				if u, ok := sv.(*ssa.UnOp); ok && u.Op == token.MUL {
					if _, isStruct := u.Type().Underlying().(*types.Struct); isStruct {
						v = u.X
						continue
					}
				}
			}
			return x.Name()
		case *ssa.FieldAddr:
			f, base := FieldOfAddr(x)
			return e.Key(base) + "." + f.Name()
		case *ssa.Field:
			f, base := FieldOfAddr(x)
			return e.Key(base) + "." + f.Name()
		case *ssa.Extract:
			return e.Key(x.Tuple) + "#" + fmt.Sprint(x.Index)
		case *ssa.Call:
			var as []string
			for _, a := range x.Call.Args {
				as = append(as, e.Key(a))
			}
			return ShortID(CallID(x)) + "(" + strings.Join(as, ",") + ")"
		case *ssa.ChangeType:
			v = x.X
		case *ssa.Convert:
			v = x.X
		case *ssa.MakeInterface:
			v = x.X
		case *ssa.Const:
			return x.String()
		case *ssa.Global:
			return x.Name()
		case *ssa.IndexAddr:
			return e.Key(x.X) + "[" + e.Of(x.Index).String() + "]"
		case *ssa.Slice:
			return x.Name()
		case *ssa.Phi:
			if r := ResultTemp(x); r != nil {
				v = r
				continue
			}
			return x.Name()
		default:
			return v.Name()
		}
	}
	return v.Name()
}

func singleStore(a *ssa.Alloc) ssa.Value {
	var val ssa.Value
	n := 0
	for _, ref := range *a.Referrers() {
		if st, ok := ref.(*ssa.Store); ok && st.Addr == ssa.Value(a) {
			n++
			val = st.Val
		}
	}
	if n == 1 {
		return val
	}
	return nil
}

// Of normalises v.
func (e *LinEval) Of(v ssa.Value) Lin {
	if v == nil {
		return LinBad("nil value")
	}
	if l, ok := e.memo[v]; ok {
		return l
	}
	if e.busy[v] {
		return LinAtom("phi:" + e.fn.Name() + "." + v.Name())
	}
	e.busy[v] = true
	l := e.of(v)
	delete(e.busy, v)
	e.memo[v] = l
	return l
}

func isIntType(t types.Type) bool {
	b, ok := t.Underlying().(*types.Basic)
	return ok && b.Info()&types.IsInteger != 0
}

func (e *LinEval) of(v ssa.Value) Lin {
	if k, ok := ConstInt(v); ok {
		if _, isC := Strip(v).(*ssa.Const); isC {
			return LinConst(k)
		}
	}
	switch x := v.(type) {
	case *ssa.Const:
		if k, ok := ConstInt(x); ok {
			return LinConst(k)
		}
		return LinBad("non-int const")
	case *ssa.Parameter:
		if e.caller != nil {
			for pi, prm := range e.fn.Params {
				if prm == x && pi < len(e.args) {
					return e.args[pi]
				}
			}
		}
		return LinAtom("p:" + x.Name())
	case *ssa.Convert:
		if isIntType(x.X.Type()) && isIntType(x.Type()) {
			return e.Of(x.X)
		}
		return LinBad("non-int convert")
	case *ssa.ChangeType:
		return e.Of(x.X)
	case *ssa.BinOp:
		switch x.Op {
		case token.ADD:
			return e.Of(x.X).Add(e.Of(x.Y))
		case token.SUB:
			return e.Of(x.X).Sub(e.Of(x.Y))
		case token.MUL:
			a, b := e.Of(x.X), e.Of(x.Y)
			if k, ok := a.IsConst(); ok {
				return b.Scale(k)
			}
			if k, ok := b.IsConst(); ok {
				return a.Scale(k)
			}
			return LinBad("non-linear product")
		}
		// opaque but canonical for / and %
		if x.Op == token.QUO || x.Op == token.REM {
			a, b := e.Of(x.X), e.Of(x.Y)
			// a % k is a - k·(a/k) (Go truncated division): one normal form for both spellings
			if k, isC := b.IsConst(); x.Op == token.REM && a.OK && b.OK && isC && k != 0 {
				q := LinAtom("(" + a.String() + ")/(" + b.String() + ")")
				return a.Sub(q.Scale(k))
			}
			if a.OK && b.OK {
				return LinAtom("(" + a.String() + ")" + x.Op.String() + "(" + b.String() + ")")
			}
		}
		return LinBad("operator %s", x.Op)
	case *ssa.UnOp:
		if x.Op == token.SUB {
			return e.Of(x.X).Scale(-1)
		}
		if x.Op == token.MUL {
			return e.load(x)
		}
		return LinBad("unop %s", x.Op)
	case *ssa.Field:
		f, base := FieldOfAddr(x)
		return e.fieldAt(e.Key(base), f, x)
	case *ssa.Phi:
		return e.phi(x)
	case *ssa.Extract:
		return LinAtom("x:" + e.Key(x))
	case *ssa.Call:
		return e.call(x)
	}
	return LinBad("value %s (%T)", v.Name(), v)
}

func (e *LinEval) load(x *ssa.UnOp) Lin {
	switch a := x.X.(type) {
	case *ssa.FieldAddr:
		f, base := FieldOfAddr(a)
		return e.fieldAtLoad(base, f, x)
	case *ssa.Alloc:
		if sv := singleStore(a); sv != nil {
			return e.Of(sv)
		}
		return LinBad("local %s with several stores", a.Name())
	case *ssa.IndexAddr:
		return LinAtom("e:" + e.Key(a))
	}
	return LinBad("load of %T", x.X)
}

// fieldAtLoad resolves a load of base.f at instruction `at` inside e.fn, honouring stores.
func (e *LinEval) fieldAtLoad(base ssa.Value, f *types.Var, at ssa.Instruction) Lin {
	key := e.Key(base)
	// stores to the same base.field in this function
	var stores []*ssa.Store
	AllInstrs(e.fn, func(in ssa.Instruction) {
		st, ok := in.(*ssa.Store)
		if !ok {
			return
		}
		fa, ok := st.Addr.(*ssa.FieldAddr)
		if !ok {
			return
		}
		sf, sbase := FieldOfAddr(fa)
		if sf == f && e.Key(sbase) == key {
			stores = append(stores, st)
		}
	})
	if len(stores) == 0 {
		return e.fieldAt(key, f, at)
	}
	var reaching []*ssa.Store
	for _, st := range stores {
		r := Reach(e.fn, After(st), Opts{NoFlags: true})
		if r.Has(at) {
			reaching = append(reaching, st)
		}
	}
	if len(reaching) == 0 {
		return e.fieldAt(key, f, at)
	}
	if len(reaching) == 1 {
		st := reaching[0]
		// must dominate: entry cannot reach `at` without passing st
		r := Reach(e.fn, []Pt{Entry(e.fn)}, Opts{StopAt: InstrSet(st), NoFlags: true})
		if !r.Has(at) || at == ssa.Instruction(st) {
			if isIntType(f.Type()) {
				return e.Of(st.Val)
			}
			return LinBad("non-int field store")
		}
	}
	return LinBad("field %s.%s has %d reaching stores at this load", key, f.Name(), len(reaching))
}

// fieldAt: the value of key.f with no local store in between. In an inlined callee the receiver's
// fields are resolved in the caller at the call instruction.
func (e *LinEval) fieldAt(key string, f *types.Var, at ssa.Instruction) Lin {
	if e.caller != nil && e.recvKey != "" && (key == e.recvKey || strings.HasPrefix(key, e.recvKey+".")) {
		// find the caller-side value: only direct receiver fields are versioned
		if key == e.recvKey && e.recvVal() != nil {
			return e.caller.fieldAtLoad(e.recvVal(), f, e.at)
		}
	}
	if !isIntType(f.Type()) {
		return LinBad("non-int field %s", f.Name())
	}
	return LinAtom("f:" + key + "." + f.Name())
}

func (e *LinEval) recvVal() ssa.Value {
	if c, ok := e.at.(ssa.CallInstruction); ok && len(c.Common().Args) > 0 {
		v := c.Common().Args[0]
		// struct copy `*b` -> pointer b
		if u, ok := v.(*ssa.UnOp); ok && u.Op == token.MUL {
			return u.X
		}
		return v
	}
	return nil
}

// LenOf normalises the length of a slice value.
func (e *LinEval) LenOf(v ssa.Value) Lin {
	if e.lenBusy == nil {
		e.lenBusy = map[ssa.Value]bool{}
	}
	if e.lenBusy[v] {
		return LinAtom("len:" + e.fn.Name() + "." + v.Name())
	}
	e.lenBusy[v] = true
	defer delete(e.lenBusy, v)
	return e.lenOf(v)
}

func (e *LinEval) lenOf(v ssa.Value) Lin {
	switch x := v.(type) {
	case *ssa.UnOp:
		if x.Op == token.MUL {
			if fa, ok := x.X.(*ssa.FieldAddr); ok {
				f, base := FieldOfAddr(fa)
				return e.lenFieldAtLoad(base, f, x)
			}
			if a, ok := x.X.(*ssa.Alloc); ok {
				if sv := singleStore(a); sv != nil {
					return e.LenOf(sv)
				}
			}
		}
	case *ssa.Field:
		f, base := FieldOfAddr(x)
		return LinAtom("len:" + e.Key(base) + "." + f.Name())
	case *ssa.Slice:
		var hi Lin
		if x.High != nil {
			hi = e.Of(x.High)
		} else {
			// array pointer literal?
			if p, ok := x.X.Type().Underlying().(*types.Pointer); ok {
				if arr, ok := p.Elem().Underlying().(*types.Array); ok {
					hi = LinConst(arr.Len())
				}
			}
			if !hi.OK {
				hi = e.LenOf(x.X)
			}
		}
		lo := LinConst(0)
		if x.Low != nil {
			lo = e.Of(x.Low)
		}
		return hi.Sub(lo)
	case *ssa.MakeSlice:
		return e.Of(x.Len)
	case *ssa.Call:
		if CallID(x) == "builtin.append" {
			a := x.Call.Args
			return e.LenOf(a[0]).Add(e.LenOf(a[1]))
		}
	case *ssa.Const:
		if x.Value == nil {
			return LinConst(0)
		}
	case *ssa.Parameter:
		if e.caller != nil {
			for pi, prm := range e.fn.Params {
				if prm == x && pi < len(e.argKeys) {
					return LinAtom("len:" + e.argKeys[pi])
				}
			}
		}
		return LinAtom("len:" + x.Name())
	case *ssa.ChangeType:
		return e.LenOf(x.X)
	case *ssa.Phi:
		l := e.LenOf(x.Edges[0])
		for _, ed := range x.Edges[1:] {
			if !l.Equal(e.LenOf(ed)) {
				return LinAtom("len:" + e.fn.Name() + "." + x.Name())
			}
		}
		return l
	}
	return LinAtom("len:" + e.Key(v))
}

func (e *LinEval) lenFieldAtLoad(base ssa.Value, f *types.Var, at ssa.Instruction) Lin {
	key := e.Key(base)
	var stores []*ssa.Store
	AllInstrs(e.fn, func(in ssa.Instruction) {
		st, ok := in.(*ssa.Store)
		if !ok {
			return
		}
		fa, ok := st.Addr.(*ssa.FieldAddr)
		if !ok {
			return
		}
		sf, sbase := FieldOfAddr(fa)
		if sf == f && e.Key(sbase) == key {
			stores = append(stores, st)
		}
	})
	var reaching []*ssa.Store
	for _, st := range stores {
		if Reach(e.fn, After(st), Opts{NoFlags: true}).Has(at) {
			reaching = append(reaching, st)
		}
	}
	if len(reaching) == 0 {
		if e.caller != nil && key == e.recvKey && e.recvVal() != nil {
			return e.caller.lenFieldAtLoad(e.recvVal(), f, e.at)
		}
		return LinAtom("len:" + key + "." + f.Name())
	}
	if len(reaching) == 1 {
		st := reaching[0]
		r := Reach(e.fn, []Pt{Entry(e.fn)}, Opts{StopAt: InstrSet(st), NoFlags: true})
		if !r.Has(at) {
			return e.LenOf(st.Val)
		}
	}
	return LinBad("len of %s.%s has %d reaching stores", key, f.Name(), len(reaching))
}

func (e *LinEval) phi(p *ssa.Phi) Lin {
	// all edges equal?
	if !isIntType(p.Type()) {
		return LinBad("non-int phi")
	}
	if r := ResultTemp(p); r != nil {
		return e.Of(r)
	}
	// induction: edges are either p + c (through one BinOp) or loop-invariant inits
	var inits []Lin
	var step *int64
	for _, ed := range p.Edges {
		if b, ok := ed.(*ssa.BinOp); ok && (b.Op == token.ADD || b.Op == token.SUB) {
			var other ssa.Value
			if b.X == ssa.Value(p) {
				other = b.Y
			} else if b.Y == ssa.Value(p) && b.Op == token.ADD {
				other = b.X
			}
			if other != nil {
				if k, ok := ConstInt(other); ok {
					if b.Op == token.SUB {
						k = -k
					}
					if step != nil && *step != k {
						return LinAtom("phi:" + e.fn.Name() + "." + p.Name())
					}
					step = &k
					continue
				}
			}
		}
		inits = append(inits, e.Of(ed))
	}
	if len(inits) == 0 {
		return LinAtom("phi:" + e.fn.Name() + "." + p.Name())
	}
	for _, in := range inits[1:] {
		if !in.Equal(inits[0]) {
			return LinAtom("phi:" + e.fn.Name() + "." + p.Name())
		}
	}
	if !inits[0].OK {
		return LinAtom("phi:" + e.fn.Name() + "." + p.Name())
	}
	if step == nil {
		return inits[0]
	}
	return inits[0].Add(LinAtom(fmt.Sprintf("iter:b%d", p.Block().Index)).Scale(*step))
}

func (e *LinEval) call(c *ssa.Call) Lin {
	id := CallID(c)
	if id == "builtin.len" {
		return e.LenOf(c.Call.Args[0])
	}
	callee := StaticCallee(c)
	if callee != nil && callee.Blocks != nil && e.inline(callee) && e.depth < 4 && isIntType(c.Type()) {
		rets := Returns(callee)
		if len(rets) == 1 && len(rets[0].Results) == 1 {
			sub := NewLin(callee)
			sub.caller = e
			sub.depth = e.depth + 1
			sub.at = c
			for _, a := range c.Call.Args {
				if isIntType(a.Type()) {
					sub.args = append(sub.args, e.Of(a))
				} else {
					sub.args = append(sub.args, LinBad("non-int arg"))
				}
				sub.argKeys = append(sub.argKeys, e.Key(a))
			}
			if len(sub.argKeys) > 0 {
				sub.recvKey = sub.argKeys[0]
			}
			l := sub.Of(rets[0].Results[0])
			if l.OK {
				return l
			}
		}
	}
	var as []string
	for _, a := range c.Call.Args {
		if isIntType(a.Type()) {
			as = append(as, e.Of(a).String())
		} else {
			as = append(as, e.Key(a))
		}
	}
	return LinAtom("c:" + ShortID(id) + "(" + strings.Join(as, ",") + ")")
}

// AtomCallOnField is kept for callers that want an opaque call atom.
func (e *LinEval) AtomCallOnField(id string, f *types.Var) string {
	return "c:" + ShortID(id) + "(" + f.Name() + ")"
}

// FieldAt is the value of base.f at instruction at (honouring the function's own stores).
func (e *LinEval) FieldAt(base ssa.Value, f *types.Var, at ssa.Instruction) Lin {
	return e.fieldAtLoad(base, f, at)
}

// LenFieldAt is len(base.f) at instruction at.
func (e *LinEval) LenFieldAt(base ssa.Value, f *types.Var, at ssa.Instruction) Lin {
	return e.lenFieldAtLoad(base, f, at)
}

// InCallee returns an evaluator for the static callee of call whose parameters are bound to the
// caller's argument values, so callee-side values normalise to caller-side forms.
func (e *LinEval) InCallee(call ssa.CallInstruction) *LinEval {
	callee := StaticCallee(call)
	if callee == nil || callee.Blocks == nil {
		return nil
	}
	sub := NewLin(callee)
	sub.caller = e
	sub.depth = e.depth + 1
	sub.at = call
	for _, a := range call.Common().Args {
		if isIntType(a.Type()) {
			sub.args = append(sub.args, e.Of(a))
		} else {
			sub.args = append(sub.args, LinBad("non-int arg"))
		}
		sub.argKeys = append(sub.argKeys, e.Key(a))
	}
	if len(sub.argKeys) > 0 {
		sub.recvKey = sub.argKeys[0]
	}
	return sub
}

// Fn returns the function the evaluator works on.
func (e *LinEval) Fn() *ssa.Function { return e.fn }

// Subst replaces atoms by linear forms.
func (a Lin) Subst(m map[string]Lin) Lin {
	if !a.OK {
		return a
	}
	out := LinConst(a.K)
	for k, c := range a.T {
		if r, ok := m[k]; ok {
			out = out.Add(r.Scale(c))
		} else {
			out = out.Add(LinAtom(k).Scale(c))
		}
	}
	return out
}
