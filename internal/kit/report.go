package kit

import (
	"encoding/json"
	"fmt"
	"os"
	"path/filepath"
	"sort"
	"strings"
	"time"
)

// Status of an obligation.
type Status string

const (
	Discharged Status = "discharged"
	Violated   Status = "violated"
	Known      Status = "known"
	Undecided  Status = "undecided"
)

// Obligation is the unit of output of every rule.
type Obligation struct {
	Property  string `json:"property"`
	Rule      string `json:"rule"`
	Construct string `json:"construct"` // stable key: function + role, never a line number
	Pos       string `json:"pos"`       // file:line for the reader
	Status    Status `json:"status"`
	Reason    string `json:"reason"`
	// NonTrivial is set when discharging the obligation needed a path/edge/dataflow argument (as
	// opposed to a pure presence check).
	NonTrivial bool `json:"nontrivial"`
}

// Report collects obligations for one property run.
type Report struct {
	Property    string
	Tier        string
	Seed        int64
	Start       time.Time
	Obls        []*Obligation
	Rules       map[string]string // rule name -> rule text applied
	Floors      map[string]int    // rule -> minimum number of instances confirmed by hand
	Analysed    map[string]bool   // functions analysed
	CallSites   int
	Assumptions []string
	NotDecided  string
	Extra       map[string]interface{}
}

func NewReport(property, tier string, seed int64) *Report {
	return &Report{Property: property, Tier: tier, Seed: seed, Start: time.Now(),
		Rules: map[string]string{}, Floors: map[string]int{}, Analysed: map[string]bool{},
		Extra: map[string]interface{}{}}
}

// Rule registers the text of a rule and the floor on its instance count.
func (r *Report) Rule(name, text string, floor int) {
	r.Rules[name] = text
	if floor > r.Floors[name] {
		r.Floors[name] = floor
	}
}

func (r *Report) Assume(s string) { r.Assumptions = append(r.Assumptions, s) }

func (r *Report) Fn(names ...string) {
	for _, n := range names {
		r.Analysed[n] = true
	}
}

func (r *Report) add(rule, construct, pos string, st Status, nontrivial bool, format string, args ...interface{}) *Obligation {
	o := &Obligation{Property: r.Property, Rule: rule, Construct: construct, Pos: pos, Status: st,
		Reason: fmt.Sprintf(format, args...), NonTrivial: nontrivial}
	r.Obls = append(r.Obls, o)
	return o
}

func (r *Report) OK(rule, construct, pos string, format string, args ...interface{}) {
	r.add(rule, construct, pos, Discharged, true, format, args...)
}

// OKTrivial records a discharged presence check.
func (r *Report) OKTrivial(rule, construct, pos string, format string, args ...interface{}) {
	r.add(rule, construct, pos, Discharged, false, format, args...)
}

func (r *Report) Bad(rule, construct, pos string, format string, args ...interface{}) {
	r.add(rule, construct, pos, Violated, true, format, args...)
}

func (r *Report) Unknown(rule, construct, pos string, format string, args ...interface{}) {
	r.add(rule, construct, pos, Undecided, true, format, args...)
}

// Check records discharged or violated depending on ok.
func (r *Report) Check(ok bool, rule, construct, pos string, okReason, badReason string) {
	if ok {
		r.OK(rule, construct, pos, "%s", okReason)
	} else {
		r.Bad(rule, construct, pos, "%s", badReason)
	}
}

// KnownFinding is one entry of known_findings.json.
type KnownFinding struct {
	Property  string `json:"property"`
	Rule      string `json:"rule"`
	Construct string `json:"construct"`
	What      string `json:"what"`
}

type knownFile struct {
	Known []KnownFinding `json:"known"`
	Fixed []string       `json:"fixed"`
}

// Finish applies floors and known findings, writes the evidence file, prints the verdict and returns
// the exit code.
func (r *Report) Finish(verifDir string) int {
	// Floors: a rule that matched fewer instances than confirmed by hand is a failure.
	count := map[string]int{}
	for _, o := range r.Obls {
		count[o.Rule]++
	}
	var ruleNames []string
	for name := range r.Floors {
		ruleNames = append(ruleNames, name)
	}
	sort.Strings(ruleNames)
	failing := false
	for _, o := range r.Obls {
		if o.Status == Violated || o.Status == Undecided {
			failing = true
		}
	}
	for _, name := range ruleNames {
		// when something already fails, dependent rules may not have run: the floor adds only noise
		if count[name] < r.Floors[name] && !failing {
			r.add(name, "instance-floor", "-", Undecided, true,
				"rule matched %d instances, fewer than the %d confirmed by hand: anchors did not resolve",
				count[name], r.Floors[name])
		}
	}

	// Known findings.
	var kf knownFile
	if b, err := os.ReadFile(filepath.Join(verifDir, "known_findings.json")); err == nil {
		if err := json.Unmarshal(b, &kf); err != nil {
			r.add("analysis-failed", "known_findings.json", "-", Undecided, true, "cannot parse: %v", err)
		}
	}
	for _, o := range r.Obls {
		if o.Status != Violated {
			continue
		}
		for _, k := range kf.Known {
			if k.Property == o.Property && k.Rule == o.Rule && k.Construct == o.Construct {
				o.Status = Known
				o.Reason = k.What + " | " + o.Reason
			}
		}
	}

	sort.SliceStable(r.Obls, func(i, j int) bool {
		if r.Obls[i].Rule != r.Obls[j].Rule {
			return r.Obls[i].Rule < r.Obls[j].Rule
		}
		return r.Obls[i].Construct < r.Obls[j].Construct
	})

	discharged, violated, nontrivial := 0, 0, map[string]bool{}
	for _, o := range r.Obls {
		switch o.Status {
		case Discharged, Known:
			discharged++
		default:
			violated++
		}
		if o.NonTrivial {
			nontrivial[o.Rule+"|"+o.Construct] = true
		}
	}

	evPath := filepath.Join(verifDir, "evidence", r.Property+".json")
	r.writeEvidence(evPath, discharged, violated, len(nontrivial))

	fmt.Printf("property %s tier %s: %d obligations, %d discharged/known, %d violated/undecided; %d functions analysed\n",
		r.Property, r.Tier, len(r.Obls), discharged, violated, len(r.Analysed))
	for _, o := range r.Obls {
		switch o.Status {
		case Known:
			fmt.Printf("KNOWN-FINDING: property=%s %s %s (%s) %s\n", o.Property, o.Rule, o.Construct, o.Pos, o.Reason)
		case Violated, Undecided:
			fmt.Printf("REPORT %s rule=%s construct=%s at %s: %s\n", strings.ToUpper(string(o.Status)), o.Rule, o.Construct, o.Pos, o.Reason)
			fmt.Printf("VIOLATION property=%s replay=%s#%s/%s\n", o.Property, evPath, o.Rule, o.Construct)
		}
	}
	if violated > 0 {
		return 1
	}
	return 0
}

func (r *Report) writeEvidence(path string, discharged, violated, nontrivial int) {
	var samples []interface{}
	seen := map[string]int{}
	for _, o := range r.Obls {
		// every violated/known, and up to 3 per rule of the others
		if o.Status == Discharged {
			if seen[o.Rule] >= 3 {
				continue
			}
			seen[o.Rule]++
		}
		samples = append(samples, o)
	}
	var fns []string
	for f := range r.Analysed {
		fns = append(fns, f)
	}
	sort.Strings(fns)
	var expl []string
	var names []string
	for n := range r.Rules {
		names = append(names, n)
	}
	sort.Strings(names)
	perRule := map[string]int{}
	for _, o := range r.Obls {
		perRule[o.Rule]++
	}
	for _, n := range names {
		expl = append(expl, fmt.Sprintf("[%s] %s", n, r.Rules[n]))
	}
	explanation := "Static analysis of /repo's current source (go/packages type-checked syntax, go/ssa; normalised against the reference tree as described in DESIGN.md §10.5); nothing is executed. Rules applied: " +
		strings.Join(expl, " ")
	if r.NotDecided != "" {
		explanation += " NOT DECIDED by this check: " + r.NotDecided
	}
	cov := map[string]interface{}{
		"explanation":         explanation,
		"obligations":         len(r.Obls),
		"discharged":          discharged,
		"evaluations":         len(r.Obls),
		"distinct_nontrivial": nontrivial,
		"rule":                "one case = one obligation {rule, construct}; distinct by that key; non-trivial when discharging it needed a path, dominance, dataflow or arithmetic argument rather than a presence check",
		"samples":             samples,
		"functions_analysed":  fns,
		"call_sites":          r.CallSites,
		"instances_per_rule":  perRule,
		"instance_floor":      r.Floors,
		"exhaustive":          true,
		"checker_cmd":         "bin/vcheck -property " + r.Property + " -tier " + r.Tier,
		"trusted_base":        []string{"go/types, go/ssa, VTA (golang.org/x/tools v0.29.0)", "the rule instance tables in /verif/internal/props"},
	}
	for k, v := range r.Extra {
		cov[k] = v
	}
	ev := map[string]interface{}{
		"property_id": r.Property,
		"tier":        r.Tier,
		"seed":        r.Seed,
		"level":       "other",
		"coverage":    cov,
		"assumptions": append([]string{}, r.Assumptions...),
		"wall_s":      time.Since(r.Start).Seconds(),
		"violations":  violated,
	}
	b, _ := json.MarshalIndent(ev, "", " ")
	os.MkdirAll(filepath.Dir(path), 0o755)
	if err := os.WriteFile(path, b, 0o644); err != nil {
		fmt.Printf("cannot write evidence: %v\n", err)
	}
}

// Import copies into r the obligations of the given rules from sub (the report of a sibling
// property's check run on the same program): a rule that is a necessary condition of several
// properties is decided once and reported under each. The rule is registered as "<rule>@<sibling>"
// with the given floor; match, when not nil, selects the constructs that matter for r's property.
func (r *Report) Import(sub *Report, why string, floor int, match func(o *Obligation) bool, rules ...string) {
	want := map[string]bool{}
	for _, n := range rules {
		want[n] = true
	}
	for _, o := range sub.Obls {
		if !want[o.Rule] || (match != nil && !match(o)) {
			continue
		}
		name := o.Rule + "@" + sub.Property
		if _, ok := r.Rules[name]; !ok {
			r.Rule(name, sub.Rules[o.Rule]+" — shared with "+sub.Property+": "+why, floor)
		}
		c := *o
		c.Property = r.Property
		c.Rule = name
		r.Obls = append(r.Obls, &c)
	}
}
