package kit

import (
	"fmt"
	"go/types"
	"sort"
	"strings"

	"golang.org/x/tools/go/ssa"
)

// WireItem is one element of the byte layout a function writes or reads.
type WireItem struct {
	Kind   string // bin | ser | raw
	Type   string // width/type description
	Loop   bool   // inside a cycle
	Instr  ssa.Instruction
	Detail string
}

func (w WireItem) String() string {
	l := ""
	if w.Loop {
		l = "*"
	}
	return fmt.Sprintf("%s%s:%s", l, w.Kind, w.Type)
}

func sizeName(t types.Type) string {
	if p, ok := t.(*types.Pointer); ok {
		t = p.Elem()
	}
	switch u := t.Underlying().(type) {
	case *types.Basic:
		switch u.Kind() {
		case types.Uint8, types.Int8, types.Bool:
			return "1"
		case types.Uint16, types.Int16:
			return "2"
		case types.Uint32, types.Int32, types.Float32:
			return "4" + signed(u)
		case types.Uint64, types.Int64, types.Float64:
			return "8" + signed(u)
		}
		return u.Name()
	case *types.Array:
		if b, ok := u.Elem().Underlying().(*types.Basic); ok && (b.Kind() == types.Uint8) {
			return fmt.Sprintf("%d", u.Len())
		}
	}
	return types.TypeString(t, func(p *types.Package) string { return p.Name() })
}

func signed(b *types.Basic) string {
	if b.Info()&types.IsUnsigned != 0 {
		return "u"
	}
	if b.Info()&types.IsInteger != 0 {
		return "s"
	}
	return ""
}

// WireLayout extracts the ordered I/O items of fn along its success paths. expand lists callee IDs
// whose layout is inlined (helpers of the same codec); lenOf normalises raw lengths.
func WireLayout(fn *ssa.Function, expand map[string]bool, depth int) []WireItem {
	if fn == nil || fn.Blocks == nil || depth > 4 {
		return nil
	}
	lin := NewLin(fn)
	// order blocks: reverse post-order
	order := map[*ssa.BasicBlock]int{}
	seen := map[*ssa.BasicBlock]bool{}
	var post []*ssa.BasicBlock
	var dfs func(b *ssa.BasicBlock)
	dfs = func(b *ssa.BasicBlock) {
		seen[b] = true
		for i := len(b.Succs) - 1; i >= 0; i-- {
			if !seen[b.Succs[i]] {
				dfs(b.Succs[i])
			}
		}
		post = append(post, b)
	}
	dfs(fn.Blocks[0])
	for i, b := range post {
		order[b] = len(post) - i
	}
	inCycle := func(b *ssa.BasicBlock) bool {
		// b reaches itself
		vis := map[*ssa.BasicBlock]bool{}
		st := append([]*ssa.BasicBlock{}, b.Succs...)
		for len(st) > 0 {
			x := st[len(st)-1]
			st = st[:len(st)-1]
			if x == b {
				return true
			}
			if vis[x] {
				continue
			}
			vis[x] = true
			st = append(st, x.Succs...)
		}
		return false
	}
	// success blocks: blocks from which a return with nil/possibly-nil error is reachable
	success := map[*ssa.BasicBlock]bool{}
	for _, ret := range Returns(fn) {
		if ReturnErrClass(ret) == ErrNonNil {
			continue
		}
		vis := map[*ssa.BasicBlock]bool{}
		st := []*ssa.BasicBlock{ret.Block()}
		for len(st) > 0 {
			x := st[len(st)-1]
			st = st[:len(st)-1]
			if vis[x] {
				continue
			}
			vis[x] = true
			success[x] = true
			st = append(st, x.Preds...)
		}
	}
	type at struct {
		ord, idx int
		items    []WireItem
	}
	var all []at
	for _, b := range fn.Blocks {
		if !success[b] || order[b] == 0 {
			continue
		}
		loop := inCycle(b)
		for i, in := range b.Instrs {
			c, ok := in.(*ssa.Call)
			if !ok {
				continue
			}
			id := CallID(c)
			args := c.Call.Args
			var items []WireItem
			switch {
			case id == "encoding/binary.Write" && len(args) == 3:
				items = []WireItem{{Kind: "bin", Type: sizeName(Strip(args[2]).Type())}}
			case id == "encoding/binary.Read" && len(args) == 3:
				items = []WireItem{{Kind: "bin", Type: sizeName(Strip(args[2]).Type())}}
			case id == "io.ReadFull" && len(args) == 2:
				items = []WireItem{{Kind: "raw", Type: rawLen(lin.LenOf(args[1]))}}
			case id == "io.CopyN" && len(args) == 3:
				items = []WireItem{{Kind: "raw", Type: rawLen(lin.Of(args[2]))}}
			case c.Call.IsInvoke() && c.Call.Method.Name() == "Write" && len(args) == 1:
				items = []WireItem{{Kind: "raw", Type: rawLen(lin.LenOf(args[0]))}}
			case strings.HasSuffix(id, ".Buffer.Write") && len(args) == 2:
				items = []WireItem{{Kind: "raw", Type: rawLen(lin.LenOf(args[1]))}}
			case strings.HasSuffix(id, ".Serialize") || strings.HasSuffix(id, ".Deserialize"):
				callee := StaticCallee(c)
				if callee != nil && expand[FuncID(callee)] {
					items = WireLayout(callee, expand, depth+1)
				} else {
					t := args[0].Type()
					items = []WireItem{{Kind: "ser", Type: sizeName(t)}}
				}
			default:
				callee := StaticCallee(c)
				if callee != nil && expand[FuncID(callee)] {
					items = WireLayout(callee, expand, depth+1)
				}
			}
			for j := range items {
				items[j].Loop = items[j].Loop || loop
				if items[j].Instr == nil {
					items[j].Instr = in
				}
			}
			if len(items) > 0 {
				all = append(all, at{order[b], i, items})
			}
		}
	}
	sort.SliceStable(all, func(i, j int) bool {
		if all[i].ord != all[j].ord {
			return all[i].ord < all[j].ord
		}
		return all[i].idx < all[j].idx
	})
	var out []WireItem
	for _, a := range all {
		out = append(out, a.items...)
	}
	return out
}

// LayoutString renders a layout.
func LayoutString(items []WireItem) string {
	var s []string
	for _, i := range items {
		s = append(s, i.String())
	}
	return strings.Join(s, " ")
}

// LayoutsAgree compares a writer's and a reader's layout item by item.
func LayoutsAgree(w, r []WireItem) (bool, string) {
	if len(w) != len(r) {
		return false, fmt.Sprintf("writer emits %d items [%s], reader consumes %d [%s]", len(w), LayoutString(w), len(r), LayoutString(r))
	}
	for i := range w {
		if w[i].Kind != r[i].Kind || w[i].Type != r[i].Type || w[i].Loop != r[i].Loop {
			return false, fmt.Sprintf("item %d differs: writer %s, reader %s (writer [%s], reader [%s])", i+1, w[i], r[i], LayoutString(w), LayoutString(r))
		}
	}
	return true, ""
}

// rawLen renders the length of a raw item: the constant, or "var" for a length that depends on
// data (a length-prefixed blob; the prefix is the preceding item).
func rawLen(l Lin) string {
	if k, ok := l.IsConst(); ok {
		return fmt.Sprint(k)
	}
	return "var"
}
