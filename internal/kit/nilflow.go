package kit

import (
	"go/token"
	"go/types"

	"golang.org/x/tools/go/ssa"
)

// NilFlowReport is one contradiction: a value known to be nil (by a dominating test edge) is
// dereferenced, directly or by a callee that dereferences the parameter before testing it.
type NilFlowReport struct {
	Fn     *ssa.Function
	Value  ssa.Value
	Use    ssa.Instruction
	Callee *ssa.Function
	Test   *ssa.If
}

// mustDeref: the callee dereferences parameter i on every path before any nil test of it:
// approximated as "a FieldAddr/load/method call on the parameter occurs in a block that dominates
// every return and no If tests the parameter against nil before it".
func mustDeref(callee *ssa.Function, i int) bool {
	if callee == nil || callee.Blocks == nil || i >= len(callee.Params) {
		return false
	}
	prm := callee.Params[i]
	if _, ok := prm.Type().Underlying().(*types.Pointer); !ok {
		return false
	}
	var derefs []ssa.Instruction
	for _, ref := range *prm.Referrers() {
		switch x := ref.(type) {
		case *ssa.FieldAddr:
			if x.X == ssa.Value(prm) {
				derefs = append(derefs, x)
			}
		case *ssa.UnOp:
			if x.Op == token.MUL && x.X == ssa.Value(prm) {
				derefs = append(derefs, x)
			}
		}
	}
	if len(derefs) == 0 {
		return false
	}
	// nil tests of the parameter
	tests := FindGuards(callee, func(c ssa.Value) (bool, bool) {
		b, ok := c.(*ssa.BinOp)
		if !ok || (b.Op != token.EQL && b.Op != token.NEQ) {
			return false, false
		}
		if (b.X == ssa.Value(prm) && IsNilConst(b.Y)) || (b.Y == ssa.Value(prm) && IsNilConst(b.X)) {
			return true, true
		}
		return false, false
	})
	// a deref that is reached on every path to every return without passing a nil test first:
	// entry cannot reach a return when stopping at the deref, and the deref is reachable from entry
	// when stopping at the tests.
	for _, d := range derefs {
		stopTests := map[ssa.Instruction]bool{}
		for _, t := range tests {
			stopTests[t.If] = true
		}
		r1 := Reach(callee, []Pt{Entry(callee)}, Opts{StopAt: func(in ssa.Instruction) bool { return stopTests[in] }})
		if !r1.Has(d) {
			continue
		}
		r2 := Reach(callee, []Pt{Entry(callee)}, Opts{StopAt: InstrSet(d)})
		all := true
		for _, ret := range Returns(callee) {
			if r2.Has(ret) {
				all = false
			}
		}
		if all {
			return true
		}
	}
	return false
}

// NilFlow finds uses of known-nil pointer values in fn.
func NilFlow(fn *ssa.Function) (reports []NilFlowReport, tests int) {
	type nt struct {
		v    ssa.Value
		edge Edge
		ifi  *ssa.If
	}
	var nts []nt
	for _, b := range fn.Blocks {
		if len(b.Instrs) == 0 {
			continue
		}
		ifi, ok := b.Instrs[len(b.Instrs)-1].(*ssa.If)
		if !ok {
			continue
		}
		bo, ok := ifi.Cond.(*ssa.BinOp)
		if !ok || (bo.Op != token.EQL && bo.Op != token.NEQ) {
			continue
		}
		var v ssa.Value
		if IsNilConst(bo.Y) {
			v = bo.X
		} else if IsNilConst(bo.X) {
			v = bo.Y
		} else {
			continue
		}
		if _, ok := v.Type().Underlying().(*types.Pointer); !ok {
			continue
		}
		succ := 0
		if bo.Op == token.NEQ {
			succ = 1
		}
		nts = append(nts, nt{v, Edge{b, succ}, ifi})
	}
	tests = len(nts)
	for _, t := range nts {
		// instructions dominated by the nil edge
		for _, ref := range *t.v.Referrers() {
			var callee *ssa.Function
			isUse := false
			switch x := ref.(type) {
			case *ssa.FieldAddr:
				isUse = x.X == t.v
			case *ssa.UnOp:
				isUse = x.Op == token.MUL && x.X == t.v
			case ssa.CallInstruction:
				if _, isDefer := x.(*ssa.Defer); isDefer {
					continue
				}
				sc := StaticCallee(x)
				if sc == nil {
					continue
				}
				for i, a := range x.Common().Args {
					if a == t.v && mustDeref(sc, i) {
						isUse = true
						callee = sc
					}
				}
			}
			if !isUse || ref.Block() == nil {
				continue
			}
			// every path from the (latest) definition of the value to the use passes the nil edge,
			// and the use is reachable from that edge without the value being redefined (a phi is
			// redefined whenever its block is re-entered)
			starts := []Pt{Entry(fn)}
			var stop func(ssa.Instruction) bool
			if def, ok := t.v.(ssa.Instruction); ok && def.Block() != nil {
				starts = After(def)
				stop = InstrSet(def)
			}
			r1 := Reach(fn, starts, Opts{StopAt: stop, BlockEdge: EdgeSet(t.edge)})
			if r1.Has(ref) {
				continue
			}
			r2 := Reach(fn, []Pt{EdgeStart(t.edge)}, Opts{StopAt: stop})
			if r2.Has(ref) {
				reports = append(reports, NilFlowReport{Fn: fn, Value: t.v, Use: ref, Callee: callee, Test: t.ifi})
			}
		}
	}
	return
}
