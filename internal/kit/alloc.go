package kit

import (
	"go/token"
	"go/types"
	"strings"

	"golang.org/x/tools/go/ssa"
)

// Taint tracks integer values decoded from untrusted bytes.
type Taint struct {
	Funcs   []*ssa.Function
	params  map[*ssa.Parameter]string // tainted parameters → why
	IsField func(*types.Var) bool     // struct fields whose loads are sources (e.g. MessageHeader.Length)
	memo    map[ssa.Value]string
}

// NewTaint computes the tainted parameters of funcs by propagating tainted call arguments (fixed
// point over static calls).
func NewTaint(funcs []*ssa.Function, isField func(*types.Var) bool) *Taint {
	t := &Taint{Funcs: funcs, params: map[*ssa.Parameter]string{}, IsField: isField, memo: map[ssa.Value]string{}}
	inSet := map[*ssa.Function]bool{}
	for _, f := range funcs {
		inSet[f] = true
	}
	for changed := true; changed; {
		changed = false
		t.memo = map[ssa.Value]string{}
		for _, f := range funcs {
			AllInstrs(f, func(in ssa.Instruction) {
				c, ok := in.(ssa.CallInstruction)
				if !ok {
					return
				}
				callee := StaticCallee(c)
				if callee == nil || !inSet[callee] {
					return
				}
				for i, a := range c.Common().Args {
					if i >= len(callee.Params) || !isIntType(a.Type()) {
						continue
					}
					if why := t.Why(a); why != "" {
						if _, done := t.params[callee.Params[i]]; !done {
							t.params[callee.Params[i]] = why + " → " + ShortID(FuncID(callee)) + "(" + callee.Params[i].Name() + ")"
							changed = true
						}
					}
				}
			})
		}
	}
	t.memo = map[ssa.Value]string{}
	return t
}

// Why returns a non-empty description when v is derived from a decoded integer.
func (t *Taint) Why(v ssa.Value) string {
	if w, ok := t.memo[v]; ok {
		return w
	}
	t.memo[v] = ""
	w := t.why(v)
	t.memo[v] = w
	return w
}

func (t *Taint) why(v ssa.Value) string {
	switch x := v.(type) {
	case *ssa.Parameter:
		return t.params[x]
	case *ssa.Convert:
		return t.Why(x.X)
	case *ssa.ChangeType:
		return t.Why(x.X)
	case *ssa.BinOp:
		switch x.Op {
		case token.REM:
			if k, ok := ConstInt(x.Y); ok && k > 0 && k <= 1<<31 {
				return "" // bounded by the modulus
			}
		case token.AND:
			if k, ok := ConstInt(x.Y); ok && k >= 0 && k <= 1<<31 {
				return ""
			}
		case token.EQL, token.NEQ, token.LSS, token.LEQ, token.GTR, token.GEQ:
			return ""
		}
		if w := t.Why(x.X); w != "" {
			return w
		}
		return t.Why(x.Y)
	case *ssa.Phi:
		for _, e := range x.Edges {
			if w := t.Why(e); w != "" {
				return w
			}
		}
	case *ssa.Extract:
		if c, ok := x.Tuple.(*ssa.Call); ok {
			id := CallID(c)
			if strings.HasSuffix(id, "wire.ReadVarInt") && x.Index == 0 {
				return "wire.ReadVarInt"
			}
		}
	case *ssa.UnOp:
		if x.Op != token.MUL {
			return t.Why(x.X)
		}
		// load of a variable filled by binary.Read
		if a, ok := x.X.(*ssa.Alloc); ok {
			for _, ref := range *a.Referrers() {
				if mi, ok := ref.(*ssa.MakeInterface); ok {
					for _, r2 := range *mi.Referrers() {
						if c, ok := r2.(*ssa.Call); ok && CallID(c) == "encoding/binary.Read" {
							return "binary.Read into " + a.Comment
						}
					}
				}
				if st, ok := ref.(*ssa.Store); ok && st.Addr == ssa.Value(a) {
					if w := t.Why(st.Val); w != "" {
						return w
					}
				}
			}
		}
		if f, _ := LoadedField(x); f != nil && t.IsField != nil && t.IsField(f) {
			return "field " + f.Name()
		}
		// a field filled through its address by binary.Read (e.g. &header.Length)
		if fa, ok := x.X.(*ssa.FieldAddr); ok {
			_ = fa
		}
	}
	return ""
}

// AllocSink is an allocation whose size operand is decoded from untrusted bytes.
type AllocSink struct {
	Instr ssa.Instruction
	Size  ssa.Value
	What  string
	Why   string
}

// Sinks finds the allocation sites of f sized by tainted values.
func (t *Taint) Sinks(f *ssa.Function) []AllocSink {
	var out []AllocSink
	add := func(in ssa.Instruction, v ssa.Value, what string) {
		if v == nil {
			return
		}
		if w := t.Why(v); w != "" {
			out = append(out, AllocSink{in, v, what, w})
		}
	}
	AllInstrs(f, func(in ssa.Instruction) {
		switch x := in.(type) {
		case *ssa.MakeSlice:
			add(in, x.Len, "make len")
			if x.Cap != x.Len {
				add(in, x.Cap, "make cap")
			}
		case *ssa.MakeMap:
			add(in, x.Reserve, "make map size")
		case *ssa.MakeChan:
			add(in, x.Size, "make chan size")
		case ssa.CallInstruction:
			id := CallID(x)
			if strings.HasSuffix(id, ".Buffer.Grow") || strings.HasSuffix(id, ".Builder.Grow") || id == "slices.Grow" {
				a := x.Common().Args
				add(in, a[len(a)-1], "Grow")
			}
		}
	})
	return out
}

// convChain returns v and the values it is a pure conversion of.
func convChain(v ssa.Value) []ssa.Value {
	out := []ssa.Value{v}
	for {
		switch x := v.(type) {
		case *ssa.Convert:
			v = x.X
		case *ssa.ChangeType:
			v = x.X
		default:
			return out
		}
		out = append(out, v)
	}
}

// goodBound: b is an acceptable upper bound: a constant ≤ 2³¹ or an expression built from the
// length of data that is already in memory.
func (t *Taint) goodBound(b ssa.Value) bool {
	if k, ok := ConstInt(b); ok {
		return k >= 0 && k <= 1<<31
	}
	if t.Why(b) != "" {
		return false
	}
	return DependsOn(b, func(x ssa.Value) bool {
		c, ok := x.(*ssa.Call)
		if !ok {
			return false
		}
		id := CallID(c)
		return id == "builtin.len" || id == "builtin.cap" || strings.HasSuffix(id, ".Buffer.Len") || strings.HasSuffix(id, ".Reader.Len")
	})
}

// boundEdges returns the edges on which v is known ≤ a good bound (upper) and ≥ 0 (lower).
func (t *Taint) boundEdges(f *ssa.Function, v ssa.Value) (upper, lower []Edge) {
	raw := map[ssa.Value]bool{}
	cc := convChain(v)
	for _, c := range cc {
		raw[c] = true
	}
	root := cc[len(cc)-1]
	// go/ssa has no CSE: `int(count)` in the test and `int(count)` at the use are two Convert
	// instructions of the same source; a conversion of the same root to a type that also occurs in
	// v's own chain denotes the same value
	chain := map[ssa.Value]bool{}
	for c := range raw {
		chain[c] = true
	}
	AllInstrs(f, func(in ssa.Instruction) {
		x, ok := in.(ssa.Value)
		if !ok || raw[x] {
			return
		}
		xc := convChain(x)
		if len(xc) < 2 || xc[len(xc)-1] != root {
			return
		}
		for c := range raw {
			if types.Identical(c.Type(), x.Type()) {
				chain[x] = true
			}
		}
	})
	for _, g := range FindGuards(f, func(c ssa.Value) (bool, bool) {
		b, ok := c.(*ssa.BinOp)
		if !ok {
			return false, false
		}
		switch {
		case chain[b.X] && t.goodBound(b.Y):
			switch b.Op {
			case token.LEQ, token.LSS:
				return true, true
			case token.GTR, token.GEQ:
				return true, false
			}
		case chain[b.Y] && t.goodBound(b.X):
			switch b.Op {
			case token.GEQ, token.GTR:
				return true, true
			case token.LSS, token.LEQ:
				return true, false
			}
		}
		return false, false
	}) {
		upper = append(upper, g.PassEdge())
	}
	for _, g := range FindGuards(f, func(c ssa.Value) (bool, bool) {
		b, ok := c.(*ssa.BinOp)
		if !ok || !chain[b.X] {
			return false, false
		}
		k, ok := ConstInt(b.Y)
		if !ok {
			return false, false
		}
		switch {
		case b.Op == token.LSS && k <= 0: // v < 0 : lower holds when false
			return true, false
		case b.Op == token.GEQ && k >= 0:
			return true, true
		case b.Op == token.GTR && k >= -1:
			return true, true
		case b.Op == token.LEQ && k < 0:
			return true, false
		}
		return false, false
	}) {
		lower = append(lower, g.PassEdge())
	}
	return
}

func unsignedSource(v ssa.Value) bool {
	for _, c := range convChain(v) {
		if b, ok := c.Type().Underlying().(*types.Basic); ok && b.Info()&types.IsUnsigned != 0 {
			// an unsigned value converted to a signed type of the same or smaller width can wrap;
			// only count it when the final type is wider or unsigned
			fb, _ := v.Type().Underlying().(*types.Basic)
			if fb == nil {
				continue
			}
			if fb.Info()&types.IsUnsigned != 0 || sizeOf(fb) > sizeOf(b) {
				return true
			}
		}
	}
	return false
}

func sizeOf(b *types.Basic) int {
	switch b.Kind() {
	case types.Int8, types.Uint8:
		return 1
	case types.Int16, types.Uint16:
		return 2
	case types.Int32, types.Uint32:
		return 4
	}
	return 8
}

// Bounded decides whether size value v, used at instruction at, is bounded above (and below, for
// signed sources) on every path; phi operands are checked along their own edges.
func (t *Taint) Bounded(f *ssa.Function, v ssa.Value, at ssa.Instruction) (bool, string) {
	return t.bounded(f, v, at, nil, 0)
}

func (t *Taint) bounded(f *ssa.Function, v ssa.Value, at ssa.Instruction, via *Edge, depth int) (bool, string) {
	if t.Why(v) == "" {
		return true, ""
	}
	if depth > 6 {
		return false, "too deep"
	}
	if ph, ok := v.(*ssa.Phi); ok {
		for i, e := range ph.Edges {
			pred := ph.Block().Preds[i]
			succ := -1
			for si, s := range pred.Succs {
				if s == ph.Block() {
					succ = si
				}
			}
			edge := Edge{pred, succ}
			if ok, why := t.bounded(f, e, pred.Instrs[len(pred.Instrs)-1], &edge, depth+1); !ok {
				return false, why
			}
		}
		return true, ""
	}
	upper, lower := t.boundEdges(f, v)
	check := func(pass []Edge, what string) (bool, string) {
		if len(pass) == 0 {
			return false, "no " + what + " test on the decoded value"
		}
		set := map[Edge]bool{}
		for _, e := range pass {
			set[e] = true
		}
		r := Reach(f, []Pt{Entry(f)}, Opts{BlockEdge: func(e Edge) bool { return set[e] }})
		if via != nil {
			if r.Has(at) && !set[*via] {
				return false, what + " test can be bypassed"
			}
			return true, ""
		}
		if r.Has(at) {
			return false, what + " test can be bypassed"
		}
		return true, ""
	}
	if ok, why := check(upper, "upper-bound"); !ok {
		return false, why
	}
	if !unsignedSource(v) {
		if ok, why := check(lower, "non-negative"); !ok {
			return false, why
		}
	}
	return true, ""
}
