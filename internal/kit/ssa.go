package kit

import (
	"go/constant"
	"go/token"
	"go/types"
	"strings"

	"golang.org/x/tools/go/ssa"
)

// FuncID returns "pkgpath.Func" or "pkgpath.Type.Method" (pointer-ness of the receiver dropped).
// Anonymous functions are "parentID$n".
// Canonical maps the ID of a renamed function to the name the rules know it by (filled by the
// loader from the anchor table; empty when nothing was renamed).
var Canonical = map[string]string{}

func FuncID(fn *ssa.Function) string {
	id := rawFuncID(fn)
	if c, ok := Canonical[id]; ok {
		return c
	}
	return id
}

// RawFuncID is the ID as spelled in the current tree.
func RawFuncID(fn *ssa.Function) string { return rawFuncID(fn) }

func rawFuncID(fn *ssa.Function) string {
	if fn == nil {
		return ""
	}
	if fn.Parent() != nil {
		return FuncID(fn.Parent()) + "$" + strings.TrimPrefix(fn.Name(), fn.Parent().Name()+"$")
	}
	if fn.Signature != nil && fn.Signature.Recv() != nil {
		t := fn.Signature.Recv().Type()
		if p, ok := t.(*types.Pointer); ok {
			t = p.Elem()
		}
		if n, ok := t.(*types.Named); ok && n.Obj().Pkg() != nil {
			return n.Obj().Pkg().Path() + "." + n.Obj().Name() + "." + fn.Name()
		}
	}
	if fn.Pkg != nil {
		return fn.Pkg.Pkg.Path() + "." + fn.Name()
	}
	// synthetic wrappers (bound methods, thunks) carry the object
	if o := fn.Object(); o != nil && o.Pkg() != nil {
		if f, ok := o.(*types.Func); ok {
			return MethodID(f)
		}
	}
	return fn.String()
}

// MethodID names a *types.Func the same way FuncID does.
func MethodID(f *types.Func) string {
	id := rawMethodID(f)
	if c, ok := Canonical[id]; ok {
		return c
	}
	return id
}

// RawMethodID is MethodID as spelled in the current tree.
func RawMethodID(f *types.Func) string { return rawMethodID(f) }

func rawMethodID(f *types.Func) string {
	if f == nil {
		return ""
	}
	sig, _ := f.Type().(*types.Signature)
	if sig != nil && sig.Recv() != nil {
		t := sig.Recv().Type()
		if p, ok := t.(*types.Pointer); ok {
			t = p.Elem()
		}
		if n, ok := t.(*types.Named); ok && n.Obj().Pkg() != nil {
			return n.Obj().Pkg().Path() + "." + n.Obj().Name() + "." + f.Name()
		}
	}
	if f.Pkg() != nil {
		return f.Pkg().Path() + "." + f.Name()
	}
	return f.Name()
}

// ShortID strips the module path prefix for reports.
func ShortID(id string) string {
	id = strings.TrimPrefix(id, "github.com/tokenized/bitcoin_reader/")
	id = strings.TrimPrefix(id, "github.com/tokenized/bitcoin_reader.")
	id = strings.TrimPrefix(id, "github.com/tokenized/")
	return id
}

// CallID returns the identity of the function called by a call instruction: the static callee,
// the interface method for invoke-mode calls, the bound/closure function for calls through a
// locally made closure or method value, "builtin.name" for builtins, "" when unknown.
func CallID(c ssa.CallInstruction) string {
	com := c.Common()
	if com.IsInvoke() {
		return MethodID(com.Method)
	}
	switch v := com.Value.(type) {
	case *ssa.Builtin:
		return "builtin." + v.Name()
	case *ssa.Function:
		return FuncID(unwrapSynthetic(v))
	case *ssa.MakeClosure:
		if f, ok := v.Fn.(*ssa.Function); ok {
			return FuncID(unwrapSynthetic(f))
		}
	}
	return ""
}

// StaticCallee returns the called function when it is statically known (following closures).
func StaticCallee(c ssa.CallInstruction) *ssa.Function {
	com := c.Common()
	if com.IsInvoke() {
		return nil
	}
	switch v := com.Value.(type) {
	case *ssa.Function:
		return v
	case *ssa.MakeClosure:
		if f, ok := v.Fn.(*ssa.Function); ok {
			return f
		}
	}
	return nil
}

// unwrapSynthetic maps bound-method closures ("(*T).m$bound") and thunks to the declared method.
func unwrapSynthetic(f *ssa.Function) *ssa.Function {
	if f.Synthetic != "" && f.Blocks != nil {
		// a wrapper's body is a single call to the real method
		for _, b := range f.Blocks {
			for _, in := range b.Instrs {
				if c, ok := in.(*ssa.Call); ok {
					if g := StaticCallee(c); g != nil && g.Synthetic == "" {
						return g
					}
				}
			}
		}
	}
	return f
}

// FuncValueTarget resolves a value used as a function value (method value, closure, function) to
// the declared function, or nil.
func FuncValueTarget(v ssa.Value) *ssa.Function {
	switch x := v.(type) {
	case *ssa.Function:
		return unwrapSynthetic(x)
	case *ssa.MakeClosure:
		if f, ok := x.Fn.(*ssa.Function); ok {
			return unwrapSynthetic(f)
		}
	case *ssa.ChangeType:
		return FuncValueTarget(x.X)
	case *ssa.MakeInterface:
		return FuncValueTarget(x.X)
	}
	return nil
}

// Strip removes value-preserving wrappers (conversions between named types, interface boxing).
func Strip(v ssa.Value) ssa.Value {
	for {
		switch x := v.(type) {
		case *ssa.ChangeType:
			v = x.X
		case *ssa.MakeInterface:
			v = x.X
		case *ssa.ChangeInterface:
			v = x.X
		case *ssa.UnOp:
			if c := Cell(x); c != ssa.Value(x) {
				v = c
			} else {
				return v
			}
		case *ssa.Phi:
			if r := ResultTemp(x); r != nil {
				v = r
			} else {
				return v
			}
		default:
			return v
		}
	}
}

// Provenance is Strip for rules that ask "where does this value come from when it is something":
// it also looks through a result temporary of an expanded helper whose only non-constant
// assignment is one value, whatever constants (nil, 0) the helper's other returns give. Not for
// rules in which the zero case itself matters (use Strip).
func Provenance(v ssa.Value) ssa.Value {
	for i := 0; i < 8; i++ {
		v = Strip(v)
		p, ok := v.(*ssa.Phi)
		if !ok || !strings.HasPrefix(p.Comment, "_ir") {
			return v
		}
		var only ssa.Value
		for _, e := range p.Edges {
			if _, isC := e.(*ssa.Const); isC || e == ssa.Value(p) {
				continue
			}
			if only != nil && only != e {
				return v
			}
			only = e
		}
		if only == nil {
			return v
		}
		v = only
	}
	return v
}

// ResultTemp looks through the result temporaries that the source-level expansion of a helper
// introduces (internal/load/reinline.go): `_irN_M` is assigned at each of the helper's returns; on
// its error/not-found returns it gets a zero constant. When all other assignments give the same
// value the temporary stands for that value wherever the zero case has been excluded. Returns nil
// for any other phi.
func ResultTemp(p *ssa.Phi) ssa.Value {
	if !strings.HasPrefix(p.Comment, "_ir") {
		return nil
	}
	// the temporaries of one expansion share the prefix _ir<N>_
	prefix := p.Comment
	if i := strings.LastIndex(prefix, "_"); i > 0 {
		prefix = prefix[:i+1]
	}
	var errSiblings []*ssa.Phi
	for _, in := range p.Block().Instrs {
		q, ok := in.(*ssa.Phi)
		if !ok {
			break
		}
		if q != p && strings.HasPrefix(q.Comment, prefix) && types.Identical(q.Type(), errorType) {
			errSiblings = append(errSiblings, q)
		}
	}
	var only ssa.Value
	for i, e := range p.Edges {
		if _, isC := e.(*ssa.Const); isC {
			// a zero value is looked through only where the helper returned an error with it: a
			// plain `return nil` / `return 0` is a value of its own
			isErrPath := false
			for _, q := range errSiblings {
				if i < len(q.Edges) && !IsNilConst(q.Edges[i]) {
					isErrPath = true
				}
			}
			if !isErrPath {
				return nil
			}
			continue
		}
		if e == ssa.Value(p) {
			continue
		}
		if only != nil && only != e {
			return nil
		}
		only = e
	}
	return only
}

// FieldOfAddr returns the struct field addressed by a FieldAddr/Field value and its base.
func FieldOfAddr(v ssa.Value) (*types.Var, ssa.Value) {
	switch x := v.(type) {
	case *ssa.FieldAddr:
		t := x.X.Type().Underlying()
		if p, ok := t.(*types.Pointer); ok {
			if st, ok := p.Elem().Underlying().(*types.Struct); ok {
				return st.Field(x.Field), x.X
			}
		}
	case *ssa.Field:
		if st, ok := x.X.Type().Underlying().(*types.Struct); ok {
			return st.Field(x.Field), x.X
		}
	}
	return nil, nil
}

// LoadedField: if v is a load of a struct field (through FieldAddr+deref or Field), return the
// field and the base value.
func LoadedField(v ssa.Value) (*types.Var, ssa.Value) {
	v = Strip(v)
	switch x := v.(type) {
	case *ssa.UnOp:
		if x.Op == token.MUL {
			return FieldOfAddr(x.X)
		}
	case *ssa.Field:
		return FieldOfAddr(x)
	}
	return nil, nil
}

// Cell resolves a load from a variable cell (local or heap-escaped variable, as created for
// captured parameters) that has exactly one store to the stored value; other values are returned
// unchanged.
func Cell(v ssa.Value) ssa.Value {
	for i := 0; i < 8; i++ {
		u, ok := v.(*ssa.UnOp)
		if !ok || u.Op != token.MUL {
			return v
		}
		a, ok := u.X.(*ssa.Alloc)
		if !ok {
			return v
		}
		var val ssa.Value
		n := 0
		for _, ref := range *a.Referrers() {
			if st, ok := ref.(*ssa.Store); ok && st.Addr == ssa.Value(a) {
				n++
				val = st.Val
			}
		}
		if n != 1 {
			return v
		}
		v = val
	}
	return v
}

// Root walks to the object an address or loaded value is derived from: through FieldAddr,
// IndexAddr, loads, slices, conversions.
func Root(v ssa.Value) ssa.Value {
	for i := 0; i < 64; i++ {
		switch x := v.(type) {
		case *ssa.FieldAddr:
			v = x.X
		case *ssa.Field:
			v = x.X
		case *ssa.IndexAddr:
			v = x.X
		case *ssa.Index:
			v = x.X
		case *ssa.UnOp:
			if x.Op == token.MUL {
				if c := Cell(x); c != ssa.Value(x) {
					v = c
				} else {
					v = x.X
				}
			} else {
				return v
			}
		case *ssa.Slice:
			v = x.X
		case *ssa.ChangeType:
			v = x.X
		case *ssa.Convert:
			v = x.X
		case *ssa.MakeInterface:
			v = x.X
		default:
			return v
		}
	}
	return v
}

// IsFresh reports whether v is an object allocated in this function (new/composite literal).
func IsFresh(v ssa.Value) bool {
	switch x := v.(type) {
	case *ssa.Alloc:
		return true
	case *ssa.MakeMap, *ssa.MakeSlice, *ssa.MakeChan:
		return true
	case *ssa.Call:
		_ = x
	}
	return false
}

// ConstInt returns the integer value of a constant.
func ConstInt(v ssa.Value) (int64, bool) {
	v = Strip(v)
	if c, ok := v.(*ssa.Convert); ok {
		return ConstInt(c.X)
	}
	c, ok := v.(*ssa.Const)
	if !ok || c.Value == nil {
		return 0, false
	}
	if c.Value.Kind() == constant.Int {
		if i, ok := constant.Int64Val(c.Value); ok {
			return i, true
		}
		if u, ok := constant.Uint64Val(c.Value); ok {
			return int64(u), true
		}
	}
	if c.Value.Kind() == constant.Float {
		if f, ok := constant.Float64Val(c.Value); ok && f == float64(int64(f)) {
			return int64(f), true
		}
	}
	return 0, false
}

// ConstBool returns the value of a boolean constant.
func ConstBool(v ssa.Value) (bool, bool) {
	c, ok := Strip(v).(*ssa.Const)
	if !ok || c.Value == nil || c.Value.Kind() != constant.Bool {
		return false, false
	}
	return constant.BoolVal(c.Value), true
}

// IsNilConst reports whether v is the constant nil.
func IsNilConst(v ssa.Value) bool {
	c, ok := v.(*ssa.Const)
	return ok && c.Value == nil
}

// ConstString returns the value of a string constant.
func ConstString(v ssa.Value) (string, bool) {
	c, ok := Strip(v).(*ssa.Const)
	if !ok || c.Value == nil || c.Value.Kind() != constant.String {
		return "", false
	}
	return constant.StringVal(c.Value), true
}

// AllInstrs iterates over every instruction of fn.
func AllInstrs(fn *ssa.Function, f func(ssa.Instruction)) {
	for _, b := range fn.Blocks {
		for _, in := range b.Instrs {
			f(in)
		}
	}
}

// Calls returns every call-like instruction (Call, Go, Defer) of fn whose CallID satisfies pred.
func Calls(fn *ssa.Function, pred func(id string) bool) []ssa.CallInstruction {
	var out []ssa.CallInstruction
	AllInstrs(fn, func(in ssa.Instruction) {
		if c, ok := in.(ssa.CallInstruction); ok {
			if pred(CallID(c)) {
				out = append(out, c)
			}
		}
	})
	return out
}

// CallsTo returns the calls in fn whose CallID equals one of ids.
func CallsTo(fn *ssa.Function, ids ...string) []ssa.CallInstruction {
	return Calls(fn, func(id string) bool {
		for _, w := range ids {
			if id == w {
				return true
			}
		}
		return false
	})
}

// DependsOn reports whether v transitively (through operands, phis, loads of local allocs with
// their stores, and call arguments/receivers) depends on a value satisfying pred. Depth-bounded.
func DependsOn(v ssa.Value, pred func(ssa.Value) bool) bool {
	return dependsOn(v, pred, false)
}

// DependsOnNoPhi is DependsOn that does not look through phi nodes (the phi itself is tested).
func DependsOnNoPhi(v ssa.Value, pred func(ssa.Value) bool) bool {
	return dependsOn(v, pred, true)
}

func dependsOn(v ssa.Value, pred func(ssa.Value) bool, stopAtPhi bool) bool {
	seen := map[ssa.Value]bool{}
	var rec func(v ssa.Value, d int) bool
	rec = func(v ssa.Value, d int) bool {
		if v == nil || seen[v] || d > 40 {
			return false
		}
		seen[v] = true
		if pred(v) {
			return true
		}
		if _, isPhi := v.(*ssa.Phi); isPhi && stopAtPhi {
			return false
		}
		// loads from a local alloc: follow the stores into it
		if u, ok := v.(*ssa.UnOp); ok && u.Op == token.MUL {
			if a, ok := u.X.(*ssa.Alloc); ok {
				for _, ref := range *a.Referrers() {
					if st, ok := ref.(*ssa.Store); ok && st.Addr == a {
						if rec(st.Val, d+1) {
							return true
						}
					}
				}
			}
		}
		// a pointer to a fresh big.Int etc. that is written through method calls: follow calls
		// that take v as receiver/argument (x.Add(a, b) makes x depend on a and b)
		if _, ok := v.(*ssa.Alloc); ok {
			for _, ref := range *v.Referrers() {
				if c, ok := ref.(ssa.CallInstruction); ok {
					args := c.Common().Args
					if len(args) > 0 && args[0] == v {
						for _, a := range args[1:] {
							if rec(a, d+1) {
								return true
							}
						}
					}
				}
				if st, ok := ref.(*ssa.Store); ok && st.Addr == v {
					if rec(st.Val, d+1) {
						return true
					}
				}
				// element / field stores into the allocated array or struct
				if av, ok := ref.(ssa.Value); ok {
					switch ref.(type) {
					case *ssa.IndexAddr, *ssa.FieldAddr:
						for _, r2 := range *av.Referrers() {
							if st, ok := r2.(*ssa.Store); ok && st.Addr == av {
								if rec(st.Val, d+1) {
									return true
								}
							}
						}
					}
				}
			}
		}
		if in, ok := v.(ssa.Instruction); ok {
			for _, op := range in.Operands(nil) {
				if *op != nil && rec(*op, d+1) {
					return true
				}
			}
		}
		return false
	}
	return rec(v, 0)
}

// ConstFromTypes returns the integer value of a declared constant.
func ConstFromTypes(c *types.Const) (int64, bool) {
	if c == nil || c.Val().Kind() != constant.Int {
		return 0, false
	}
	return constant.Int64Val(c.Val())
}
