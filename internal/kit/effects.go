package kit

import (
	"go/token"
	"go/types"
	"sort"

	"golang.org/x/tools/go/ssa"
)

// StructOf returns the named struct type a field belongs to is not directly available from
// types.Var, so effects are keyed by the field object itself.

// Write describes one instruction that writes program state.
type Write struct {
	Instr ssa.Instruction
	Field *types.Var // field written (nil for a channel send / call)
	Base  ssa.Value  // root object
	Kind  string     // store | mapupdate | delete | send | close | call:<id> | append
	Val   ssa.Value  // value stored (store/mapupdate) when known
	Key   ssa.Value  // map key
}

// fieldWritten resolves the field that an address designates (directly, or an element of a
// slice/map held in the field).
func fieldWritten(addr ssa.Value) (*types.Var, ssa.Value) {
	for i := 0; i < 16; i++ {
		switch x := addr.(type) {
		case *ssa.FieldAddr:
			f, base := FieldOfAddr(x)
			return f, base
		case *ssa.IndexAddr:
			addr = x.X
		case *ssa.UnOp:
			if x.Op == token.MUL {
				addr = x.X
			} else {
				return nil, nil
			}
		case *ssa.Slice:
			addr = x.X
		default:
			return nil, nil
		}
	}
	return nil, nil
}

// DirectWrites lists the instructions of fn that write a struct field (store, map update, delete,
// element store), send on or close a channel.
func DirectWrites(fn *ssa.Function) []Write {
	var out []Write
	AllInstrs(fn, func(in ssa.Instruction) {
		switch x := in.(type) {
		case *ssa.Store:
			if f, base := fieldWritten(x.Addr); f != nil {
				out = append(out, Write{Instr: in, Field: f, Base: Root(base), Kind: "store", Val: x.Val})
			}
		case *ssa.MapUpdate:
			if f, base := LoadedField(x.Map); f != nil {
				out = append(out, Write{Instr: in, Field: f, Base: Root(base), Kind: "mapupdate", Val: x.Value, Key: x.Key})
			} else {
				out = append(out, Write{Instr: in, Base: Root(x.Map), Kind: "mapupdate", Val: x.Value, Key: x.Key})
			}
		case *ssa.Send:
			out = append(out, Write{Instr: in, Base: Root(x.Chan), Kind: "send", Val: x.X})
		case ssa.CallInstruction:
			switch CallID(x) {
			case "builtin.delete":
				args := x.Common().Args
				f, base := LoadedField(args[0])
				w := Write{Instr: in, Field: f, Kind: "delete", Key: args[1]}
				if base != nil {
					w.Base = Root(base)
				} else {
					w.Base = Root(args[0])
				}
				out = append(out, w)
			case "builtin.close":
				args := x.Common().Args
				out = append(out, Write{Instr: in, Base: Root(args[0]), Kind: "close"})
			}
		}
	})
	return out
}

// Mutators computes the set of functions (with bodies, in packages accepted by inScope) that
// write state that is not freshly allocated in the function itself: directly, or by calling
// (statically) another mutator with a non-fresh receiver/first argument. Interface calls are
// resolved through resolve (may be nil).
type Mutators struct {
	Set    map[*ssa.Function]bool
	Why    map[*ssa.Function]string
	accept func(Write) bool
}

// ComputeMutators: accept filters which direct writes count (e.g. only fields of some types).
func ComputeMutators(funcs []*ssa.Function, accept func(Write) bool) *Mutators {
	m := &Mutators{Set: map[*ssa.Function]bool{}, Why: map[*ssa.Function]string{}, accept: accept}
	for _, fn := range funcs {
		for _, w := range DirectWrites(fn) {
			if IsFresh(w.Base) {
				continue
			}
			if accept != nil && !accept(w) {
				continue
			}
			m.Set[fn] = true
			name := w.Kind
			if w.Field != nil {
				name += " " + w.Field.Name()
			}
			m.Why[fn] = name
			break
		}
	}
	for changed := true; changed; {
		changed = false
		for _, fn := range funcs {
			if m.Set[fn] {
				continue
			}
			AllInstrs(fn, func(in ssa.Instruction) {
				if m.Set[fn] {
					return
				}
				c, ok := in.(ssa.CallInstruction)
				if !ok {
					return
				}
				if _, isGo := in.(*ssa.Go); isGo {
					return
				}
				callee := StaticCallee(c)
				if callee == nil || !m.Set[callee] {
					return
				}
				args := c.Common().Args
				if len(args) > 0 && IsFresh(Root(args[0])) && callee.Signature.Recv() != nil {
					return // method on an object built here
				}
				m.Set[fn] = true
				m.Why[fn] = "calls " + ShortID(FuncID(callee))
				changed = true
			})
		}
	}
	return m
}

// EffectPoint is a place where state may have changed: an instruction, or — for a call to a
// fallible mutator whose result is branched on — the edges on which the callee has had effects.
type EffectPoint struct {
	Instr ssa.Instruction
	Edges []Edge // when non-empty the effect is attributed to these edges instead of the instruction
	Desc  string
}

// EffectsIn lists the effect points of fn: accepted direct writes on non-fresh objects and calls to
// mutators. For `if !x.Add(h) {return err}` style calls, the effect is attributed to the result
// edges on which the callee's returns are not effect-free.
func (m *Mutators) EffectsIn(fn *ssa.Function) []EffectPoint {
	var out []EffectPoint
	for _, w := range DirectWrites(fn) {
		if IsFresh(w.Base) {
			continue
		}
		if m.accept != nil && !m.accept(w) {
			continue
		}
		d := w.Kind
		if w.Field != nil {
			d += " " + w.Field.Name()
		}
		out = append(out, EffectPoint{Instr: w.Instr, Desc: d})
	}
	AllInstrs(fn, func(in ssa.Instruction) {
		c, ok := in.(ssa.CallInstruction)
		if !ok {
			return
		}
		if _, isGo := in.(*ssa.Go); isGo {
			return
		}
		callee := StaticCallee(c)
		if callee == nil || !m.Set[callee] {
			return
		}
		args := c.Common().Args
		if len(args) > 0 && IsFresh(Root(args[0])) && callee.Signature.Recv() != nil {
			return
		}
		ep := EffectPoint{Instr: in, Desc: "call " + ShortID(FuncID(callee))}
		// fallible mutator idiom
		if call, ok := in.(*ssa.Call); ok {
			if free, okc := m.effectFreeBoolResult(callee); okc {
				if edges := boolResultEdges(call, !free); len(edges) > 0 {
					ep.Edges = edges
					ep.Desc += " (effects only when it returns " + boolStr(!free) + ")"
				}
			}
		}
		out = append(out, ep)
	})
	sort.SliceStable(out, func(i, j int) bool { return out[i].Instr.Pos() < out[j].Instr.Pos() })
	return out
}

func boolStr(b bool) string {
	if b {
		return "true"
	}
	return "false"
}

// effectFreeBoolResult: callee returns a single bool; every Return of constant `free` is not
// preceded by any effect and every other return is. Returns (free, true) when that holds.
func (m *Mutators) effectFreeBoolResult(callee *ssa.Function) (bool, bool) {
	res := callee.Signature.Results()
	if res.Len() != 1 {
		return false, false
	}
	if b, ok := res.At(0).Type().Underlying().(*types.Basic); !ok || b.Kind() != types.Bool {
		return false, false
	}
	effs := m.EffectsIn(callee)
	var starts []Pt
	for _, e := range effs {
		if len(e.Edges) > 0 {
			for _, ed := range e.Edges {
				starts = append(starts, EdgeStart(ed))
			}
		} else {
			starts = append(starts, After(e.Instr)...)
		}
	}
	after := Reach(callee, starts, Opts{})
	var freeVal *bool
	for _, r := range Returns(callee) {
		if after.Has(r) {
			continue // preceded by an effect
		}
		b, ok := ConstBool(RetOperand(r, 0))
		if !ok {
			return false, false
		}
		if freeVal != nil && *freeVal != b {
			return false, false
		}
		freeVal = &b
	}
	if freeVal == nil {
		return false, false
	}
	// the effectful returns must not return the same constant
	for _, r := range Returns(callee) {
		if !after.Has(r) {
			continue
		}
		if b, ok := ConstBool(RetOperand(r, 0)); !ok || b == *freeVal {
			return false, false
		}
	}
	return *freeVal, true
}

// boolResultEdges finds the If that branches on the call's result and returns the edges taken
// when the result equals val.
func boolResultEdges(call *ssa.Call, val bool) []Edge {
	var out []Edge
	for _, ref := range *call.Referrers() {
		cond := ssa.Value(call)
		neg := false
		in := ref
		if u, ok := ref.(*ssa.UnOp); ok && u.Op == token.NOT {
			neg = true
			cond = u
			refs := *u.Referrers()
			if len(refs) != 1 {
				return nil
			}
			in = refs[0]
		}
		ifi, ok := in.(*ssa.If)
		if !ok || ifi.Cond != cond {
			return nil // result used some other way: give up, effect stays on the instruction
		}
		want := val
		if neg {
			want = !want
		}
		succ := 0
		if !want {
			succ = 1
		}
		out = append(out, Edge{ifi.Block(), succ})
	}
	return out
}

// ErrClass classifies the error operand of a return.
type ErrClass int

const (
	ErrNil ErrClass = iota
	ErrNonNil
	ErrMaybe
)

var errorType = types.Universe.Lookup("error").Type()

// ErrResultIndex returns the index of the (last) error result of fn, or -1.
func ErrResultIndex(fn *ssa.Function) int {
	res := fn.Signature.Results()
	for i := res.Len() - 1; i >= 0; i-- {
		if types.Identical(res.At(i).Type(), errorType) {
			return i
		}
	}
	return -1
}

// ClassifyErr classifies value v (of type error) at return ret.
func ClassifyErr(v ssa.Value, at ssa.Instruction) ErrClass {
	seen := map[ssa.Value]bool{}
	var rec func(v ssa.Value) ErrClass
	rec = func(v ssa.Value) ErrClass {
		if seen[v] {
			return ErrMaybe
		}
		seen[v] = true
		if IsNilConst(v) {
			return ErrNil
		}
		switch x := v.(type) {
		case *ssa.MakeInterface:
			return ErrNonNil
		case *ssa.UnOp:
			if x.Op == token.MUL {
				if g, ok := x.X.(*ssa.Global); ok {
					_ = g
					return ErrNonNil // package level Err... variables are initialised non-nil
				}
			}
		case *ssa.Phi:
			c := rec(x.Edges[0])
			same := true
			for _, e := range x.Edges[1:] {
				if rec(e) != c {
					same = false
				}
			}
			if same && c != ErrMaybe {
				return c
			}
		case *ssa.Call:
			switch CallID(x) {
			case "github.com/pkg/errors.New", "errors.New", "fmt.Errorf", "github.com/pkg/errors.Errorf":
				return ErrNonNil
			case "github.com/pkg/errors.Wrap", "github.com/pkg/errors.Wrapf", "github.com/pkg/errors.WithStack", "github.com/pkg/errors.WithMessage":
				// `err := errors.Wrap(f(), "…"); if err != nil { return err }`: the wrapped value
				// itself was tested
				if at != nil && nonNilAt(v, at) {
					return ErrNonNil
				}
				return rec(x.Call.Args[0])
			}
		}
		// dominated by the true edge of `v != nil` (or false edge of v == nil)?
		if at != nil && nonNilAt(v, at) {
			return ErrNonNil
		}
		return ErrMaybe
	}
	return rec(v)
}

// nonNilAt: the block of `at` is only reachable through the non-nil edge of a nil test on v.
func nonNilAt(v ssa.Value, at ssa.Instruction) bool {
	fn := at.Parent()
	var pass []Edge
	for _, g := range FindGuards(fn, func(c ssa.Value) (bool, bool) {
		b, ok := c.(*ssa.BinOp)
		if !ok || (b.Op != token.NEQ && b.Op != token.EQL) {
			return false, false
		}
		var other ssa.Value
		if b.X == v {
			other = b.Y
		} else if b.Y == v {
			other = b.X
		} else {
			return false, false
		}
		if !IsNilConst(other) {
			return false, false
		}
		return true, b.Op == token.NEQ
	}) {
		pass = append(pass, g.PassEdge())
	}
	if len(pass) == 0 {
		return false
	}
	ok, _ := DominatedByEdges(fn, at, pass, nil, func(token.Pos) string { return "" })
	return ok
}

// ReturnErrClass classifies a Return by its error operand (ErrNil when fn has no error result).
func ReturnErrClass(r *ssa.Return) ErrClass {
	idx := ErrResultIndex(r.Parent())
	if idx < 0 || idx >= len(r.Results) {
		return ErrNil
	}
	return ClassifyErr(RetOperand(r, idx), r)
}
