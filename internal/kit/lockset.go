package kit

import (
	"sort"
	"strings"

	"golang.org/x/tools/go/ssa"
)

// LockOp classifies a call as a lock operation: returns the lock key ("<base>.<mutexfield>"), the
// mode ("w" exclusive, "r" shared) and +1 for acquire / -1 for release; 0 when not a lock op.
func LockOp(lin *LinEval, c ssa.CallInstruction) (key, mode string, op int) {
	id := CallID(c)
	switch id {
	case "sync.Mutex.Lock", "sync.RWMutex.Lock":
		mode, op = "w", 1
	case "sync.Mutex.Unlock", "sync.RWMutex.Unlock":
		mode, op = "w", -1
	case "sync.RWMutex.RLock":
		mode, op = "r", 1
	case "sync.RWMutex.RUnlock":
		mode, op = "r", -1
	default:
		return "", "", 0
	}
	args := c.Common().Args
	if len(args) == 0 {
		return "", "", 0
	}
	a := args[0]
	// embedded RWMutex → Mutex path: &x.RWMutex then .w? not needed: method is on the field address
	if fa, ok := a.(*ssa.FieldAddr); ok {
		f, base := FieldOfAddr(fa)
		return lin.Key(base) + "." + f.Name(), mode, op
	}
	return lin.Key(a), mode, op
}

// LockInfo holds, for every instruction, the set of locks that are held on every path reaching it
// ("key:w" / "key:r").
type LockInfo struct {
	fn   *ssa.Function
	lin  *LinEval
	In   map[*ssa.BasicBlock]map[string]bool
	held map[ssa.Instruction]map[string]bool
}

func copySet(m map[string]bool) map[string]bool {
	out := map[string]bool{}
	for k := range m {
		out[k] = true
	}
	return out
}

func meet(a, b map[string]bool) map[string]bool {
	out := map[string]bool{}
	for k := range a {
		if b[k] {
			out[k] = true
		}
	}
	return out
}

func sameSet(a, b map[string]bool) bool {
	if len(a) != len(b) {
		return false
	}
	for k := range a {
		if !b[k] {
			return false
		}
	}
	return true
}

// Lockset runs a must-hold forward dataflow. Deferred unlocks do not release (they run at exit).
func Lockset(fn *ssa.Function, entry map[string]bool) *LockInfo {
	li := &LockInfo{fn: fn, lin: NewLin(fn), In: map[*ssa.BasicBlock]map[string]bool{}, held: map[ssa.Instruction]map[string]bool{}}
	if entry == nil {
		entry = map[string]bool{}
	}
	out := map[*ssa.BasicBlock]map[string]bool{}
	transfer := func(b *ssa.BasicBlock, in map[string]bool, record bool) map[string]bool {
		cur := copySet(in)
		for _, ins := range b.Instrs {
			if record {
				li.held[ins] = copySet(cur)
			}
			c, ok := ins.(ssa.CallInstruction)
			if !ok {
				continue
			}
			if _, isDefer := ins.(*ssa.Defer); isDefer {
				continue
			}
			if _, isGo := ins.(*ssa.Go); isGo {
				continue
			}
			key, mode, op := LockOp(li.lin, c)
			if op > 0 {
				cur[key+":"+mode] = true
			} else if op < 0 {
				delete(cur, key+":"+mode)
			}
		}
		return cur
	}
	// initialise: entry block known, others "top" (nil = unvisited)
	work := []*ssa.BasicBlock{fn.Blocks[0]}
	li.In[fn.Blocks[0]] = copySet(entry)
	for len(work) > 0 {
		b := work[0]
		work = work[1:]
		o := transfer(b, li.In[b], false)
		if prev, ok := out[b]; ok && sameSet(prev, o) {
			continue
		}
		out[b] = o
		for _, s := range b.Succs {
			if cur, ok := li.In[s]; !ok {
				li.In[s] = copySet(o)
				work = append(work, s)
			} else {
				m := meet(cur, o)
				if !sameSet(m, cur) {
					li.In[s] = m
					work = append(work, s)
				} else if _, done := out[s]; !done {
					work = append(work, s)
				}
			}
		}
	}
	for _, b := range fn.Blocks {
		if in, ok := li.In[b]; ok {
			transfer(b, in, true)
		}
	}
	return li
}

// Holds reports whether lock key is held at ins in a mode sufficient for a write (needWrite) or a
// read.
func (li *LockInfo) Holds(ins ssa.Instruction, key string, needWrite bool) bool {
	h := li.held[ins]
	if h[key+":w"] {
		return true
	}
	return !needWrite && h[key+":r"]
}

// HeldAt renders the lock set at ins.
func (li *LockInfo) HeldAt(ins ssa.Instruction) string {
	var ks []string
	for k := range li.held[ins] {
		ks = append(ks, k)
	}
	sort.Strings(ks)
	return "{" + strings.Join(ks, ",") + "}"
}

// Key canonicalises a base value the same way lock keys are built.
func (li *LockInfo) Key(v ssa.Value) string { return li.lin.Key(v) }

// Reached reports whether the dataflow reached ins.
func (li *LockInfo) Reached(ins ssa.Instruction) bool {
	_, ok := li.held[ins]
	return ok
}

// EntryLocks computes, for the unexported functions among funcs that are only ever called directly,
// the locks that are held at every one of their call sites (translated to the callee's parameter
// names): the "caller holds the lock" convention of helpers. Least fixed point from "nothing held",
// so every claimed lock is justified by claims established earlier.
func EntryLocks(funcs []*ssa.Function) map[*ssa.Function]map[string]bool {
	inSet := map[*ssa.Function]bool{}
	for _, f := range funcs {
		inSet[f] = true
	}
	// functions used as values (closures bound, stored, passed) or started with go/defer cannot
	// rely on their callers
	usedAsValue := map[*ssa.Function]bool{}
	type site struct {
		caller *ssa.Function
		call   ssa.CallInstruction
	}
	sites := map[*ssa.Function][]site{}
	for _, g := range funcs {
		AllInstrs(g, func(in ssa.Instruction) {
			var ops [16]*ssa.Value
			for _, op := range in.Operands(ops[:0]) {
				if op == nil || *op == nil {
					continue
				}
				if fn, ok := (*op).(*ssa.Function); ok {
					if c, isCall := in.(ssa.CallInstruction); isCall && c.Common().Value == ssa.Value(fn) {
						if _, isGo := in.(*ssa.Go); isGo {
							usedAsValue[fn] = true
						} else if _, isDefer := in.(*ssa.Defer); isDefer {
							usedAsValue[fn] = true
						} else {
							sites[fn] = append(sites[fn], site{g, c})
						}
						continue
					}
					usedAsValue[fn] = true
				}
			}
		})
	}
	eligible := func(f *ssa.Function) bool {
		if !inSet[f] || f.Parent() != nil || usedAsValue[f] || len(sites[f]) == 0 {
			return false
		}
		obj := f.Object()
		return obj != nil && !obj.Exported()
	}
	entry := map[*ssa.Function]map[string]bool{}
	for round := 0; round < 6; round++ {
		changed := false
		infos := map[*ssa.Function]*LockInfo{}
		for _, f := range funcs {
			if !eligible(f) {
				continue
			}
			var acc map[string]bool
			for _, s := range sites[f] {
				li := infos[s.caller]
				if li == nil {
					li = Lockset(s.caller, entry[s.caller])
					infos[s.caller] = li
				}
				held := li.held[s.call]
				tr := map[string]bool{}
				args := s.call.Common().Args
				for i, prm := range f.Params {
					if i >= len(args) {
						break
					}
					ka := li.Key(args[i])
					for h := range held {
						if strings.HasPrefix(h, ka+".") {
							tr[prm.Name()+h[len(ka):]] = true
						}
					}
				}
				if acc == nil {
					acc = tr
				} else {
					acc = meet(acc, tr)
				}
			}
			if !sameSet(acc, entry[f]) {
				// only ever grows (least fixed point)
				grown := copySet(entry[f])
				for k := range acc {
					if !grown[k] {
						grown[k] = true
						changed = true
					}
				}
				entry[f] = grown
			}
		}
		if !changed {
			break
		}
	}
	return entry
}
