package props

import (
	"go/token"
	"go/types"
	"strings"

	"golang.org/x/tools/go/ssa"

	"verif/internal/kit"
	"verif/internal/load"
)

func init() { register("C08", checkC08) }

// noEffectBeforeError: no path from an effect point of f to a return whose error may be non-nil.
func noEffectBeforeError(p *load.Program, r *kit.Report, rule string, f *ssa.Function, m *kit.Mutators, short string) {
	effs := m.EffectsIn(f)
	k := newKeyer()
	type ep struct {
		e      kit.EffectPoint
		reach  *kit.Reached
		starts []kit.Pt
	}
	var eps []ep
	for _, e := range effs {
		var starts []kit.Pt
		if len(e.Edges) > 0 {
			for _, ed := range e.Edges {
				starts = append(starts, kit.EdgeStart(ed))
			}
		} else {
			starts = kit.After(e.Instr)
		}
		eps = append(eps, ep{e, kit.Reach(f, starts, kit.Opts{}), starts})
	}
	for _, ret := range kit.Returns(f) {
		cls := kit.ReturnErrClass(ret)
		if cls == kit.ErrNil {
			r.OKTrivial(rule, k.key(short+"/"+retLabel(ret)), posOf(p, ret), "returns nil: accepting or no-op return")
			continue
		}
		// one obligation per origin of the returned error: the return itself, or (when the
		// operand merges several errors, as after the expansion of a helper) each edge on which
		// a possibly non-nil error enters the merge
		type origin struct {
			edge *kit.Edge
			at   ssa.Instruction
			lbl  string
		}
		var origins []origin
		idx := kit.ErrResultIndex(f)
		seen := map[ssa.Value]bool{}
		var walk func(v ssa.Value, e *kit.Edge, at ssa.Instruction)
		walk = func(v ssa.Value, e *kit.Edge, at ssa.Instruction) {
			ph, isPhi := v.(*ssa.Phi)
			if !isPhi || seen[v] {
				if kit.IsNilConst(v) {
					return
				}
				lbl := retLabel(ret)
				if e != nil {
					lbl = "return " + errLabel(v, 0)
				}
				origins = append(origins, origin{e, at, lbl})
				return
			}
			seen[v] = true
			for i, inc := range ph.Edges {
				pred := ph.Block().Preds[i]
				for si, sc := range pred.Succs {
					if sc == ph.Block() {
						walk(inc, &kit.Edge{From: pred, Succ: si}, pred.Instrs[len(pred.Instrs)-1])
						break
					}
				}
			}
		}
		if idx >= 0 {
			walk(kit.RetOperand(ret, idx), nil, ret)
		}
		if len(origins) == 0 {
			origins = append(origins, origin{nil, ret, retLabel(ret)})
		}
		for _, o := range origins {
			key := k.key(short + "/" + o.lbl)
			bad := false
			for _, e := range eps {
				hit := e.reach.Has(ret)
				if hit && o.edge != nil {
					hit = e.reach.Edges[*o.edge]
				}
				if hit {
					r.Bad(rule, key, posOf(p, o.at),
						"refusal reachable after state was changed: effect %q at %s reaches this non-nil return via %s",
						e.e.Desc, posOf(p, e.e.Instr), e.reach.PathTo(ret, p.Pos))
					bad = true
					break
				}
			}
			if !bad {
				r.OK(rule, key, posOf(p, o.at), "no effect point of %d reaches this return (class %d)", len(eps), cls)
			}
		}
	}
	r.Extra[rule+"/effect_points"] = len(eps)
}

func checkC08(p *load.Program, r *kit.Report) {
	importRules(p, r, "C03", "the `wrong chain` verdict is given for every listed split: a split that does not match leads to the next one", 2,
		func(o *kit.Obligation) bool {
			return strings.HasPrefix(o.Construct, "ProcessHeader/foreign-split-loop")
		}, "GUARD-DOM")
	importRules(p, r, "C17", "`marked invalid` is answered for every hash still on the list: unmarking one hash must leave the others listed", 1, nil, "REMOVE-ONE")
	importRules(p, r, "C02", "the `bad work or bits` verdict is given for a header whose bits size byte is below 3 whether or not difficulty checks are enabled: past the guard such a header reaches ConvertToDifficulty in NewBranch/Add, where it is accepted with a zero target (maximal work) or indexes out of range in the middle of ProcessHeader", 1,
		func(o *kit.Obligation) bool { return strings.HasPrefix(o.Construct, "ProcessHeader/") }, "DEP-INDEX")
	importRules(p, r, "C02", "the `bad work or bits` verdict: the required bits are computed on the branch the header extends (its parent's branch), at the height of the header", 1,
		func(o *kit.Obligation) bool { return strings.Contains(o.Construct, "bits-provenance") }, "GUARD-DOM")
	importRules(p, r, "C17", "`marked invalid` and `unknown parent` are answered for what MarkHeaderInvalid removed: a descendant branch that survives the trim still finds the removed headers through its parent pointer, and they are answered `already known`", 2, nil, "TRIM-SHAPE")
	importRules(p, r, "C03", "the `wrong chain` verdict: every effect of ProcessHeader lies behind the split tests, whatever the height of the current tip", 5,
		func(o *kit.Obligation) bool { return strings.HasPrefix(o.Construct, "ProcessHeader/splits-before") }, "GUARD-DOM")
	importRules(p, r, "C17", "a header that was removed from a branch must also leave its hash map, or later submissions are answered \"already known\" / find a parent that is gone", 2, nil, "SHRINK-SIBLING")
	importRules(p, r, "C09", "parent lookup, duplicate test and the depth test all use the stored hash→height labels: a wrong label gives a wrong verdict", 11, nil, "HEIGHT-LABEL")
	importRules(p, r, "C11", "the `marked invalid` verdict after a restart comes from the list load builds: stored hashes ∪ every configured hash", 2,
		func(o *kit.Obligation) bool {
			return strings.HasPrefix(o.Construct, "load/invalid-list") || strings.HasPrefix(o.Construct, "load/every-configured")
		}, "MERGE-SHAPE")
	r.Rule("CONFIG-AS-GIVEN", "the MaxBranchDepth the depth test reads is the caller's: Config.MaxBranchDepth is written nowhere but in DefaultConfig's literal, and NewRepository stores the config it was given (0 means `no fork below the tip`, it is not a request for the default)", 2)
	checkConfigAsGiven(p, r, "CONFIG-AS-GIVEN")
	r.NotDecided = "that each verdict equals the reference model's for adversarial inputs; byte-equality of a later Save; behaviour over histories."
	r.Rule("NO-EFFECT-BEFORE-ERROR", "in ProcessHeader no path leads from an effect on repository state (field writes of Repository/Branch/HeaderData on non-fresh objects, channel sends, calls to mutators; a fallible mutator's effects are attributed to the result edges that are not effect-free) to a return whose error is not provably nil", 12)
	r.Rule("ORDER", "the refusal checks precede every effect: each effect point is dominated by the pass edge of the work, parent, duplicate, split, bits, invalid-list guards, and the new-branch arm by the depth guard", 4)
	r.Rule("GUARD-SHAPE", "the duplicate arm returns nil without effects; unknown-parent arm returns only non-nil; depth test is `longest.Height() - previousHeight > MaxBranchDepth` on the new-branch arm only; nil is answered only behind Find(hash) found or after an effect on the tree", 4)

	ph := fn(p, r, "NO-EFFECT-BEFORE-ERROR", H, "Repository.ProcessHeader")
	if ph == nil {
		return
	}
	m := headersMutators(p)
	noEffectBeforeError(p, r, "NO-EFFECT-BEFORE-ERROR", ph, m, "ProcessHeader")

	g := resolvePH(p, r, "ORDER", ph)
	if g == nil {
		return
	}
	for _, n := range []string{"parent-lookup", "duplicate-lookup"} {
		r.OKTrivial("GUARD-SHAPE", "ProcessHeader/"+n+"-scope", posOf(p, g.findPrev), "lookup searches every branch (Branches.Find on repo.branches)")
	}
	effs := m.EffectsIn(ph)
	k := newKeyer()
	// guards that every effect must be behind (assumption-free ones)
	for _, e := range effs {
		target := e.Instr
		key := k.key("ProcessHeader/effect:" + e.Desc)
		// parent found, not duplicate, not invalid
		missing := ""
		for _, gd := range []struct {
			name string
			pass []kit.Edge
		}{
			{"parent-found", g.parentFound},
			{"not-duplicate", g.notDuplicate},
			{"not-marked-invalid", g.notInvalid},
		} {
			if ok, path := kit.DominatedByEdges(ph, target, gd.pass, nil, p.Pos); !ok {
				missing += gd.name + " (bypass " + path + ") "
			}
		}
		if missing != "" {
			r.Bad("ORDER", key, posOf(p, target), "effect not behind: %s", missing)
		} else {
			r.OK("ORDER", key, posOf(p, target), "dominated by parent-found, not-duplicate and not-marked-invalid pass edges")
		}
	}

	checkNilReturnsJustified(p, r, "GUARD-SHAPE", ph, g, effs)
	// GUARD-SHAPE 1: duplicate arm: the fail edge of not-duplicate leads straight to `return nil`
	// without effects.
	if len(g.notDuplicate) == 1 {
		dup := kit.Edge{From: g.notDuplicate[0].From, Succ: 1 - g.notDuplicate[0].Succ}
		reach := kit.Reach(ph, []kit.Pt{kit.EdgeStart(dup)}, kit.Opts{})
		ok := true
		why := ""
		for _, e := range effs {
			if reach.Has(e.Instr) {
				ok, why = false, "effect "+e.Desc+" reachable from the already-known arm"
			}
		}
		for _, ret := range kit.Returns(ph) {
			if reach.Has(ret) && reach.ErrClass(ret) != kit.ErrNil {
				ok, why = false, "already-known arm can return an error: "+retLabel(ret)
			}
		}
		r.Check(ok, "GUARD-SHAPE", "ProcessHeader/duplicate-arm", posOf(p, g.notDuplicate[0].From.Instrs[len(g.notDuplicate[0].From.Instrs)-1]),
			"known header: returns nil, no effect reachable", why)
	} else {
		r.Unknown("GUARD-SHAPE", "ProcessHeader/duplicate-arm", "-", "expected exactly one duplicate test on Find(hash), found %d", len(g.notDuplicate))
	}

	// GUARD-SHAPE 2: unknown-parent arm returns only non-nil.
	{
		ok, why := true, ""
		var starts []kit.Pt
		for _, e := range g.parentFound {
			starts = append(starts, kit.EdgeStart(kit.Edge{From: e.From, Succ: 1 - e.Succ}))
		}
		reach := kit.Reach(ph, starts, kit.Opts{})
		n := 0
		for _, ret := range kit.Returns(ph) {
			if reach.Has(ret) {
				n++
				if kit.ReturnErrClass(ret) != kit.ErrNonNil && reach.ErrClass(ret) != kit.ErrNonNil {
					ok, why = false, "unknown-parent arm reaches "+retLabel(ret)+" at "+posOf(p, ret)
				}
			}
		}
		if n == 0 {
			ok, why = false, "unknown-parent arm reaches no return"
		}
		r.Check(ok, "GUARD-SHAPE", "ProcessHeader/unknown-parent-arm", posOf(p, g.findPrev), "every return on the unknown-parent arm is a non-nil error", why)
	}

	// GUARD-SHAPE 3: depth test.
	checkDepthGuard(p, r, ph, g)
}

// phGuards holds the resolved guards of ProcessHeader shared by C01/C02/C03/C08/C17.
type phGuards struct {
	findPrev     *ssa.Call // repo.branches.Find(header.PrevBlock)
	findHash     *ssa.Call // repo.branches.Find(hash)
	parentFound  []kit.Edge
	notDuplicate []kit.Edge
	notInvalid   []kit.Edge
	linkEqual    []kit.Guard // last.Hash.Equal(&header.PrevBlock): pass = equal (extend), fail = new branch
	header       *ssa.Parameter
}

func resolvePH(p *load.Program, r *kit.Report, rule string, ph *ssa.Function) *phGuards {
	g := &phGuards{}
	g.header = prmOfType(ph, "wire.BlockHeader", 0)
	if g.header == nil {
		r.Unknown(rule, "ProcessHeader/anchor:header-param", "-", "header parameter not found")
		return nil
	}
	prevBlock := p.Field(load.WirePkg, "BlockHeader", "PrevBlock")
	// the two lookups: one keyed by header.PrevBlock, one by the header's own hash
	hashDerived := func(arg ssa.Value) bool {
		return kit.DependsOn(arg, func(v ssa.Value) bool {
			cc, ok := v.(*ssa.Call)
			return ok && kit.CallID(cc) == load.WirePkg+".BlockHeader.BlockHash"
		})
	}
	for _, c := range kit.CallsTo(ph, H+".Branches.Find", H+".Branch.Find") {
		call, ok := c.(*ssa.Call)
		if !ok {
			continue
		}
		arg := call.Call.Args[len(call.Call.Args)-1]
		if f, base := kit.LoadedField(arg); f != nil && f == prevBlock && kit.Root(base) == ssa.Value(g.header) {
			if g.findPrev == nil {
				g.findPrev = call
			}
		} else if hashDerived(arg) && g.findHash == nil {
			g.findHash = call
		}
	}
	if g.findPrev == nil || g.findHash == nil {
		r.Unknown(rule, "ProcessHeader/anchor:Find", "-", "could not resolve Find(header.PrevBlock) and Find(hash) in ProcessHeader")
		return nil
	}
	branchesF := p.Field(H, "Repository", "branches")
	for _, lk := range []struct {
		name string
		call *ssa.Call
	}{{"parent-lookup", g.findPrev}, {"duplicate-lookup", g.findHash}} {
		if !(kit.CallID(lk.call) == H+".Branches.Find" && len(lk.call.Call.Args) > 0 && recvIsField(lk.call.Call.Args[0], branchesF)) {
			r.Bad(rule, "ProcessHeader/"+lk.name+"-scope", posOf(p, lk.call),
				"lookup is %s and does not search every branch in repo.branches: headers held by other branches are missed (a known header is treated as new / a known parent as unknown)", kit.ShortID(kit.CallID(lk.call)))
			return nil
		}
		r.OK(rule, "ProcessHeader/"+lk.name+"-scope", posOf(p, lk.call), "repo.branches.Find: every branch is searched, owners before their children")
	}
	nilTest := func(call *ssa.Call, wantNonNil bool) []kit.Edge {
		gs := kit.FindGuards(ph, func(c ssa.Value) (bool, bool) {
			b, ok := c.(*ssa.BinOp)
			if !ok || (b.Op != token.EQL && b.Op != token.NEQ) {
				return false, false
			}
			var v ssa.Value
			if kit.IsNilConst(b.Y) {
				v = b.X
			} else if kit.IsNilConst(b.X) {
				v = b.Y
			} else {
				return false, false
			}
			if callOf(v, 0) != call {
				return false, false
			}
			// guarded fact "is non-nil" holds when NEQ is true
			return true, (b.Op == token.NEQ) == wantNonNil
		})
		return edgesOf(gs, true)
	}
	g.parentFound = nilTest(g.findPrev, true)
	g.notDuplicate = nilTest(g.findHash, false)
	if len(g.parentFound) == 0 {
		r.Unknown(rule, "ProcessHeader/anchor:parent-test", "-", "no nil test on the parent lookup")
		return nil
	}
	if len(g.notDuplicate) == 0 {
		r.Unknown(rule, "ProcessHeader/anchor:duplicate-test", "-", "no nil test on the duplicate lookup")
		return nil
	}
	// invalid-list refusal loop: Hash32.Equal(invalidHash, &hash) inside a range over repo.invalidHashes
	invalid := p.Field(H, "Repository", "invalidHashes")
	gs := kit.FindGuards(ph, kit.CallCond(func(c *ssa.Call) bool {
		return kit.DependsOn(c.Call.Args[0], func(v ssa.Value) bool { return loadOfField(v, invalid) })
	}, load.BitcoinPkg+".Hash32.Equal"))
	for _, gd := range gs {
		// refusing when equal: the pass edge is "not equal"; the loop exit is the real pass edge.
		// Use the loop: effects must not be reachable without traversing the loop header's exit.
		_ = gd
	}
	g.notInvalid = invalidLoopExit(ph, gs)
	if len(g.notInvalid) == 0 {
		// equivalent form: a lookup of the hash in a map that is derived state of the list (a field
		// added since the reference tree, rebuilt from repo.invalidHashes after every change of it)
		g.notInvalid = invalidMemoGuard(p, r, rule, ph, invalid, hashDerived)
	}
	if len(g.notInvalid) == 0 {
		r.Unknown(rule, "ProcessHeader/anchor:invalid-loop", "-", "no refusal loop over repo.invalidHashes found")
		return nil
	}
	g.linkEqual = kit.FindGuards(ph, kit.CallCond(func(c *ssa.Call) bool {
		// receiver derives from previousBranch.Last(), arg is &header.PrevBlock
		a := c.Call.Args
		if len(a) != 2 {
			return false
		}
		f, base := kit.FieldOfAddr(a[1])
		return f == prevBlock && kit.Root(base) == ssa.Value(g.header) &&
			kit.DependsOn(a[0], func(v ssa.Value) bool {
				cc, ok := v.(*ssa.Call)
				return ok && kit.CallID(cc) == H+".Branch.Last"
			})
	}, load.BitcoinPkg+".Hash32.Equal"))
	return g
}

// invalidLoopExit: for a refusal loop `for _, x := range xs { if x.Equal(h) { return err } }`, the
// pass edges are the loop's exit edges (taken when no element matched). A loop is recognised by the
// guard's block being inside a cycle; the exit edges are the edges leaving the cycle that do not
// come from the guard's fail (match) edge.
func invalidLoopExit(f *ssa.Function, gs []kit.Guard) []kit.Edge {
	var out []kit.Edge
	for _, g := range gs {
		// blocks of the cycle containing g.If.Block(): blocks reachable from it that reach it
		b0 := g.If.Block()
		fwd := reachBlocks(b0, false)
		bwd := reachBlocks(b0, true)
		cycle := map[*ssa.BasicBlock]bool{}
		for b := range fwd {
			if bwd[b] {
				cycle[b] = true
			}
		}
		if len(cycle) < 2 {
			continue
		}
		match := kit.Edge{From: b0, Succ: g.Pass} // Equal true = refuse
		for b := range cycle {
			for i, s := range b.Succs {
				e := kit.Edge{From: b, Succ: i}
				if !cycle[s] && e != match {
					out = append(out, e)
				}
			}
		}
	}
	return out
}

func reachBlocks(b *ssa.BasicBlock, backwards bool) map[*ssa.BasicBlock]bool {
	seen := map[*ssa.BasicBlock]bool{}
	var stack []*ssa.BasicBlock
	next := func(x *ssa.BasicBlock) []*ssa.BasicBlock {
		if backwards {
			return x.Preds
		}
		return x.Succs
	}
	for _, n := range next(b) {
		stack = append(stack, n)
	}
	for len(stack) > 0 {
		x := stack[len(stack)-1]
		stack = stack[:len(stack)-1]
		if seen[x] {
			continue
		}
		seen[x] = true
		stack = append(stack, next(x)...)
	}
	return seen
}

func checkDepthGuard(p *load.Program, r *kit.Report, ph *ssa.Function, g *phGuards) {
	maxDepth := p.Field(H, "Config", "MaxBranchDepth")
	longest := p.Field(H, "Repository", "longest")
	if maxDepth == nil || longest == nil {
		r.Unknown("GUARD-SHAPE", "ProcessHeader/depth-test", "-", "anchor fields not found")
		return
	}
	isMax := func(v ssa.Value) bool { return loadOfField(v, maxDepth) }
	// find If comparing X with MaxBranchDepth
	type found struct {
		g     kit.Guard
		depth ssa.Value
	}
	var fs []found
	gs := kit.FindGuards(ph, func(c ssa.Value) (bool, bool) {
		b, ok := c.(*ssa.BinOp)
		if !ok {
			return false, false
		}
		// normal form: refuse when depth > max. guarded fact (pass) = depth <= max.
		switch {
		case isMax(b.Y) && b.Op == token.GTR: // depth > max : pass when false
			fs = append(fs, found{depth: b.X})
			return true, false
		case isMax(b.Y) && b.Op == token.LEQ: // depth <= max : pass when true
			fs = append(fs, found{depth: b.X})
			return true, true
		case isMax(b.X) && b.Op == token.LSS: // max < depth
			fs = append(fs, found{depth: b.Y})
			return true, false
		case isMax(b.X) && b.Op == token.GEQ: // max >= depth
			fs = append(fs, found{depth: b.Y})
			return true, true
		case isMax(b.X) || isMax(b.Y):
			fs = append(fs, found{depth: nil})
			return true, true
		}
		return false, false
	})
	if len(gs) != 1 || len(fs) != 1 {
		r.Unknown("GUARD-SHAPE", "ProcessHeader/depth-test", "-", "expected one comparison with Config.MaxBranchDepth, found %d", len(gs))
		return
	}
	gd := gs[0]
	pos := posOf(p, gd.If)
	if fs[0].depth == nil {
		r.Bad("GUARD-SHAPE", "ProcessHeader/depth-test", pos, "comparison with MaxBranchDepth is not of the form depth > max (refuse) / depth <= max (accept)")
		return
	}
	// depth = repo.longest.Height() - previousHeight
	lin := kit.NewLin(ph)
	d := lin.Of(fs[0].depth)
	var lh kit.Lin
	for _, c := range kit.CallsTo(ph, H+".Branch.Height") {
		if call, ok := c.(*ssa.Call); ok && recvIsField(call.Call.Args[0], longest) {
			lh = lin.Of(call)
		}
	}
	prevH := lin.Of(extractOf(g.findPrev, 1))
	want := lh.Sub(prevH)
	if !d.OK || !want.OK || !d.Equal(want) {
		r.Bad("GUARD-SHAPE", "ProcessHeader/depth-test", pos, "depth operand is %s, want repo.longest.Height() - previousHeight (= %s)", d, want)
		return
	}
	// on the new-branch arm only, and the new-branch creation is behind its pass edge
	ok := true
	why := ""
	if len(g.linkEqual) != 1 {
		ok, why = false, "link test last.Hash.Equal(&header.PrevBlock) not found exactly once"
	} else {
		newArm := g.linkEqual[0].FailEdge()
		if d, _ := kit.DominatedByEdges(ph, gd.If, []kit.Edge{newArm}, nil, p.Pos); !d {
			ok, why = false, "depth test is not confined to the new-branch arm"
		}
		for _, c := range kit.CallsTo(ph, H+".NewBranch") {
			if d, path := kit.DominatedByEdges(ph, c, []kit.Edge{gd.PassEdge()}, nil, p.Pos); !d {
				ok, why = false, "NewBranch reachable without passing the depth test: "+path
			}
		}
		// fail edge returns ErrBeyondMaxBranchDepth
		reach := kit.Reach(ph, []kit.Pt{kit.EdgeStart(gd.FailEdge())}, kit.Opts{})
		for _, ret := range kit.Returns(ph) {
			if reach.Has(ret) {
				idx := kit.ErrResultIndex(ph)
				if errCauseVia(reach, ret, idx) != "ErrBeyondMaxBranchDepth" {
					ok, why = false, "too-deep arm reaches "+retLabel(ret)
				}
			}
		}
	}
	r.Check(ok, "GUARD-SHAPE", "ProcessHeader/depth-test", pos,
		"refuses exactly when longest.Height()-previousHeight > MaxBranchDepth, on the new-branch arm, before NewBranch", why)
}

func extractOf(call *ssa.Call, idx int) ssa.Value {
	for _, ref := range *call.Referrers() {
		if e, ok := ref.(*ssa.Extract); ok && e.Index == idx {
			return e
		}
	}
	return nil
}

// checkConfigAsGiven: nothing rewrites Config.MaxBranchDepth and NewRepository keeps the caller's
// config object.
func checkConfigAsGiven(p *load.Program, r *kit.Report, rule string) {
	mbd := p.Field(H, "Config", "MaxBranchDepth")
	cfgF := p.Field(H, "Repository", "config")
	if mbd == nil || cfgF == nil {
		r.Unknown(rule, "Config.MaxBranchDepth", "-", "fields not found")
		return
	}
	dc := p.Func(H, "DefaultConfig")
	k := newKeyer()
	bad := false
	for _, f := range pkgFuncs(p, H, R) {
		if strings.HasSuffix(p.FileOf(f.Pos()), "_test.go") {
			continue
		}
		for _, w := range kit.DirectWrites(f) {
			if w.Field != mbd {
				continue
			}
			if f == dc {
				continue
			}
			bad = true
			r.Bad(rule, k.key(kit.ShortID(kit.FuncID(f))+"/store:MaxBranchDepth"), posOf(p, w.Instr), "Config.MaxBranchDepth is overwritten outside DefaultConfig: the depth test no longer compares with the caller's value (a configured 0 — no fork below the tip — would admit forks)")
		}
	}
	if !bad {
		r.OK(rule, "Config.MaxBranchDepth/writers", "-", "written only in DefaultConfig's literal")
	}
	nr := fn(p, r, rule, H, "NewRepository")
	if nr == nil {
		return
	}
	why := "NewRepository does not store a config"
	for _, w := range kit.DirectWrites(nr) {
		if w.Field != cfgF {
			continue
		}
		isCopy := false
		if a, ok := kit.Strip(w.Val).(*ssa.Alloc); ok && len(nr.Params) > 0 {
			// a defensive copy `c := *config; … &c` is the caller's configuration as well
			kit.AllInstrs(nr, func(in ssa.Instruction) {
				if st, ok := in.(*ssa.Store); ok && st.Addr == ssa.Value(a) {
					if u, ok := st.Val.(*ssa.UnOp); ok && u.Op == token.MUL && kit.Strip(u.X) == ssa.Value(nr.Params[0]) {
						isCopy = true
					}
				}
			})
		}
		if len(nr.Params) > 0 && (kit.Strip(w.Val) == ssa.Value(nr.Params[0]) || isCopy) {
			why = ""
		} else {
			why = "Repository.config is " + describe(kit.Strip(w.Val)) + ", not the config passed to NewRepository"
		}
	}
	r.Check(why == "", rule, "NewRepository/config", posOf(p, nr.Blocks[0].Instrs[0]), "Repository.config is the caller's config", why)
}

// invalidMemoGuard recognises `if _, marked := repo.<memo>[hash]; marked { refuse }` where <memo> is
// a map field of Repository that the reference tree does not have, and returns the not-marked edges.
// The memo stands for the list only if (a) every entry put into it is keyed by an element of
// repo.invalidHashes, (b) it is rebuilt as a fresh map, and (c) every function that changes the list
// rewrites it afterwards (checkNewState); these are reported under the caller's rule.
func invalidMemoGuard(p *load.Program, r *kit.Report, rule string, ph *ssa.Function, invalid *types.Var, hashDerived func(ssa.Value) bool) []kit.Edge {
	isNew := map[*types.Var]bool{}
	for _, f := range p.NewFields(H, "Repository") {
		isNew[f] = true
	}
	if len(isNew) == 0 {
		return nil
	}
	var memo *types.Var
	gs := kit.FindGuards(ph, func(c ssa.Value) (bool, bool) {
		e, ok := c.(*ssa.Extract)
		if !ok || e.Index != 1 {
			return false, false
		}
		lk, ok := e.Tuple.(*ssa.Lookup)
		if !ok || !lk.CommaOk || !hashDerived(lk.Index) {
			return false, false
		}
		fl, _ := kit.LoadedField(lk.X)
		if fl == nil || !isNew[fl] {
			return false, false
		}
		memo = fl
		return true, false // pass = not marked = `ok` false
	})
	if len(gs) == 0 || memo == nil {
		return nil
	}
	funcs := pkgFuncs(p, H)
	bad := ""
	fresh := false
	for _, g := range funcs {
		for _, w := range kit.DirectWrites(g) {
			if w.Field != memo {
				continue
			}
			switch w.Kind {
			case "store":
				if _, isMake := kit.Strip(w.Val).(*ssa.MakeMap); isMake {
					fresh = true
				} else if !kit.IsNilConst(w.Val) {
					bad = "the memo is assigned something other than a new map in " + kit.ShortID(kit.FuncID(g))
				}
			case "mapupdate":
				if !kit.DependsOn(w.Key, func(v ssa.Value) bool { return loadOfField(v, invalid) }) {
					bad = "an entry is added to the memo in " + kit.ShortID(kit.FuncID(g)) + " whose key is not an element of repo.invalidHashes"
				}
			case "delete":
				bad = "entries are deleted from the memo one by one in " + kit.ShortID(kit.FuncID(g)) + " (the list may hold a hash twice; only a rebuild from the list keeps the memo equal to it)"
			}
		}
	}
	// map updates through a local map that is then stored are seen as stores of a MakeMap; updates
	// on that local map: keys must also come from the list
	for _, g := range funcs {
		kit.AllInstrs(g, func(in ssa.Instruction) {
			mu, ok := in.(*ssa.MapUpdate)
			if !ok {
				return
			}
			mk, ok := kit.Strip(mu.Map).(*ssa.MakeMap)
			if !ok {
				return
			}
			stored := false
			for _, w := range kit.DirectWrites(g) {
				if w.Field == memo && w.Kind == "store" && kit.Strip(w.Val) == ssa.Value(mk) {
					stored = true
				}
			}
			if stored && !kit.DependsOn(mu.Key, func(v ssa.Value) bool { return loadOfField(v, invalid) }) {
				bad = "an entry is added to the memo in " + kit.ShortID(kit.FuncID(g)) + " whose key is not an element of repo.invalidHashes"
			}
		})
	}
	if bad == "" && !fresh {
		bad = "the memo is never rebuilt as a fresh map"
	}
	r.Check(bad == "", rule, "ProcessHeader/invalid-memo:"+memo.Name(), posOf(p, gs[0].If), "the lookup map is rebuilt as a new map from the elements of repo.invalidHashes", bad)
	checkNewState(p, r, rule, "ProcessHeader/invalid-memo-refreshed", H, "Repository", []*ssa.Function{ph}, funcs, func(g *ssa.Function) []ssa.Instruction {
		var out []ssa.Instruction
		for _, w := range kit.DirectWrites(g) {
			if w.Field == invalid {
				out = append(out, w.Instr)
			}
		}
		return out
	})
	if bad != "" {
		return nil
	}
	return edgesOf(gs, true)
}

// checkNilReturnsJustified: ProcessHeader answers nil in exactly two situations — the header is
// already held by a branch (behind the found edge of repo.branches.Find(hash)) or it has just been
// added to the tree (after an effect point: Add, NewBranch/append). Any other nil return claims
// "known" or "accepted" without the tree saying so; e.g. a fast path through the long-lived height
// map answers "already have" for a header that a trim removed, so after unmarking it can never be
// re-accepted.
func checkNilReturnsJustified(p *load.Program, r *kit.Report, rule string, ph *ssa.Function, g *phGuards, effs []kit.EffectPoint) {
	var dupFound []kit.Edge
	for _, e := range g.notDuplicate {
		dupFound = append(dupFound, kit.Edge{From: e.From, Succ: 1 - e.Succ})
	}
	var stops []ssa.Instruction
	for _, e := range effs {
		stops = append(stops, e.Instr)
	}
	rr := kit.Reach(ph, []kit.Pt{kit.Entry(ph)}, kit.Opts{StopAt: kit.InstrSet(stops...), BlockEdge: kit.EdgeSet(dupFound...)})
	bad := ""
	for _, ret := range kit.Returns(ph) {
		if !rr.Has(ret) {
			continue
		}
		if kit.ReturnErrClass(ret) == kit.ErrNonNil || rr.ErrClass(ret) == kit.ErrNonNil {
			continue
		}
		bad = "ProcessHeader can answer nil (" + retLabel(ret) + " at " + posOf(p, ret) + ") although the header was neither found in a branch nor added to one (" + rr.PathTo(ret, p.Pos) + ")"
	}
	r.Check(bad == "", rule, "ProcessHeader/nil-only-known-or-added", posOf(p, ph.Blocks[0].Instrs[0]), "every nil return is behind Find(hash) found or behind an effect on the tree", bad)
}
