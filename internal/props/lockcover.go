package props

import (
	"go/types"
	"sort"
	"strings"

	"golang.org/x/tools/go/ssa"

	"verif/internal/kit"
	"verif/internal/load"
)

// LOCK-COVER — a baseline rule over every access to a shared field.
//
// The LOCKSET rules of the properties name the fields their statement is about. The rest of the
// mutable state (node flags, manager bookkeeping, channel state, statistics) is covered here the way
// ERR-DISPOSITION covers the error checks: the reference tree says which lock it holds, the current
// tree must still hold it.
//
// For a function F and a field S.f that some function of the reference tree writes after
// construction ("mutable"), the reference fact is the set of locks held — on every path, in a mode
// sufficient for the access (exclusive for a write) — at every access of S.f in F, named relative to
// the access: self.<m> (a mutex of the accessed object) or recv.<m> (a mutex of F's receiver). Locks
// the caller holds count for unexported helpers that are only called directly (kit.EntryLocks).
// Objects under construction are not accesses. lockcover.json freezes the non-empty facts.
//
// On the current tree every access of S.f in F must hold every lock of the reference fact. Reads
// need the lock in any mode, writes need it exclusively, whatever the reference tree's accesses were.
// Functions and fields that the reference tree does not know are not judged (a new helper is
// expanded into its callers first), and neither are (F, S.f) pairs where the reference tree itself
// has an access outside the lock.

// LockCoverTable is the content of lockcover.json.
type LockCoverTable struct {
	Mutable      []string                       `json:"mutable"`
	Inconsistent []string                       `json:"inconsistent"`
	Cover        map[string]map[string][]string `json:"cover"`
}

func isSyncType(t types.Type) bool {
	s := t.String()
	return strings.HasPrefix(s, "sync.") || strings.HasPrefix(s, "*sync.") || strings.HasPrefix(s, "sync/atomic.") || strings.HasPrefix(s, "*sync/atomic.")
}

// ownerOf returns "pkg.Struct" for a field address whose base is a named struct of the two packages.
func ownerOf(fa *ssa.FieldAddr) (string, string, bool) {
	t := fa.X.Type()
	if pt, ok := t.Underlying().(*types.Pointer); ok {
		t = pt.Elem()
	}
	nt, ok := t.(*types.Named)
	if !ok || nt.Obj().Pkg() == nil {
		return "", "", false
	}
	path := nt.Obj().Pkg().Path()
	if path != R && path != H {
		return "", "", false
	}
	return path, nt.Obj().Name(), true
}

type lcAccess struct {
	in    *ssa.FieldAddr
	owner string // pkg.Struct
	pkg   string
	typ   string
	field *types.Var
	base  ssa.Value
	write bool
}

// allFieldAccesses lists the reads and writes of fields of the two packages' structs in fn.
func allFieldAccesses(fn *ssa.Function) []lcAccess {
	var out []lcAccess
	seen := map[*types.Var]bool{}
	var fields []*types.Var
	info := map[*types.Var][3]string{}
	kit.AllInstrs(fn, func(in ssa.Instruction) {
		fa, ok := in.(*ssa.FieldAddr)
		if !ok {
			return
		}
		pkg, typ, ok := ownerOf(fa)
		if !ok {
			return
		}
		fl, _ := kit.FieldOfAddr(fa)
		if fl == nil || isSyncType(fl.Type()) || seen[fl] {
			return
		}
		seen[fl] = true
		fields = append(fields, fl)
		info[fl] = [3]string{pkg, typ, pkg + "." + typ}
	})
	for _, fl := range fields {
		for _, a := range fieldAccesses(fn, fl) {
			fa := a.in.(*ssa.FieldAddr)
			out = append(out, lcAccess{in: fa, owner: info[fl][2], pkg: info[fl][0], typ: info[fl][1], field: fl, base: a.base, write: a.write})
		}
	}
	return out
}

// relLocks: the locks held sufficiently at access a, named relative to it.
func relLocks(f *ssa.Function, li *kit.LockInfo, in ssa.Instruction, base ssa.Value, write bool) map[string]bool {
	out := map[string]bool{}
	held := li.HeldAt(in)
	held = strings.Trim(held, "{}")
	if held == "" {
		return out
	}
	self := li.Key(base)
	recv := ""
	if f.Signature.Recv() != nil && len(f.Params) > 0 {
		recv = li.Key(f.Params[0])
	}
	for _, h := range strings.Split(held, ",") {
		i := strings.LastIndex(h, ":")
		if i < 0 {
			continue
		}
		key, mode := h[:i], h[i+1:]
		if write && mode != "w" {
			continue
		}
		j := strings.LastIndex(key, ".")
		if j < 0 {
			continue
		}
		obj, m := key[:j], key[j+1:]
		if obj == self {
			out["self."+m] = true
		}
		if recv != "" && obj == recv {
			out["recv."+m] = true
		}
	}
	return out
}

// LockCover builds the reference table from the program.
func LockCover(p *load.Program) *LockCoverTable {
	t := &LockCoverTable{Cover: map[string]map[string][]string{}}
	mutable := map[string]bool{}
	type fact struct {
		locks map[string]bool
		n     int
	}
	for _, f := range pkgFuncs(p, R, H) {
		file := p.FileOf(f.Pos())
		if strings.HasSuffix(file, "_test.go") || strings.HasSuffix(file, "test_helpers.go") || strings.HasSuffix(file, "test_nodes.go") || f.Blocks == nil {
			continue
		}
		acc := allFieldAccesses(f)
		if len(acc) == 0 {
			continue
		}
		li := kit.Lockset(f, entryLocks(p)[f])
		facts := map[string]*fact{}
		for _, a := range acc {
			if !li.Reached(a.in) || kit.IsFresh(kit.Root(a.base)) {
				continue
			}
			key := a.owner + "." + a.field.Name()
			if a.write {
				mutable[key] = true
			}
			if f.Parent() != nil {
				continue // closures do not know what their creator holds
			}
			rl := relLocks(f, li, a.in, a.base, a.write)
			if fc := facts[key]; fc == nil {
				facts[key] = &fact{rl, 1}
			} else {
				for l := range fc.locks {
					if !rl[l] {
						delete(fc.locks, l)
					}
				}
				fc.n++
			}
		}
		fid := kit.FuncID(f)
		for key, fc := range facts {
			if len(fc.locks) == 0 {
				continue
			}
			if t.Cover[fid] == nil {
				t.Cover[fid] = map[string][]string{}
			}
			var ls []string
			for l := range fc.locks {
				ls = append(ls, l)
			}
			sort.Strings(ls)
			t.Cover[fid][key] = ls
		}
	}
	// the guard of a field: the mutex names common to the facts of all functions. A lock that one
	// function happens to hold as well (a wider critical section) is not part of the rule; a field
	// whose functions agree on no lock (written under one mutex, read under another: requesterID,
	// NodeManager.blockManager — set once during setup) is left out and listed as inconsistent.
	guard := map[string]map[string]bool{}
	for _, m := range t.Cover {
		for key, ls := range m {
			names := map[string]bool{}
			for _, l := range ls {
				names[l[strings.Index(l, ".")+1:]] = true
			}
			if guard[key] == nil {
				guard[key] = names
			} else {
				for n := range guard[key] {
					if !names[n] {
						delete(guard[key], n)
					}
				}
			}
		}
	}
	for fid, m := range t.Cover {
		for key, ls := range m {
			var keep []string
			for _, l := range ls {
				if guard[key][l[strings.Index(l, ".")+1:]] {
					keep = append(keep, l)
				}
			}
			if len(keep) == 0 {
				delete(m, key)
			} else {
				m[key] = keep
			}
		}
		if len(m) == 0 {
			delete(t.Cover, fid)
		}
	}
	for key, g := range guard {
		if len(g) == 0 && mutable[key] {
			t.Inconsistent = append(t.Inconsistent, key)
		}
	}
	sort.Strings(t.Inconsistent)
	for k := range mutable {
		t.Mutable = append(t.Mutable, k)
	}
	sort.Strings(t.Mutable)
	// only mutable fields are kept
	for fid, m := range t.Cover {
		for key := range m {
			if !mutable[key] {
				delete(m, key)
			}
		}
		if len(m) == 0 {
			delete(t.Cover, fid)
		}
	}
	return t
}

// lockCoverOwners: struct → properties under which an access outside the lock is reported. A
// property owns a struct when its statement quantifies over interleavings of the operations on that
// state. NodeManager and BitcoinNode mix such state with bookkeeping that no property's statement
// depends on (request times, statistics, the node list whose length only paces new connections), so
// single fields are owned instead (lockCoverFields): the flags that decide when block
// synchronisation runs (C05), the handler table that decides what a peer's messages reach (C13) and
// whose racing update aborts the process (C15), and the connection pair that Stop needs to make Run
// return (C15).
var lockCoverOwners = map[string][]string{
	H + ".Repository":            {"C09"},
	H + ".Branches":              {"C09"},
	H + ".Branch":                {"C09"},
	H + ".HeaderData":            {"C09"},
	R + ".TxManager":             {"C06"},
	R + ".txMap":                 {"C06"},
	R + ".TxData":                {"C06"},
	R + ".BlockManager":          {"C16"},
	R + ".BlockDownloader":       {"C16"},
	R + ".StoragePeerRepository": {"C20"},
	R + ".Peer":                  {"C20"},
	R + ".MessageChannel":        {"C15"},
}

var lockCoverFields = map[string][]string{
	R + ".NodeManager.blockSyncNeeded":         {"C05"},
	R + ".NodeManager.blockManagerThread":      {"C05"},
	R + ".NodeManager.initialDelayComplete":    {"C05"},
	R + ".NodeManager.inSync":                  {"C05"},
	R + ".BitcoinNode.handlers":                {"C13", "C15"},
	R + ".BitcoinNode.connection":              {"C15"},
	R + ".BitcoinNode.connectionClosedLocally": {"C15"},
}

func ownsLockCover(property string) bool {
	for _, m := range []map[string][]string{lockCoverOwners, lockCoverFields} {
		for _, ps := range m {
			for _, q := range ps {
				if q == property {
					return true
				}
			}
		}
	}
	return false
}

func checkLockCover(p *load.Program, r *kit.Report, rule string) {
	ref := p.RefLockCover
	if ref == nil {
		r.Unknown(rule, "lockcover/reference", "-", "no reference table of lock coverage (lockcover.json)")
		return
	}
	owned := func(owner, field string) bool {
		for _, q := range append(append([]string{}, lockCoverOwners[owner]...), lockCoverFields[owner+"."+field]...) {
			if q == r.Property {
				return true
			}
		}
		return false
	}
	k := newKeyer()
	pairs := 0
	var fids []string
	for fid := range ref {
		fids = append(fids, fid)
	}
	sort.Strings(fids)
	for _, fid := range fids {
		f := p.FuncByID(fid)
		if f == nil || f.Blocks == nil {
			continue
		}
		var li *kit.LockInfo
		var keys []string
		for key := range ref[fid] {
			keys = append(keys, key)
		}
		sort.Strings(keys)
		for _, key := range keys {
			i := strings.LastIndex(key, ".")
			owner, fname := key[:i], key[i+1:]
			if !owned(owner, fname) {
				continue
			}
			j := strings.LastIndex(owner, ".")
			fv := p.Field(owner[:j], owner[j+1:], fname)
			if fv == nil {
				continue
			}
			acc := fieldAccesses(f, fv)
			if len(acc) == 0 {
				continue
			}
			if li == nil {
				li = kit.Lockset(f, entryLocks(p)[f])
			}
			pairs++
			bad := ""
			at := acc[0].in
			n := 0
			for _, a := range acc {
				if !li.Reached(a.in) || kit.IsFresh(kit.Root(a.base)) {
					continue
				}
				n++
				rl := relLocks(f, li, a.in, a.base, a.write)
				for _, want := range ref[fid][key] {
					w := want
					if d := strings.Index(want, "."); d >= 0 {
						w = want[:d+1] + curName(p, want[d+1:])
					}
					if !rl[w] && bad == "" {
						mode := "read"
						if a.write {
							mode = "write"
						}
						at = a.in
						bad = mode + " of " + owner[j+1:] + "." + fv.Name() + " without " + strings.Replace(strings.Replace(w, "self.", "the object's ", 1), "recv.", "the receiver's ", 1) + " held" + map[bool]string{true: " exclusively", false: ""}[a.write] + " (held: " + li.HeldAt(a.in) + "); the reference tree holds it at every access in this function: a concurrent caller can see or overwrite a half-made update"
					}
				}
			}
			r.Check(bad == "", rule, k.key(kit.ShortID(fid)+"/"+owner[j+1:]+"."+fname), posOf(p, at), itoa(n)+" accesses under "+strings.Join(ref[fid][key], ", "), bad)
		}
	}
	if pairs == 0 {
		r.Unknown(rule, "lockcover/pairs", "-", "no (function, field) pair of the reference table belongs to this property's structs")
	}
	r.CallSites += pairs
}

// LOCK-RELEASE — no function returns with a mutex it took itself still held (no deferred unlock
// covering that return). The early `return` added in front of an explicit Unlock is the commonest
// way to freeze a component: the next caller blocks for ever, and with it whatever waits for that
// caller (Stop, the manager's polling, Run).
var lockReleaseOwners = map[string][]string{
	H + ".Repository":            {"C08", "C09"},
	R + ".TxManager":             {"C06"},
	R + ".txMap":                 {"C06"},
	R + ".TxData":                {"C06"},
	R + ".BlockManager":          {"C16"},
	R + ".BlockDownloader":       {"C16"},
	R + ".StoragePeerRepository": {"C20"},
	R + ".MessageChannel":        {"C15"},
	R + ".BitcoinNode":           {"C13", "C15"},
	R + ".NodeManager":           {"C05", "C15"},
}

func ownsLockRelease(property string) bool {
	for _, ps := range lockReleaseOwners {
		for _, q := range ps {
			if q == property {
				return true
			}
		}
	}
	return false
}

func checkLockRelease(p *load.Program, r *kit.Report, rule string) {
	owned := func(owner string) bool {
		for _, q := range lockReleaseOwners[owner] {
			if q == r.Property {
				return true
			}
		}
		return false
	}
	k := newKeyer()
	n := 0
	for _, f := range pkgFuncs(p, R, H) {
		if f.Blocks == nil || strings.HasSuffix(p.FileOf(f.Pos()), "_test.go") || strings.HasSuffix(p.FileOf(f.Pos()), "test_helpers.go") || strings.HasSuffix(p.FileOf(f.Pos()), "test_nodes.go") {
			continue
		}
		// the locks this function takes, with the struct that holds the mutex
		lin := kit.NewLin(f)
		taken := map[string]string{} // key → owner struct
		type dfr struct {
			key, mode string
			b         *ssa.BasicBlock
		}
		var defers []dfr
		kit.AllInstrs(f, func(in ssa.Instruction) {
			c, ok := in.(ssa.CallInstruction)
			if !ok {
				return
			}
			key, mode, op := kit.LockOp(lin, c)
			if op == 0 {
				return
			}
			if _, isDefer := in.(*ssa.Defer); isDefer {
				if op < 0 {
					defers = append(defers, dfr{key, mode, in.Block()})
				}
				return
			}
			if op > 0 {
				owner := ""
				if args := c.Common().Args; len(args) > 0 {
					if fa, ok := args[0].(*ssa.FieldAddr); ok {
						if pkg, typ, ok := ownerOf(fa); ok {
							owner = pkg + "." + typ
						}
					}
				}
				taken[key+":"+mode] = owner
			}
		})
		if len(taken) == 0 {
			continue
		}
		anyOwned := false
		for _, o := range taken {
			if owned(o) {
				anyOwned = true
			}
		}
		if !anyOwned {
			continue
		}
		entry := entryLocks(p)[f]
		li := kit.Lockset(f, entry)
		name := kit.ShortID(kit.FuncID(f))
		bad := ""
		var at ssa.Instruction = f.Blocks[0].Instrs[0]
		for _, ret := range kit.Returns(f) {
			if !li.Reached(ret) {
				continue
			}
			for km, owner := range taken {
				if !owned(owner) || entry[km] {
					continue
				}
				i := strings.LastIndex(km, ":")
				key, mode := km[:i], km[i+1:]
				if !li.Holds(ret, key, mode == "w") {
					continue
				}
				if mode == "r" && li.Holds(ret, key, true) {
					continue // reported for the write mode
				}
				covered := false
				for _, d := range defers {
					if d.key == key && d.mode == mode && d.b.Dominates(ret.Block()) {
						covered = true
					}
				}
				if !covered {
					at = ret
					bad = name + " returns (" + retLabel(ret) + ") with " + key + " still held (no deferred unlock covers this return): the next caller that needs the lock blocks for ever, and with it everything that waits for that caller"
				}
			}
		}
		// the same along single paths: the must-hold sets above are merged at joins, so a lock
		// that only one arm leaves held (an early `return` turned `break` by an expanded helper, the
		// unlock on the other arm) is not held "on every path" at the return behind the join. From
		// each acquisition the flow engine (which keeps flags and result temporaries apart) must not
		// reach a return without passing an unlock of that lock.
		if bad == "" {
			var acquires []ssa.Instruction
			acqKey := map[ssa.Instruction]string{}
			unlocks := map[string][]ssa.Instruction{}
			kit.AllInstrs(f, func(in ssa.Instruction) {
				c, ok := in.(ssa.CallInstruction)
				if !ok {
					return
				}
				if _, isDefer := in.(*ssa.Defer); isDefer {
					return
				}
				if _, isGo := in.(*ssa.Go); isGo {
					return
				}
				key, mode, op := kit.LockOp(lin, c)
				if op > 0 && owned(taken[key+":"+mode]) && !entry[key+":"+mode] {
					acquires = append(acquires, in)
					acqKey[in] = key + ":" + mode
				} else if op < 0 {
					unlocks[key+":"+mode] = append(unlocks[key+":"+mode], in)
				}
			})
			for _, a := range acquires {
				km := acqKey[a]
				i := strings.LastIndex(km, ":")
				key, mode := km[:i], km[i+1:]
				rr := kit.Reach(f, kit.After(a), kit.Opts{StopAt: kit.InstrSet(unlocks[km]...)})
				for _, ret := range kit.Returns(f) {
					if !rr.Has(ret) {
						continue
					}
					covered := false
					for _, d := range defers {
						if d.key == key && d.mode == mode && d.b.Dominates(ret.Block()) {
							covered = true
						}
					}
					if !covered {
						at = ret
						bad = name + " can return (" + retLabel(ret) + ", path " + rr.PathTo(ret, p.Pos) + ") with " + key + " still held: no unlock on that path and no deferred unlock covers the return; the next caller that needs the lock blocks for ever, and with it everything that waits for that caller"
					}
				}
			}
		}
		n++
		r.Check(bad == "", rule, k.key(name+"/returns-unlocked"), posOf(p, at), "every return releases what the function locked", bad)
	}
	if n == 0 {
		r.Unknown(rule, "lockrelease/functions", "-", "no function takes a mutex of this property's structs")
	}
}
