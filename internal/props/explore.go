package props

import (
	"fmt"
	"go/types"
	"sort"
	"strings"

	"golang.org/x/tools/go/ssa"

	"verif/internal/kit"
	"verif/internal/load"
)

// ExploreLocks is a discovery aid, not a check (Engler et al.: statistics only propose
// candidates): for every struct of the two packages that has a mutex field, it counts for every
// other field how many accesses happen with which lock of the same object held. Fields with mixed
// discipline are candidates to read; confirmed ones become explicit LOCKSET table entries.
func ExploreLocks(p *load.Program) {
	type stat struct {
		locks map[string]int
		none  int
		sites []string
	}
	stats := map[string]*stat{}
	for _, f := range pkgFuncs(p, R, H) {
		if strings.HasSuffix(p.FileOf(f.Pos()), "_test.go") {
			continue
		}
		var li *kit.LockInfo
		kit.AllInstrs(f, func(in ssa.Instruction) {
			fa, ok := in.(*ssa.FieldAddr)
			if !ok {
				return
			}
			fl, base := kit.FieldOfAddr(fa)
			if fl == nil {
				return
			}
			owner := ownerStruct(p, fl)
			if owner == "" {
				return
			}
			if _, isMutex := fl.Type().(*types.Named); isMutex && strings.Contains(fl.Type().String(), "sync.") {
				return
			}
			if kit.IsFresh(kit.Root(base)) {
				return
			}
			if li == nil {
				li = kit.Lockset(f, nil)
			}
			if !li.Reached(in) {
				return
			}
			key := owner + "." + fl.Name()
			s := stats[key]
			if s == nil {
				s = &stat{locks: map[string]int{}}
				stats[key] = s
			}
			held := li.HeldAt(in)
			bk := li.Key(base)
			found := false
			for _, h := range strings.Split(strings.Trim(held, "{}"), ",") {
				if h == "" {
					continue
				}
				if strings.HasPrefix(h, bk+".") {
					name := strings.TrimPrefix(h, bk+".")
					name = strings.TrimSuffix(strings.TrimSuffix(name, ":w"), ":r")
					s.locks[name]++
					found = true
				}
			}
			if !found {
				s.none++
				s.sites = append(s.sites, kit.ShortID(kit.FuncID(f))+"@"+posOf(p, in)+" held="+held)
			}
		})
	}
	var keys []string
	for k := range stats {
		keys = append(keys, k)
	}
	sort.Strings(keys)
	for _, k := range keys {
		s := stats[k]
		if len(s.locks) == 0 {
			continue
		}
		fmt.Printf("%-50s locked=%v unlocked=%d\n", k, s.locks, s.none)
		if s.none > 0 && s.none <= 6 {
			for _, x := range s.sites {
				fmt.Println("      ", x)
			}
		}
	}
}
