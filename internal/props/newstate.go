package props

import (
	"go/types"
	"strings"

	"golang.org/x/tools/go/ssa"

	"verif/internal/kit"
	"verif/internal/load"
)

// checkNewState: a struct field that does not exist in the reference tree and that one of the
// given query functions reads is state DERIVED from what those queries used to compute their answer
// from (a cache, a summary, a memo). The answer stays a function of the underlying data only if
// every function that changes the underlying data also rewrites the derived field (directly, in a
// callee, or — for unexported helpers — in every caller). `changes` says whether a function
// changes the underlying data.
func checkNewState(p *load.Program, r *kit.Report, rule, key, pkg, typ string, readers []*ssa.Function, funcs []*ssa.Function, changes func(g *ssa.Function) []ssa.Instruction) {
	newF := p.NewFields(pkg, typ)
	if len(newF) == 0 {
		r.OKTrivial(rule, key, "-", "%s has no state beyond the reference tree's fields", typ)
		return
	}
	isNew := map[*types.Var]bool{}
	for _, f := range newF {
		if strings.Contains(f.Type().String(), "sync.") {
			continue
		}
		isNew[f] = true
	}
	// which of them do the queries read (directly or in callees of the package)?
	read := map[*types.Var]bool{}
	seen := map[*ssa.Function]bool{}
	var visit func(f *ssa.Function, depth int)
	visit = func(f *ssa.Function, depth int) {
		if f == nil || seen[f] || depth > 4 || f.Blocks == nil {
			return
		}
		seen[f] = true
		kit.AllInstrs(f, func(in ssa.Instruction) {
			if fa, ok := in.(*ssa.FieldAddr); ok {
				if fl, _ := kit.FieldOfAddr(fa); fl != nil && isNew[fl] {
					if diagnosticOnly(fa, func(addr ssa.Value) bool {
						for i := 0; i < 8; i++ {
							a, ok := addr.(*ssa.FieldAddr)
							if !ok {
								return false
							}
							if f2, _ := kit.FieldOfAddr(a); f2 != nil && isNew[f2] {
								return true
							}
							addr = a.X
						}
						return false
					}) {
						return // counters/statistics: never used for an answer
					}
					for _, ref := range *fa.Referrers() {
						if u, ok := ref.(*ssa.UnOp); ok && u.Op.String() == "*" {
							read[fl] = true
						}
					}
				}
			}
			if c, ok := in.(ssa.CallInstruction); ok {
				if sc := kit.StaticCallee(c); sc != nil && sc.Pkg != nil && strings.HasPrefix(sc.Pkg.Pkg.Path(), load.RootPkg) {
					visit(sc, depth+1)
				}
			}
		})
	}
	for _, f := range readers {
		visit(f, 0)
	}
	if len(read) == 0 {
		r.OKTrivial(rule, key, "-", "the queries read none of the %d new fields of %s", len(isNew), typ)
		return
	}
	callers := map[*ssa.Function][]*ssa.Function{}
	for _, g := range funcs {
		kit.AllInstrs(g, func(in ssa.Instruction) {
			if c, ok := in.(ssa.CallInstruction); ok {
				if sc := kit.StaticCallee(c); sc != nil {
					callers[sc] = append(callers[sc], g)
				}
			}
		})
	}
	bad := ""
	for d := range read {
		writesD := map[*ssa.Function]bool{}
		for _, g := range funcs {
			for _, w := range kit.DirectWrites(g) {
				if w.Field == d {
					writesD[g] = true
				}
			}
		}
		for changed := true; changed; {
			changed = false
			for _, g := range funcs {
				if writesD[g] {
					continue
				}
				kit.AllInstrs(g, func(in ssa.Instruction) {
					if c, ok := in.(ssa.CallInstruction); ok {
						if sc := kit.StaticCallee(c); sc != nil && writesD[sc] && !writesD[g] {
							writesD[g] = true
							changed = true
						}
					}
				})
			}
		}
		var covered func(g *ssa.Function, depth int) bool
		covered = func(g *ssa.Function, depth int) bool {
			if writesD[g] {
				return true
			}
			if depth > 4 || g.Object() == nil || g.Object().Exported() || len(callers[g]) == 0 {
				return false
			}
			for _, c := range callers[g] {
				if !covered(c, depth+1) {
					return false
				}
			}
			return true
		}
		for _, g := range funcs {
			if g.Parent() != nil || strings.HasSuffix(p.FileOf(g.Pos()), "_test.go") {
				continue
			}
			cps := changes(g)
			if len(cps) == 0 {
				continue
			}
			// a rewrite of the derived field must follow each change (a reset before the change
			// does not account for it)
			okAfter := true
			for _, cp := range cps {
				rr := kit.Reach(g, kit.After(cp), kit.Opts{})
				found := false
				kit.AllInstrs(g, func(in ssa.Instruction) {
					if !rr.Has(in) {
						return
					}
					if st, ok := in.(*ssa.Store); ok {
						if fl, _ := kit.FieldOfAddr(st.Addr); fl == d {
							found = true
						}
					}
					if c, ok := in.(ssa.CallInstruction); ok {
						if sc := kit.StaticCallee(c); sc != nil && writesD[sc] {
							found = true
						}
					}
				})
				if !found {
					okAfter = false
				}
			}
			if okAfter {
				continue
			}
			wasWriter := writesD[g]
			writesD[g] = false
			cov := covered(g, 0)
			writesD[g] = wasWriter
			if !cov {
				if bad == "" {
					bad = "the queries read " + typ + "." + d.Name() + ", a field added since the reference tree (derived state), which is not rewritten by every function that changes the data it is derived from — a stale value answers instead of the data: "
				}
				bad += kit.ShortID(kit.FuncID(g)) + " "
			}
		}
	}
	r.Check(bad == "", rule, key, "-", "new state read by the queries is refreshed by every mutator of the underlying data", bad)
}

// diagnosticOnly reports whether the field address fa is used for bookkeeping only: it is stored
// to, and whatever is loaded from it flows (through arithmetic, conversions and phis) only into
// stores to addresses for which isDiag holds, or into a comparison that guards nothing but such
// stores (`if size > s.largest { s.largest = size }`). A field used this way cannot influence a
// result.
func diagnosticOnly(fa *ssa.FieldAddr, isDiag func(addr ssa.Value) bool) bool {
	seen := map[ssa.Value]bool{}
	var feeds func(v ssa.Value) bool
	sideBlockOK := func(b *ssa.BasicBlock) bool {
		for _, in := range b.Instrs {
			switch x := in.(type) {
			case *ssa.FieldAddr, *ssa.BinOp, *ssa.Convert, *ssa.Jump, *ssa.DebugRef:
			case *ssa.UnOp:
			case *ssa.Store:
				if !isDiag(x.Addr) {
					return false
				}
			default:
				return false
			}
		}
		return true
	}
	ifOK := func(iff *ssa.If) bool {
		b := iff.Block()
		s0, s1 := b.Succs[0], b.Succs[1]
		tri := func(side, other *ssa.BasicBlock) bool {
			return len(side.Preds) == 1 && len(side.Succs) == 1 && side.Succs[0] == other && sideBlockOK(side)
		}
		if tri(s0, s1) || tri(s1, s0) {
			return true
		}
		// diamond: both sides only book-keep and meet again
		return len(s0.Preds) == 1 && len(s1.Preds) == 1 && len(s0.Succs) == 1 && len(s1.Succs) == 1 && s0.Succs[0] == s1.Succs[0] && sideBlockOK(s0) && sideBlockOK(s1)
	}
	feeds = func(v ssa.Value) bool {
		if seen[v] {
			return true
		}
		seen[v] = true
		if v.Referrers() == nil {
			return true
		}
		for _, ref := range *v.Referrers() {
			switch x := ref.(type) {
			case *ssa.BinOp:
				if !feeds(x) {
					return false
				}
			case *ssa.Convert:
				if !feeds(x) {
					return false
				}
			case *ssa.ChangeType:
				if !feeds(x) {
					return false
				}
			case *ssa.Phi:
				if !feeds(x) {
					return false
				}
			case *ssa.Store:
				if x.Val != v || !isDiag(x.Addr) {
					return false
				}
			case *ssa.If:
				if !ifOK(x) {
					return false
				}
			case *ssa.DebugRef:
			default:
				return false
			}
		}
		return true
	}
	for _, ref := range *fa.Referrers() {
		switch x := ref.(type) {
		case *ssa.Store:
			if x.Addr != ssa.Value(fa) {
				return false
			}
		case *ssa.UnOp:
			if !feeds(x) {
				return false
			}
		case *ssa.FieldAddr:
			if !diagnosticOnly(x, isDiag) {
				return false
			}
		case *ssa.DebugRef:
		default:
			return false
		}
	}
	return true
}
