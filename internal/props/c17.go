package props

import (
	"go/token"
	"strings"

	"golang.org/x/tools/go/ssa"

	"verif/internal/kit"
	"verif/internal/load"
)

func init() { register("C17", checkC17) }

func checkC17(p *load.Program, r *kit.Report) {
	importRules(p, r, "C11", "load merges the stored list of invalid hashes with the configured one: a copy into a destination of length 0 copies nothing and every mark made at run time is lost with the restart", 1,
		func(o *kit.Obligation) bool { return strings.Contains(o.Construct, "Repository.load/") }, "COPY-INTO-EMPTY")
	r.Rule("REMOVE-ONE", "MarkHeaderNotInvalid takes exactly the matching hash out of the invalid list", 1)
	checkUnmarkRemovesOne(p, r, "REMOVE-ONE")
	importRules(p, r, "C01", "after a marked header is trimmed the best chain falls back to the heaviest remaining chain: Longest() compares every candidate with the best one found so far", 1, nil, "ARGMAX")
	importRules(p, r, "C11", "the marking survives Save/Load on every kind of store: load reads the stored list before any exit that can succeed, also the legacy-store exit through migrate", 1, nil, "RESTORE-INVALID-LIST")
	importRules(p, r, "C01", "the fallback to the heaviest remaining chain must survive a restart: load selects the most-work branch, not the first one of the index (the trimmed main branch until the next consolidation)", 1,
		func(o *kit.Obligation) bool { return strings.Contains(o.Construct, "Repository.load") }, "WRITERS")
	importRules(p, r, "C09", "after the marked header was trimmed the header files still hold it and its descendants until the next save: range queries must not read above the tip", 3, nil, "TIP-BOUND")
	importRules(p, r, "C10", "Branches.Trim finds the descendants of a trimmed branch by the identity of their parent pointers: Clean must re-attach every branch to the rebuilt branch objects, or a descendant of the marked header survives the trim and can become the best chain", 1,
		func(o *kit.Obligation) bool { return strings.HasPrefix(o.Construct, "consolidate/") }, "COVER-ALL")
	importRules(p, r, "C11", "the marking survives Save/Load only if Save rewrites a branch that Trim has shortened: Branch.Save must always write previous[:offset difference] ++ the in-memory headers", 2,
		func(o *kit.Obligation) bool { return strings.HasPrefix(o.Construct, "Branch.Save") }, "MERGE-SHAPE")
	r.NotDecided = "fallback to the heaviest remaining chain and exclusion of descendants as behaviour over histories; HashHeight still answering with the old height for trimmed headers (the long-lived map never shrinks)."
	r.Rule("PERSIST-UNDER-LOCK", "every call of saveInvalidHashes from a Repository method is made with the repository mutex held (the list is serialised and written in the critical section that read it): a stale snapshot written after the lock was released would undo a concurrent MarkHeaderInvalid/MarkHeaderNotInvalid on disk", 4)
	checkPersistUnderLock(p, r, "PERSIST-UNDER-LOCK", H, "Repository", func(c ssa.CallInstruction) string {
		if kit.CallID(c) == H+".saveInvalidHashes" {
			return "the invalid-hash list"
		}
		return ""
	}, 4)
	r.Rule("FLAG-RULE", "a trimmed header stays in the long-lived height map: CheckHeader/GetHeader report `in most-work chain` only after comparing the hash with the most-work chain's header at that height, never from map membership", 4)
	checkFlagRule(p, r)
	r.Rule("NIL-FLOW", "a pointer known nil by a dominating test edge is never dereferenced nor passed to a callee that dereferences that parameter before testing it (all functions of the two packages)", 1)
	r.Rule("GUARD-DOM", "every effect of ProcessHeader is behind the refusal loop over repo.invalidHashes comparing with the submitted hash; Branches.Trim in MarkHeaderInvalid is behind the found edge of Find(hash) and gets that call's branch and height", 6)
	r.Rule("MUST-PASS", "after the invalid list changes, saveInvalidHashes(repo.invalidHashes) precedes every nil return (MarkHeaderInvalid, MarkHeaderNotInvalid); after a successful Trim the tip is re-selected with Longest() on every path; Save and clean persist the list", 5)
	r.Rule("SHRINK-SIBLING", "every function that re-slices Branch.headers also deletes the dropped hashes from heightsMap", 2)
	r.Rule("TRIM-SHAPE", "Branches.Trim removes branches whose parent was removed (transitively) and children of the trimmed branch attached at or above the trimmed height", 2)

	// NIL-FLOW over both packages
	tests, reports := 0, 0
	k := newKeyer()
	for _, f := range pkgFuncs(p, H, R) {
		reps, n := kit.NilFlow(f)
		tests += n
		for _, rep := range reps {
			reports++
			what := "dereferenced"
			if rep.Callee != nil {
				what = "passed to " + kit.ShortID(kit.FuncID(rep.Callee)) + ", which dereferences it unconditionally"
			}
			r.Bad("NIL-FLOW", k.key(kit.ShortID(kit.FuncID(f))+"/nil:"+describe(rep.Value)), posOf(p, rep.Use),
				"%s is nil on this path (test at %s) and is %s", describe(rep.Value), posOf(p, rep.Test), what)
		}
	}
	r.CallSites += tests
	if tests < 20 {
		r.Unknown("NIL-FLOW", "nil-tests", "-", "only %d pointer nil tests found in the two packages; expected many more", tests)
	} else if reports == 0 {
		r.OK("NIL-FLOW", "all-functions", "-", "%d pointer nil tests examined, no known-nil value reaches a dereference", tests)
	}

	ph := fn(p, r, "GUARD-DOM", H, "Repository.ProcessHeader")
	invalidF := p.Field(H, "Repository", "invalidHashes")
	longestF := p.Field(H, "Repository", "longest")
	if ph != nil {
		if g := resolvePH(p, r, "GUARD-DOM", ph); g != nil {
			m := headersMutators(p)
			kk := newKeyer()
			// "unmarking makes the header acceptable again": a trimmed header stays in the long-lived
			// height map, so `already known` may only be answered from the branches
			checkNilReturnsJustified(p, r, "GUARD-DOM", ph, g, m.EffectsIn(ph))
			for _, e := range m.EffectsIn(ph) {
				ok, path := kit.DominatedByEdges(ph, e.Instr, g.notInvalid, nil, p.Pos)
				r.Check(ok, "GUARD-DOM", kk.key("ProcessHeader/invalid-before:"+e.Desc), posOf(p, e.Instr), "behind the invalid-list loop",
					"a header marked invalid can be accepted: effect reachable without scanning repo.invalidHashes: "+path)
			}
			// the loop compares with the submitted header's hash and returns ErrHeaderMarkedInvalid
			gs := kit.FindGuards(ph, kit.CallCond(func(c *ssa.Call) bool {
				return kit.DependsOn(c.Call.Args[0], func(v ssa.Value) bool { return loadOfField(v, invalidF) })
			}, load.BitcoinPkg+".Hash32.Equal"))
			bad := ""
			for _, gd := range gs {
				c := gd.If.Cond.(*ssa.Call)
				if !kit.DependsOn(c.Call.Args[1], func(v ssa.Value) bool {
					cc, ok := v.(*ssa.Call)
					return ok && kit.CallID(cc) == load.WirePkg+".BlockHeader.BlockHash"
				}) {
					bad = "invalid-list entries are not compared with the submitted header's hash"
				}
				reach := kit.Reach(ph, []kit.Pt{kit.EdgeStart(gd.PassEdge())}, kit.Opts{})
				for _, ret := range kit.Returns(ph) {
					if reach.Has(ret) && errCauseVia(reach, ret, 0) != "ErrHeaderMarkedInvalid" {
						bad = "a marked header reaches " + retLabel(ret)
					}
				}
			}
			if len(gs) > 0 {
				r.Check(bad == "", "GUARD-DOM", "ProcessHeader/invalid-refusal", posOf(p, gs[0].If), "marked hash returns ErrHeaderMarkedInvalid", bad)
			}
		}
	}

	// MarkHeaderInvalid
	if f := fn(p, r, "MUST-PASS", H, "Repository.MarkHeaderInvalid"); f != nil {
		checkSaveAfterChange(p, r, f, invalidF, "MarkHeaderInvalid")
		trims := kit.CallsTo(f, H+".Branches.Trim")
		finds := kit.CallsTo(f, H+".Branches.Find")
		if len(trims) != 1 || len(finds) != 1 {
			r.Bad("GUARD-DOM", "MarkHeaderInvalid/trim", posOf(p, f.Blocks[0].Instrs[0]), "expected one Find and one Trim, found %d and %d: a marked header is not removed from the tree", len(finds), len(trims))
		} else {
			trim, find := trims[0].(*ssa.Call), finds[0].(*ssa.Call)
			found := kit.FindGuards(f, func(c ssa.Value) (bool, bool) {
				b, ok := c.(*ssa.BinOp)
				if !ok || (b.Op != token.EQL && b.Op != token.NEQ) || !kit.IsNilConst(b.Y) || callOf(b.X, 0) != find {
					return false, false
				}
				return true, b.Op == token.NEQ
			})
			bad := ""
			if ok, _ := kit.DominatedByEdges(f, trim, edgesOf(found, true), nil, p.Pos); !ok {
				bad = "Trim is not confined to the edge where Find(hash) found the header"
			}
			a := trim.Call.Args
			if callOf(a[1], 0) != find || kit.Strip(a[2]) != extractOf(find, 1) {
				bad = "Trim does not receive the branch and height returned by Find(hash)"
			}
			if hashPrm := f.Params[len(f.Params)-1]; kit.Strip(find.Call.Args[len(find.Call.Args)-1]) != ssa.Value(hashPrm) {
				bad = "Find is not keyed by the marked hash"
			}
			r.Check(bad == "", "GUARD-DOM", "MarkHeaderInvalid/trim", posOf(p, trim), "Trim(branch, height) of Find(hash), on the found edge", bad)

			// after Trim succeeds: Longest() re-selected and stored on every path
			eg := errNilGuards(f, trim)
			var starts []kit.Pt
			for _, e := range edgesOf(eg, true) {
				starts = append(starts, kit.EdgeStart(e))
			}
			if len(starts) == 0 {
				starts = kit.After(trim)
			}
			var stores []ssa.Instruction
			for _, w := range kit.DirectWrites(f) {
				if w.Field == longestF {
					if c := isCallTo(w.Val, H+".Branches.Longest"); c != nil {
						// the Longest() call happens after the Trim
						if kit.Reach(f, kit.After(trim), kit.Opts{}).Has(c) {
							stores = append(stores, w.Instr)
						}
					}
				}
			}
			// leaving the tip alone where it already is the re-selected branch is the same as storing it
			afterTrim := kit.Reach(f, kit.After(trim), kit.Opts{})
			same := kit.FindGuards(f, func(c ssa.Value) (bool, bool) {
				b, ok := c.(*ssa.BinOp)
				if !ok || (b.Op != token.EQL && b.Op != token.NEQ) {
					return false, false
				}
				x, y := b.X, b.Y
				if loadOfField(y, longestF) {
					x, y = y, x
				}
				if !loadOfField(x, longestF) {
					return false, false
				}
				lc := isCallTo(y, H+".Branches.Longest")
				if lc == nil || !afterTrim.Has(lc) {
					return false, false
				}
				return true, b.Op == token.EQL
			})
			reach := kit.Reach(f, starts, kit.Opts{StopAt: kit.InstrSet(stores...), BlockEdge: kit.EdgeSet(edgesOf(same, true)...)})
			bad2 := ""
			for _, ret := range kit.Returns(f) {
				if reach.Has(ret) {
					bad2 = "after trimming, " + retLabel(ret) + " at " + posOf(p, ret) + " is reachable without repo.longest = repo.branches.Longest(): the reported tip may still be a removed branch"
				}
			}
			r.Check(bad2 == "", "MUST-PASS", "MarkHeaderInvalid/reselect-after-trim", posOf(p, trim), "tip re-selected on every path after Trim", bad2)
		}
	}
	if f := fn(p, r, "MUST-PASS", H, "Repository.MarkHeaderNotInvalid"); f != nil {
		checkSaveAfterChange(p, r, f, invalidF, "MarkHeaderNotInvalid")
	}
	for _, name := range []string{"Repository.Save", "Repository.clean"} {
		if f := fn(p, r, "MUST-PASS", H, name); f != nil {
			ok := false
			for _, c := range kit.CallsTo(f, H+".saveInvalidHashes") {
				if loadOfField(c.Common().Args[len(c.Common().Args)-1], invalidF) {
					// on every path to return nil
					reach := kit.Reach(f, []kit.Pt{kit.Entry(f)}, kit.Opts{StopAt: kit.InstrSet(c)})
					ok = true
					for _, ret := range kit.Returns(f) {
						if reach.Has(ret) && reach.ErrClass(ret) != kit.ErrNonNil {
							ok = false
						}
					}
				}
			}
			r.Check(ok, "MUST-PASS", name+"/persists-invalid-list", posOf(p, f.Blocks[0].Instrs[0]), "saveInvalidHashes(repo.invalidHashes) on every successful path", "the invalid list is not persisted on every successful path")
		}
	}
	checkSaveInvalidWrites(p, r)
	checkShrinkSiblings(p, r, "SHRINK-SIBLING")
	checkBranchesTrim(p, r)
	checkBranchTrimIndex(p, r)
}

// checkSaveAfterChange: from every store to repo.invalidHashes, every path to a nil return passes
// saveInvalidHashes(..., repo.invalidHashes).
func checkSaveAfterChange(p *load.Program, r *kit.Report, f *ssa.Function, invalidF interface{}, name string) {
	fld := p.Field(H, "Repository", "invalidHashes")
	var saves []ssa.Instruction
	for _, c := range kit.CallsTo(f, H+".saveInvalidHashes") {
		if loadOfField(c.Common().Args[len(c.Common().Args)-1], fld) {
			saves = append(saves, c)
		}
	}
	n := 0
	for _, w := range kit.DirectWrites(f) {
		if w.Field != fld {
			continue
		}
		n++
		reach := kit.Reach(f, kit.After(w.Instr), kit.Opts{StopAt: kit.InstrSet(saves...)})
		bad := ""
		for _, ret := range kit.Returns(f) {
			if reach.Has(ret) && reach.ErrClass(ret) != kit.ErrNonNil {
				bad = "the changed invalid list is not saved before " + retLabel(ret) + " at " + posOf(p, ret)
			}
		}
		r.Check(bad == "", "MUST-PASS", name+"/save-after-change", posOf(p, w.Instr), "saveInvalidHashes follows the change on every successful path", bad)
	}
	if n == 0 {
		r.Bad("MUST-PASS", name+"/save-after-change", posOf(p, f.Blocks[0].Instrs[0]), "the invalid list is never changed by "+name)
	}
}

// saveInvalidHashes must always write (an emptied list has to replace the stored one).
func checkSaveInvalidWrites(p *load.Program, r *kit.Report) {
	f := fn(p, r, "MUST-PASS", H, "saveInvalidHashes")
	if f == nil {
		return
	}
	var writes []ssa.Instruction
	for _, c := range kit.Calls(f, func(id string) bool {
		return id == load.StoragePkg+".Storage.Write" || id == load.StoragePkg+".ReadWriter.Write" || id == load.StoragePkg+".Writer.Write"
	}) {
		writes = append(writes, c)
	}
	if len(writes) == 0 {
		// any invoke named Write on the store parameter
		kit.AllInstrs(f, func(in ssa.Instruction) {
			if c, ok := in.(*ssa.Call); ok && c.Call.IsInvoke() && c.Call.Method.Name() == "Write" && len(c.Call.Args) == 4 {
				writes = append(writes, c)
			}
		})
	}
	reach := kit.Reach(f, []kit.Pt{kit.Entry(f)}, kit.Opts{StopAt: kit.InstrSet(writes...)})
	bad := ""
	for _, ret := range kit.Returns(f) {
		if reach.Has(ret) && reach.ErrClass(ret) != kit.ErrNonNil {
			bad = "saveInvalidHashes can return nil without writing (e.g. for an empty list): an emptied list would not replace the stored one"
		}
	}
	r.Check(bad == "" && len(writes) > 0, "MUST-PASS", "saveInvalidHashes/always-writes", posOf(p, f.Blocks[0].Instrs[0]), "every successful path writes the key", bad)
}

func checkShrinkSiblings(p *load.Program, r *kit.Report, rule string) {
	headersF := p.Field(H, "Branch", "headers")
	mapF := p.Field(H, "Branch", "heightsMap")
	n := 0
	for _, f := range pkgFuncs(p, H) {
		for _, w := range kit.DirectWrites(f) {
			if w.Field != headersF || w.Kind != "store" || kit.IsFresh(w.Base) {
				continue
			}
			sl, ok := w.Val.(*ssa.Slice)
			if !ok || !loadOfField(sl.X, headersF) {
				continue
			}
			// a re-slice of the same branch's headers (shrinks)
			n++
			hasDelete := false
			for _, w2 := range kit.DirectWrites(f) {
				if w2.Kind == "delete" && w2.Field == mapF {
					hasDelete = true
				}
				if w2.Kind == "store" && w2.Field == mapF {
					hasDelete = true // map rebuilt
				}
			}
			name := kit.ShortID(kit.FuncID(f))
			r.Fn(name)
			why := name + " drops headers from the branch but leaves their hashes in heightsMap: Find keeps answering for removed headers"
			// the deleted keys are the hashes of exactly the dropped part, read from the slice as
			// it was BEFORE the re-slice
			if hasDelete {
				lin := kit.NewLin(f)
				for _, w2 := range kit.DirectWrites(f) {
					if w2.Kind != "delete" || w2.Field != mapF {
						continue
					}
					key := w2.Instr.(ssa.CallInstruction).Common().Args[1]
					hf, el := kit.LoadedField(key)
					if hf == nil || hf.Name() != "Hash" {
						continue
					}
					src, _, ok := elemIndex(el)
					if !ok {
						continue
					}
					part, isSl := kit.Strip(src).(*ssa.Slice)
					if !isSl || !loadOfField(part.X, headersF) {
						continue
					}
					// complementary bounds
					okBounds := false
					switch {
					case sl.High != nil && sl.Low == nil && part.Low != nil && part.High == nil:
						okBounds = lin.Of(sl.High).Equal(lin.Of(part.Low))
					case sl.Low != nil && sl.High == nil && part.High != nil && part.Low == nil:
						okBounds = lin.Of(sl.Low).Equal(lin.Of(part.High))
					}
					if !okBounds {
						hasDelete = false
						why = name + " deletes the hashes of a part of the headers that is not the part it drops"
					}
					// the old slice: the load feeding the range must not come after the store
					if ld, ok := kit.Strip(part.X).(ssa.Instruction); ok {
						if kit.Reach(f, kit.After(w.Instr), kit.Opts{}).Has(ld) {
							hasDelete = false
							why = name + " re-slices the headers before it walks the dropped part: the walk sees an empty tail, the dropped hashes stay in heightsMap and Find keeps answering for removed headers"
						}
					}
				}
			}
			r.Check(hasDelete, rule, name+"/reslice-headers", posOf(p, w.Instr), "the dropped hashes are deleted from heightsMap (complementary bounds, old slice)", why)
		}
	}
	if n == 0 {
		r.Unknown(rule, "reslice-sites", "-", "no function re-slices Branch.headers")
	}
}

// checkBranchTrimIndex: Branch.Trim(height) keeps headers[:height-parentHeight-offset]: the header
// at `height` sits at that index (offset counts the pruned headers), so that it and everything
// above it is cut.
func checkBranchTrimIndex(p *load.Program, r *kit.Report) {
	f := fn(p, r, "TRIM-SHAPE", H, "Branch.Trim")
	if f == nil {
		return
	}
	headersF := p.Field(H, "Branch", "headers")
	lin := kit.NewLin(f)
	recvKey := lin.Key(f.Params[0])
	want := pAtom(f, 1).Sub(kit.LinAtom("f:" + recvKey + "." + curName(p, "parentHeight"))).Sub(kit.LinAtom("f:" + recvKey + "." + curName(p, "offset")))
	bad := "Branch.Trim does not cut the headers"
	for _, w := range kit.DirectWrites(f) {
		if w.Field != headersF || w.Kind != "store" {
			continue
		}
		sl, ok := w.Val.(*ssa.Slice)
		if !ok || sl.High == nil || sl.Low != nil {
			continue
		}
		got := lin.Of(sl.High)
		if got.Equal(want) {
			bad = ""
		} else {
			bad = "Branch.Trim keeps headers[:" + got.String() + "], want headers[:" + want.String() + "]: once the branch has pruned headers (offset > 1) the cut is at the wrong header, so the marked header stays (or the trim fails after the mark was persisted)"
		}
	}
	r.Check(bad == "", "TRIM-SHAPE", "Branch.Trim/cut-index", posOf(p, f.Blocks[0].Instrs[0]), "keeps headers[:height-parentHeight-offset]", bad)
}

func checkBranchesTrim(p *load.Program, r *kit.Report) {
	f := fn(p, r, "TRIM-SHAPE", H, "Branches.Trim")
	if f == nil {
		return
	}
	pos := posOf(p, f.Blocks[0].Instrs[0])
	parentF := p.Field(H, "Branch", "parentHeight")
	_ = parentF
	parF := p.Field(H, "Branch", "parent")
	phF := p.Field(H, "Branch", "parentHeight")
	inc := kit.FindGuards(f, kit.CallCond(func(c *ssa.Call) bool {
		return loadOfField(c.Call.Args[len(c.Call.Args)-1], parF)
	}, H+".Branches.Includes"))
	if len(inc) != 1 {
		r.Bad("TRIM-SHAPE", "Branches.Trim/transitive", pos, "descendants of removed branches are not removed transitively (no removed.Includes(b.parent) test)")
		r.Bad("TRIM-SHAPE", "Branches.Trim/children-at-or-above", pos, "not analysed: the removal loop was not recognised")
		return
	}
	incCall := inc[0].If.Cond
	for {
		if u, ok := incCall.(*ssa.UnOp); ok && u.Op == token.NOT {
			incCall = u.X
			continue
		}
		break
	}
	call := incCall.(*ssa.Call)
	// the element under test and the removed list
	_, elem := kit.LoadedField(call.Call.Args[1])
	elem = kit.Strip(elem)
	removed := kit.Strip(call.Call.Args[0])
	// the loop: header = the block of the removed-list phi
	rph, _ := removed.(*ssa.Phi)
	bad := ""
	if rph == nil {
		bad = "the list of removed branches is not accumulated over the loop"
	}
	var header ssa.Instruction
	if rph != nil {
		header = rph.Block().Instrs[0]
	}
	// appends of the element
	type app struct {
		in   ssa.Instruction
		dest ssa.Value
	}
	var toRemoved, toOther []app
	kit.AllInstrs(f, func(in ssa.Instruction) {
		c, ok := in.(*ssa.Call)
		if !ok || kit.CallID(c) != "builtin.append" || len(c.Call.Args) != 2 {
			return
		}
		// is the appended value the element?
		isElem := false
		if sl, ok := c.Call.Args[1].(*ssa.Slice); ok {
			if al, ok := sl.X.(*ssa.Alloc); ok {
				for _, ref := range *al.Referrers() {
					if ia, ok := ref.(*ssa.IndexAddr); ok {
						for _, r2 := range *ia.Referrers() {
							if st, ok := r2.(*ssa.Store); ok && kit.Strip(st.Val) == elem {
								isElem = true
							}
						}
					}
				}
			}
		}
		if !isElem {
			return
		}
		if kit.Strip(c.Call.Args[0]) == removed {
			toRemoved = append(toRemoved, app{in, removed})
		} else {
			toOther = append(toOther, app{in, kit.Strip(c.Call.Args[0])})
		}
	})
	// the direct-child test: elem.parent == branch && elem.parentHeight >= height
	branchPrm := prmAt(f, 1)
	heightPrm := prmAt(f, 2)
	parEq := kit.FindGuards(f, func(c ssa.Value) (bool, bool) {
		b, ok := c.(*ssa.BinOp)
		if !ok || (b.Op != token.EQL && b.Op != token.NEQ) {
			return false, false
		}
		x, y := kit.Strip(b.X), kit.Strip(b.Y)
		if y != ssa.Value(branchPrm) {
			x, y = y, x
		}
		if y != ssa.Value(branchPrm) {
			return false, false
		}
		fl, base := kit.LoadedField(x)
		if fl != parF || kit.Strip(base) != elem {
			return false, false
		}
		return true, b.Op == token.EQL
	})
	// elem.parentHeight >= height, in any linear spelling (`> height-1`, a local holding height-1, …)
	lin := kit.NewLin(f)
	phGE := kit.FindGuards(f, func(c ssa.Value) (bool, bool) {
		bo, ok := c.(*ssa.BinOp)
		if !ok {
			return false, false
		}
		// one side is a load of elem.parentHeight
		isPH := func(v ssa.Value) bool {
			fl, base := kit.LoadedField(kit.Strip(v))
			return fl == phF && kit.Strip(base) == elem
		}
		if !isPH(bo.X) && !isPH(bo.Y) {
			return false, false
		}
		var phv ssa.Value = bo.X
		if !isPH(bo.X) {
			phv = bo.Y
		}
		expr := lin.Of(phv).Sub(lin.Of(heightPrm))
		return cmpMatches(lin, c, expr, 0)
	})
	badC := ""
	switch {
	case len(phGE) != 1:
		badC = "no test b.parentHeight >= height for children of the trimmed branch"
	case len(parEq) != 1:
		badC = "no test b.parent == branch for children of the trimmed branch"
	default:
		if d, _ := kit.DominatedByEdges(f, phGE[0].If, []kit.Edge{parEq[0].PassEdge()}, nil, p.Pos); !d {
			badC = "the attach-height test is applied to branches that are not children of the trimmed branch"
		}
	}
	if bad == "" && header != nil {
		stopHdr := kit.InstrSet(header)
		var remIns []ssa.Instruction
		for _, a := range toRemoved {
			remIns = append(remIns, a.in)
		}
		if len(toRemoved) == 0 {
			bad = "removed branches are not recorded: their descendants cannot be recognised"
		}
		// recorded as removed only on the two removal edges
		var passes []kit.Edge
		passes = append(passes, inc[0].PassEdge())
		if badC == "" {
			passes = append(passes, phGE[0].PassEdge())
		}
		for _, a := range toRemoved {
			if d, path := kit.DominatedByEdges(f, a.in, passes, nil, p.Pos); !d && bad == "" {
				bad = "a branch is dropped although neither its parent was removed nor it is attached at/above the trimmed height: " + path
			}
		}
		// on each removal edge the element is recorded before the next element is looked at, and it
		// is not kept
		for _, e := range passes {
			rr := kit.Reach(f, []kit.Pt{kit.EdgeStart(e)}, kit.Opts{StopAt: func(in ssa.Instruction) bool {
				if in == header {
					return true
				}
				for _, x := range remIns {
					if x == in {
						return true
					}
				}
				return false
			}})
			if rr.Has(header) {
				msg := "a removed branch is not recorded in the removed list on some path: its own descendants survive"
				if e == inc[0].PassEdge() {
					bad = msg
				} else if badC == "" {
					badC = msg
				}
			}
			keep := kit.Reach(f, []kit.Pt{kit.EdgeStart(e)}, kit.Opts{StopAt: stopHdr})
			for _, a := range toOther {
				if keep.Has(a.in) {
					msg := "a branch that must be removed is also kept (appended to " + describe(a.dest) + ")"
					if e == inc[0].PassEdge() {
						bad = msg
					} else if badC == "" {
						badC = msg
					}
				}
			}
		}
		// parents are visited before their children: the list is walked forward (children are
		// appended to the branch list after their parents)
		if w := forwardWalk(elem); w != "" && bad == "" {
			bad = w
		}
	}
	r.Check(bad == "", "TRIM-SHAPE", "Branches.Trim/transitive", pos, "branches whose parent was removed are removed: recorded on the removal edges, never kept, list walked forward", bad)
	r.Check(badC == "", "TRIM-SHAPE", "Branches.Trim/children-at-or-above", pos, "children attached at or above the trimmed height are removed", badC)
}

// forwardWalk: elem is list[i] with i counting up by one.
func forwardWalk(elem ssa.Value) string {
	u, ok := elem.(*ssa.UnOp)
	if !ok || u.Op != token.MUL {
		return "the branch under test is not an element of the branch list"
	}
	ia, ok := u.X.(*ssa.IndexAddr)
	if !ok {
		return "the branch under test is not an element of the branch list"
	}
	idx := kit.Strip(ia.Index)
	var ph *ssa.Phi
	switch x := idx.(type) {
	case *ssa.Phi:
		ph = x
	case *ssa.BinOp:
		if _, isC := kit.ConstInt(x.Y); isC && x.Op == token.ADD {
			ph, _ = x.X.(*ssa.Phi)
		}
	}
	if ph == nil {
		return "the branch list is not walked by a simple counter"
	}
	for _, e := range ph.Edges {
		if _, isC := kit.ConstInt(e); isC {
			continue
		}
		b, ok := e.(*ssa.BinOp)
		if !ok || b.X != ssa.Value(ph) {
			// the start value (e.g. len-1 of a backward walk) or something else
			if ok && b.Op == token.SUB {
				if _, isC := kit.ConstInt(b.Y); isC {
					continue
				}
			}
			return "the branch list is not walked by a simple counter"
		}
		k, isC := kit.ConstInt(b.Y)
		if !isC || !((b.Op == token.ADD && k == 1) || (b.Op == token.SUB && k == -1)) {
			return "the branch list is walked backward (or not in steps of one): children are looked at before their parents, so descendants of a removed branch survive"
		}
	}
	return ""
}
