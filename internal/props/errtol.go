package props

import (
	"go/types"
	"sort"
	"strings"

	"golang.org/x/tools/go/ssa"

	"verif/internal/kit"
	"verif/internal/load"
)

// ERR-TOLERANCE — the other direction of ERR-DISPOSITION, for the named sentinels only.
//
// Where the reference tree returns every error of a call except a named package-level sentinel
// (`storage.ErrNotFound` from the first read of a fresh store, `ErrChannelClosed`/`ErrBusy` from a
// node that is going away, `threads.Interrupted` at shutdown, `ErrHeightBeyondTip` from a lookup
// past the tip), that sentinel must still be tolerated there — as long as the callee can still
// produce it. A tolerance that disappears turns an ordinary situation (nothing saved yet, a peer
// that just closed) into a failure of the whole operation: Load refuses a store that a crash left
// half-written, one closed peer stops the manager.
//
// A site that no longer tolerates the sentinel is accepted when every caller of its function in
// the owned call trees tolerates it for that function instead (the tolerance moved one level up).
//
// CAUSE-TRANSPARENT — all those tests compare `errors.Cause(err)` (github.com/pkg/errors) with the
// sentinel. Cause follows pkg/errors wrappers only: an error passed through fmt.Errorf (with %w or
// %v alike) comes out as a different cause and every tolerance — and every verdict class — above
// it is lost. No formatting call of the two packages may take an error value as an argument.

// errTolExtraTrees: entry points owned for ERR-TOLERANCE in addition to the ERR-DISPOSITION trees.
var errTolExtraTrees = map[string][]string{
	"C12": {H + ".Repository.Load", H + ".Repository.Save", H + ".Repository.Clean", H + ".Repository.clean"},
	// one peer that has just closed (or is busy) must not fail the manager's request rounds: a
	// failing round stops every connection
	"C15": {R + ".NodeManager.RequestHeaders", R + ".NodeManager.RequestTxs", R + ".NodeManager.RequestBlock"},
}

func ownsErrTolerance(property string) bool {
	return ownsErrDisposition(property) || len(errTolExtraTrees[property]) > 0
}

func errOwnedFuncs(p *load.Program, property string, extra map[string][]string) map[*ssa.Function]bool {
	var roots []*ssa.Function
	for _, id := range append(append([]string{}, errDispTrees[property]...), extra[property]...) {
		if f := p.FuncByID(id); f != nil {
			roots = append(roots, f)
		}
	}
	if property == "C14" || property == "C15" {
		hs, _ := allHandlers(p)
		roots = append(roots, hs...)
	}
	return staticReach(roots...)
}

// globalBySentinelID finds the package-level variable a sentinel id names in the current program.
func globalBySentinelID(p *load.Program, id string) *ssa.Global {
	name, _, _ := strings.Cut(id, "|")
	i := strings.LastIndex(name, ".")
	if i < 0 {
		return nil
	}
	sp := p.SSAPkgs[name[:i]]
	if sp == nil {
		return nil
	}
	g, _ := sp.Members[name[i+1:]].(*ssa.Global)
	return g
}

func tolerates(disp, sentinel string) bool {
	if disp == dispAbsorb {
		return true
	}
	if !strings.HasPrefix(disp, dispExcept) {
		return false
	}
	for _, id := range strings.Split(strings.TrimPrefix(disp, dispExcept), ";") {
		if sameSentinel(id, sentinel) {
			return true
		}
	}
	return false
}

func checkErrTolerance(p *load.Program, r *kit.Report, rule string) {
	ref := p.RefErrDisp
	if ref == nil {
		r.Unknown(rule, "errdisp/reference", "-", "no reference table of error dispositions (errdisp.json)")
		return
	}
	owned := errOwnedFuncs(p, r.Property, errTolExtraTrees)
	// dispositions of the current tree, per owned function and callee
	type site struct {
		at   ssa.Instruction
		disp string
		call *ssa.Call
	}
	cur := map[*ssa.Function]map[string][]site{}
	for f := range owned {
		if f.Parent() != nil {
			continue
		}
		m := map[string][]site{}
		kit.AllInstrs(f, func(in ssa.Instruction) {
			c, ok := in.(*ssa.Call)
			if !ok {
				return
			}
			g := calleeKey(c)
			if g == "" {
				return
			}
			if d, ok := errDisposition(f, c, true); ok {
				m[g] = append(m[g], site{in, d, c})
			}
		})
		cur[f] = m
	}
	var fs []*ssa.Function
	for f := range cur {
		fs = append(fs, f)
	}
	sort.Slice(fs, func(i, j int) bool { return kit.FuncID(fs[i]) < kit.FuncID(fs[j]) })
	k := newKeyer()
	pairs := 0
	for _, f := range fs {
		fid := kit.FuncID(f)
		var gs []string
		for g := range ref[fid] {
			gs = append(gs, g)
		}
		sort.Strings(gs)
		for _, g := range gs {
			var wanted []string
			for _, d := range ref[fid][g] {
				if strings.HasPrefix(d, dispExcept) {
					wanted = append(wanted, strings.Split(strings.TrimPrefix(d, dispExcept), ";")...)
				}
			}
			sites := cur[f][g]
			if len(wanted) == 0 || len(sites) == 0 {
				continue
			}
			for _, s := range wanted {
				glob := globalBySentinelID(p, s)
				if glob == nil {
					continue // renamed or removed: not judged
				}
				name, _, _ := strings.Cut(s, "|")
				bad := ""
				at := sites[0].at
				judged := false
				for _, st := range sites {
					callee := kit.StaticCallee(st.call)
					if callee != nil && callee.Blocks != nil && !readsGlobal(callee, glob, map[*ssa.Function]bool{}) {
						continue // the callee cannot produce it any more: nothing to tolerate
					}
					judged = true
					if tolerates(st.disp, s) {
						continue
					}
					// moved one level up?
					up, callers := true, 0
					for _, cf := range fs {
						for _, cs := range cur[cf][fid] {
							callers++
							if !tolerates(cs.disp, s) {
								up = false
							}
						}
					}
					if callers > 0 && up {
						continue
					}
					at = st.at
					bad = kit.ShortID(name) + " from " + strings.TrimPrefix(kit.ShortID(g), "invoke:") + " is no longer tolerated in " + kit.ShortID(fid) + " (it now ends the operation like any other error); the reference tree carries on when the error is that sentinel"
				}
				if !judged {
					continue
				}
				pairs++
				r.Check(bad == "", rule, k.key(kit.ShortID(fid)+"/tolerates:"+kit.ShortID(name)+" from "+strings.TrimPrefix(kit.ShortID(g), "invoke:")), posOf(p, at), "still tolerated", bad)
			}
		}
	}
	if pairs == 0 {
		r.OKTrivial(rule, "errtol/pairs", "-", "no tolerated sentinel in the call trees of this property's entry points")
	}
	r.CallSites += pairs
}

// checkCauseTransparent: no fmt formatting call in the owned functions takes an error value.
func checkCauseTransparent(p *load.Program, r *kit.Report, rule string) {
	owned := errOwnedFuncs(p, r.Property, errTolExtraTrees)
	var fs []*ssa.Function
	for f := range owned {
		fs = append(fs, f)
	}
	sort.Slice(fs, func(i, j int) bool { return kit.FuncID(fs[i]) < kit.FuncID(fs[j]) })
	errT := types.Universe.Lookup("error").Type().Underlying().(*types.Interface)
	n := 0
	k := newKeyer()
	// the property is concerned when one of its functions tests the cause of an error that can come
	// up from the function holding the formatting call
	testedAbove := func(holder *ssa.Function) string {
		for _, f := range fs {
			if f.Parent() != nil {
				continue
			}
			found := ""
			kit.AllInstrs(f, func(in ssa.Instruction) {
				c, ok := in.(*ssa.Call)
				if !ok || found != "" {
					return
				}
				g := kit.StaticCallee(c)
				if g == nil || !staticReach(g)[holder] {
					return
				}
				if ev := errValueOf(c); ev != nil && len(sentinelEdges(f, c, ev)) > 0 {
					found = kit.ShortID(kit.FuncID(f)) + " (" + posOf(p, in) + ")"
				}
			})
			if found != "" {
				return found
			}
		}
		return ""
	}
	for _, f := range fs {
		kit.AllInstrs(f, func(in ssa.Instruction) {
			c, ok := in.(*ssa.Call)
			if !ok || kit.CallID(c) != "fmt.Errorf" {
				return
			}
			n++
			bad := ""
			// the variadic arguments arrive as a slice of interface{}: look at what was boxed
			boxed := func(v ssa.Value) {
				inner := v
				switch x := v.(type) {
				case *ssa.MakeInterface:
					inner = x.X
				case *ssa.ChangeInterface:
					inner = x.X
				}
				if inner != v && types.Implements(inner.Type(), errT) {
					bad = "an error value is formatted into a new error with fmt.Errorf: errors.Cause does not see through it, so the tests for " +
						"sentinel causes above this call (tolerated `closed`/`busy`/`not found` conditions, verdict classes) no longer match; wrap with github.com/pkg/errors"
				}
			}
			for _, a := range c.Call.Args[1:] {
				boxed(a)
				// the variadic arguments arrive as a slice of a fresh array of interface{}
				if sl, ok := a.(*ssa.Slice); ok {
					if al, ok := sl.X.(*ssa.Alloc); ok && al.Referrers() != nil {
						for _, ref := range *al.Referrers() {
							ia, ok := ref.(*ssa.IndexAddr)
							if !ok || ia.Referrers() == nil {
								continue
							}
							for _, r2 := range *ia.Referrers() {
								if st, ok := r2.(*ssa.Store); ok && st.Addr == ssa.Value(ia) {
									boxed(st.Val)
								}
							}
						}
					}
				}
			}
			if bad != "" {
				top := f
				for top.Parent() != nil {
					top = top.Parent()
				}
				if where := testedAbove(top); where != "" {
					bad += "; its cause is tested in " + where
				} else {
					bad = "" // no cause test of this property's functions is above it
				}
			}
			r.Check(bad == "", rule, k.key(kit.ShortID(kit.FuncID(f))+"/fmt.Errorf"), posOf(p, in), "formats no error value", bad)
		})
	}
	if n == 0 {
		r.OKTrivial(rule, "cause/none", "-", "no fmt.Errorf call in the call trees of this property's entry points")
	}
}

// errValueOf returns the error result of call c as a value (the call itself or the Extract of its
// last result), nil when it has none or it is not looked at.
func errValueOf(c *ssa.Call) ssa.Value {
	sig := c.Call.Signature()
	n := sig.Results().Len()
	if n == 0 || !isErrorType(sig.Results().At(n-1).Type()) {
		return nil
	}
	if n == 1 {
		return c
	}
	if c.Referrers() != nil {
		for _, ref := range *c.Referrers() {
			if ex, ok := ref.(*ssa.Extract); ok && ex.Index == n-1 {
				return ex
			}
		}
	}
	return nil
}
