package props

import (
	"fmt"
	"go/token"
	"go/types"
	"strings"

	"golang.org/x/tools/go/ssa"

	"verif/internal/kit"
	"verif/internal/load"
)

func init() { register("C09", checkC09) }

func checkC09(p *load.Program, r *kit.Report) {
	importRules(p, r, "C17", "a header removed with its invalidated ancestor must become unknown to the lookups: every descendant branch leaves the list with it", 2, nil, "TRIM-SHAPE")
	importRules(p, r, "C11", "lookups of pruned heights read the files saveMainBranch and Branch.Save wrote, at offsets computed from the same constants", 2,
		func(o *kit.Obligation) bool {
			return o.Rule != "MERGE-SHAPE" || strings.HasPrefix(o.Construct, "Branch.Save")
		}, "MAIN-FILE-SHAPE", "MERGE-SHAPE", "CONST-TABLE")
	importRules(p, r, "C11", "headers restored from storage are looked up by hash through the height map that load fills from the header files: every best-chain hash below the in-memory part must be registered", 1,
		func(o *kit.Obligation) bool { return strings.HasPrefix(o.Construct, "loadHistoricalHashHeights") }, "COVER-ALL")
	importRules(p, r, "C11", "a header restored from storage is found by hash, once it is pruned from memory, only through the height map: load and migrate must register what they install", 3, nil, "RESTORE-REGISTERS")
	importRules(p, r, "C10", "range and height queries are served from the header files for what left memory: clean must have written the main branch before prune drops it", 3,
		func(o *kit.Obligation) bool {
			return strings.HasPrefix(o.Construct, "clean/") || strings.HasPrefix(o.Construct, "prune/")
		}, "ORDER")
	importRules(p, r, "C08", "unknown hashes are reported unknown: a header that ProcessHeader refuses must leave no entry in the hash→height map, or the lookups answer for a header that is in no branch", 12, nil, "NO-EFFECT-BEFORE-ERROR")
	r.NotDecided = "behaviour after particular consolidation/prune/reload histories (which branch object a header ends up in); HashHeight answering with the old height for a header that was trimmed (the long-lived map never shrinks; the most-work flag is decided by comparison, FLAG-RULE); equality of memory- and storage-served ranges as values."
	r.Rule("HEIGHT-LABEL", "every hash→height label stored into Branch.heightsMap / Repository.heights equals the positional height parentHeight+offset+index of the labelled header (linear arithmetic over SSA; counters by lockstep induction; constructors summarised)", 11)
	r.Rule("NEW-STATE", "the lookups answer from the branch tree and the stored files only; a Repository field added since the reference tree that they read is rewritten after every storage write or removal", 1)
	r.Rule("TIP-BOUND", "header(), Hash() and GetHeaders() fall back to the header files only for heights that were compared with the tip (height <= longest.Height()) and only after longest.AtHeight(height) answered nil; stale file entries are never served in place of memory", 6)
	r.Rule("PRUNE-TRIPLE", "Prune deletes heightsMap entries of headers[:count], keeps headers[count:] and adds count to offset — the same count", 1)
	r.Rule("SHRINK-SIBLING", "every function that re-slices Branch.headers also deletes the dropped hashes from heightsMap", 2)
	r.Rule("FRESH-MAP", "every Branch object created in the headers package (NewBranch, CopyEmpty, LoadBranch, …) gets a heightsMap of its own: a make(map…) stored into the field, also after a whole-struct copy of another Branch", 3)
	checkFreshMap(p, r, "FRESH-MAP")
	r.Rule("FLAG-RULE", "the in-most-work-chain flag of CheckHeader/GetHeader is decided by comparing the hash with the most-work chain's header at that height (repo.longest.AtHeight(height).Hash.Equal(&hash) in memory, header(height).BlockHash().Equal(&hash) on the height-map arm), never by identity of the containing branch or by membership of the long-lived height map", 4)
	r.Rule("LOOKUP-SHAPE", "PreviousHash returns AtHeight(height-1) of the branch Find returned and answers `none` only when Find or that AtHeight has nothing; header/Hash/GetHeaders read record height - file·headersPerFile of file height/headersPerFile", 5)
	r.Rule("LOCKSET", "every exported Repository method that touches branches/longest/heights/invalidHashes/newHeadersChannels does so only after taking the repository mutex", 10)

	c := newLabelCtx(p, r, "HEIGHT-LABEL")
	if c == nil {
		return
	}
	total := 0
	for _, f := range pkgFuncs(p, H) {
		if strings.HasPrefix(p.FileOf(f.Pos()), "headers/test_helpers.go") {
			continue
		}
		total += c.checkFunc(f)
	}
	r.CallSites += total

	checkPruneTriple(p, r, c)
	checkShrinkSiblings(p, r, "SHRINK-SIBLING")
	checkFlagRule(p, r)
	checkPreviousHash(p, r)
	checkStorageReaders(p, r)
	{
		// lookups answer from the tree and the stored files only: state added to Repository since the
		// reference tree that they read (a cache of a parsed file, a memo) must be rewritten after
		// every storage write/removal
		var readers []*ssa.Function
		for _, n := range []string{"Repository.header", "Repository.Hash", "Repository.GetHeaders", "Repository.GetHeader", "Repository.CheckHeader", "Repository.HashHeight", "Repository.getData", "Repository.PreviousHash", "Repository.Height", "Repository.LastHash"} {
			if f := p.Func(H, n); f != nil {
				readers = append(readers, f)
			}
		}
		checkNewState(p, r, "NEW-STATE", "Repository/derived-state", H, "Repository", readers, pkgFuncs(p, H), func(g *ssa.Function) []ssa.Instruction {
			var out []ssa.Instruction
			for _, c := range storageCalls(g, "Write") {
				out = append(out, c)
			}
			for _, c := range storageCalls(g, "Remove") {
				out = append(out, c)
			}
			return out
		})
	}
	checkRepoLocks(p, r)
}

func checkPruneTriple(p *load.Program, r *kit.Report, c *labelCtx) {
	f := fn(p, r, "PRUNE-TRIPLE", H, "Branch.Prune")
	if f == nil {
		return
	}
	lin := kit.NewLin(f)
	cnt := pAtom(f, 1)
	bad := ""
	sawDel, sawSlice, sawOff := false, false, false
	for _, w := range kit.DirectWrites(f) {
		switch {
		case w.Kind == "delete" && w.Field == c.mapF:
			sawDel = true
			// key = Hash of element of headers[:count]
			hf, el := kit.LoadedField(w.Key)
			s, _, ok := elemIndex(el)
			if hf != c.hashF || !ok {
				bad = "deleted key is not the hash of a dropped header"
				break
			}
			sl, ok := kit.Strip(s).(*ssa.Slice)
			if ok {
				if sl.Low != nil || sl.High == nil || !lin.Of(sl.High).Equal(cnt) || !loadOfField(sl.X, c.headersF) {
					bad = "heightsMap entries are not deleted for exactly headers[:count]"
				}
			} else {
				// index loop: headers[i] for i = 0 … count-1
				_, idx, _ := elemIndex(el)
				lo, hi, okR := counterRange(f, lin, idx, w.Instr)
				if !loadOfField(s, c.headersF) || !okR || !lo.Equal(kit.LinConst(0)) || !hi.Equal(cnt) {
					bad = "heightsMap entries are not deleted for exactly headers[:count]"
				}
			}
		case w.Kind == "store" && w.Field == c.headersF:
			sawSlice = true
			sl, ok := w.Val.(*ssa.Slice)
			if !ok || sl.High != nil || sl.Low == nil || !lin.Of(sl.Low).Equal(cnt) {
				bad = "headers are not re-sliced to headers[count:]"
			}
		case w.Kind == "store" && w.Field == c.offF:
			sawOff = true
			// value = old offset + count: evaluate the stored value directly
			v := lin.Of(w.Val)
			want := kit.LinAtom("f:" + lin.Key(f.Params[0]) + ".offset").Add(cnt)
			if !v.Equal(want) {
				bad = "offset becomes " + v.String() + ", want " + want.String()
			}
		}
	}
	if !(sawDel && sawSlice && sawOff) && bad == "" {
		bad = fmt.Sprintf("Prune must delete map entries (%v), re-slice headers (%v) and advance offset (%v)", sawDel, sawSlice, sawOff)
	}
	r.Check(bad == "", "PRUNE-TRIPLE", "Branch.Prune/count", posOf(p, f.Blocks[0].Instrs[0]), "delete headers[:count], keep headers[count:], offset += count", bad)
}

// flagFromEqual: v (a bool) is true only when repo.longest.AtHeight(h).Hash.Equal(&hash) is.
func flagFromEqual(p *load.Program, f *ssa.Function, v ssa.Value, at ssa.Instruction, longestF *types.Var) (bool, string) {
	hashF := p.Field(H, "HeaderData", "Hash")
	isGoodEqual := func(c *ssa.Call) bool {
		if kit.CallID(c) != load.BitcoinPkg+".Hash32.Equal" {
			return false
		}
		for i := 0; i < 2; i++ {
			fl, base := kit.FieldOfAddr(c.Call.Args[i])
			if fl != hashF {
				continue
			}
			ah := callOf(base, 0)
			if ah != nil && kit.CallID(ah) == H+".Branch.AtHeight" && recvIsField(ah.Call.Args[0], longestF) {
				return true
			}
		}
		// header(ctx, height).BlockHash().Equal(&hash): the most-work chain's header at that height,
		// from memory or from the header files
		for i := 0; i < 2; i++ {
			bh, _ := kit.Strip(c.Call.Args[i]).(*ssa.Call)
			if bh == nil || kit.CallID(bh) != load.WirePkg+".BlockHeader.BlockHash" {
				continue
			}
			hc := callOf(bh.Call.Args[0], 0)
			if hc != nil && kit.CallID(hc) == H+".Repository.header" {
				return true
			}
		}
		return false
	}
	var rec func(v ssa.Value, at ssa.Instruction, depth int) (bool, string)
	rec = func(v ssa.Value, at ssa.Instruction, depth int) (bool, string) {
		if depth > 5 {
			return false, "too deep"
		}
		if b, ok := kit.ConstBool(v); ok {
			if !b {
				return true, ""
			}
			// constant true: must be dominated by a good Equal's true edge
			gs := kit.FindGuards(at.Parent(), func(c ssa.Value) (bool, bool) {
				call, ok := c.(*ssa.Call)
				return ok && isGoodEqual(call), true
			})
			if d, _ := kit.DominatedByEdges(at.Parent(), at, edgesOf(gs, true), nil, p.Pos); d {
				return true, ""
			}
			return false, "reports `in most-work chain` without comparing the hash with the most-work chain's header at that height"
		}
		idx := 0
		if e, ok := v.(*ssa.Extract); ok {
			if c, ok := e.Tuple.(*ssa.Call); ok {
				v, idx = c, e.Index
			}
		}
		switch x := v.(type) {
		case *ssa.Call:
			if isGoodEqual(x) {
				return true, ""
			}
			callee := kit.StaticCallee(x)
			if callee != nil && callee.Blocks != nil && callee.Pkg != nil && callee.Pkg.Pkg.Path() == H {
				for _, ret := range kit.Returns(callee) {
					if kit.ReturnErrClass(ret) == kit.ErrNonNil {
						continue
					}
					if ok, why := rec(kit.RetOperand(ret, idx), ret, depth+1); !ok {
						return false, kit.ShortID(kit.FuncID(callee)) + ": " + why
					}
				}
				return true, ""
			}
			return false, "flag computed by " + kit.ShortID(kit.CallID(x))
		case *ssa.Phi:
			for i, e := range x.Edges {
				pred := x.Block().Preds[i]
				if ok, why := rec(e, pred.Instrs[len(pred.Instrs)-1], depth+1); !ok {
					return false, why
				}
			}
			return true, ""
		case *ssa.BinOp:
			if x.Op == token.EQL {
				if loadOfField(x.X, longestF) || loadOfField(x.Y, longestF) {
					return false, "flag is `branch == repo.longest`: false for a tip ancestor held by a parent branch, true for any header found through the tip branch"
				}
			}
		}
		return false, "flag is " + describe(v)
	}
	return rec(v, at, 0)
}

func checkFlagRule(p *load.Program, r *kit.Report) {
	longestF := p.Field(H, "Repository", "longest")
	for _, name := range []string{"Repository.CheckHeader", "Repository.GetHeader"} {
		f := fn(p, r, "FLAG-RULE", H, name)
		if f == nil {
			continue
		}
		flagIdx := f.Signature.Results().Len() - 2
		finds := kit.CallsTo(f, H+".Branches.Find")
		if len(finds) != 1 {
			r.Unknown("FLAG-RULE", name+"/flag", "-", "expected one Find call")
			continue
		}
		find := finds[0].(*ssa.Call)
		found := kit.FindGuards(f, func(c ssa.Value) (bool, bool) {
			b, ok := c.(*ssa.BinOp)
			if !ok || (b.Op != token.EQL && b.Op != token.NEQ) || !kit.IsNilConst(b.Y) || callOf(b.X, 0) != find {
				return false, false
			}
			return true, b.Op == token.NEQ
		})
		bad, badMap := "", ""
		n, nMap := 0, 0
		// per arm: explore from the found / not-found edges of the Find test and look at every
		// value the flag operand of a reached return can take on those paths (a single merged
		// return after helper expansion carries the flag in a phi)
		armStarts := func(pass bool) []kit.Pt {
			var out []kit.Pt
			for _, e := range edgesOf(found, pass) {
				out = append(out, kit.EdgeStart(e))
			}
			return out
		}
		for _, arm := range []bool{true, false} {
			reach := kit.Reach(f, armStarts(arm), kit.Opts{})
			for _, ret := range kit.Returns(f) {
				if !reach.Has(ret) || kit.ReturnErrClass(ret) == kit.ErrNonNil {
					continue
				}
				// a merged return carries flag and error in two phis of one block: the flag that
				// comes in together with a non-nil error is not an answer
				errPreds := map[*ssa.BasicBlock]bool{}
				if fp, ok := kit.RetOperand(ret, flagIdx).(*ssa.Phi); ok {
					if ei := kit.ErrResultIndex(f); ei >= 0 {
						if ep, ok := kit.RetOperand(ret, ei).(*ssa.Phi); ok && ep.Block() == fp.Block() {
							for i, e := range ep.Edges {
								pred := ep.Block().Preds[i]
								if kit.ClassifyErr(e, pred.Instrs[len(pred.Instrs)-1]) == kit.ErrNonNil {
									errPreds[pred] = true
								}
							}
						}
					}
				}
				for _, rv := range reach.Resolve(kit.RetOperand(ret, flagIdx), ret) {
					if cb, isC := kit.ConstBool(rv.V); isC && !cb {
						continue
					}
					if rv.At != nil && errPreds[rv.At.Block()] {
						continue
					}
					at := rv.At
					if at == nil {
						at = ret
					}
					ok, why := flagFromEqual(p, f, rv.V, at, longestF)
					if arm {
						n++
						if !ok {
							bad = why
						}
					} else {
						nMap++
						if !ok {
							badMap = why
						}
					}
				}
			}
		}
		if n == 0 {
			bad = "no successful return on the in-memory arm"
		}
		r.Check(bad == "", "FLAG-RULE", name+"/flag", posOf(p, find), "flag = repo.longest.AtHeight(height).Hash.Equal(&hash)", bad)
		if nMap == 0 {
			badMap = "no successful return on the height-map arm"
		}
		r.Check(badMap == "", "FLAG-RULE", name+"/map-flag", posOf(p, find), "on the height-map arm the flag is true only behind header(height).BlockHash().Equal(&hash)", badMap)
	}
}

func checkPreviousHash(p *load.Program, r *kit.Report) {
	f := fn(p, r, "LOOKUP-SHAPE", H, "Repository.PreviousHash")
	if f == nil {
		return
	}
	lin := kit.NewLin(f)
	finds := kit.CallsTo(f, H+".Branches.Find")
	ats := kit.CallsTo(f, H+".Branch.AtHeight")
	bad := ""
	if len(finds) != 1 || len(ats) != 1 {
		bad = "expected Find(hash) and one AtHeight"
	} else {
		find, at := finds[0].(*ssa.Call), ats[0].(*ssa.Call)
		h := lin.Of(extractOf(find, 1))
		if callOf(recvPtr(at.Call.Args[0]), 0) != find {
			bad = "AtHeight is not called on the branch that Find returned"
		} else if !lin.Of(at.Call.Args[1]).Equal(h.AddK(-1)) {
			bad = "predecessor looked up at " + lin.Of(at.Call.Args[1]).String() + ", want height-1"
		}
		for _, ret := range kit.Returns(f) {
			if kit.IsNilConst(kit.RetOperand(ret, 0)) {
				continue
			}
			if !lin.Of(kit.RetOperand(ret, 1)).Equal(h.AddK(-1)) {
				bad = "returned height is not height-1"
			}
			fl, base := kit.FieldOfAddr(kit.RetOperand(ret, 0))
			if fl == nil || fl.Name() != "Hash" || callOf(base, 0) != at {
				bad = "returned hash is not the hash of AtHeight(height-1)"
			}
		}
	}
	r.Check(bad == "", "LOOKUP-SHAPE", "PreviousHash", posOf(p, f.Blocks[0].Instrs[0]), "AtHeight(height-1) of the found branch", bad)
	// "not found" is answered only when the hash is unknown or AtHeight(height-1) has no header:
	// AtHeight already walks into the parent branches, so the predecessor of a fork's first header
	// (held by the parent) and of every retained header must be answered
	if len(finds) == 1 && len(ats) == 1 {
		find, at := finds[0].(*ssa.Call), ats[0].(*ssa.Call)
		notFound := kit.FindGuards(f, func(c ssa.Value) (bool, bool) {
			b, ok := c.(*ssa.BinOp)
			if !ok {
				return false, false
			}
			// height == -1 (or branch == nil) on the Find result
			if (b.Op == token.EQL || b.Op == token.NEQ) && (callOf(b.X, 0) == find || callOf(b.X, 1) == find) {
				if k, isC := kit.ConstInt(b.Y); (isC && k == -1) || kit.IsNilConst(b.Y) {
					return true, b.Op == token.EQL
				}
			}
			// at == nil
			if (b.Op == token.EQL || b.Op == token.NEQ) && kit.IsNilConst(b.Y) && kit.Strip(b.X) == ssa.Value(at) {
				return true, b.Op == token.EQL
			}
			return false, false
		})
		bad2 := ""
		for _, ret := range kit.Returns(f) {
			if !kit.IsNilConst(kit.RetOperand(ret, 0)) {
				continue
			}
			if d, path := kit.DominatedByEdges(f, ret, edgesOf(notFound, true), nil, p.Pos); !d {
				bad2 = "PreviousHash answers `none` at " + posOf(p, ret) + " although the hash was found and AtHeight(height-1) was not asked or returned a header (" + path + "): the walk back from the tip stops there (block synchronisation treats it as a reorg and requests nothing)"
			}
		}
		r.Check(bad2 == "", "LOOKUP-SHAPE", "PreviousHash/none-only-when-missing", posOf(p, f.Blocks[0].Instrs[0]), "nil is returned only behind Find → not found or AtHeight(height-1) == nil", bad2)
	}
}

func checkStorageReaders(p *load.Program, r *kit.Report) {
	perC, _ := p.All[H].Types.Scope().Lookup("headersPerFile").(*types.Const)
	per, ok := kit.ConstFromTypes(perC)
	if !ok {
		r.Unknown("LOOKUP-SHAPE", "headersPerFile", "-", "constant not found")
		return
	}
	for _, name := range []string{"Repository.header", "Repository.Hash", "Repository.GetHeaders"} {
		f := fn(p, r, "LOOKUP-SHAPE", H, name)
		if f == nil {
			continue
		}
		lin := kit.NewLin(f)
		bad := ""
		n := 0
		for _, c := range kit.CallsTo(f, H+".Repository.getData") {
			call := c.(*ssa.Call)
			file := lin.Of(call.Call.Args[2])
			// file must be (h)/(per) for some height expression h
			fs := file.String()
			suffix := fmt.Sprintf(")/(%d)", per)
			if !file.OK || len(file.T) != 1 || !strings.HasSuffix(fs, suffix) {
				bad = "file index is " + fs + ", want height/" + fmt.Sprint(per)
				continue
			}
			n++
		}
		// every index into the decoded file: idx = h - per*(h/per)
		kit.AllInstrs(f, func(in ssa.Instruction) {
			ia, ok := in.(*ssa.IndexAddr)
			if !ok {
				return
			}
			st := ia.X.Type().String()
			if !strings.Contains(st, "HeaderData") {
				return
			}
			// skip indexes into branch memory
			if fl, _ := kit.LoadedField(ia.X); fl != nil {
				return
			}
			idx := lin.Of(ia.Index)
			if !idx.OK {
				bad = "record index not normalisable: " + idx.Why
				return
			}
			// idx = H - per*Q with Q = "(H)/(per)"
			okShape := false
			for a, co := range idx.T {
				if co == -per && strings.HasSuffix(a, fmt.Sprintf(")/(%d)", per)) {
					h := idx.Add(kit.LinAtom(a).Scale(per)) // = H
					if "("+h.String()+")"+fmt.Sprintf("/(%d)", per) == a {
						okShape = true
					}
				}
			}
			// GetHeaders keeps the file number in a variable (phi): accept idx = H - per*F when F is
			// the value last passed to getData and compared with H/per
			if !okShape && name == "Repository.GetHeaders" {
				okShape = getHeadersIndexOK(lin, f, ia, per)
			}
			if !okShape {
				bad = "record index is " + idx.String() + ", want height - " + fmt.Sprint(per) + "·(height/" + fmt.Sprint(per) + ")"
			}
		})
		// TIP-BOUND: the storage fallback is reached only for heights up to the tip. The files keep
		// what an earlier save wrote until the next save: after the tip moved down (a trim) they
		// still hold the removed headers.
		{
			longestF := p.Field(H, "Repository", "longest")
			badT := ""
			for _, c := range kit.CallsTo(f, H+".Repository.getData") {
				call := c.(*ssa.Call)
				fileAtom := lin.Of(call.Call.Args[2]).String()
				var pass []kit.Edge
				for _, g := range kit.FindGuards(f, func(cv ssa.Value) (bool, bool) {
					b, ok := cv.(*ssa.BinOp)
					if !ok {
						return false, false
					}
					isTip := func(v ssa.Value) bool {
						hc := isCallTo(v, H+".Branch.Height")
						return hc != nil && recvIsField(hc.Call.Args[0], longestF)
					}
					x, y, op := b.X, b.Y, b.Op
					if isTip(x) { // tip OP h  →  h OP' tip
						x, y = y, x
						switch op {
						case token.LSS:
							op = token.GTR
						case token.LEQ:
							op = token.GEQ
						case token.GTR:
							op = token.LSS
						case token.GEQ:
							op = token.LEQ
						}
					}
					if !isTip(y) {
						return false, false
					}
					h := lin.Of(x)
					if !h.OK || "("+h.String()+")"+fmt.Sprintf("/(%d)", per) != fileAtom {
						return false, false
					}
					switch op {
					case token.LEQ:
						return true, true
					case token.GTR:
						return true, false
					}
					return false, false
				}) {
					pass = append(pass, g.PassEdge())
				}
				if d, path := kit.DominatedByEdges(f, call, pass, nil, p.Pos); !d || len(pass) == 0 {
					badT = "the header file is read for a height that was not compared with the tip (height <= repo.longest.Height()): above the tip the file can still hold headers that were removed from the chain: " + path
				}
			}
			// MEMORY-FIRST: the file is consulted only after repo.longest.AtHeight(height) — which
			// walks the parent branches — said the header is not in memory. Files can lag behind
			// memory (headers accepted since the last save, a reorganised-out chain).
			badM := ""
			for _, c := range kit.CallsTo(f, H+".Repository.getData") {
				call := c.(*ssa.Call)
				var nilEdges []kit.Edge
				for _, ac := range kit.CallsTo(f, H+".Branch.AtHeight") {
					acall, ok := ac.(*ssa.Call)
					if !ok || !recvIsField(acall.Call.Args[0], longestF) {
						continue
					}
					for _, g := range kit.FindGuards(f, func(cv ssa.Value) (bool, bool) {
						b, ok := cv.(*ssa.BinOp)
						if !ok || (b.Op != token.EQL && b.Op != token.NEQ) || !kit.IsNilConst(b.Y) || kit.Strip(b.X) != ssa.Value(acall) {
							return false, false
						}
						return true, b.Op == token.EQL
					}) {
						nilEdges = append(nilEdges, g.PassEdge())
					}
				}
				if d, path := kit.DominatedByEdges(f, call, nilEdges, nil, p.Pos); !d || len(nilEdges) == 0 {
					badM = "the header file is read although repo.longest.AtHeight(height) was not asked (or did not answer nil): a header that is in memory — in the tip branch or one of its parents — is served from a file that may be older: " + path
				}
			}
			r.Check(badM == "", "TIP-BOUND", name+"/memory-first", posOf(p, f.Blocks[0].Instrs[0]), "getData only behind longest.AtHeight(height) == nil", badM)
			r.Check(badT == "", "TIP-BOUND", name+"/storage-only-up-to-tip", posOf(p, f.Blocks[0].Instrs[0]), "getData only behind height <= longest.Height()", badT)
		}
		if n == 0 && bad == "" {
			bad = "no getData(file) call"
		}
		r.Check(bad == "", "LOOKUP-SHAPE", name+"/file-arithmetic", posOf(p, f.Blocks[0].Instrs[0]), "file = height/headersPerFile, record = height - file·headersPerFile", bad)
	}
}

// getHeadersIndexOK: idx = height - headersFile*per where the enclosing path has established
// headersFile == height/per (the `headersFile != wantFile` reload test).
func getHeadersIndexOK(lin *kit.LinEval, f *ssa.Function, ia *ssa.IndexAddr, per int64) bool {
	b, ok := ia.Index.(*ssa.BinOp)
	if !ok || b.Op != token.SUB {
		return false
	}
	mul, ok := b.Y.(*ssa.BinOp)
	if !ok || mul.Op != token.MUL {
		return false
	}
	if k, ok := kit.ConstInt(mul.Y); !ok || k != per {
		return false
	}
	filePhi := mul.X
	h := lin.Of(b.X)
	want := "(" + h.String() + ")/(" + fmt.Sprint(per) + ")"
	// filePhi must be a phi whose edges are either a value compared equal to want, or want itself
	ph, ok := filePhi.(*ssa.Phi)
	if !ok {
		return lin.Of(filePhi).String() == want
	}
	for _, e := range ph.Edges {
		if lin.Of(e).String() == want {
			continue
		}
		// unchanged edge: guarded by `headersFile != wantFile` false edge, i.e. equality
		okEdge := false
		for _, g := range kit.FindGuards(f, func(c ssa.Value) (bool, bool) {
			bo, ok := c.(*ssa.BinOp)
			if !ok || (bo.Op != token.NEQ && bo.Op != token.EQL) {
				return false, false
			}
			if (bo.X == e && lin.Of(bo.Y).String() == want) || (bo.Y == e && lin.Of(bo.X).String() == want) {
				return true, bo.Op == token.EQL
			}
			return false, false
		}) {
			_ = g
			okEdge = true
		}
		if !okEdge {
			return false
		}
	}
	return true
}

func checkRepoLocks(p *load.Program, r *kit.Report) {
	guarded := map[*types.Var]bool{}
	for _, n := range []string{"branches", "longest", "heights", "invalidHashes", "newHeadersChannels", "disableDifficulty", "disableSplitProtection"} {
		if f := p.Field(H, "Repository", n); f != nil {
			guarded[f] = true
		}
	}
	repoT := p.Named(H, "Repository")
	if repoT == nil {
		return
	}
	ms := p.SSA.MethodSets.MethodSet(types.NewPointer(repoT))
	// unexported methods that touch guarded state (transitively)
	touches := map[*ssa.Function]bool{}
	var fns []*ssa.Function
	for i := 0; i < ms.Len(); i++ {
		if f := p.SSA.MethodValue(ms.At(i)); f != nil && f.Blocks != nil && !p.Skipped(f) && f.Pkg != nil && f.Pkg.Pkg.Path() == H {
			fns = append(fns, f)
		}
	}
	direct := func(f *ssa.Function) []ssa.Instruction {
		var out []ssa.Instruction
		kit.AllInstrs(f, func(in ssa.Instruction) {
			if fa, ok := in.(*ssa.FieldAddr); ok {
				if fl, base := kit.FieldOfAddr(fa); guarded[fl] && len(f.Params) > 0 && kit.Root(base) == ssa.Value(f.Params[0]) {
					out = append(out, in)
				}
			}
		})
		return out
	}
	for _, f := range fns {
		if len(direct(f)) > 0 {
			touches[f] = true
		}
	}
	for changed := true; changed; {
		changed = false
		for _, f := range fns {
			if touches[f] {
				continue
			}
			kit.AllInstrs(f, func(in ssa.Instruction) {
				if c, ok := in.(ssa.CallInstruction); ok {
					if sc := kit.StaticCallee(c); sc != nil && touches[sc] {
						touches[f] = true
						changed = true
					}
				}
			})
		}
	}
	for _, f := range fns {
		if !f.Object().Exported() || !touches[f] {
			continue
		}
		if fname(f) == "GetNewHeadersAvailableChannel" || true {
			// accesses: direct ones and calls to unexported methods that touch state
			var acc []ssa.Instruction
			acc = append(acc, direct(f)...)
			kit.AllInstrs(f, func(in ssa.Instruction) {
				if c, ok := in.(ssa.CallInstruction); ok {
					if sc := kit.StaticCallee(c); sc != nil && touches[sc] && !sc.Object().Exported() {
						acc = append(acc, in)
					}
				}
			})
			locks := kit.CallsTo(f, "sync.Mutex.Lock")
			var lockIns []ssa.Instruction
			for _, l := range locks {
				lockIns = append(lockIns, l)
			}
			reach := kit.Reach(f, []kit.Pt{kit.Entry(f)}, kit.Opts{StopAt: kit.InstrSet(lockIns...)})
			bad := ""
			for _, a := range acc {
				if reach.Has(a) {
					bad = "repository state accessed at " + posOf(p, a) + " without holding the repository mutex"
				}
			}
			// not after an explicit Unlock either
			for _, u := range kit.CallsTo(f, "sync.Mutex.Unlock") {
				if _, isDefer := u.(*ssa.Defer); isDefer {
					continue
				}
				after := kit.Reach(f, kit.After(u), kit.Opts{StopAt: kit.InstrSet(lockIns...)})
				for _, a := range acc {
					if after.Has(a) {
						bad = "repository state accessed at " + posOf(p, a) + " after the mutex was released"
					}
				}
			}
			name := "Repository." + f.Name()
			r.Fn(name)
			r.Check(bad == "", "LOCKSET", name+"/holds-mutex", posOf(p, f.Blocks[0].Instrs[0]), fmt.Sprintf("%d accesses, all under repo.Lock()", len(acc)), bad)
		}
	}
}

// counterRange: idx is a loop counter (constant or invariant start, +1 per round) whose use at `at`
// is dominated by the true edge of `idx < bound`: returns start and bound.
func counterRange(f *ssa.Function, lin *kit.LinEval, idx ssa.Value, at ssa.Instruction) (lo, hi kit.Lin, ok bool) {
	ph, isPhi := kit.Strip(idx).(*ssa.Phi)
	if !isPhi {
		return
	}
	var init ssa.Value
	for _, e := range ph.Edges {
		if b, isB := e.(*ssa.BinOp); isB && b.Op == token.ADD && b.X == ssa.Value(ph) {
			if k, isC := kit.ConstInt(b.Y); isC && k == 1 {
				continue
			}
			return
		}
		if init != nil && init != e {
			return
		}
		init = e
	}
	if init == nil {
		return
	}
	var bound ssa.Value
	gs := kit.FindGuards(f, func(c ssa.Value) (bool, bool) {
		b, isB := c.(*ssa.BinOp)
		if !isB {
			return false, false
		}
		switch {
		case b.Op == token.LSS && b.X == ssa.Value(ph):
			bound = b.Y
			return true, true
		case b.Op == token.GTR && b.Y == ssa.Value(ph):
			bound = b.X
			return true, true
		case b.Op == token.GEQ && b.X == ssa.Value(ph):
			bound = b.Y
			return true, false
		}
		return false, false
	})
	if len(gs) != 1 || bound == nil {
		return
	}
	if d, _ := kit.DominatedByEdges(f, at, []kit.Edge{gs[0].PassEdge()}, nil, func(token.Pos) string { return "" }); !d {
		return
	}
	return lin.Of(init), lin.Of(bound), true
}

// checkFreshMap: every Branch object created in the package owns its heightsMap. A new Branch that
// escapes the function (returned or stored) gets the field from a make(map…) of its own; a
// whole-struct copy of another Branch (`result := b`) shares the source's map, so it must be
// followed by such a store on every path before the object leaves. Two branches sharing one map
// answer Find for each other's headers (after Consolidate the new main branch then "contains" the
// displaced tail of the old one, and headers that build on it are refused as unlinked).
func checkFreshMap(p *load.Program, r *kit.Report, rule string) {
	hmF := p.Field(H, "Branch", "heightsMap")
	if hmF == nil {
		r.Unknown(rule, "Branch.heightsMap", "-", "field not found")
		return
	}
	k := newKeyer()
	n := 0
	for _, f := range pkgFuncs(p, H) {
		if strings.HasPrefix(p.FileOf(f.Pos()), "headers/test_helpers.go") || strings.HasSuffix(p.FileOf(f.Pos()), "_test.go") {
			continue
		}
		kit.AllInstrs(f, func(in ssa.Instruction) {
			a, ok := in.(*ssa.Alloc)
			if !ok {
				return
			}
			pt, ok := a.Type().Underlying().(*types.Pointer)
			if !ok {
				return
			}
			named, ok := pt.Elem().(*types.Named)
			if !ok || named.Obj().Name() != "Branch" || named.Obj().Pkg() == nil || named.Obj().Pkg().Path() != H {
				return
			}
			// does the object leave the function?
			escapes := false
			seen := map[ssa.Value]bool{}
			var follow func(v ssa.Value)
			follow = func(v ssa.Value) {
				if seen[v] || v.Referrers() == nil {
					return
				}
				seen[v] = true
				for _, ref := range *v.Referrers() {
					switch x := ref.(type) {
					case *ssa.Return:
						escapes = true
					case *ssa.Store:
						if x.Val == v {
							escapes = true
						}
					case *ssa.MakeInterface:
						escapes = true
					case *ssa.Phi:
						follow(x)
					case *ssa.MapUpdate:
						if x.Value == v {
							escapes = true
						}
					}
				}
			}
			follow(a)
			if !escapes {
				return
			}
			var copies, fresh []ssa.Instruction
			shared := ""
			var refs []ssa.Instruction
			for v := range seen {
				if v.Referrers() != nil {
					refs = append(refs, *v.Referrers()...)
				}
			}
			for _, ref := range refs {
				switch x := ref.(type) {
				case *ssa.Store:
					if x.Addr == ssa.Value(a) {
						// whole-struct store: a zero value / fresh literal is fine, a copy of an
						// existing Branch shares its map
						if _, isConst := x.Val.(*ssa.Const); !isConst {
							copies = append(copies, x)
						}
					}
				case *ssa.FieldAddr:
					if fl, _ := kit.FieldOfAddr(x); fl != hmF {
						continue
					}
					for _, r2 := range *x.Referrers() {
						if st, ok := r2.(*ssa.Store); ok && st.Addr == ssa.Value(x) {
							if _, isMake := kit.Strip(st.Val).(*ssa.MakeMap); isMake {
								fresh = append(fresh, st)
							} else {
								shared = "heightsMap of the new branch is " + describe(kit.Strip(st.Val)) + " (stored at " + posOf(p, st) + "), not a map of its own"
							}
						}
					}
				}
			}
			n++
			bad := shared
			for _, c := range copies {
				rr := kit.Reach(f, kit.After(c), kit.Opts{StopAt: kit.InstrSet(fresh...)})
				for _, ret := range kit.Returns(f) {
					if rr.Has(ret) && bad == "" {
						bad = "the new branch is a copy of an existing Branch (" + posOf(p, c) + ") and leaves the function without a heightsMap of its own: both branches use one map, so Find on either answers for the other's headers"
					}
				}
			}
			// (an object that gets no map here — a helper that only decodes — is filled by its
			// caller; the writes themselves are HEIGHT-LABEL's business)
			r.Check(bad == "", rule, k.key(kit.ShortID(kit.FuncID(f))+"/new-branch-map"), posOf(p, a), "the new Branch gets a fresh heightsMap", bad)
		})
	}
	if n < 3 {
		r.Unknown(rule, "Branch/constructors", "-", "expected at least 3 sites that create a Branch, found %d", n)
	}
}
