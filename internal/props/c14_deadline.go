package props

import (
	"go/types"
	"strings"

	"golang.org/x/tools/go/ssa"

	"verif/internal/kit"
	"verif/internal/load"
)

// deadlineCall classifies a call instruction: a SetReadDeadline/SetDeadline invoked on a net.Conn
// (interface method, or the method of a type that has net.Conn's deadline methods). arm is true
// when the argument is not the zero time.
func deadlineCall(c ssa.CallInstruction) (is, arm bool) {
	com := c.Common()
	name := ""
	var args []ssa.Value
	if com.IsInvoke() {
		name, args = com.Method.Name(), com.Args
	} else if f := com.StaticCallee(); f != nil && f.Signature.Recv() != nil {
		name, args = f.Name(), com.Args
		if len(args) > 0 {
			args = args[1:]
		}
	}
	if name != "SetReadDeadline" && name != "SetDeadline" {
		return false, false
	}
	if len(args) != 1 || !strings.HasSuffix(args[0].Type().String(), "time.Time") {
		return false, false
	}
	return true, !isZeroTime(args[0])
}

// isZeroTime: time.Time{} is a zero constant of struct type, or a load of a local that is never stored to.
func isZeroTime(v ssa.Value) bool {
	switch x := v.(type) {
	case *ssa.Const:
		return x.Value == nil
	case *ssa.UnOp:
		a, ok := x.X.(*ssa.Alloc)
		if !ok {
			return false
		}
		for _, ref := range *a.Referrers() {
			if ref == ssa.Instruction(x) {
				continue
			}
			if u, ok := ref.(*ssa.UnOp); ok && u.X == ssa.Value(a) {
				continue
			}
			return false
		}
		return true
	}
	return false
}

// mayReturnSuccess: a Return whose last result is an error that may be nil (or that has no error result).
func mayReturnSuccess(ret *ssa.Return) bool {
	if len(ret.Results) == 0 {
		return true
	}
	last := ret.Results[len(ret.Results)-1]
	if !types.Identical(last.Type(), types.Universe.Lookup("error").Type()) {
		return true
	}
	seen := map[ssa.Value]bool{}
	var may func(v ssa.Value) bool
	may = func(v ssa.Value) bool {
		if seen[v] {
			return false
		}
		seen[v] = true
		switch x := v.(type) {
		case *ssa.Const:
			return x.IsNil()
		case *ssa.Phi:
			for _, e := range x.Edges {
				if may(e) {
					return true
				}
			}
			return false
		case *ssa.MakeInterface:
			return false
		case *ssa.Call:
			id := kit.CallID(x)
			// errors.Wrap(err, …) is nil for a nil err; every such return in this code base sits
			// behind `err != nil`, so it is read as a failure (a leak on such a path is not reported).
			if strings.HasPrefix(id, "github.com/pkg/errors.") || strings.HasPrefix(id, "errors.New") || strings.HasPrefix(id, "fmt.Errorf") {
				return false
			}
			return true
		}
		return true
	}
	return may(last)
}

// checkDeadlineCleared: a read deadline armed on the connection while a message is handled is
// cleared (set to the zero time) on every path to a successful return of the read loop's step. The
// read loop waits for the next header for as long as the peer is quiet; a deadline left armed makes
// that wait fail with an i/o timeout, the node stops, and the peer's next ping gets no pong. A
// function that returns with the deadline armed hands the obligation to its static callers in the
// node package; it is reported where no caller is left (a thread entry or an exported function).
func checkDeadlineCleared(p *load.Program, r *kit.Report, rule string) {
	control := false
	for f := range p.AllFunctions() {
		if f.Pkg == nil || strings.HasPrefix(f.Pkg.Pkg.Path(), load.RootPkg) {
			continue
		}
		kit.AllInstrs(f, func(in ssa.Instruction) {
			if c, ok := in.(ssa.CallInstruction); ok && !control {
				if is, _ := deadlineCall(c); is {
					control = true
				}
			}
		})
		if control {
			break
		}
	}
	if !control {
		r.Unknown(rule, "deadline/control", "-", "the matcher found no SetReadDeadline/SetDeadline call anywhere in the loaded program (dependencies included): it would not recognise one in the node package either")
		return
	}
	var funcs []*ssa.Function
	for _, f := range pkgFuncs(p, R) {
		file := p.FileOf(f.Pos())
		if strings.HasSuffix(file, "_test.go") || strings.HasSuffix(file, "test_nodes.go") {
			continue
		}
		funcs = append(funcs, f)
	}
	inPkg := map[*ssa.Function]bool{}
	for _, f := range funcs {
		inPkg[f] = true
	}
	// static call sites of package functions (plain calls only: go/defer start or end a scope of their own)
	callers := map[*ssa.Function][]*ssa.Call{}
	for _, f := range funcs {
		for _, b := range f.Blocks {
			for _, in := range b.Instrs {
				if c, ok := in.(*ssa.Call); ok {
					if g := c.Call.StaticCallee(); g != nil && inPkg[g] {
						callers[g] = append(callers[g], c)
					}
				}
			}
		}
	}
	// leak(start): some path from the instruction after start reaches a successful return without a clearing call
	leak := func(start ssa.Instruction) *ssa.Return {
		b := start.Block()
		idx := 0
		for i, in := range b.Instrs {
			if in == start {
				idx = i + 1
			}
		}
		seen := map[*ssa.BasicBlock]bool{}
		var walk func(b *ssa.BasicBlock, from int) *ssa.Return
		walk = func(b *ssa.BasicBlock, from int) *ssa.Return {
			for _, in := range b.Instrs[from:] {
				switch x := in.(type) {
				case *ssa.Return:
					if mayReturnSuccess(x) {
						return x
					}
					return nil
				case ssa.CallInstruction:
					if _, isGo := x.(*ssa.Go); isGo {
						continue
					}
					if is, arm := deadlineCall(x); is && !arm {
						return nil
					}
				}
			}
			for _, s := range b.Succs {
				if seen[s] {
					continue
				}
				seen[s] = true
				if ret := walk(s, 0); ret != nil {
					return ret
				}
			}
			return nil
		}
		return walk(b, idx)
	}
	type site struct {
		in     ssa.Instruction
		origin ssa.CallInstruction
		depth  int
	}
	var work []site
	armed := 0
	for _, f := range funcs {
		for _, b := range f.Blocks {
			for _, in := range b.Instrs {
				c, ok := in.(ssa.CallInstruction)
				if !ok {
					continue
				}
				if _, isGo := c.(*ssa.Go); isGo {
					continue
				}
				if is, arm := deadlineCall(c); is && arm {
					armed++
					work = append(work, site{in, c, 0})
				}
			}
		}
	}
	k := newKeyer()
	done := map[ssa.Instruction]bool{}
	for len(work) > 0 {
		s := work[0]
		work = work[1:]
		if done[s.in] {
			continue
		}
		done[s.in] = true
		f := s.in.Parent()
		key := k.key("deadline:" + kit.ShortID(kit.FuncID(s.origin.Parent())))
		ret := leak(s.in)
		if _, isDefer := s.in.(*ssa.Defer); isDefer && s.depth == 0 {
			// armed when the function returns: nothing in this function can clear it afterwards
			for _, b := range f.Blocks {
				if x, ok := b.Instrs[len(b.Instrs)-1].(*ssa.Return); ok && mayReturnSuccess(x) {
					ret = x
				}
			}
		}
		if ret == nil {
			r.OK(rule, key, posOf(p, s.origin), "armed deadline is cleared on every path to a successful return of %s", kit.ShortID(kit.FuncID(f)))
			continue
		}
		cs := callers[f]
		if len(cs) == 0 || s.depth >= 6 || f.Parent() != nil {
			r.Bad(rule, key, posOf(p, s.origin),
				"the deadline armed here is still armed when %s returns without an error at %s, and no caller clears it: the read loop's wait for the next header then fails with an i/o timeout as soon as the peer is quiet for longer than the deadline, the node stops and a later ping gets no pong",
				kit.ShortID(kit.FuncID(f)), posOf(p, ret))
			continue
		}
		for _, c := range cs {
			work = append(work, site{c, s.origin, s.depth + 1})
		}
	}
	r.OK(rule, "deadline/scan", "-", "%d functions of the node package scanned, %d arming calls; positive control matched in a dependency", len(funcs), armed)
}
