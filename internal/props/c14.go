package props

import (
	"fmt"
	"go/token"
	"go/types"
	"strings"

	"golang.org/x/tools/go/ssa"

	"verif/internal/kit"
	"verif/internal/load"
)

func init() { register("C14", checkC14) }

// isHeaderLength: v is a load of header.Length where header is (a cell of) parameter hp.
func isHeaderLength(v ssa.Value, hp *ssa.Parameter) bool {
	for {
		if c, ok := v.(*ssa.Convert); ok {
			v = c.X
			continue
		}
		break
	}
	fl, base := kit.LoadedField(v)
	if fl != nil && fl.Name() == "Length" && fl.Pkg() != nil && fl.Pkg().Path() == load.WirePkg && kit.Strip(base) == ssa.Value(hp) {
		return true
	}
	// the very value that the function stores into header.Length (its only store to that field):
	// `header.Length = length; defer DiscardInputWithCounter(r, length, counter)`
	if hp == nil || hp.Parent() == nil {
		return false
	}
	n, same := 0, false
	kit.AllInstrs(hp.Parent(), func(in ssa.Instruction) {
		st, ok := in.(*ssa.Store)
		if !ok {
			return
		}
		f2, b2 := kit.FieldOfAddr(st.Addr)
		if f2 == nil || f2.Name() != "Length" || f2.Pkg() == nil || f2.Pkg().Path() != load.WirePkg || kit.Strip(b2) != ssa.Value(hp) {
			return
		}
		n++
		sv := st.Val
		for {
			if c, ok := sv.(*ssa.Convert); ok {
				sv = c.X
				continue
			}
			break
		}
		if kit.Strip(sv) == kit.Strip(v) {
			same = true
		}
	})
	return n == 1 && same
}

// handlerParams returns (header, reader) parameters of a MessageHandlerFunction-shaped function.
func handlerParams(f *ssa.Function) (*ssa.Parameter, *ssa.Parameter) {
	var h, rd *ssa.Parameter
	for _, prm := range f.Params {
		t := prm.Type().String()
		switch {
		case strings.HasSuffix(t, "wire.MessageHeader"):
			h = prm
		case t == "io.Reader":
			rd = prm
		}
	}
	return h, rd
}

type consumeEvents struct {
	full     []ssa.Instruction // readMessage / DiscardInput(header.Length) calls
	deferred []ssa.Instruction // defer DiscardInputWithCounter / discardBlock
	counters []ssa.Value       // the WriteCounter of each deferred discard
	loopExit []kit.Edge        // exit edges of count-bounded item loops
}

func findConsumeEvents(f *ssa.Function, hp *ssa.Parameter) consumeEvents {
	var ev consumeEvents
	kit.AllInstrs(f, func(in ssa.Instruction) {
		c, ok := in.(ssa.CallInstruction)
		if !ok {
			return
		}
		id := kit.CallID(c)
		a := c.Common().Args
		_, isDefer := in.(*ssa.Defer)
		switch {
		case id == R+".readMessage" && !isDefer && len(a) == 3 && kit.Strip(a[1]) == ssa.Value(hp):
			ev.full = append(ev.full, in)
		case id == R+".DiscardInput" && !isDefer && len(a) == 2 && isHeaderLength(a[1], hp):
			ev.full = append(ev.full, in)
		case id == R+".DiscardInputWithCounter" && !isDefer && len(a) == 3 && isHeaderLength(a[1], hp):
			ev.full = append(ev.full, in)
		case id == R+".discardBlock" && !isDefer && len(a) == 5 && kit.Strip(a[1]) == ssa.Value(hp):
			ev.full = append(ev.full, in)
		case id == R+".DiscardInputWithCounter" && isDefer && len(a) == 3 && isHeaderLength(a[1], hp):
			ev.deferred = append(ev.deferred, in)
			ev.counters = append(ev.counters, kit.Strip(a[2]))
		case id == R+".discardBlock" && isDefer && len(a) == 5 && kit.Strip(a[1]) == ssa.Value(hp):
			ev.deferred = append(ev.deferred, in)
			ev.counters = append(ev.counters, kit.Strip(a[3]))
		}
	})
	// local pipeline: `go func(){ ch <- readMessage(rb, header, msg) }()` and the handler waits for
	// ch: the nil edge of the received error is the consumed edge
	kit.AllInstrs(f, func(in ssa.Instruction) {
		g, ok := in.(*ssa.Go)
		if !ok {
			return
		}
		mc, ok := g.Call.Value.(*ssa.MakeClosure)
		if !ok {
			return
		}
		cf, ok := mc.Fn.(*ssa.Function)
		if !ok {
			return
		}
		reads := false
		var ch ssa.Value
		kit.AllInstrs(cf, func(ci ssa.Instruction) {
			if c, ok := ci.(*ssa.Call); ok && kit.CallID(c) == R+".readMessage" {
				// header is a captured free variable bound to hp
				if fv, ok := kit.Strip(c.Call.Args[1]).(*ssa.FreeVar); ok {
					for i, x := range cf.FreeVars {
						if x == fv && i < len(mc.Bindings) && kit.Strip(mc.Bindings[i]) == ssa.Value(hp) {
							reads = true
						}
						// captured by reference: binding is the cell holding hp
						if x == fv && i < len(mc.Bindings) {
							if a, ok := mc.Bindings[i].(*ssa.Alloc); ok {
								for _, ref := range *a.Referrers() {
									if st, ok := ref.(*ssa.Store); ok && st.Val == ssa.Value(hp) {
										reads = true
									}
								}
							}
						}
					}
				}
				if u, ok := c.Call.Args[1].(*ssa.UnOp); ok {
					if fv, ok := u.X.(*ssa.FreeVar); ok {
						for i, x := range cf.FreeVars {
							if x == fv && i < len(mc.Bindings) {
								if a, ok := mc.Bindings[i].(*ssa.Alloc); ok {
									for _, ref := range *a.Referrers() {
										if st, ok := ref.(*ssa.Store); ok && st.Val == ssa.Value(hp) {
											reads = true
										}
									}
								}
							}
						}
					}
				}
			}
			if sd, ok := ci.(*ssa.Send); ok {
				chv := sd.Chan
				if u, ok := chv.(*ssa.UnOp); ok {
					chv = u.X
				}
				if fv, ok := chv.(*ssa.FreeVar); ok {
					for i, x := range cf.FreeVars {
						if x == fv && i < len(mc.Bindings) {
							ch = mc.Bindings[i]
						}
					}
				}
			}
		})
		if !reads || ch == nil {
			return
		}
		// the select/receive on ch in f
		kit.AllInstrs(f, func(ri ssa.Instruction) {
			sel, ok := ri.(*ssa.Select)
			if !ok {
				return
			}
			for idx, st := range sel.States {
				c := st.Chan
				if u, ok := c.(*ssa.UnOp); ok {
					c = u.X
				}
				if c != ch && kit.Strip(st.Chan) != kit.Strip(ch) {
					if a, ok := ch.(*ssa.Alloc); !ok || kit.Cell(st.Chan) == st.Chan || !cellOf(st.Chan, a) {
						continue
					}
				}
				// received error value: Extract #(2+idx) ; its nil test
				for _, ref := range *sel.Referrers() {
					e, ok := ref.(*ssa.Extract)
					if !ok || e.Index != 2+idx {
						continue
					}
					for _, gd := range kit.FindGuards(f, func(cv ssa.Value) (bool, bool) {
						b, ok := cv.(*ssa.BinOp)
						if !ok || (b.Op != token.EQL && b.Op != token.NEQ) || b.X != ssa.Value(e) || !kit.IsNilConst(b.Y) {
							return false, false
						}
						return true, b.Op == token.EQL
					}) {
						ev.loopExit = append(ev.loopExit, gd.PassEdge())
					}
				}
			}
		})
	})
	// count-bounded item loops: i < count with count = ReadVarInt(...)#0
	for _, g := range kit.FindGuards(f, func(c ssa.Value) (bool, bool) {
		b, ok := c.(*ssa.BinOp)
		if !ok || b.Op != token.LSS {
			return false, false
		}
		e, ok := b.Y.(*ssa.Extract)
		if !ok || e.Index != 0 {
			return false, false
		}
		cc, ok := e.Tuple.(*ssa.Call)
		if !ok || !strings.HasSuffix(kit.CallID(cc), "wire.ReadVarInt") {
			return false, false
		}
		_, isPhi := b.X.(*ssa.Phi)
		return isPhi, false
	}) {
		ev.loopExit = append(ev.loopExit, g.PassEdge())
	}
	return ev
}

// consumeCheck decides the framing typestate of one handler.
func consumeCheck(p *load.Program, r *kit.Report, rule string, f *ssa.Function, installedByAccept bool, exemptNilManager bool) {
	name := kit.ShortID(kit.FuncID(f))
	r.Fn(name)
	hp, rp := handlerParams(f)
	if hp == nil || rp == nil {
		r.Unknown(rule, name+"/signature", posOf(p, f.Blocks[0].Instrs[0]), "not a message handler")
		return
	}
	ev := findConsumeEvents(f, hp)
	var stops []ssa.Instruction
	stops = append(stops, ev.full...)
	stops = append(stops, ev.deferred...)
	intr := interruptEdges(f)
	block := map[kit.Edge]bool{}
	for _, e := range ev.loopExit {
		block[e] = true
	}
	exempt := ""
	// X1: closing connection — !IsReady() in a handler installed together with ready
	if installedByAccept {
		for _, g := range kit.FindGuards(f, kit.CallCond(nil, R+".BitcoinNode.IsReady")) {
			block[g.FailEdge()] = true
			exempt = "!IsReady() return: the handler is installed in the critical section that sets ready, and ready is cleared only after the connection was stopped"
		}
	}
	// X2: dead by installation — txManager == nil
	if exemptNilManager {
		tm := p.Field(R, "BitcoinNode", "txManager")
		for _, g := range kit.FindGuards(f, func(c ssa.Value) (bool, bool) {
			b, ok := c.(*ssa.BinOp)
			if !ok || (b.Op != token.EQL && b.Op != token.NEQ) || !kit.IsNilConst(b.Y) || !loadOfField(b.X, tm) {
				return false, false
			}
			return true, b.Op == token.NEQ
		}) {
			block[g.FailEdge()] = true
		}
	}
	// X3: zero-payload command: the reader is never used
	usesReader := len(*rp.Referrers()) > 0
	k := newKeyer()
	reach := kit.Reach(f, []kit.Pt{kit.Entry(f)}, kit.Opts{StopAt: kit.InstrSet(stops...), BlockEdge: func(e kit.Edge) bool { return block[e] || intr(e) }})
	for _, ret := range kit.Returns(f) {
		if kit.ReturnErrClass(ret) == kit.ErrNonNil {
			continue // a non-nil result closes the connection in readIncoming
		}
		key := k.key(name + "/" + retLabel(ret))
		switch {
		case !usesReader && len(stops) == 0:
			r.OK(rule, key, posOf(p, ret), "zero-payload command: the handler never touches the reader (the command's wire type has MaxPayloadLength 0)")
		case reach.Has(ret):
			r.Bad(rule, key, posOf(p, ret), "this nil return is reachable without the message having been consumed to header.Length (no readMessage, no DiscardInput(header.Length), no deferred DiscardInputWithCounter/discardBlock on the path %s): the rest of the payload is parsed as the next message header", reach.PathTo(ret, p.Pos))
		default:
			why := "every path passes readMessage / DiscardInput(header.Length) / a deferred counted discard / the exit of a count-bounded item loop"
			if exempt != "" {
				why += "; exempt: " + exempt
			}
			r.OK(rule, key, posOf(p, ret), "%s", why)
		}
	}
	// tee discipline
	for i, d := range ev.deferred {
		counter := ev.counters[i]
		key := k.key(name + "/tee-discipline")
		bad := ""
		isTee := func(v ssa.Value) bool {
			return kit.DependsOn(v, func(x ssa.Value) bool {
				c, ok := x.(*ssa.Call)
				if !ok || kit.CallID(c) != "io.TeeReader" {
					return false
				}
				return kit.Strip(c.Call.Args[1]) == counter || kit.DependsOn(c.Call.Args[1], func(y ssa.Value) bool { return y == counter })
			})
		}
		// the deferred discard's length is header.Length as of the defer: for handleExtended the
		// Length store must precede it
		after := kit.Reach(f, kit.After(d), kit.Opts{})
		kit.AllInstrs(f, func(in ssa.Instruction) {
			c, ok := in.(ssa.CallInstruction)
			if !ok || in == d {
				return
			}
			if _, isDefer := in.(*ssa.Defer); isDefer {
				return
			}
			if !after.Has(in) {
				return
			}
			id := kit.CallID(c)
			if id == "io.TeeReader" || strings.HasSuffix(id, "threads.NewReadCloser") || strings.HasSuffix(id, "threads.NewWriteCounter") {
				return
			}
			for _, a := range c.Common().Args {
				if a.Type().String() != "io.Reader" && !types.Implements(a.Type(), ioReader(p)) {
					continue
				}
				if _, isIface := a.Type().Underlying().(*types.Interface); !isIface {
					continue
				}
				if kit.IsNilConst(a) {
					continue
				}
				if !isTee(a) {
					bad = "after the counted discard was deferred, " + kit.ShortID(id) + " at " + posOf(p, in) + " reads from a reader that does not go through the byte counter: the deferred discard then skips bytes of the next message"
				}
			}
		})
		r.Check(bad == "", rule, key, posOf(p, d), "every read after the deferred discard goes through the counting tee", bad)
	}
}

// cellOf: v is a load of cell a.
func cellOf(v ssa.Value, a *ssa.Alloc) bool {
	u, ok := v.(*ssa.UnOp)
	return ok && u.Op == token.MUL && u.X == ssa.Value(a)
}

func ioReader(p *load.Program) *types.Interface {
	if pk := p.All["io"]; pk != nil {
		if o := pk.Types.Scope().Lookup("Reader"); o != nil {
			if it, ok := o.Type().Underlying().(*types.Interface); ok {
				return it
			}
		}
	}
	return types.NewInterfaceType(nil, nil)
}

// allHandlers: every function that can sit in the handler table, with how it gets there.
func allHandlers(p *load.Program) (fns []*ssa.Function, byAccept map[*ssa.Function]bool) {
	byAccept = map[*ssa.Function]bool{}
	seen := map[*ssa.Function]bool{}
	for _, in := range handlerInstalls(p) {
		if in.handler == nil || in.handler.Blocks == nil {
			continue
		}
		if !seen[in.handler] {
			seen[in.handler] = true
			fns = append(fns, in.handler)
		}
		if fname(in.owner) == "accept" {
			byAccept[in.handler] = true
		}
	}
	return
}

func checkC14(p *load.Program, r *kit.Report) {
	r.Rule("SEND-FRESH", "no handler queues a field of the node as a message: the sender thread serialises it later", 3)
	checkSendFresh(p, r, "SEND-FRESH")
	r.Rule("DISCARD-REMAINDER", "discardBlock discards header.Length minus what the counting reader has seen", 1)
	checkDiscardBlockRemainder(p, r, "DISCARD-REMAINDER")
	r.Rule("HEADER-REFUSALS", "readHeader refuses a header only with the error of a read from the connection or with ErrWrongNetwork: command, length and checksum are data for the dispatcher", 5)
	checkHeaderRefusals(p, r, "HEADER-REFUSALS")
	r.NotDecided = "the pong itself (needs the send path to run), multi-MB payload timing; for count-prefixed item loops exactness relies on the protocol's own invariant that varint + count×item equals the declared length (conformant traffic, which is what the property grants)."
	r.Rule("CONSUME", "every handler return that may be nil is reached only after the message was consumed to exactly header.Length: readMessage, DiscardInput(r, header.Length), a deferred DiscardInputWithCounter/discardBlock whose counter tees every later read, or the exit of a count-bounded item loop; typed exemptions: closing connection (!IsReady in handlers installed with ready), dead-by-installation (txManager == nil), zero-payload commands, shutdown (interrupt arm)", 25)
	r.Rule("FRAME-HELPERS", "readHeader reads 4+12+4+4 bytes and rejects a foreign magic before reading on; readMessage consumes exactly header.Length on success; DiscardInput reads n = (n/1024)·1024 + n%1024 bytes with full reads; handleMessage discards header.Length when no handler exists; handleExtended rewrites header.Length from the 12+8 byte extended header before installing the counted discard; readIncoming stops on every handler error", 7)
	r.Rule("DEADLINE-CLEARED", "a read deadline armed on the connection (SetReadDeadline/SetDeadline with a non-zero time) is set back to the zero time on every path to a successful return of the function that armed it, or of the callers it is handed to: the read loop waits for the next header for as long as the peer is quiet, and a deadline left armed turns that wait into an i/o timeout that stops the node", 1)
	r.Rule("READ-AHEAD", "nothing in the node package wraps the connection (or a reader derived from it) in a bufio reader/scanner or reads it to EOF: a read-ahead buffer swallows the beginning of the next message", 1)
	r.Rule("BLOCKING-OP", "no handler performs a blocking send on a channel held in a BitcoinNode field; the outgoing queue is drained until closed by sendOutgoing (flush loop on every early exit)", 2)
	r.Rule("SINGLE-WRITER", "only BitcoinNode.sendOutgoing writes to the connection (every other sender queues through sendMessage): a pong is never interleaved with another outgoing message", 1)
	checkSingleWriter(p, r, "SINGLE-WRITER")
	r.Rule("DRAIN-TO-CLOSE", "BlockDownloader.handleBlock returns only after it saw the tx channel closed (range exit or a flush loop that runs until close): the node pushes a block's txs with blocking sends from the message loop, which would otherwise park in the middle of the block", 1)
	checkDrainToClose(p, r, "DRAIN-TO-CLOSE")
	r.Assume("peer traffic is protocol-conformant (C14's own quantifier): for item loops, varint + count×item = declared length")

	fns, byAccept := allHandlers(p)
	if len(fns) < 12 {
		r.Unknown("CONSUME", "handlers", "-", "expected at least 12 handler functions in the table, found %d", len(fns))
		return
	}
	for _, f := range fns {
		consumeCheck(p, r, "CONSUME", f, byAccept[f] && fname(f) == "handleHeadersTrack", fname(f) == "handleInventory" && inventoryInstalledWithManager(p))
	}
	checkFrameHelpers(p, r, "FRAME-HELPERS")
	checkReadAhead(p, r, "READ-AHEAD")
	checkDeadlineCleared(p, r, "DEADLINE-CLEARED")
	checkHandlerBlocking(p, r, "BLOCKING-OP", fns)
}

// inventoryInstalledWithManager: accept installs handleInventory only on the txManager != nil edge.
func inventoryInstalledWithManager(p *load.Program) bool {
	acc := p.Func(R, "BitcoinNode.accept")
	if acc == nil {
		return false
	}
	tm := p.Field(R, "BitcoinNode", "txManager")
	gs := kit.FindGuards(acc, func(c ssa.Value) (bool, bool) {
		b, ok := c.(*ssa.BinOp)
		if !ok || (b.Op != token.EQL && b.Op != token.NEQ) || !kit.IsNilConst(b.Y) || !loadOfField(b.X, tm) {
			return false, false
		}
		return true, b.Op == token.NEQ
	})
	ok := len(gs) > 0
	for _, in := range handlerInstalls(p) {
		if in.owner == acc && in.handler != nil && fname(in.handler) == "handleInventory" {
			if d, _ := kit.DominatedByEdges(acc, in.entry, edgesOf(gs, true), nil, p.Pos); !d {
				ok = false
			}
		} else if in.handler != nil && fname(in.handler) == "handleInventory" {
			ok = false
		}
	}
	// the field is never cleared while the node runs
	for _, f := range pkgFuncs(p, R) {
		for _, w := range kit.DirectWrites(f) {
			if w.Field == tm && kit.IsNilConst(w.Val) {
				ok = false
			}
		}
	}
	return ok
}

func checkFrameHelpers(p *load.Program, r *kit.Report, rule string) {
	// readHeader
	if f := fn(p, r, rule, R, "readHeader"); f != nil {
		lay := kit.LayoutString(kit.WireLayout(f, nil, 0))
		r.Check(lay == "bin:4u raw:12 bin:4u raw:4", rule, "readHeader/layout", posOf(p, f.Blocks[0].Instrs[0]), "magic 4 + command 12 + length 4 + checksum 4", "message header is read as ["+lay+"], the wire format is 4+12+4+4")
		// magic compared before the command is read
		netF := p.Field(load.WirePkg, "MessageHeader", "Network")
		gs := kit.FindGuards(f, func(c ssa.Value) (bool, bool) {
			b, ok := c.(*ssa.BinOp)
			if !ok || (b.Op != token.EQL && b.Op != token.NEQ) {
				return false, false
			}
			if !(loadOfField(b.X, netF) || loadOfField(b.Y, netF)) {
				return false, false
			}
			return true, b.Op == token.EQL
		})
		bad := ""
		if len(gs) == 0 {
			bad = "the network magic is not compared"
		}
		for _, c := range kit.CallsTo(f, "io.ReadFull") {
			if ok, _ := kit.DominatedByEdges(f, c, edgesOf(gs, true), nil, p.Pos); !ok {
				bad = "the header is read on after a foreign magic"
			}
		}
		for _, e := range edgesOf(gs, false) {
			rr := kit.Reach(f, []kit.Pt{kit.EdgeStart(e)}, kit.Opts{})
			for _, ret := range kit.Returns(f) {
				if rr.Has(ret) && rr.ErrClass(ret) != kit.ErrNonNil {
					bad = "a foreign magic is not an error"
				}
			}
		}
		r.Check(bad == "", rule, "readHeader/magic", posOf(p, f.Blocks[0].Instrs[0]), "foreign magic → error before anything else is read", bad)
	}
	// readMessage
	if f := fn(p, r, rule, R, "readMessage"); f != nil {
		hp, _ := handlerParams(f)
		bad := ""
		n := 0
		var consuming ssa.Instruction
		kit.AllInstrs(f, func(in ssa.Instruction) {
			c, ok := in.(*ssa.Call)
			if !ok {
				return
			}
			switch kit.CallID(c) {
			case "io.CopyN":
				n++
				consuming = c
				if !isHeaderLength(c.Call.Args[2], hp) {
					bad = "the payload read is not header.Length bytes"
				}
			case "io.ReadFull":
				n++
				consuming = c
				ms, ok := kit.Strip(c.Call.Args[1]).(*ssa.MakeSlice)
				if !ok || !isHeaderLength(ms.Len, hp) {
					bad = "the payload read is not header.Length bytes"
				}
			}
		})
		if n != 1 {
			bad = fmt.Sprintf("expected one payload read, found %d", n)
		} else {
			pre := kit.Reach(f, []kit.Pt{kit.Entry(f)}, kit.Opts{StopAt: kit.InstrSet(consuming)})
			for _, ret := range kit.Returns(f) {
				if pre.Has(ret) && pre.ErrClass(ret) != kit.ErrNonNil {
					bad = "readMessage can succeed without reading the payload"
				}
			}
			if cc, ok := consuming.(*ssa.Call); ok {
				for _, e := range edgesOf(errNilGuards(f, cc), false) {
					rr := kit.Reach(f, []kit.Pt{kit.EdgeStart(e)}, kit.Opts{})
					for _, ret := range kit.Returns(f) {
						if rr.Has(ret) && rr.ErrClass(ret) != kit.ErrNonNil {
							bad = "a short payload read is not an error"
						}
					}
				}
			}
		}
		r.Check(bad == "", rule, "readMessage/exact", posOf(p, f.Blocks[0].Instrs[0]), "success ⇒ exactly header.Length payload bytes were read", bad)
		// the message is decoded from exactly those bytes: the buffer they are copied into is
		// empty before the copy — created in readMessage, or Reset on every path to the copy. A
		// buffer that comes from elsewhere (a pool, a field) can still hold what an earlier message's
		// decoder left unread; the next message would be decoded from stale bytes.
		if cc, ok := consuming.(*ssa.Call); ok && kit.CallID(cc) == "io.CopyN" {
			badB := ""
			dst := kit.Strip(cc.Call.Args[0])
			if al, isAlloc := dst.(*ssa.Alloc); !isAlloc || al.Parent() != f {
				var resets []ssa.Instruction
				for _, c := range kit.CallsTo(f, "bytes.Buffer.Reset") {
					if kit.Strip(c.Common().Args[0]) == dst {
						resets = append(resets, c)
					}
				}
				pre := kit.Reach(f, []kit.Pt{kit.Entry(f)}, kit.Opts{StopAt: kit.InstrSet(resets...)})
				if len(resets) == 0 || pre.Has(cc) {
					badB = "the payload is copied into a buffer that is neither created in readMessage nor Reset before the copy (" + describe(dst) + "): bytes a previous decoder left unread are decoded as the start of this message"
				}
			}
			r.Check(badB == "", rule, "readMessage/fresh-buffer", posOf(p, cc), "the payload buffer is empty before the copy", badB)
		}
	}
	// DiscardInput
	if f := fn(p, r, rule, R, "DiscardInput"); f != nil {
		lin := kit.NewLin(f)
		bad := ""
		reads := 0
		kit.AllInstrs(f, func(in ssa.Instruction) {
			c, ok := in.(*ssa.Call)
			if !ok {
				return
			}
			if c.Call.IsInvoke() && c.Call.Method.Name() == "Read" {
				bad = "DiscardInput uses a plain Read, which may return fewer bytes than asked: a segmented delivery is under-consumed"
				reads++
			}
			if kit.CallID(c) == "io.ReadFull" {
				reads++
				l := lin.LenOf(c.Call.Args[1]).String()
				if !(l == "1024" || strings.Contains(l, "%") || strings.Contains(l, pAtom(f, 1).String())) {
					bad = "unexpected read size " + l
				}
				// error returned
				for _, e := range edgesOf(errNilGuards(f, c), false) {
					rr := kit.Reach(f, []kit.Pt{kit.EdgeStart(e)}, kit.Opts{})
					for _, ret := range kit.Returns(f) {
						if rr.Has(ret) && rr.ErrClass(ret) != kit.ErrNonNil {
							bad = "a failed read is not reported"
						}
					}
				}
			}
			if kit.CallID(c) == "io.CopyN" {
				reads++
				if !lin.Of(c.Call.Args[2]).Equal(pAtom(f, 1)) {
					bad = "CopyN does not discard n bytes"
				}
			}
		})
		if reads == 0 {
			bad = "DiscardInput reads nothing"
		}
		// exactly n bytes are asked of the reader, whatever form the chunking takes: evaluated for
		// representatives of n
		if bad == "" || strings.HasPrefix(bad, "unexpected read size") {
			bad = ""
			var nPrm *ssa.Parameter
			for _, prm := range f.Params {
				if isIntLike(prm.Type()) {
					nPrm = prm
				}
			}
			if nPrm == nil {
				bad = "no byte-count parameter"
			} else {
				for _, n := range []int64{0, 1, 2, 1023, 1024, 1025, 2047, 2048, 2049, 5000, 65536, 70001} {
					got, why := simulateReads(f, nPrm, n)
					if why != "" {
						bad = fmt.Sprintf("DiscardInput(%d): %s", n, why)
						break
					}
					if got != n {
						bad = fmt.Sprintf("DiscardInput(%d) reads %d bytes: the next message is parsed from the wrong offset", n, got)
						break
					}
				}
			}
		}
		r.Check(bad == "", rule, "DiscardInput/exact", posOf(p, f.Blocks[0].Instrs[0]), "exactly n bytes are read, with full reads, for every n (evaluated for 12 representative sizes)", bad)
	}
	// handleMessage no-handler arm
	if f := fn(p, r, rule, R, "BitcoinNode.handleMessage"); f != nil {
		var stops []ssa.Instruction
		var rh *ssa.Call
		kit.AllInstrs(f, func(in ssa.Instruction) {
			if c, ok := in.(*ssa.Call); ok && kit.CallID(c) == R+".readHeader" {
				rh = c
			}
			if c, ok := in.(*ssa.Call); ok && kit.CallID(c) == R+".DiscardInput" {
				if fl, base := kit.LoadedField(c.Call.Args[1]); fl != nil && fl.Name() == "Length" && rh != nil && kit.Strip(base) == extractOf(rh, 0) {
					stops = append(stops, c)
				}
			}
			if g, ok := in.(*ssa.Go); ok {
				stops = append(stops, g)
			}
			// the handler handed to a function of this package that runs it
			if c, ok := in.(*ssa.Call); ok {
				if callee := kit.StaticCallee(c); callee != nil && callee.Pkg != nil && callee.Pkg.Pkg.Path() == R {
					for _, a := range c.Call.Args {
						if strings.HasSuffix(a.Type().String(), "bitcoin_reader.MessageHandlerFunction") {
							stops = append(stops, c)
						}
					}
				}
			}
		})
		bad := ""
		if rh == nil {
			bad = "readHeader call not found"
		} else {
			var starts []kit.Pt
			for _, e := range edgesOf(errNilGuards(f, rh), true) {
				starts = append(starts, kit.EdgeStart(e))
			}
			rr := kit.Reach(f, starts, kit.Opts{StopAt: kit.InstrSet(stops...)})
			for _, ret := range kit.Returns(f) {
				if rr.Has(ret) && rr.ErrClass(ret) != kit.ErrNonNil {
					bad = "a message without a handler can be skipped without discarding header.Length bytes: " + rr.PathTo(ret, p.Pos)
				}
			}
		}
		r.Check(bad == "", rule, "handleMessage/no-handler-discard", posOf(p, f.Blocks[0].Instrs[0]), "nil only after DiscardInput(conn, header.Length) or a handler ran", bad)
		// once a handler was started the message is the handler's to consume: handleMessage itself
		// does not read or discard anything more from the connection (a second, central discard
		// counts against header.Length, which handleExtended has rewritten to the inner length while
		// the counter also saw the extended header: the subtraction underflows)
		badD := ""
		var started []ssa.Instruction
		kit.AllInstrs(f, func(in ssa.Instruction) {
			if g, ok := in.(*ssa.Go); ok {
				started = append(started, g)
			}
		})
		for _, g := range started {
			rr := kit.Reach(f, kit.After(g), kit.Opts{})
			kit.AllInstrs(f, func(in ssa.Instruction) {
				c, ok := in.(ssa.CallInstruction)
				if !ok || !rr.Has(in) {
					return
				}
				switch kit.CallID(c) {
				case R + ".DiscardInput", R + ".DiscardInputWithCounter", R + ".readMessage", "io.ReadFull", "io.CopyN":
					badD = kit.ShortID(kit.CallID(c)) + " at " + posOf(p, in) + " reads from the connection after the handler for this message was started: the handler already consumes the message to its declared length (and rewrites header.Length for extended messages)"
				}
			})
		}
		r.Check(badD == "", rule, "handleMessage/handler-owns-payload", posOf(p, f.Blocks[0].Instrs[0]), "handleMessage reads nothing from the connection after starting the handler", badD)
		// … and handleMessage returns only with the handler's result: the next header is read by
		// the caller as soon as it returns, and a handler still reading the payload would share the
		// connection with it
		{
			target := f
			// a helper that starts the handler AND waits for it (it returns the error, not a
			// channel): the obligation is the helper's
			if len(started) == 0 {
				kit.AllInstrs(f, func(in ssa.Instruction) {
					c, ok := in.(*ssa.Call)
					if !ok {
						return
					}
					g := kit.StaticCallee(c)
					if g == nil || g.Blocks == nil || g.Pkg != f.Pkg {
						return
					}
					res := g.Signature.Results()
					returnsChan := false
					for i := 0; i < res.Len(); i++ {
						if _, isCh := res.At(i).Type().Underlying().(*types.Chan); isCh {
							returnsChan = true
						}
					}
					hasGo := false
					kit.AllInstrs(g, func(in2 ssa.Instruction) {
						if _, ok := in2.(*ssa.Go); ok {
							hasGo = true
						}
					})
					if hasGo && !returnsChan {
						target = g
					}
				})
			}
			badW := waitsForHandler(p, target)
			r.Check(badW == "", rule, "handleMessage/waits-for-handler", posOf(p, f.Blocks[0].Instrs[0]), "every return after the handler was started follows the receipt of its result", badW)
		}
	}
	// handleExtended: Length store precedes the deferred discard; 12+8 bytes read before
	if f := fn(p, r, rule, R, "BitcoinNode.handleExtended"); f != nil {
		hp, _ := handlerParams(f)
		ev := findConsumeEvents(f, hp)
		bad := ""
		var lenRead ssa.Instruction
		kit.AllInstrs(f, func(in ssa.Instruction) {
			if c, ok := in.(*ssa.Call); ok && kit.CallID(c) == "encoding/binary.Read" {
				if fa, ok := kit.Strip(c.Call.Args[2]).(*ssa.FieldAddr); ok {
					if fl, base := kit.FieldOfAddr(fa); fl != nil && fl.Name() == "Length" && kit.Strip(base) == ssa.Value(hp) {
						lenRead = c
					}
				}
			}
		})
		if lenRead == nil {
			// read into a local and then stored: `binary.Read(r, endian, &length); header.Length = length`
			kit.AllInstrs(f, func(in ssa.Instruction) {
				st, ok := in.(*ssa.Store)
				if !ok {
					return
				}
				fl, base := kit.FieldOfAddr(st.Addr)
				if fl == nil || fl.Name() != "Length" || kit.Strip(base) != ssa.Value(hp) {
					return
				}
				fromRead := kit.DependsOn(st.Val, func(v ssa.Value) bool {
					ld, ok := v.(*ssa.UnOp)
					if !ok || ld.Op != token.MUL {
						return false
					}
					al, ok := ld.X.(*ssa.Alloc)
					if !ok || al.Referrers() == nil {
						return false
					}
					found := false
					kit.AllInstrs(f, func(in2 ssa.Instruction) {
						if c, ok := in2.(*ssa.Call); ok && kit.CallID(c) == "encoding/binary.Read" && len(c.Call.Args) == 3 && kit.Strip(c.Call.Args[2]) == ssa.Value(al) {
							found = true
						}
					})
					return found
				})
				if fromRead {
					lenRead = st
				}
			})
		}
		lay := kit.LayoutString(kit.WireLayout(f, nil, 0))
		switch {
		case lenRead == nil:
			bad = "the extended length is not read into header.Length"
		case len(ev.deferred) != 1:
			bad = "the counted discard is not deferred"
		case kit.Reach(f, kit.After(ev.deferred[0]), kit.Opts{}).Has(lenRead):
			bad = "header.Length is rewritten after the discard was deferred with the old length"
		case !strings.HasPrefix(lay, "raw:12 bin:8u"):
			bad = "extended header is read as [" + lay + "], the format is 12 byte command + 8 byte length"
		}
		r.Check(bad == "", rule, "handleExtended/length-rewrite", posOf(p, f.Blocks[0].Instrs[0]), "12+8 bytes, Length rewritten, then the counted discard is deferred", bad)
	}
	// readIncoming
	if f := fn(p, r, rule, R, "BitcoinNode.readIncoming"); f != nil {
		cs := kit.CallsTo(f, R+".BitcoinNode.handleMessage")
		bad := ""
		if len(cs) != 1 {
			bad = "handleMessage call not found"
		} else {
			call := cs[0].(*ssa.Call)
			header, _ := loopBodyEntry(f, call)
			for _, e := range edgesOf(errNilGuards(f, call), false) {
				if header != nil && kit.Reach(f, []kit.Pt{kit.EdgeStart(e)}, kit.Opts{}).Has(call) {
					bad = "the read loop continues after a handler error: the stream position is unknown"
				}
			}
		}
		r.Check(bad == "", rule, "readIncoming/stop-on-error", posOf(p, f.Blocks[0].Instrs[0]), "every handler error ends the read loop", bad)
	}
}

func checkHandlerBlocking(p *load.Program, r *kit.Report, rule string, handlers []*ssa.Function) {
	// blocking sends on BitcoinNode channel fields in the handlers' own bodies and their callees
	seen := map[*ssa.Function]bool{}
	var bad []string
	var walk func(f *ssa.Function, depth int)
	walk = func(f *ssa.Function, depth int) {
		if seen[f] || f.Blocks == nil || depth > 6 {
			return
		}
		seen[f] = true
		pk := f.Pkg
		if pk == nil && f.Parent() != nil {
			pk = f.Parent().Pkg
		}
		if pk == nil || pk.Pkg.Path() != R {
			return
		}
		kit.AllInstrs(f, func(in ssa.Instruction) {
			if s, ok := in.(*ssa.Send); ok {
				fl, _ := kit.LoadedField(kit.Strip(s.Chan))
				if fl != nil && ownerStruct(p, fl) == "BitcoinNode" {
					bad = append(bad, "blocking send on BitcoinNode."+fl.Name()+" at "+posOf(p, in)+" in "+kit.ShortID(kit.FuncID(f))+": when its receiver has stopped listening the read loop blocks for ever and no later ping is answered")
				}
			}
			// a select without default whose only other arms wait for shutdown blocks just the same
			if sel, ok := in.(*ssa.Select); ok && sel.Blocking {
				var sendFld *types.Var
				timed := false
				for _, st := range sel.States {
					if st.Dir == types.SendOnly {
						if fl, _ := kit.LoadedField(kit.Strip(st.Chan)); fl != nil && ownerStruct(p, fl) == "BitcoinNode" {
							sendFld = fl
						}
					}
					if st.Dir == types.RecvOnly {
						if c := callOf(kit.Strip(st.Chan), 0); c != nil && strings.HasPrefix(kit.CallID(c), "time.") {
							timed = true
						}
						if c, ok := kit.Strip(st.Chan).(*ssa.Call); ok && strings.HasPrefix(kit.CallID(c), "time.") {
							timed = true
						}
					}
				}
				if sendFld != nil && !timed {
					bad = append(bad, "select at "+posOf(p, in)+" in "+kit.ShortID(kit.FuncID(f))+" sends on BitcoinNode."+sendFld.Name()+" without a default or timer arm: once its receiver has stopped listening (and the buffer is full) the handler blocks until shutdown, the read loop stops and no later message is answered")
				}
			}
			if c, ok := in.(ssa.CallInstruction); ok {
				if sc := kit.StaticCallee(c); sc != nil {
					walk(kit.FuncValueTarget(sc), depth+1)
				}
			}
		})
	}
	for _, h := range handlers {
		walk(h, 0)
	}
	if len(bad) > 0 {
		for i, b := range bad {
			r.Bad(rule, fmt.Sprintf("handlers/field-channel-send#%d", i+1), "-", "%s", b)
		}
	} else {
		r.OK(rule, "handlers/field-channel-send", "-", "%d functions in the handlers' call trees, no blocking send on a node channel field", len(seen))
	}
	// sendOutgoing drains until closed
	if f := fn(p, r, rule, R, "BitcoinNode.sendOutgoing"); f != nil {
		// receives from the queue
		var recvs []ssa.Instruction
		kit.AllInstrs(f, func(in ssa.Instruction) {
			if u, ok := in.(*ssa.UnOp); ok && u.Op == token.ARROW {
				recvs = append(recvs, in)
			}
		})
		bad := ""
		if len(recvs) < 2 {
			bad = "no flush loop: after an early exit senders on the outgoing queue block for ever"
		} else {
			main := recvs[0]
			for _, x := range recvs {
				if x.Block().Dominates(main.Block()) {
					main = x
				}
			}
			for _, ret := range kit.Returns(f) {
				// returns inside the main loop body must pass another receive loop
				if !main.Block().Dominates(ret.Block()) {
					continue
				}
				var others []ssa.Instruction
				for _, x := range recvs {
					if x != main {
						others = append(others, x)
					}
				}
				// natural exit: ok == false edge of the main receive; early exits pass a flush
				rr := kit.Reach(f, kit.After(main), kit.Opts{StopAt: kit.InstrSet(append(others, main)...)})
				if rr.Has(ret) && inBodyOf(f, main, ret) {
					bad = "an early return at " + posOf(p, ret) + " leaves the outgoing queue undrained"
				}
			}
		}
		r.Check(bad == "", rule, "sendOutgoing/drained-until-closed", posOf(p, f.Blocks[0].Instrs[0]), "every early exit flushes the queue until it is closed", bad)
	}
}

// inBodyOf: ret is reached through the `ok` (value received) edge of the receive.
func inBodyOf(f *ssa.Function, recv ssa.Instruction, ret *ssa.Return) bool {
	u := recv.(*ssa.UnOp)
	if !u.CommaOk {
		return true
	}
	var okEdges []kit.Edge
	for _, ref := range *u.Referrers() {
		if e, ok := ref.(*ssa.Extract); ok && e.Index == 1 {
			for _, r2 := range *e.Referrers() {
				if ifi, ok := r2.(*ssa.If); ok {
					okEdges = append(okEdges, kit.Edge{From: ifi.Block(), Succ: 0})
				}
			}
		}
	}
	if len(okEdges) == 0 {
		return true
	}
	d, _ := kit.DominatedByEdges(f, ret, okEdges, nil, func(token.Pos) string { return "" })
	return d
}

// checkDrainToClose: the node's block handler feeds the downloader's handleBlock through an
// unbuffered-in-effect channel with blocking sends, inside the message loop goroutine. handleBlock
// must therefore return only after it has seen the channel closed (the `for range` exit, or the
// flush loop `for range txChannel {}` on its error and cancel paths); a return while the node may
// still be sending parks the message loop for ever in the middle of the block: the block is never
// consumed to its declared length and no later message is answered.
func checkDrainToClose(p *load.Program, r *kit.Report, rule string) {
	f := fn(p, r, rule, R, "BlockDownloader.handleBlock")
	if f == nil {
		return
	}
	var ch *ssa.Parameter
	for _, prm := range f.Params {
		if c, ok := prm.Type().Underlying().(*types.Chan); ok && strings.Contains(c.Elem().String(), "MsgTx") {
			ch = prm
		}
	}
	pos := posOf(p, f.Blocks[0].Instrs[0])
	if ch == nil {
		r.Unknown(rule, "BlockDownloader.handleBlock/drain", pos, "tx channel parameter not found")
		return
	}
	// closed edges: `v, ok := <-ch` tested false
	closed := edgesOf(kit.FindGuards(f, func(c ssa.Value) (bool, bool) {
		e, ok := c.(*ssa.Extract)
		if !ok || e.Index != 1 {
			return false, false
		}
		u, ok := e.Tuple.(*ssa.UnOp)
		if !ok || u.Op != token.ARROW || !u.CommaOk || kit.Strip(u.X) != ssa.Value(ch) {
			return false, false
		}
		return true, true
	}), false)
	bad := ""
	n := 0
	for _, ret := range kit.Returns(f) {
		n++
		if d, path := kit.DominatedByEdges(f, ret, closed, nil, p.Pos); !d {
			bad = "handleBlock can return (" + retLabel(ret) + " at " + posOf(p, ret) + ") without having seen the tx channel closed (" + path + "): the node's message loop is still sending the block's txs with blocking sends and parks for ever; the rest of the block is never read and no later message is answered"
		}
	}
	if len(closed) == 0 {
		bad = "handleBlock never tests the tx channel for being closed"
	}
	r.Check(bad == "", rule, "BlockDownloader.handleBlock/drain-to-close", pos, fmt.Sprintf("all %d returns are behind a closed-channel edge", n), bad)
}

// waitsForHandler: in f every return after the handler goroutine was started (a go statement, or a
// call of a helper of the package that contains one and returns the result channel) follows the
// receipt of the handler's result. Returns "" when that holds.
func waitsForHandler(p *load.Program, f *ssa.Function) string {
	var started []ssa.Instruction
	kit.AllInstrs(f, func(in ssa.Instruction) {
		if g, ok := in.(*ssa.Go); ok {
			started = append(started, g)
		}
	})
	badW := ""
	startsGo := func(c ssa.CallInstruction) bool {
		g := kit.StaticCallee(c)
		if g == nil || g.Blocks == nil || g.Pkg != f.Pkg {
			return false
		}
		has := false
		kit.AllInstrs(g, func(in ssa.Instruction) {
			if _, ok := in.(*ssa.Go); ok {
				has = true
			}
		})
		return has
	}
	kit.AllInstrs(f, func(in ssa.Instruction) {
		if c, ok := in.(*ssa.Call); ok && startsGo(c) {
			started = append(started, in)
		}
	})
	resultChan := func(v ssa.Value) bool {
		switch x := kit.Strip(v).(type) {
		case *ssa.MakeChan:
			return true
		case *ssa.Call:
			return startsGo(x)
		}
		return false
	}
	var results []kit.Guard
	for _, b := range f.Blocks {
		ifi, ok := b.Instrs[len(b.Instrs)-1].(*ssa.If)
		if !ok {
			continue
		}
		bo, ok := ifi.Cond.(*ssa.BinOp)
		if !ok || bo.Op != token.EQL {
			continue
		}
		ex, ok := bo.X.(*ssa.Extract)
		if !ok || ex.Index != 0 {
			continue
		}
		sel, ok := ex.Tuple.(*ssa.Select)
		if !ok {
			continue
		}
		k, isC := kit.ConstInt(bo.Y)
		if !isC || int(k) >= len(sel.States) || k < 0 {
			continue
		}
		st := sel.States[k]
		if st.Dir != types.RecvOnly {
			continue
		}
		if resultChan(st.Chan) {
			results = append(results, kit.Guard{If: ifi, Pass: 0})
		}
	}
	// a plain receive `err := <-errChan`
	var recvs []ssa.Instruction
	kit.AllInstrs(f, func(in ssa.Instruction) {
		if u, ok := in.(*ssa.UnOp); ok && u.Op == token.ARROW {
			if resultChan(u.X) {
				recvs = append(recvs, in)
			}
		}
	})
	if len(started) == 0 {
		return "no handler goroutine is started"
	} else if len(results) == 0 && len(recvs) == 0 {
		return "the handler's result is never received"
	}
	for _, g := range started {
		rr := kit.Reach(f, kit.After(g), kit.Opts{StopAt: kit.InstrSet(recvs...), BlockEdge: kit.EdgeSet(edgesOf(results, true)...)})
		for _, ret := range kit.Returns(f) {
			if rr.Has(ret) {
				badW = kit.ShortID(kit.FuncID(f)) + " can return (" + rr.PathTo(ret, p.Pos) + ") while the handler it started is still running: the caller reads the next message header from the connection while the handler is still reading this message's payload"
			}
		}
	}
	return badW
}
