package props

import (
	"fmt"
	"go/types"
	"strings"

	"golang.org/x/tools/go/ssa"

	"verif/internal/kit"
	"verif/internal/load"
)

func init() { register("C15", checkC15) }

// hasRecover: fn (a goroutine body) defers a function that calls recover().
func hasRecover(f *ssa.Function) bool {
	found := false
	kit.AllInstrs(f, func(in ssa.Instruction) {
		d, ok := in.(*ssa.Defer)
		if !ok {
			return
		}
		var target *ssa.Function
		switch v := d.Call.Value.(type) {
		case *ssa.MakeClosure:
			target, _ = v.Fn.(*ssa.Function)
		case *ssa.Function:
			target = v
		}
		if target == nil || target.Blocks == nil {
			return
		}
		kit.AllInstrs(target, func(x ssa.Instruction) {
			if c, ok := x.(ssa.CallInstruction); ok && kit.CallID(c) == "builtin.recover" {
				found = true
			}
		})
	})
	return found
}

// touchesPeerData: the goroutine body invokes a message handler value, or decodes peer bytes.
func touchesPeerData(f *ssa.Function) string {
	why := ""
	seen := map[*ssa.Function]bool{}
	var walk func(g *ssa.Function, d int)
	walk = func(g *ssa.Function, d int) {
		if seen[g] || g.Blocks == nil || d > 3 || why != "" {
			return
		}
		seen[g] = true
		kit.AllInstrs(g, func(in ssa.Instruction) {
			c, ok := in.(ssa.CallInstruction)
			if !ok || why != "" {
				return
			}
			if _, isGo := in.(*ssa.Go); isGo && g == f {
				return
			}
			id := kit.CallID(c)
			switch {
			case id == R+".readMessage", strings.HasSuffix(id, ".Deserialize"), strings.HasSuffix(id, ".BtcDecode"), strings.HasSuffix(id, "wire.ReadVarInt"):
				why = "decodes peer bytes (" + kit.ShortID(id) + ")"
				return
			}
			if !c.Common().IsInvoke() && kit.StaticCallee(c) == nil {
				t := c.Common().Value.Type().String()
				if strings.Contains(t, "MessageHandlerFunction") || strings.Contains(t, "wire.MessageHeader") {
					why = "runs a message handler"
					return
				}
			}
			if sc := kit.StaticCallee(c); sc != nil {
				pk := sc.Pkg
				if pk != nil && (pk.Pkg.Path() == R || pk.Pkg.Path() == H) {
					walk(sc, d+1)
				}
			}
		})
	}
	walk(f, 0)
	return why
}

func checkC15(p *load.Program, r *kit.Report) {
	importRules(p, r, "C07", "IntersectHash runs inside ProcessHeader with the repository mutex held: both ancestor walks must advance their own cursor, or a fork of a fork that overtakes makes a peer's headers message spin for ever with every other connection blocked on the repository", 1, nil, "INTERSECT-SHAPE")
	r.Rule("NO-SELF-RECURSION", "no function of the two packages calls itself on every path (an Error()/String() method that formats its own receiver): the stack overflow aborts the process and no recover contains it", 1)
	checkNoUnconditionalSelfCall(p, r, "NO-SELF-RECURSION")
	r.Rule("EXT-DISPATCH", "handleExtended looks up the handler table only with a command that is block or tx (constant, or found equal to one of them on every path): no nesting of extended messages through the extmsg entry", 1)
	checkExtendedDispatch(p, r, "EXT-DISPATCH")
	importRules(p, r, "C13", "Run returns only after Stop closed the connection: Stop must never wait for a writer that is blocked on the peer", 1, nil, "NO-IO-UNDER-LOCK")
	importRules(p, r, "C06", "a map written without its write lock while other goroutines use it aborts the process (fatal error: concurrent map writes), which no recover contains", 1,
		func(o *kit.Obligation) bool {
			return strings.HasSuffix(o.Construct, ":txs") || strings.Contains(o.Construct, ":txs#")
		}, "LOCKSET")
	r.NotDecided = "absence of every panic (index, nil, conversion) on every byte string — a sound analysis for that drowns in unprovable-but-safe bounds checks; containment is decided instead: with it a residual panic costs one connection, which the property allows. Runtime fatal errors other than unlock-of-unlocked-mutex and oversized allocation; memory exhaustion by many small allocations."
	r.Rule("GO-RECOVER", "every goroutine started in the two packages whose body runs a message handler or decodes peer bytes defers a function that calls recover(); the thread objects of tokenized/threads recover in their own goroutines (re-derived from the dependency source)", 4)
	r.Rule("ALLOC-BOUND", "an integer decoded from the connection (header.Length, ReadVarInt results, binary.Read targets, and what is computed from them, followed into callees) never sizes make/Grow unless a dominating test bounds it by a constant ≤ 2³¹ or by the length of data already received", 1)
	r.Rule("LOCK-BALANCE", "every explicit Unlock/RUnlock in the two packages is executed with that lock held on every path reaching it (unlock of an unlocked mutex is a fatal error no recover can contain)", 60)
	r.Rule("NO-REACQUIRE", "no function of the two packages calls, while it holds a sync.Mutex/RWMutex on every path, a callee that takes the same lock of the same object (the handler would block for ever with the lock held: Run never returns and every other user of the object hangs)", 40)
	checkNoReacquire(p, r, "NO-REACQUIRE", nil)
	r.Rule("NO-READ-UNDER-NODE-LOCK", "no message handler (or what it calls in the node package) reads from the peer while it holds the node mutex: a stalled payload cannot wedge Stop, run and the node manager", 8)
	checkNoPeerReadUnderNodeLock(p, r, "NO-READ-UNDER-NODE-LOCK")
	r.Rule("STOP-ORDER", "BitcoinNode.Stop closes the connection before the outgoing message channel: Stop (and with it Run) cannot block behind a sender parked on the full queue", 1)
	checkStopOrder(p, r, "STOP-ORDER")
	r.Rule("CLOSE-BEFORE-WAIT", "the waiting buffer that feeds the alternate header handler is closed before that handler's thread is waited for (otherwise a connection that ends inside a headers message leaves the handler, and with it Run, blocked for ever)", 2)
	r.Rule("DEP-INDEX", "header.Bits is size-checked before it can reach bitcoin.ConvertToDifficulty's unguarded index (shared with C02)", 3)
	r.Rule("CONSUME", "pre-handshake and verification-stage handlers consume what they skip (shared with C14), so garbage is rejected by the next header's magic test instead of desynchronising", 6)
	r.Rule("FRAME-HELPERS", "foreign magic is rejected before anything else is read; every handler error ends the read loop (connection closed, Run returns); the extended length is installed in header.Length, which the deferred discard uses", 4)

	// GO-RECOVER
	k := newKeyer()
	n := 0
	for _, f := range pkgFuncs(p, R, H) {
		kit.AllInstrs(f, func(in ssa.Instruction) {
			g, ok := in.(*ssa.Go)
			if !ok {
				return
			}
			n++
			var body *ssa.Function
			switch v := g.Call.Value.(type) {
			case *ssa.MakeClosure:
				body, _ = v.Fn.(*ssa.Function)
			case *ssa.Function:
				body = v
			}
			key := k.key(kit.ShortID(kit.FuncID(f)) + "/go")
			r.Fn(kit.ShortID(kit.FuncID(f)))
			if body == nil || body.Blocks == nil {
				r.Unknown("GO-RECOVER", key, posOf(p, in), "goroutine body not resolved")
				return
			}
			why := touchesPeerData(body)
			switch {
			case why == "":
				r.OK("GO-RECOVER", key, posOf(p, in), "goroutine body neither runs a handler nor decodes peer bytes")
			case hasRecover(body):
				r.OK("GO-RECOVER", key, posOf(p, in), "goroutine %s and defers a recover()", why)
			default:
				r.Bad("GO-RECOVER", key, posOf(p, in), "this goroutine %s without a deferred recover(): any panic below it (index, nil, conversion on hostile bytes) terminates the whole process instead of closing one connection", why)
			}
		})
	}
	// dependency: threads
	{
		bad := ""
		gos := 0
		for f := range p.AllFunctions() {
			if f.Pkg == nil && f.Parent() == nil {
				continue
			}
			pk := f.Pkg
			if pk == nil {
				pk = f.Parent().Pkg
			}
			if pk == nil || pk.Pkg.Path() != load.ThreadsPkg || f.Blocks == nil {
				continue
			}
			kit.AllInstrs(f, func(in ssa.Instruction) {
				g, ok := in.(*ssa.Go)
				if !ok {
					return
				}
				mc, ok := g.Call.Value.(*ssa.MakeClosure)
				if !ok {
					return
				}
				body, _ := mc.Fn.(*ssa.Function)
				if body == nil || !strings.Contains(f.Name(), "Start") {
					return
				}
				gos++
				if !hasRecover(body) {
					bad = kit.ShortID(kit.FuncID(f)) + " starts its goroutine without recover()"
				}
			})
		}
		r.Check(bad == "" && gos >= 3, "GO-RECOVER", "threads.*Thread.Start", "tokenized/threads", fmt.Sprintf("%d Start goroutines of the dependency all defer recover()", gos), bad+fmt.Sprintf(" (%d Start goroutines found)", gos))
	}

	// ALLOC-BOUND over the network side
	var funcs []*ssa.Function
	for _, f := range pkgFuncs(p, R, H) {
		file := p.FileOf(f.Pos())
		if f.Pos() == 0 && f.Parent() != nil {
			file = p.FileOf(f.Parent().Pos())
		}
		switch {
		case strings.HasSuffix(file, "peers.go"), strings.HasSuffix(file, "seeds.go"), strings.HasPrefix(file, "headers/") && !strings.HasSuffix(file, "headers/handler.go"),
			strings.HasSuffix(file, "test_helpers.go"), strings.HasSuffix(file, "test_nodes.go"):
			continue
		}
		funcs = append(funcs, f)
	}
	lengthF := p.Field(load.WirePkg, "MessageHeader", "Length")
	t := kit.NewTaint(funcs, func(f *types.Var) bool { return f == lengthF })
	sinks, sources := 0, 0
	kk := newKeyer()
	for _, f := range funcs {
		kit.AllInstrs(f, func(in ssa.Instruction) {
			if v, ok := in.(ssa.Value); ok && isIntLike(v.Type()) && t.Why(v) != "" {
				sources++
			}
		})
		for _, s := range t.Sinks(f) {
			sinks++
			ok, why := t.Bounded(f, s.Size, s.Instr)
			name := kit.ShortID(kit.FuncID(f))
			r.Fn(name)
			r.Check(ok, "ALLOC-BOUND", kk.key(name+"/"+s.What), posOf(p, s.Instr), "peer-declared size ("+s.Why+") is bounded before it sizes the allocation",
				"a length declared by the peer ("+s.Why+") sizes an allocation ("+s.What+") without an effective bound ("+why+"): one header can make the process allocate or abort far beyond what was actually received")
		}
	}
	r.Extra["alloc_bound/tainted_values"] = sources
	if sources < 10 {
		r.Unknown("ALLOC-BOUND", "sources", "-", "only %d peer-decoded integer values found: source detection lost its anchors", sources)
	} else {
		r.OK("ALLOC-BOUND", "network-side/sinks", "-", "%d peer-decoded integer values traced through %d functions; %d reach an allocation size", sources, len(funcs), sinks)
	}

	// LOCK-BALANCE
	nb := 0
	kb := newKeyer()
	for _, f := range pkgFuncs(p, R, H) {
		var li *kit.LockInfo
		lin := kit.NewLin(f)
		kit.AllInstrs(f, func(in ssa.Instruction) {
			c, ok := in.(ssa.CallInstruction)
			if !ok {
				return
			}
			if _, isDefer := in.(*ssa.Defer); isDefer {
				return
			}
			key, mode, op := kit.LockOp(lin, c)
			if op >= 0 {
				return
			}
			if li == nil {
				li = kit.Lockset(f, nil)
			}
			if !li.Reached(in) {
				return
			}
			nb++
			name := kit.ShortID(kit.FuncID(f))
			ok2 := li.Holds(in, key, mode == "w")
			if mode == "r" {
				ok2 = li.Holds(in, key, false)
			}
			ckey := kb.key(name + "/unlock:" + key)
			if ok2 {
				r.OK("LOCK-BALANCE", ckey, posOf(p, in), "lock held on every path")
			} else {
				r.Bad("LOCK-BALANCE", ckey, posOf(p, in), "%s is released here but is not held on every path reaching this point (held: %s): unlock of an unlocked mutex is a fatal runtime error that no recover() contains — the process exits", key, li.HeldAt(in))
			}
		})
	}
	r.CallSites += nb

	// DEP-INDEX (shared)
	if ph := p.Func(H, "Repository.ProcessHeader"); ph != nil {
		if g := resolvePH(p, r, "DEP-INDEX", ph); g != nil {
			checkDepIndex(p, r, ph, g)
		}
	}
	// CONSUME for the pre-verification handlers
	ctor := p.Func(R, "NewBitcoinNode")
	for _, in := range handlerInstalls(p) {
		if in.owner == ctor && in.handler != nil && in.handler.Blocks != nil {
			consumeCheck(p, r, "CONSUME", in.handler, false, false)
		}
	}
	// FRAME-HELPERS subset
	sub := kit.NewReport(r.Property, r.Tier, r.Seed)
	checkFrameHelpers(p, sub, "FRAME-HELPERS")
	for _, o := range sub.Obls {
		switch o.Construct {
		case "readHeader/magic", "readIncoming/stop-on-error", "readMessage/exact", "handleMessage/no-handler-discard", "handleExtended/length-rewrite":
			r.Obls = append(r.Obls, o)
		}
	}
	for f := range sub.Analysed {
		r.Fn(f)
	}
	checkCloseBeforeWait(p, r, "CLOSE-BEFORE-WAIT")
	// blocking sends keep Run from returning
	fns, _ := allHandlers(p)
	r.Rule("BLOCKING-OP", "no handler blocks for ever on a node channel field (a blocked handler keeps Run from returning after the connection closes)", 1)
	checkHandlerBlocking(p, r, "BLOCKING-OP", fns)
}

func isIntLike(t types.Type) bool {
	b, ok := t.Underlying().(*types.Basic)
	return ok && b.Info()&types.IsInteger != 0
}
