package props

import (
	"go/token"
	"go/types"

	"golang.org/x/tools/go/ssa"

	"verif/internal/kit"
)

// simulateReads evaluates a byte-skipping function (integers, slice lengths and branches on them
// only) for one value of its integer parameter and returns how many bytes it asks the reader for on
// the path where every read succeeds: io.ReadFull(r, buf) counts len(buf), io.CopyN(…, k) counts k.
// The function is a small loop over integer state; evaluating it for representatives of n (0, below,
// at and above the chunk size, several chunks) decides "exactly n bytes are consumed" for whatever
// form the chunking arithmetic takes.
func simulateReads(f *ssa.Function, prm *ssa.Parameter, n int64) (total int64, why string) {
	ints := map[ssa.Value]int64{prm: n}
	lens := map[ssa.Value]int64{}
	var evalI func(v ssa.Value) (int64, bool)
	evalI = func(v ssa.Value) (int64, bool) {
		if k, ok := kit.ConstInt(v); ok {
			return k, true
		}
		if k, ok := ints[v]; ok {
			return k, true
		}
		switch x := v.(type) {
		case *ssa.Convert:
			return evalI(x.X)
		case *ssa.ChangeType:
			return evalI(x.X)
		}
		return 0, false
	}
	var evalLen func(v ssa.Value) (int64, bool)
	evalLen = func(v ssa.Value) (int64, bool) {
		if k, ok := lens[v]; ok {
			return k, true
		}
		switch x := v.(type) {
		case *ssa.Alloc:
			if p, ok := x.Type().Underlying().(*types.Pointer); ok {
				if a, ok := p.Elem().Underlying().(*types.Array); ok {
					return a.Len(), true
				}
			}
		case *ssa.ChangeType:
			return evalLen(x.X)
		}
		return 0, false
	}
	b := f.Blocks[0]
	var pred *ssa.BasicBlock
	i := 0
	for steps := 0; steps < 200000; steps++ {
		if i >= len(b.Instrs) {
			return total, "fell off a block"
		}
		in := b.Instrs[i]
		switch x := in.(type) {
		case *ssa.Phi:
			for pi, p := range b.Preds {
				if p == pred {
					if k, ok := evalI(x.Edges[pi]); ok {
						ints[x] = k
					} else {
						delete(ints, x)
					}
					if l, ok := evalLen(x.Edges[pi]); ok {
						lens[x] = l
					}
					break
				}
			}
		case *ssa.MakeSlice:
			if k, ok := evalI(x.Len); ok {
				lens[x] = k
			}
		case *ssa.Slice:
			base, okB := evalLen(x.X)
			lo, hi := int64(0), base
			okLo, okHi := true, okB
			if x.Low != nil {
				lo, okLo = evalI(x.Low)
			}
			if x.High != nil {
				hi, okHi = evalI(x.High)
			}
			if okLo && okHi {
				if hi < lo || (okB && hi > base) {
					return total, "slice bounds out of range while skipping"
				}
				lens[x] = hi - lo
			}
		case *ssa.BinOp:
			a, ok1 := evalI(x.X)
			c, ok2 := evalI(x.Y)
			if ok1 && ok2 {
				switch x.Op {
				case token.ADD:
					ints[x] = a + c
				case token.SUB:
					ints[x] = a - c
				case token.MUL:
					ints[x] = a * c
				case token.QUO:
					if c != 0 {
						ints[x] = a / c
					}
				case token.REM:
					if c != 0 {
						ints[x] = a % c
					}
				case token.LSS:
					ints[x] = b2i(a < c)
				case token.LEQ:
					ints[x] = b2i(a <= c)
				case token.GTR:
					ints[x] = b2i(a > c)
				case token.GEQ:
					ints[x] = b2i(a >= c)
				case token.EQL:
					ints[x] = b2i(a == c)
				case token.NEQ:
					ints[x] = b2i(a != c)
				}
			}
		case *ssa.UnOp:
			if x.Op == token.NOT {
				if a, ok := ints[x.X]; ok {
					ints[x] = 1 - a
				}
			}
		case *ssa.Call:
			switch kit.CallID(x) {
			case "builtin.len":
				if l, ok := evalLen(x.Call.Args[0]); ok {
					ints[x] = l
				}
			case "io.ReadFull":
				l, ok := evalLen(x.Call.Args[1])
				if !ok {
					return total, "the size of a read could not be evaluated"
				}
				total += l
			case "io.CopyN":
				k, ok := evalI(x.Call.Args[2])
				if !ok {
					return total, "the size of a copy could not be evaluated"
				}
				total += k
			default:
				if x.Call.IsInvoke() && x.Call.Method.Name() == "Read" {
					return total, "plain Read"
				}
			}
		case *ssa.Return:
			return total, ""
		case *ssa.Jump:
			pred, b, i = b, b.Succs[0], 0
			continue
		case *ssa.If:
			if cb, isC := kit.ConstBool(x.Cond); isC {
				pred, b, i = b, b.Succs[int(1-b2i(cb))], 0
				continue
			}
			if c, ok := ints[x.Cond]; ok {
				pred, b, i = b, b.Succs[int(1-c)], 0
				continue
			}
			// an error test: the reads succeed
			if bo, ok := x.Cond.(*ssa.BinOp); ok && (bo.Op == token.NEQ || bo.Op == token.EQL) && kit.IsNilConst(bo.Y) {
				s := 1
				if bo.Op == token.EQL {
					s = 0
				}
				pred, b, i = b, b.Succs[s], 0
				continue
			}
			return total, "a branch does not depend on the byte count only"
		}
		i++
	}
	return total, "did not terminate"
}

// miniRun interprets f from block b (entered from pred) over integer state only: constants,
// arithmetic, comparisons, boolean and integer phis, conversions. `input` supplies the values of
// leaf expressions (parameters, field loads); `stop` ends the run when it returns true for an
// instruction. A branch whose condition cannot be evaluated ends the run with ok == false.
func miniRun(b, pred *ssa.BasicBlock, input func(ssa.Value) (int64, bool), stop func(ssa.Instruction) bool) (at ssa.Instruction, ok bool) {
	at, ok, _ = miniRunEval(b, pred, input, stop)
	return at, ok
}

// runIntFunc interprets f from its entry with miniRun and returns the integer value of its first
// result on the path taken; input supplies parameters and field loads.
func runIntFunc(f *ssa.Function, input func(ssa.Value) (int64, bool)) (int64, bool) {
	if f == nil || len(f.Blocks) == 0 {
		return 0, false
	}
	at, ok, ev := miniRunEval(f.Blocks[0], nil, input, func(ssa.Instruction) bool { return false })
	ret, isRet := at.(*ssa.Return)
	if !ok || !isRet || len(ret.Results) == 0 {
		return 0, false
	}
	return ev(ret.Results[0])
}

// miniRunEval is miniRun that also hands back the evaluator over the state reached.
func miniRunEval(b, pred *ssa.BasicBlock, input func(ssa.Value) (int64, bool), stop func(ssa.Instruction) bool) (at ssa.Instruction, ok bool, ev func(ssa.Value) (int64, bool)) {
	ints := map[ssa.Value]int64{}
	var evalI func(v ssa.Value) (int64, bool)
	ev = func(v ssa.Value) (int64, bool) { return evalI(v) }
	evalI = func(v ssa.Value) (int64, bool) {
		if k, ok := kit.ConstInt(v); ok {
			return k, true
		}
		if cb, ok := kit.ConstBool(v); ok {
			return b2i(cb), true
		}
		if k, ok := ints[v]; ok {
			return k, true
		}
		if k, ok := input(v); ok {
			return k, true
		}
		switch x := v.(type) {
		case *ssa.Convert:
			return evalI(x.X)
		case *ssa.ChangeType:
			return evalI(x.X)
		}
		return 0, false
	}
	i := 0
	for steps := 0; steps < 100000; steps++ {
		if i >= len(b.Instrs) {
			return nil, false, ev
		}
		in := b.Instrs[i]
		if stop(in) {
			return in, true, ev
		}
		switch x := in.(type) {
		case *ssa.Phi:
			for pi, p := range b.Preds {
				if p == pred {
					if k, ok := evalI(x.Edges[pi]); ok {
						ints[x] = k
					} else {
						delete(ints, x)
					}
					break
				}
			}
		case *ssa.BinOp:
			a, ok1 := evalI(x.X)
			c, ok2 := evalI(x.Y)
			if ok1 && ok2 {
				switch x.Op {
				case token.ADD:
					ints[x] = a + c
				case token.SUB:
					ints[x] = a - c
				case token.MUL:
					ints[x] = a * c
				case token.LSS:
					ints[x] = b2i(a < c)
				case token.LEQ:
					ints[x] = b2i(a <= c)
				case token.GTR:
					ints[x] = b2i(a > c)
				case token.GEQ:
					ints[x] = b2i(a >= c)
				case token.EQL:
					ints[x] = b2i(a == c)
				case token.NEQ:
					ints[x] = b2i(a != c)
				}
			}
		case *ssa.UnOp:
			if x.Op == token.NOT {
				if a, ok := evalI(x.X); ok {
					ints[x] = 1 - a
				}
			}
		case *ssa.Return:
			return in, true, ev
		case *ssa.Jump:
			pred, b, i = b, b.Succs[0], 0
			continue
		case *ssa.If:
			c, ok := evalI(x.Cond)
			if !ok {
				return in, false, ev
			}
			pred, b, i = b, b.Succs[int(1-c)], 0
			continue
		}
		i++
	}
	return nil, false, ev
}
