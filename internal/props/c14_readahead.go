package props

import (
	"strings"

	"golang.org/x/tools/go/ssa"

	"verif/internal/kit"
	"verif/internal/load"
)

// readAheadCalls lists calls that wrap a reader in something that may consume more than what is
// asked of it (bufio) or that read to the end of the stream.
func readAheadCalls(f *ssa.Function) []ssa.CallInstruction {
	var out []ssa.CallInstruction
	kit.AllInstrs(f, func(in ssa.Instruction) {
		c, ok := in.(ssa.CallInstruction)
		if !ok {
			return
		}
		switch kit.CallID(c) {
		case "bufio.NewReader", "bufio.NewReaderSize", "bufio.NewScanner", "bufio.NewReadWriter", "io.ReadAll", "io/ioutil.ReadAll":
			out = append(out, c)
		}
	})
	return out
}

// checkReadAhead: nothing in the node package wraps a stream in a read-ahead buffer or reads it
// to EOF, unless the stream is an in-memory buffer. A bufio.Reader on the connection (or on a
// reader limited only by bookkeeping) pulls bytes of the NEXT message into its buffer; they are
// lost when the handler returns and the framing is off from then on.
func checkReadAhead(p *load.Program, r *kit.Report, rule string) {
	// positive control: the matcher must recognise such calls somewhere in the loaded program
	control := 0
	for f := range p.AllFunctions() {
		if f.Pkg == nil || strings.HasPrefix(f.Pkg.Pkg.Path(), load.RootPkg) {
			continue
		}
		control += len(readAheadCalls(f))
		if control > 0 {
			break
		}
	}
	if control == 0 {
		r.Unknown(rule, "read-ahead/control", "-", "the matcher found no bufio/ReadAll call anywhere in the loaded program (dependencies included): it would not recognise one in the node package either")
		return
	}
	n := 0
	k := newKeyer()
	for _, f := range pkgFuncs(p, R) {
		if strings.HasSuffix(p.FileOf(f.Pos()), "_test.go") {
			continue
		}
		n++
		for _, c := range readAheadCalls(f) {
			arg := kit.Strip(c.Common().Args[0])
			t := arg.Type().String()
			if strings.HasSuffix(t, "bytes.Buffer") || strings.HasSuffix(t, "bytes.Reader") || strings.HasSuffix(t, "strings.Reader") {
				r.OK(rule, k.key("read-ahead:"+kit.ShortID(kit.FuncID(f))), posOf(p, c), "wraps an in-memory %s", t)
				continue
			}
			r.Bad(rule, k.key("read-ahead:"+kit.ShortID(kit.FuncID(f))), posOf(p, c),
				"%s on %s: a buffered reader takes whatever the connection has available, not just this message; bytes of the next message end up in its buffer and are lost, so the next header is parsed from the wrong offset", kit.ShortID(kit.CallID(c)), describe(arg))
		}
	}
	r.OK(rule, "read-ahead/none-in-node-package", "-", "%d functions of the node package scanned; positive control matched in a dependency", n)
}
