package props

import (
	"strings"

	"golang.org/x/tools/go/ssa"

	"verif/internal/kit"
	"verif/internal/load"
)

// readAheadCalls lists calls that wrap a reader in something that may consume more than what is
// asked of it (bufio) or that read to the end of the stream.
func readAheadCalls(f *ssa.Function) []ssa.CallInstruction {
	var out []ssa.CallInstruction
	kit.AllInstrs(f, func(in ssa.Instruction) {
		c, ok := in.(ssa.CallInstruction)
		if !ok {
			return
		}
		switch kit.CallID(c) {
		case "bufio.NewReader", "bufio.NewReaderSize", "bufio.NewScanner", "bufio.NewReadWriter", "io.ReadAll", "io/ioutil.ReadAll":
			out = append(out, c)
		}
	})
	return out
}

// checkReadAhead: nothing in the node package wraps a stream in a read-ahead buffer or reads it
// to EOF, unless the stream is an in-memory buffer. A bufio.Reader on the connection (or on a
// reader limited only by bookkeeping) pulls bytes of the NEXT message into its buffer; they are
// lost when the handler returns and the framing is off from then on.
func checkReadAhead(p *load.Program, r *kit.Report, rule string) {
	// positive control: the matcher must recognise such calls somewhere in the loaded program
	control := 0
	for f := range p.AllFunctions() {
		if f.Pkg == nil || strings.HasPrefix(f.Pkg.Pkg.Path(), load.RootPkg) {
			continue
		}
		control += len(readAheadCalls(f))
		if control > 0 {
			break
		}
	}
	if control == 0 {
		r.Unknown(rule, "read-ahead/control", "-", "the matcher found no bufio/ReadAll call anywhere in the loaded program (dependencies included): it would not recognise one in the node package either")
		return
	}
	n := 0
	k := newKeyer()
	for _, f := range pkgFuncs(p, R) {
		if strings.HasSuffix(p.FileOf(f.Pos()), "_test.go") {
			continue
		}
		n++
		for _, c := range readAheadCalls(f) {
			arg := kit.Strip(c.Common().Args[0])
			t := arg.Type().String()
			if strings.HasSuffix(t, "bytes.Buffer") || strings.HasSuffix(t, "bytes.Reader") || strings.HasSuffix(t, "strings.Reader") {
				r.OK(rule, k.key("read-ahead:"+kit.ShortID(kit.FuncID(f))), posOf(p, c), "wraps an in-memory %s", t)
				continue
			}
			r.Bad(rule, k.key("read-ahead:"+kit.ShortID(kit.FuncID(f))), posOf(p, c),
				"%s on %s: a buffered reader takes whatever the connection has available, not just this message; bytes of the next message end up in its buffer and are lost, so the next header is parsed from the wrong offset", kit.ShortID(kit.CallID(c)), describe(arg))
		}
	}
	r.OK(rule, "read-ahead/none-in-node-package", "-", "%d functions of the node package scanned; positive control matched in a dependency", n)
}

// checkSingleWriter: only the sender thread (BitcoinNode.sendOutgoing) writes to the connection.
// wire.WriteMessageN emits a message as several Write calls; a second writer (a handler replying
// "right away") interleaves its bytes with a message the sender thread is in the middle of, and the
// peer reads garbage instead of the reply.
func checkSingleWriter(p *load.Program, r *kit.Report, rule string) {
	connF := p.Field(R, "BitcoinNode", "connection")
	k := newKeyer()
	n := 0
	for _, f := range pkgFuncs(p, R) {
		file := p.FileOf(f.Pos())
		if strings.HasSuffix(file, "_test.go") || strings.HasSuffix(file, "test_nodes.go") {
			continue
		}
		kit.AllInstrs(f, func(in ssa.Instruction) {
			c, ok := in.(ssa.CallInstruction)
			if !ok {
				return
			}
			com := c.Common()
			isWrite := false
			var target ssa.Value
			if id := kit.CallID(c); strings.HasPrefix(id, load.WirePkg+".WriteMessage") && len(com.Args) > 0 {
				isWrite, target = true, com.Args[0]
			}
			if com.IsInvoke() && (com.Method.Name() == "Write" || com.Method.Name() == "ReadFrom") && strings.HasSuffix(com.Value.Type().String(), "net.Conn") {
				isWrite, target = true, com.Value
			}
			if !isWrite {
				return
			}
			// only writes whose target is (derived from) the node's connection
			if !kit.DependsOn(target, func(v ssa.Value) bool { return loadOfField(v, connF) }) && !strings.HasSuffix(kit.Strip(target).Type().String(), "net.Conn") {
				return
			}
			n++
			name := kit.ShortID(kit.FuncID(f))
			if kit.FuncID(f) == R+".BitcoinNode.sendOutgoing" {
				r.OK(rule, k.key(name+"/writes-connection"), posOf(p, in), "the sender thread writes the queued messages")
			} else {
				r.Bad(rule, k.key(name+"/writes-connection"), posOf(p, in), "%s writes to the connection outside the sender thread: its bytes can land inside a message sendOutgoing is writing (a message is several Write calls), so the peer no longer receives a well-formed reply", name)
			}
		})
	}
	if n == 0 {
		r.Unknown(rule, "connection/writers", "-", "no write to the connection found")
	}
}
