package props

import (
	"fmt"
	"go/token"
	"go/types"
	"strings"

	"golang.org/x/tools/go/ssa"

	"verif/internal/kit"
	"verif/internal/load"
)

func init() { register("C02", checkC02) }

const daaActivation = 556767

// switchEdges returns the edges taken when the boolean field f is true (edges that cannot be taken
// under the assumption f == false).
func switchEdges(fnc *ssa.Function, f *types.Var) []kit.Edge {
	gs := kit.FindGuards(fnc, func(c ssa.Value) (bool, bool) {
		if loadOfField(c, f) {
			return true, true
		}
		return false, false
	})
	return edgesOf(gs, true)
}

// refsTo finds the own functions that mention target as a callee or as a function value.
func refsTo(p *load.Program, target *ssa.Function) []*ssa.Function {
	var out []*ssa.Function
	for _, f := range p.OwnFunctions() {
		found := false
		kit.AllInstrs(f, func(in ssa.Instruction) {
			if found {
				return
			}
			for _, op := range in.Operands(nil) {
				if *op == nil {
					continue
				}
				if t := kit.FuncValueTarget(*op); t != nil && t == target {
					found = true
				}
			}
			if c, ok := in.(ssa.CallInstruction); ok {
				if sc := kit.StaticCallee(c); sc != nil && (sc == target || kit.FuncValueTarget(sc) == target) {
					found = true
				}
			}
		})
		if found && f != target {
			out = append(out, f)
		}
	}
	return out
}

// checkTestSwitches: WRITERS for the two test switches (shared by C02 and C03).
func checkTestSwitches(p *load.Program, r *kit.Report, rule string, names ...string) bool {
	funcs := pkgFuncs(p, H, R, load.CmdPkg, load.TestsPkg)
	allOK := true
	for _, name := range names {
		f := p.Field(H, "Repository", name)
		if f == nil {
			r.Unknown(rule, "switch:"+name, "-", "field not found")
			allOK = false
			continue
		}
		n := 0
		for _, w := range writesTo(funcs, f) {
			n++
			owner := w.Instr.Parent()
			key := "switch:" + name + "/store-in:" + kit.ShortID(kit.FuncID(owner))
			if b, ok := kit.ConstBool(w.Val); ok && !b {
				r.OKTrivial(rule, key, posOf(p, w.Instr), "stores false")
				continue
			}
			refs := refsTo(p, owner)
			if len(refs) == 0 {
				r.OK(rule, key, posOf(p, w.Instr), "stores true, but %s has no caller or reference in the production program (callers are only in _test.go files)", kit.ShortID(kit.FuncID(owner)))
			} else {
				allOK = false
				r.Bad(rule, key, posOf(p, w.Instr), "the test switch %s can be turned on in production: %s is referenced from %s", name, kit.ShortID(kit.FuncID(owner)), kit.ShortID(kit.FuncID(refs[0])))
			}
		}
		if n == 0 {
			r.OKTrivial(rule, "switch:"+name+"/no-writer", "-", "no store to the switch at all")
		}
	}
	return allOK
}

func checkC02(p *load.Program, r *kit.Report) {
	importRules(p, r, "C09", "the required bits are computed for the height that the parent's hash→height label gives: a wrong label compares a real header with another position's target", 11, nil, "HEIGHT-LABEL")
	importRules(p, r, "C17", "a header removed from a branch must leave its hash map: a stale entry positions the next real header at a height whose samples are gone, and the real chain is refused", 2, nil, "SHRINK-SIBLING")
	importRules(p, r, "C01", "the required bits are computed from the accumulated work stored with earlier headers: a stored work value must never change after acceptance", 4, nil, "WORK-FLOW")
	r.NotDecided = "that every real-chain header is accepted (numerical); ConvertToBits/ConvertToWork arithmetic inside the dependency; absence of every panic (containment is decided under C15)."
	r.Rule("WRITERS", "disableDifficulty / disableSplitProtection are set true only in functions without any caller or reference in the production program", 2)
	r.Rule("GUARD-DOM", "under disableDifficulty=false every effect of ProcessHeader is dominated by header.WorkIsValid()'s true edge, and every path through height >= 556767 passes bits == header.Bits with bits = ConvertToBits(previousBranch.Target(height), MaxBits), height = previousHeight+1, previousBranch = Find(header.PrevBlock)", 4)
	r.Rule("CONST-TABLE", "DAA constants by role: activation 556767; medians at height-1 and height-145 over 3 samples; clamps 72*600 / 288*600; multiplier 600; work difference last-first; cap bitcoin.MaxWork", 6)
	r.Rule("TYPE-RULE", "the time span is a subtraction in a signed 64-bit type", 1)
	r.Rule("RETENTION-DEPTH", "the depth of headers that clean (prune) and Load keep in memory is at least MaxBranchDepth + (the number of headers below a height that Target reads) − 1: the required bits of a header on the deepest admissible fork are computed from memory only", 3)
	checkRetentionDepth(p, r, "RETENTION-DEPTH")
	r.Rule("MEDIAN", "the median of three is chosen by compare-exchanges (0,2),(0,1),(1,2) on strict >, samples stored oldest-first, middle element returned; no library sort is reachable for count == 3", 4)
	r.Rule("DEP-INDEX", "bitcoin.ConvertToDifficulty indexes b[1] with only length >= 1 established (recomputed from the dependency source); every call path from ProcessHeader must be behind a sanity guard on header.Bits>>24", 3)
	r.Rule("DEP-FACT", "wire.BlockHeader.WorkIsValid (dependency body) is BlockHash().Value().Cmp(ConvertToDifficulty(h.Bits)) <= 0: the hash does not exceed the target its own bits encode", 1)
	r.Assume("Repository.disableDifficulty is false in production (discharged by WRITERS)")

	checkTestSwitches(p, r, "WRITERS", "disableDifficulty", "disableSplitProtection")

	ph := fn(p, r, "GUARD-DOM", H, "Repository.ProcessHeader")
	if ph == nil {
		return
	}
	g := resolvePH(p, r, "GUARD-DOM", ph)
	if g == nil {
		return
	}
	m := headersMutators(p)
	effs := m.EffectsIn(ph)
	dd := p.Field(H, "Repository", "disableDifficulty")
	assume := switchEdges(ph, dd)

	// 1. PoW guard
	pow := kit.FindGuards(ph, kit.CallCond(func(c *ssa.Call) bool {
		return kit.Root(c.Call.Args[0]) == ssa.Value(g.header) || recvPtr(c.Call.Args[0]) == ssa.Value(g.header)
	}, load.WirePkg+".BlockHeader.WorkIsValid"))
	k := newKeyer()
	if len(pow) == 0 {
		r.Bad("GUARD-DOM", "ProcessHeader/pow-guard", "-", "header.WorkIsValid() is not tested")
	}
	for _, e := range effs {
		key := k.key("ProcessHeader/pow-before:" + e.Desc)
		ok, path := kit.DominatedByEdges(ph, e.Instr, edgesOf(pow, true), assume, p.Pos)
		r.Check(ok, "GUARD-DOM", key, posOf(p, e.Instr), "behind WorkIsValid()", "state changed for a header whose hash was not checked against its target: "+path)
	}
	// fail edge returns ErrNotEnoughWork
	for _, gd := range pow {
		reach := kit.Reach(ph, []kit.Pt{kit.EdgeStart(gd.FailEdge())}, kit.Opts{})
		bad := ""
		for _, ret := range kit.Returns(ph) {
			if reach.Has(ret) && errCauseVia(reach, ret, 0) != "ErrNotEnoughWork" {
				bad = "failed work check reaches " + retLabel(ret)
			}
		}
		r.Check(bad == "", "GUARD-DOM", "ProcessHeader/pow-refusal", posOf(p, gd.If), "failed work check returns ErrNotEnoughWork", bad)
	}

	// 2. bits guard with trigger
	lin := kit.NewLin(ph)
	prevH := lin.Of(extractOf(g.findPrev, 1))
	heightL := prevH.AddK(1)
	trigger := kit.FindGuards(ph, func(c ssa.Value) (bool, bool) { return cmpMatches(lin, c, heightL, daaActivation) })
	if len(trigger) != 1 {
		r.Bad("CONST-TABLE", "ProcessHeader/daa-activation", "-", "no test equivalent to previousHeight+1 >= %d found (%d candidates): the difficulty rule is not applied from the activation height", daaActivation, len(trigger))
	} else {
		r.OK("CONST-TABLE", "ProcessHeader/daa-activation", posOf(p, trigger[0].If), "bits are checked from height >= %d", daaActivation)
	}
	bitsF := p.Field(load.WirePkg, "BlockHeader", "Bits")
	var targetCall *ssa.Call
	bitsEq := kit.FindGuards(ph, func(c ssa.Value) (bool, bool) {
		b, ok := c.(*ssa.BinOp)
		if !ok || (b.Op != token.EQL && b.Op != token.NEQ) {
			return false, false
		}
		x, y := b.X, b.Y
		if loadOfField(x, bitsF) {
			x, y = y, x
		}
		if !loadOfField(y, bitsF) {
			return false, false
		}
		cb := isCallTo(x, load.BitcoinPkg+".ConvertToBits")
		if cb == nil {
			return false, false
		}
		e, ok := kit.Strip(cb.Call.Args[0]).(*ssa.Extract)
		if !ok {
			return false, false
		}
		tc, ok := e.Tuple.(*ssa.Call)
		if !ok || kit.CallID(tc) != H+".Branch.Target" {
			return false, false
		}
		targetCall = tc
		return true, b.Op == token.EQL
	})
	if len(bitsEq) != 1 || targetCall == nil || len(trigger) != 1 {
		r.Bad("GUARD-DOM", "ProcessHeader/bits-guard", "-", "no comparison of ConvertToBits(previousBranch.Target(...)) with header.Bits found")
	} else {
		// provenance of Target's receiver and height
		bad := ""
		if callOf(recvPtr(targetCall.Call.Args[0]), 0) != g.findPrev {
			bad = "Target is computed on " + describe(recvPtr(targetCall.Call.Args[0])) + ", not on the header's own branch (result of Find(header.PrevBlock))"
		} else if h := lin.Of(targetCall.Call.Args[2]); !h.Equal(heightL) {
			bad = "Target is computed for height " + h.String() + ", want previousHeight+1"
		}
		cb := isCallTo(bitsEq[0].If.Cond.(*ssa.BinOp).X, load.BitcoinPkg+".ConvertToBits")
		if cb == nil {
			cb = isCallTo(bitsEq[0].If.Cond.(*ssa.BinOp).Y, load.BitcoinPkg+".ConvertToBits")
		}
		if cb != nil {
			capOK := false
			if kc, ok := kit.ConstInt(cb.Call.Args[1]); ok && kc == 0x1d00ffff {
				capOK = true
			}
			if u, ok := kit.Strip(cb.Call.Args[1]).(*ssa.UnOp); ok {
				if gl, ok := u.X.(*ssa.Global); ok && gl.Name() == "MaxBits" && gl.Pkg.Pkg.Path() == load.BitcoinPkg {
					capOK = true
				}
			}
			if !capOK && bad == "" {
				bad = "ConvertToBits is not capped with bitcoin.MaxBits"
			}
		}
		r.Check(bad == "", "GUARD-DOM", "ProcessHeader/bits-provenance", posOf(p, targetCall), "required bits come from previousBranch.Target(previousHeight+1) capped at MaxBits", bad)
		// Target error edge returns
		eg := errNilGuards(ph, targetCall)
		badE := ""
		if len(eg) == 0 {
			badE = "Target's error is not checked"
		}
		for _, e := range eg {
			reach := kit.Reach(ph, []kit.Pt{kit.EdgeStart(e.FailEdge())}, kit.Opts{})
			for _, ef := range effs {
				if reach.Has(ef.Instr) {
					badE = "effect reachable after Target failed"
				}
			}
		}
		r.Check(badE == "", "GUARD-DOM", "ProcessHeader/target-error", posOf(p, targetCall), "a failed Target computation refuses the header", badE)
		// every effect: paths through the trigger edge pass the equal edge
		pass := []kit.Edge{bitsEq[0].PassEdge(), trigger[0].FailEdge()}
		for _, e := range effs {
			key := k.key("ProcessHeader/bits-before:" + e.Desc)
			ok, path := kit.DominatedByEdges(ph, e.Instr, pass, assume, p.Pos)
			r.Check(ok, "GUARD-DOM", key, posOf(p, e.Instr), "from the activation height on, behind bits == header.Bits",
				"header accepted at/after the activation height without the required-bits comparison: "+path)
		}
		// fail edge returns ErrInvalidTarget
		reach := kit.Reach(ph, []kit.Pt{kit.EdgeStart(bitsEq[0].FailEdge())}, kit.Opts{})
		badR := ""
		for _, ret := range kit.Returns(ph) {
			if reach.Has(ret) && errCauseVia(reach, ret, 0) != "ErrInvalidTarget" {
				badR = "bits mismatch reaches " + retLabel(ret)
			}
		}
		r.Check(badR == "", "GUARD-DOM", "ProcessHeader/bits-refusal", posOf(p, bitsEq[0].If), "bits mismatch returns ErrInvalidTarget", badR)
	}

	checkWorkIsValid(p, r)
	checkTarget(p, r)
	checkMedian(p, r)
	checkDepIndex(p, r, ph, g)
}

// bigArg identifies a *big.Int operand: the value itself, or — for the result of a chained
// big.Int method (`new(big.Int).Add(a, b)` returns its receiver) — the receiver.
func bigArg(v ssa.Value) ssa.Value {
	v = kit.Strip(v)
	for i := 0; i < 4; i++ {
		c, ok := v.(*ssa.Call)
		if !ok || !strings.HasPrefix(kit.CallID(c), bigInt+".") || !bigMutating[strings.TrimPrefix(kit.CallID(c), bigInt+".")] || len(c.Call.Args) == 0 {
			return v
		}
		v = kit.Strip(c.Call.Args[0])
	}
	return v
}

func checkTarget(p *load.Program, r *kit.Report) {
	f := fn(p, r, "CONST-TABLE", H, "Branch.Target")
	if f == nil {
		return
	}
	lin := kit.NewLin(f)
	meds := kit.CallsTo(f, H+".Branch.MedianTimeAndWork")
	var last, first *ssa.Call
	for _, c := range meds {
		call := c.(*ssa.Call)
		h := lin.Of(call.Call.Args[2])
		cnt, _ := kit.ConstInt(call.Call.Args[3])
		switch {
		case h.Equal(pAtom(f, 2).AddK(-1)) && cnt == 3:
			last = call
		case h.Equal(pAtom(f, 2).AddK(-145)) && cnt == 3:
			first = call
		default:
			r.Bad("CONST-TABLE", "Target/median-at:"+h.String(), posOf(p, call), "median taken at %s over %d samples: the network uses height-1 and height-145 over 3", h, cnt)
		}
	}
	if last == nil || first == nil {
		r.Bad("CONST-TABLE", "Target/median-heights", posOf(p, f.Blocks[0].Instrs[0]), "medians at height-1 and height-144-1 over 3 samples not both found")
		return
	}
	r.OK("CONST-TABLE", "Target/median-heights", posOf(p, last), "medians at height-1 and height-145, 3 samples each")
	ext := func(c *ssa.Call, i int) ssa.Value { return extractOf(c, i) }

	// time span: SUB in int64 of (last time) - (first time)
	var span *ssa.BinOp
	kit.AllInstrs(f, func(in ssa.Instruction) {
		b, ok := in.(*ssa.BinOp)
		if !ok || b.Op != token.SUB {
			return
		}
		src := func(v ssa.Value) ssa.Value {
			for {
				if c, ok := v.(*ssa.Convert); ok {
					v = c.X
					continue
				}
				// the result temporary of an expanded wrapper around MedianTimeAndWork (its error
				// return gives 0 and ends Target before the subtraction)
				if pv := kit.Provenance(v); pv != v {
					v = pv
					continue
				}
				return v
			}
		}
		if src(b.X) == ext(last, 0) && src(b.Y) == ext(first, 0) {
			span = b
		} else if src(b.X) == ext(first, 0) && src(b.Y) == ext(last, 0) {
			span = b
			r.Bad("CONST-TABLE", "Target/timespan-order", posOf(p, b), "time span is first - last")
		}
	})
	if span == nil {
		r.Bad("TYPE-RULE", "Target/timespan-sub", "-", "no subtraction lastTime - firstTime found")
		return
	}
	bt, _ := span.Type().Underlying().(*types.Basic)
	signed64 := bt != nil && (bt.Kind() == types.Int64 || bt.Kind() == types.Int)
	r.Check(signed64, "TYPE-RULE", "Target/timespan-sub", posOf(p, span), "time span subtracted in "+span.Type().String(),
		"time span is subtracted in "+span.Type().String()+": when the median time runs backwards the unsigned difference wraps and is clamped to the wrong end")

	// clamps: the value the projected work is divided by, as a function of the time span. Between
	// the subtraction and the division the span is only compared with constants and replaced by
	// constants, so the function is decided by evaluating that slice for every ordering of the span
	// relative to the constants involved (one representative below, at and above each constant).
	cur := ssa.Value(span)
	for i := 0; i < 6; i++ { // the divisor: last member of the phi web that starts at span
		var next *ssa.Phi
		for _, ref := range *cur.Referrers() {
			if ph, ok := ref.(*ssa.Phi); ok {
				next = ph
			}
		}
		if next == nil {
			break
		}
		cur = next
	}
	var divCall *ssa.Call
	for _, c := range kit.CallsTo(f, bigInt+".Div") {
		divCall, _ = c.(*ssa.Call)
	}
	clampBad := map[string]string{}
	if divCall == nil {
		clampBad["lower"], clampBad["upper"] = "no division found", "no division found"
	} else {
		consts := map[int64]bool{72 * 600: true, 288 * 600: true, 0: true}
		kit.AllInstrs(f, func(in ssa.Instruction) {
			var ops [10]*ssa.Value
			for _, op := range in.Operands(ops[:0]) {
				if op != nil && *op != nil {
					if k, ok := kit.ConstInt(*op); ok && isIntLike((*op).Type()) {
						consts[k] = true
					}
				}
			}
		})
		for k := range consts {
			for _, v := range []int64{k - 1, k, k + 1} {
				want := v
				if want < 72*600 {
					want = 72 * 600
				}
				if want > 288*600 {
					want = 288 * 600
				}
				outs, why := evalSlice(span, v, divCall, cur)
				if why != "" {
					clampBad["lower"], clampBad["upper"] = why, why
					continue
				}
				for _, got := range outs {
					if got == want || got == evalReturned {
						continue
					}
					msg := fmt.Sprintf("a time span of %d is divided by as %d, want %d", v, got, want)
					if v < 72*600 {
						clampBad["lower"] = msg
					} else if v > 288*600 {
						clampBad["upper"] = msg
					} else {
						clampBad["lower"], clampBad["upper"] = msg, msg
					}
				}
			}
		}
	}
	r.Check(clampBad["lower"] == "", "CONST-TABLE", "Target/clamp-lower", posOf(p, span), "time spans below 72*600 are replaced by 72*600, others kept", clampBad["lower"])
	r.Check(clampBad["upper"] == "", "CONST-TABLE", "Target/clamp-upper", posOf(p, span), "time spans above 288*600 are replaced by 288*600, others kept", clampBad["upper"])

	// big.Int pipeline
	var sub, mul, div *ssa.Call
	for _, c := range kit.Calls(f, func(id string) bool { return strings.HasPrefix(id, bigInt+".") }) {
		call, ok := c.(*ssa.Call)
		if !ok {
			continue
		}
		switch strings.TrimPrefix(kit.CallID(call), bigInt+".") {
		case "Sub":
			sub = call
		case "Mul":
			mul = call
		case "Div":
			div = call
		}
	}
	bad := ""
	switch {
	case sub == nil || mul == nil || div == nil:
		bad = "work/projection pipeline (Sub, Mul, Div) not found"
	case bigArg(sub.Call.Args[1]) != ext(last, 1) || bigArg(sub.Call.Args[2]) != ext(first, 1):
		bad = "work difference is not lastWork - firstWork"
	case bigArg(mul.Call.Args[1]) != bigArg(sub.Call.Args[0]):
		bad = "projected work does not multiply the work difference"
	default:
		ni := isCallTo(mul.Call.Args[2], "math/big.NewInt")
		if ni == nil {
			bad = "multiplier is not a constant"
		} else if kc, ok := kit.ConstInt(ni.Call.Args[0]); !ok || kc != 600 {
			bad = fmt.Sprintf("multiplier is %d, want 600", kc)
		}
		nd := isCallTo(div.Call.Args[2], "math/big.NewInt")
		if nd == nil || kit.Strip(nd.Call.Args[0]) != cur && !isConvOf(nd.Call.Args[0], cur) {
			bad = "projected work is not divided by the clamped time span"
		}
		if bigArg(div.Call.Args[1]) != bigArg(mul.Call.Args[0]) {
			bad = "division does not apply to work*600"
		}
	}
	r.Check(bad == "", "CONST-TABLE", "Target/projection", posOf(p, f.Blocks[0].Instrs[0]), "(lastWork-firstWork)*600/clamp(timeSpan)", bad)

	// target = ConvertToWork(projected) capped at MaxWork
	badC := ""
	cw := kit.CallsTo(f, load.BitcoinPkg+".ConvertToWork")
	if len(cw) != 1 {
		badC = "ConvertToWork(projected) not found"
	} else {
		tgt := cw[0].(*ssa.Call)
		if mul != nil && bigArg(tgt.Call.Args[0]) != bigArg(mul.Call.Args[0]) {
			badC = "target is not derived from the projected work"
		}
		isMaxWork := func(v ssa.Value) bool {
			u, ok := kit.Strip(v).(*ssa.UnOp)
			if !ok {
				return false
			}
			gl, ok := u.X.(*ssa.Global)
			return ok && gl.Name() == "MaxWork" && gl.Pkg.Pkg.Path() == load.BitcoinPkg
		}
		capG := kit.FindGuards(f, func(c ssa.Value) (bool, bool) {
			b, ok := c.(*ssa.BinOp)
			if !ok {
				return false, false
			}
			cc := isCallTo(b.X, bigInt+".Cmp")
			if cc == nil {
				return false, false
			}
			op := b.Op
			switch {
			case bigArg(cc.Call.Args[0]) == ssa.Value(tgt) && isMaxWork(cc.Call.Args[1]):
			case bigArg(cc.Call.Args[1]) == ssa.Value(tgt) && isMaxWork(cc.Call.Args[0]):
				// MaxWork.Cmp(target): mirrored
				switch op {
				case token.LSS:
					op = token.GTR
				case token.LEQ:
					op = token.GEQ
				case token.GTR:
					op = token.LSS
				case token.GEQ:
					op = token.LEQ
				}
			default:
				return false, false
			}
			if z, ok := kit.ConstInt(b.Y); !ok || z != 0 {
				return false, false
			}
			switch op {
			case token.GTR, token.GEQ:
				return true, true
			case token.LEQ, token.LSS:
				return true, false
			}
			return false, false
		})
		if len(capG) != 1 {
			badC = "target is not compared with bitcoin.MaxWork"
		} else {
			set := false
			for _, c := range kit.CallsTo(f, bigInt+".Set") {
				call := c.(*ssa.Call)
				if bigArg(call.Call.Args[0]) == ssa.Value(tgt) && isMaxWork(call.Call.Args[1]) {
					if d, _ := kit.DominatedByEdges(f, call, []kit.Edge{capG[0].PassEdge()}, nil, p.Pos); d {
						set = true
					}
				}
			}
			if !set {
				badC = "target above MaxWork is not replaced by MaxWork"
			}
		}
		// the value returned is the target object itself, possibly through a phi of an expanded
		// helper's result or as the result of a chained method on it (`target.Set(MaxWork)` returns
		// its receiver)
		var isTgt func(v ssa.Value, depth int) bool
		isTgt = func(v ssa.Value, depth int) bool {
			if depth > 4 {
				return false
			}
			if v == ssa.Value(tgt) || bigArg(v) == ssa.Value(tgt) || kit.Strip(v) == ssa.Value(tgt) {
				return true
			}
			if ph, ok := v.(*ssa.Phi); ok {
				for _, e := range ph.Edges {
					if kit.IsNilConst(e) {
						continue
					}
					if !isTgt(e, depth+1) {
						return false
					}
				}
				return true
			}
			return false
		}
		for _, ret := range kit.Returns(f) {
			if kit.ReturnErrClass(ret) == kit.ErrNil && !isTgt(kit.RetOperand(ret, 0), 0) {
				badC = "Target returns something other than the capped target"
			}
		}
	}
	r.Check(badC == "", "CONST-TABLE", "Target/cap", posOf(p, f.Blocks[0].Instrs[0]), "target = ConvertToWork(projected), capped at bitcoin.MaxWork", badC)
}

// evalSlice evaluates the instructions between `from` (given the value v) and `until` for the
// value of `result`, following the branches whose conditions only involve values derived from
// `from` and constants; a branch on anything else is explored both ways. It returns the possible
// values of result at until.
func evalSlice(from ssa.Value, v int64, until ssa.Instruction, result ssa.Value) (outs []int64, why string) {
	type st struct {
		b    *ssa.BasicBlock
		i    int
		pred *ssa.BasicBlock
		env  map[ssa.Value]int64
	}
	fi, ok := from.(ssa.Instruction)
	if !ok {
		return nil, "time span is not computed in the function"
	}
	start := 0
	for i, in := range fi.Block().Instrs {
		if in == fi {
			start = i + 1
		}
	}
	// when `from` is a load of a local that is filled through its address (binary.Read(&x)),
	// every later load of that local is the same value
	var fromCell ssa.Value
	if u, ok := from.(*ssa.UnOp); ok && u.Op == token.MUL {
		if a, ok := u.X.(*ssa.Alloc); ok {
			fromCell = a
		}
	}
	// or `from` is the binary.Read call that fills the local
	if c, ok := from.(*ssa.Call); ok && kit.CallID(c) == "encoding/binary.Read" && len(c.Call.Args) == 3 {
		if a, ok := kit.Strip(c.Call.Args[2]).(*ssa.Alloc); ok {
			fromCell = a
		}
	}
	var eval func(env map[ssa.Value]int64, x ssa.Value) (int64, bool)
	eval = func(env map[ssa.Value]int64, x ssa.Value) (int64, bool) {
		if k, ok := kit.ConstInt(x); ok {
			return k, true
		}
		if k, ok := env[x]; ok {
			return k, true
		}
		if u, ok := x.(*ssa.UnOp); ok && u.Op == token.MUL && fromCell != nil && u.X == fromCell {
			return env[from], true
		}
		switch y := x.(type) {
		case *ssa.Convert:
			if isIntLike(y.Type()) && isIntLike(y.X.Type()) {
				return eval(env, y.X)
			}
		case *ssa.ChangeType:
			return eval(env, y.X)
		}
		return 0, false
	}
	work := []st{{fi.Block(), start, nil, map[ssa.Value]int64{from: v}}}
	steps := 0
	seen := map[int64]bool{}
	for len(work) > 0 {
		s := work[len(work)-1]
		work = work[:len(work)-1]
		for {
			steps++
			if steps > 20000 {
				return nil, "the clamp of the time span could not be evaluated (too long)"
			}
			if s.i >= len(s.b.Instrs) {
				break
			}
			in := s.b.Instrs[s.i]
			if in == until {
				k, ok := eval(s.env, result)
				if !ok {
					return nil, "the divisor does not derive from the time span"
				}
				if !seen[k] {
					seen[k] = true
					outs = append(outs, k)
				}
				break
			}
			switch x := in.(type) {
			case *ssa.Phi:
				for pi, pred := range s.b.Preds {
					if pred == s.pred {
						if k, ok := eval(s.env, x.Edges[pi]); ok {
							s.env[x] = k
						} else {
							delete(s.env, x)
						}
						break
					}
				}
			case *ssa.BinOp:
				a, ok1 := eval(s.env, x.X)
				b, ok2 := eval(s.env, x.Y)
				if ok1 && ok2 {
					switch x.Op {
					case token.ADD:
						s.env[x] = a + b
					case token.SUB:
						s.env[x] = a - b
					case token.MUL:
						s.env[x] = a * b
					case token.QUO:
						if b != 0 {
							s.env[x] = a / b
						}
					case token.REM:
						if b != 0 {
							s.env[x] = a % b
						}
					case token.LSS:
						s.env[x] = b2i(a < b)
					case token.LEQ:
						s.env[x] = b2i(a <= b)
					case token.GTR:
						s.env[x] = b2i(a > b)
					case token.GEQ:
						s.env[x] = b2i(a >= b)
					case token.EQL:
						s.env[x] = b2i(a == b)
					case token.NEQ:
						s.env[x] = b2i(a != b)
					}
				}
			case *ssa.UnOp:
				if x.Op == token.NOT {
					if a, ok := s.env[x.X]; ok {
						s.env[x] = 1 - a
					}
				}
			case *ssa.Return, *ssa.Panic:
				if !seen[evalReturned] {
					seen[evalReturned] = true
					outs = append(outs, evalReturned)
				}
				s.i = len(s.b.Instrs)
				continue
			case *ssa.Jump:
				s = st{s.b.Succs[0], 0, s.b, s.env}
				continue
			case *ssa.If:
				if cb, isC := kit.ConstBool(x.Cond); isC {
					s = st{s.b.Succs[int(1-b2i(cb))], 0, s.b, s.env}
					continue
				}
				if c, ok := s.env[x.Cond]; ok {
					s = st{s.b.Succs[int(1-c)], 0, s.b, s.env}
					continue
				}
				// an error test of an intermediate call: the slice is evaluated along the path on
				// which that call succeeded
				if bo, ok := x.Cond.(*ssa.BinOp); ok && (bo.Op == token.NEQ || bo.Op == token.EQL) && kit.IsNilConst(bo.Y) &&
					types.Identical(bo.X.Type(), types.Universe.Lookup("error").Type()) {
					succ := 1 // err != nil false
					if bo.Op == token.EQL {
						succ = 0
					}
					s = st{s.b.Succs[succ], 0, s.b, s.env}
					continue
				}
				cp := map[ssa.Value]int64{}
				for k, v := range s.env {
					cp[k] = v
				}
				work = append(work, st{s.b.Succs[1], 0, s.b, cp})
				s = st{s.b.Succs[0], 0, s.b, s.env}
				continue
			}
			s.i++
		}
	}
	if len(outs) == 0 {
		return nil, "the division is not reached from the time span"
	}
	return outs, ""
}

// evalReturned is reported by evalSlice for a path that leaves the function before `until`.
const evalReturned = int64(-1) << 62

func b2i(b bool) int64 {
	if b {
		return 1
	}
	return 0
}

func isConvOf(v, of ssa.Value) bool {
	for {
		if v == of {
			return true
		}
		c, ok := v.(*ssa.Convert)
		if !ok {
			return false
		}
		v = c.X
	}
}

func checkMedian(p *load.Program, r *kit.Report) {
	f := fn(p, r, "MEDIAN", H, "Branch.MedianTimeAndWork")
	if f == nil {
		return
	}
	lin := kit.NewLin(f)
	count := prmAt(f, 3)
	// callers all pass 3 (checked in Target); guard count == 3
	is3 := kit.FindGuards(f, func(c ssa.Value) (bool, bool) {
		b, ok := c.(*ssa.BinOp)
		if !ok || (b.Op != token.EQL && b.Op != token.NEQ) {
			return false, false
		}
		// count itself, or the length of the list made with that many entries
		if b.X != ssa.Value(count) {
			if x := lin.Of(b.X); !x.OK || !x.Equal(lin.Of(count)) {
				return false, false
			}
		}
		if kc, ok := kit.ConstInt(b.Y); !ok || kc != 3 {
			return false, false
		}
		return true, b.Op == token.EQL
	})
	// 1. no library sort reachable under count == 3
	sorts := kit.Calls(f, func(id string) bool {
		return strings.HasPrefix(id, "sort.") || strings.HasPrefix(id, "slices.Sort")
	})
	bad := ""
	for _, s := range sorts {
		if ok, _ := kit.DominatedByEdges(f, s, edgesOf(is3, false), nil, p.Pos); !ok {
			bad = kit.CallID(s) + " orders the samples when count == 3: tie order differs from the network's median-of-three"
		}
	}
	r.Check(bad == "", "MEDIAN", "MedianTimeAndWork/no-library-sort", posOf(p, f.Blocks[0].Instrs[0]), "no library sort reachable for count == 3", bad)

	// 2. exchange network
	timeF := p.Field(H, "timeAndWork", "time")
	type cx struct {
		i, j int64
		g    kit.Guard
		op   token.Token
	}
	var cxs []cx
	idxOf := func(v ssa.Value) (int64, bool) {
		f2, base := kit.LoadedField(v)
		if f2 != timeF {
			return 0, false
		}
		ia := sampleElem(base)
		if ia == nil {
			return 0, false
		}
		return kit.ConstInt(ia.Index)
	}
	gs := kit.FindGuards(f, func(c ssa.Value) (bool, bool) {
		b, ok := c.(*ssa.BinOp)
		if !ok {
			return false, false
		}
		i, ok1 := idxOf(b.X)
		j, ok2 := idxOf(b.Y)
		if !ok1 || !ok2 {
			return false, false
		}
		cxs = append(cxs, cx{i: i, j: j, op: b.Op})
		return true, true
	})
	for i := range gs {
		cxs[i].g = gs[i]
	}
	want := [][2]int64{{0, 2}, {0, 1}, {1, 2}}
	badX := ""
	if len(cxs) != 3 {
		badX = fmt.Sprintf("expected 3 compare-exchanges on sample times, found %d", len(cxs))
	} else {
		// order by dominance: gs appear in block order; verify chain: each next If is reachable only after the previous
		for n, c := range cxs {
			if c.i != want[n][0] || c.j != want[n][1] {
				badX = fmt.Sprintf("compare-exchange %d is on (%d,%d), want (%d,%d)", n+1, c.i, c.j, want[n][0], want[n][1])
				break
			}
			if c.op != token.GTR {
				badX = fmt.Sprintf("compare-exchange (%d,%d) uses %s: the network swaps on strict > only, ties must stay in place", c.i, c.j, c.op)
				break
			}
			// swap on the true edge
			swapped := false
			for _, s := range kit.CallsTo(f, H+".timeAndWorkList.Swap") {
				call := s.(*ssa.Call)
				a, _ := kit.ConstInt(call.Call.Args[1])
				b, _ := kit.ConstInt(call.Call.Args[2])
				if (a == c.i && b == c.j) || (a == c.j && b == c.i) {
					if d, _ := kit.DominatedByEdges(f, call, []kit.Edge{c.g.PassEdge()}, nil, p.Pos); d {
						swapped = true
					}
				}
			}
			if !swapped {
				badX = fmt.Sprintf("no Swap(%d,%d) on the true edge of the comparison", c.i, c.j)
				break
			}
			if n > 0 {
				// previous If dominates this one
				prev := cxs[n-1].g.If
				reach := kit.Reach(f, []kit.Pt{kit.Entry(f)}, kit.Opts{StopAt: kit.InstrSet(prev)})
				if reach.Has(c.g.If) {
					badX = "compare-exchanges are not executed in sequence"
				}
			}
		}
	}
	pos := posOf(p, f.Blocks[0].Instrs[0])
	r.Check(badX == "", "MEDIAN", "MedianTimeAndWork/exchange-network", pos, "(0,2),(0,1),(1,2) on strict >", badX)

	// 3. sample placement: list[idx] holds height h with idx + (height - h) == count-1
	badP := ""
	n := 0
	kit.AllInstrs(f, func(in ssa.Instruction) {
		st, ok := in.(*ssa.Store)
		if !ok {
			return
		}
		ia, ok := st.Addr.(*ssa.IndexAddr)
		if !ok {
			return
		}
		if _, ok := ia.X.(*ssa.MakeSlice); !ok {
			return
		}
		n++
		idx := lin.Of(ia.Index)
		// the height used for TimeAndWork in the same iteration
		var hv kit.Lin
		for _, c := range kit.CallsTo(f, H+".Branch.TimeAndWork") {
			hv = lin.Of(c.(*ssa.Call).Call.Args[2])
		}
		sum := idx.Add(pAtom(f, 2)).Sub(hv)
		if !sum.Equal(pAtom(f, 3).AddK(-1)) {
			badP = "sample at height h is stored at index " + idx.String() + " (h = " + hv.String() + "): samples are not oldest-first ending at `height`"
		}
	})
	if n != 1 {
		badP = fmt.Sprintf("expected one store into the sample list, found %d", n)
	}
	r.Check(badP == "", "MEDIAN", "MedianTimeAndWork/sample-order", pos, "list[count-1-k] = sample at height-k", badP)

	// 4. middle element returned
	badM := ""
	for _, ret := range kit.Returns(f) {
		if kit.ReturnErrClass(ret) != kit.ErrNil {
			continue
		}
		f2, base := kit.LoadedField(kit.RetOperand(ret, 0))
		if f2 != timeF {
			badM = "returned time is not a sample's time"
			continue
		}
		ia := sampleElem(base)
		if ia == nil {
			badM = "returned sample is not an element of the list"
			continue
		}
		idx := lin.Of(ia.Index)
		if kc, ok := idx.IsConst(); ok {
			if kc != 1 {
				badM = fmt.Sprintf("returns element %d, want the middle (1)", kc)
			}
		} else if idx.String() != "("+pAtom(f, 3).String()+")/(2)" {
			badM = "returns element " + idx.String() + ", want count/2"
		}
		// time and work from the same element
		f3, base3 := kit.LoadedField(kit.RetOperand(ret, 1))
		if f3 == nil || f3.Name() != "work" || (base3 != base && (sampleElem(base3) == nil || sampleElem(base3) != sampleElem(base))) {
			badM = "returned work is not the work of the sample whose time is returned"
		}
	}
	r.Check(badM == "", "MEDIAN", "MedianTimeAndWork/middle", pos, "returns time and work of list[count/2]", badM)
}

// checkDepIndex recomputes the dependency fact and places the inherited obligations.
func checkDepIndex(p *load.Program, r *kit.Report, ph *ssa.Function, g *phGuards) {
	dep := p.Func(load.BitcoinPkg, "ConvertToDifficulty")
	if dep == nil || dep.Blocks == nil {
		r.Unknown("DEP-INDEX", "ConvertToDifficulty/source", "-", "dependency body not loaded")
		return
	}
	lin := kit.NewLin(dep)
	unsafeIdx := int64(-1)
	kit.AllInstrs(dep, func(in ssa.Instruction) {
		ia, ok := in.(*ssa.IndexAddr)
		if !ok {
			return
		}
		ms, ok := ia.X.(*ssa.MakeSlice)
		if !ok {
			return
		}
		kidx, ok := kit.ConstInt(ia.Index)
		if !ok {
			return
		}
		// need length >= kidx+1 on every path
		length := lin.Of(ms.Len)
		gs := kit.FindGuards(dep, func(c ssa.Value) (bool, bool) { return cmpMatches(lin, c, length, kidx+1) })
		// also accept stronger bounds
		for extra := int64(2); extra <= 4; extra++ {
			gs = append(gs, kit.FindGuards(dep, func(c ssa.Value) (bool, bool) { return cmpMatches(lin, c, length, kidx+extra) })...)
		}
		if ok, _ := kit.DominatedByEdges(dep, in, edgesOf(gs, true), nil, p.Pos); !ok {
			if kidx > unsafeIdx {
				unsafeIdx = kidx
			}
		}
	})
	if unsafeIdx < 0 {
		r.OK("DEP-INDEX", "ConvertToDifficulty/index-guards", p.Pos(dep.Pos()), "every constant index in the dependency is behind a sufficient length test: no inherited obligation")
		return
	}
	r.OK("DEP-INDEX", "ConvertToDifficulty/index-guards", "pkg/bitcoin/proof_of_work.go", "dependency fact recomputed: b[%d] is not behind length >= %d; callers inherit a sanity obligation on bits", unsafeIdx, unsafeIdx+1)
	// guard: (header.Bits >> 24) < c with c >= 3 refuses; or >= c passes
	bitsF := p.Field(load.WirePkg, "BlockHeader", "Bits")
	sane := kit.FindGuards(ph, func(c ssa.Value) (bool, bool) {
		b, ok := c.(*ssa.BinOp)
		if !ok {
			return false, false
		}
		sh, ok := b.X.(*ssa.BinOp)
		if !ok || sh.Op != token.SHR || !loadOfField(sh.X, bitsF) {
			return false, false
		}
		if s, ok := kit.ConstInt(sh.Y); !ok || s != 24 {
			return false, false
		}
		kc, ok := kit.ConstInt(b.Y)
		if !ok {
			return false, false
		}
		switch b.Op {
		case token.LSS: // size < c refuses
			return kc >= 3, false
		case token.LEQ:
			return kc >= 2, false
		case token.GEQ:
			return kc >= 3, true
		case token.GTR:
			return kc >= 2, true
		}
		return false, false
	})
	sites := kit.CallsTo(ph, load.WirePkg+".BlockHeader.WorkIsValid", H+".NewBranch", H+".Branch.Add")
	if len(sites) < 3 {
		r.Unknown("DEP-INDEX", "ProcessHeader/bits-consumers", "-", "expected WorkIsValid, NewBranch and Add call sites, found %d", len(sites))
		return
	}
	k := newKeyer()
	for _, s := range sites {
		key := k.key("ProcessHeader/" + kit.ShortID(kit.CallID(s)) + "(bits)")
		ok, path := kit.DominatedByEdges(ph, s, edgesOf(sane, true), nil, p.Pos)
		r.Check(ok, "DEP-INDEX", key, posOf(p, s), "behind the bits size sanity guard",
			"peer-controlled header.Bits reaches bitcoin.ConvertToDifficulty without a size check (bits with effective size 1 index out of range): "+path)
	}
}

func checkWorkIsValid(p *load.Program, r *kit.Report) {
	f := p.Func(load.WirePkg, "BlockHeader.WorkIsValid")
	if f == nil || f.Blocks == nil {
		r.Unknown("DEP-FACT", "WorkIsValid/body", "-", "dependency body not loaded")
		return
	}
	bitsF := p.Field(load.WirePkg, "BlockHeader", "Bits")
	bad := ""
	n := 0
	for _, ret := range kit.Returns(f) {
		n++
		b, ok := kit.RetOperand(ret, 0).(*ssa.BinOp)
		if !ok {
			bad = "result is not a comparison"
			continue
		}
		cmp := isCallTo(b.X, bigInt+".Cmp")
		z, isZ := kit.ConstInt(b.Y)
		if cmp == nil || !isZ || z != 0 {
			bad = "result is not Cmp(...) compared with 0"
			continue
		}
		isHashVal := func(v ssa.Value) bool {
			c := isCallTo(v, load.BitcoinPkg+".Hash32.Value")
			return c != nil && kit.DependsOn(c.Call.Args[0], func(x ssa.Value) bool {
				cc, ok := x.(*ssa.Call)
				return ok && kit.CallID(cc) == load.WirePkg+".BlockHeader.BlockHash"
			})
		}
		isTarget := func(v ssa.Value) bool {
			c := isCallTo(v, load.BitcoinPkg+".ConvertToDifficulty")
			return c != nil && loadOfField(c.Call.Args[0], bitsF)
		}
		switch {
		case isHashVal(cmp.Call.Args[0]) && isTarget(cmp.Call.Args[1]) && (b.Op == token.LEQ):
		case isTarget(cmp.Call.Args[0]) && isHashVal(cmp.Call.Args[1]) && (b.Op == token.GEQ):
		default:
			bad = "the hash value is not required to be <= the target of the header's own bits (op " + b.Op.String() + ")"
		}
	}
	r.Check(bad == "" && n > 0, "DEP-FACT", "WirePkg.BlockHeader.WorkIsValid", "pkg/wire/blockheader.go", "hash value <= ConvertToDifficulty(own bits)", bad)
}

// checkRetentionDepth: the difficulty rule for height h reads the headers h-1 … h-(window) of the
// header's own branch from memory (Target → MedianTimeAndWork → AtHeight; nothing is re-read from
// the files), and a new branch is admitted down to MaxBranchDepth below the tip. So the depth that
// clean (prune) and Load keep in memory must be at least MaxBranchDepth + window − 1, or a valid
// header is refused with "Header Data Not Found" instead of being decided on its proof of work.
func checkRetentionDepth(p *load.Program, r *kit.Report, rule string) {
	tf := fn(p, r, rule, H, "Branch.Target")
	if tf == nil {
		return
	}
	// window: the lowest height Target reads, relative to its height parameter
	lin := kit.NewLin(tf)
	var hp ssa.Value
	for _, prm := range tf.Params {
		if prm.Name() == "height" {
			hp = prm
		}
	}
	window := int64(0)
	nCalls := 0
	for _, c := range kit.CallsTo(tf, H+".Branch.MedianTimeAndWork") {
		args := c.Common().Args
		if hp == nil || len(args) < 4 {
			continue
		}
		d := lin.Of(hp).Sub(lin.Of(args[2]))
		k, ok1 := d.IsConst()
		cnt, ok2 := kit.ConstInt(args[3])
		if !ok1 || !ok2 {
			r.Unknown(rule, "Target/window", posOf(p, c), "MedianTimeAndWork(%s, %s): not height-k with constant count", lin.Of(args[2]), describe(args[3]))
			return
		}
		nCalls++
		if k+cnt-1 > window {
			window = k + cnt - 1
		}
	}
	if nCalls < 2 || window <= 0 {
		r.Unknown(rule, "Target/window", "-", "expected two MedianTimeAndWork calls in Target, found %d", nCalls)
		return
	}
	r.OK(rule, "Target/window", posOf(p, tf.Blocks[0].Instrs[0]), "Target(height) reads down to height-%d", window)
	// default MaxBranchDepth
	mbdF := p.Field(H, "Config", "MaxBranchDepth")
	def := int64(-1)
	if dc := p.Func(H, "DefaultConfig"); dc != nil && mbdF != nil {
		for _, w := range kit.DirectWrites(dc) {
			if w.Field == mbdF {
				if k, ok := kit.ConstInt(w.Val); ok {
					def = k
				}
			}
		}
	}
	if def < 0 {
		r.Unknown(rule, "DefaultConfig/MaxBranchDepth", "-", "default MaxBranchDepth not found")
		return
	}
	sites := []struct{ caller, callee string }{{"Repository.clean", "Repository.prune"}, {"Repository.Load", "Repository.load"}}
	for _, s := range sites {
		f := fn(p, r, rule, H, s.caller)
		if f == nil {
			continue
		}
		calls := kit.CallsTo(f, H+"."+s.callee)
		if len(calls) == 0 {
			r.Unknown(rule, s.caller+"/depth", "-", "no call of %s", s.callee)
			continue
		}
		for _, c := range calls {
			args := c.Common().Args
			depth := args[len(args)-1]
			key := s.caller + "/depth→" + s.callee
			if k, ok := kit.ConstInt(kit.Strip(depth)); ok {
				need := def + window - 1
				r.Check(k >= need, rule, key, posOf(p, c), fmt.Sprintf("keeps %d headers; MaxBranchDepth %d + window %d − 1 = %d", k, def, window, need),
					fmt.Sprintf("only %d headers are kept in memory but a header on a fork %d below the tip needs the %d headers below it: %d", k, def, window, need))
				continue
			}
			// computed depth: evaluate it for representative MaxBranchDepth values
			var from ssa.Value
			kit.AllInstrs(f, func(in ssa.Instruction) {
				if u, ok := in.(*ssa.UnOp); ok && u.Op == token.MUL && from == nil {
					if fa, ok := u.X.(*ssa.FieldAddr); ok {
						if fl, _ := kit.FieldOfAddr(fa); fl == mbdF {
							from = u
						}
					}
				}
			})
			if from == nil {
				r.Unknown(rule, key, posOf(p, c), "the depth is neither a constant nor computed from config.MaxBranchDepth in %s", s.caller)
				continue
			}
			bad := ""
			for _, m := range []int64{0, def, 1000} {
				outs, why := evalSlice(from, m, c.(ssa.Instruction), depth)
				if why != "" {
					bad = "depth not evaluable: " + why
					break
				}
				for _, o := range outs {
					if o == evalReturned {
						continue
					}
					if o < m+window-1 {
						bad = fmt.Sprintf("with MaxBranchDepth %d only %d headers are kept in memory, but a header on a fork %d below the tip needs the %d headers below it (%d): it is refused with Header Data Not Found instead of being decided on its proof of work", m, o, m, window, m+window-1)
					}
				}
				if bad != "" {
					break
				}
			}
			r.Check(bad == "", rule, key, posOf(p, c), "computed depth ≥ MaxBranchDepth + window − 1 for MaxBranchDepth 0, default, 1000", bad)
		}
	}
}

// sampleElem: the list element a sample value was taken from — `list[i]` holding a pointer
// (load of the element address) or the struct itself (the element address, or a copy loaded from it).
func sampleElem(base ssa.Value) *ssa.IndexAddr {
	switch x := base.(type) {
	case *ssa.IndexAddr:
		return x
	case *ssa.UnOp:
		if x.Op == token.MUL {
			if ia, ok := x.X.(*ssa.IndexAddr); ok {
				return ia
			}
			// a local copy of the element: `result := list[k]`
			if a, ok := x.X.(*ssa.Alloc); ok {
				var src *ssa.IndexAddr
				n := 0
				for _, ref := range *a.Referrers() {
					if st, ok := ref.(*ssa.Store); ok && st.Addr == ssa.Value(a) {
						n++
						if u, ok := st.Val.(*ssa.UnOp); ok && u.Op == token.MUL {
							src, _ = u.X.(*ssa.IndexAddr)
						}
					}
				}
				if n == 1 {
					return src
				}
			}
		}
	case *ssa.Alloc:
		var src *ssa.IndexAddr
		n := 0
		for _, ref := range *x.Referrers() {
			if st, ok := ref.(*ssa.Store); ok && st.Addr == ssa.Value(x) {
				n++
				if u, ok := st.Val.(*ssa.UnOp); ok && u.Op == token.MUL {
					src, _ = u.X.(*ssa.IndexAddr)
				}
			}
		}
		if n == 1 {
			return src
		}
	}
	return nil
}
