package props

import (
	"strings"

	"golang.org/x/tools/go/ssa"

	"verif/internal/kit"
	"verif/internal/load"
)

// checkHandshakeBoth: sendVerifyInitiation (which marks the handshake complete) is called only when
// both a version and a verack message have been taken from the handshake channel. Each call site
// is either inside the arm of one of the two message types, or outside both; the missing types
// must be vouched for by boolean flags that guard the call and that are set to true only inside
// the arm of that type. A counter of messages does not say which messages arrived.
func checkHandshakeBoth(p *load.Program, r *kit.Report) {
	f := fn(p, r, "HANDSHAKE-BOTH", R, "BitcoinNode.handshake")
	if f == nil {
		return
	}
	calls := kit.CallsTo(f, R+".BitcoinNode.sendVerifyInitiation")
	if len(calls) == 0 {
		r.Bad("HANDSHAKE-BOTH", "handshake/completion", posOf(p, f.Blocks[0].Instrs[0]), "the handshake is never completed")
		return
	}
	// who may complete the handshake: only the handshake thread calls sendVerifyInitiation, and
	// handshakeIsComplete receives true only there (a message handler that completes it lets a
	// peer skip version/verack altogether)
	{
		hcF := p.Field(R, "BitcoinNode", "handshakeIsComplete")
		kk := newKeyer()
		bad := false
		for _, g := range pkgFuncs(p, R) {
			if strings.HasSuffix(p.FileOf(g.Pos()), "_test.go") {
				continue
			}
			id := kit.FuncID(g)
			if id != R+".BitcoinNode.handshake" {
				for _, c := range kit.CallsTo(g, R+".BitcoinNode.sendVerifyInitiation") {
					bad = true
					r.Bad("HANDSHAKE-BOTH", kk.key(kit.ShortID(id)+"/completes-handshake"), posOf(p, c), "sendVerifyInitiation (which marks the handshake complete and opens the verification gate) is called outside the handshake thread: a peer that never sent version/verack can reach accept()")
				}
			}
			if id == R+".BitcoinNode.handshake" || id == R+".BitcoinNode.sendVerifyInitiation" {
				continue
			}
			for _, c := range kit.CallsTo(g, "sync/atomic.Value.Store") {
				if fa, _ := kit.FieldOfAddr(c.Common().Args[0]); fa == hcF && hcF != nil {
					if b, isC := kit.ConstBool(c.Common().Args[1]); !(isC && !b) {
						bad = true
						r.Bad("HANDSHAKE-BOTH", kk.key(kit.ShortID(id)+"/store:handshakeIsComplete"), posOf(p, c), "handshakeIsComplete is set outside the handshake thread")
					}
				}
			}
		}
		if !bad {
			r.OK("HANDSHAKE-BOTH", "handshake/only-completer", posOf(p, f.Blocks[0].Instrs[0]), "only handshake() calls sendVerifyInitiation; handshakeIsComplete is set nowhere else")
		}
	}
	// arms of the type switch
	arm := map[string][]kit.Edge{}
	for _, g := range kit.FindGuards(f, func(c ssa.Value) (bool, bool) {
		e, ok := c.(*ssa.Extract)
		if !ok || e.Index != 1 {
			return false, false
		}
		_, ok = e.Tuple.(*ssa.TypeAssert)
		return ok, true
	}) {
		ta := g.If.Cond.(*ssa.Extract).Tuple.(*ssa.TypeAssert)
		t := ta.AssertedType.String()
		switch {
		case strings.HasSuffix(t, "wire.MsgVersion"):
			arm["version"] = append(arm["version"], g.PassEdge())
		case strings.HasSuffix(t, "wire.MsgVerAck"):
			arm["verack"] = append(arm["verack"], g.PassEdge())
		}
	}
	if len(arm["version"]) == 0 || len(arm["verack"]) == 0 {
		r.Bad("HANDSHAKE-BOTH", "handshake/arms", posOf(p, f.Blocks[0].Instrs[0]), "the version and verack messages are not told apart by type")
		return
	}
	inArm := func(in ssa.Instruction, which string) bool {
		d, _ := kit.DominatedByEdges(f, in, arm[which], nil, p.Pos)
		return d
	}
	// flags: boolean phis; setTrueOnlyIn reports the single arm in which every `true` enters the web
	flagArm := func(ph *ssa.Phi) string {
		web := map[*ssa.Phi]bool{}
		where := map[string]bool{}
		ok := true
		var walk func(x *ssa.Phi)
		walk = func(x *ssa.Phi) {
			if web[x] {
				return
			}
			web[x] = true
			for i, e := range x.Edges {
				if ip, isPhi := e.(*ssa.Phi); isPhi {
					walk(ip)
					continue
				}
				b, isC := kit.ConstBool(e)
				if !isC {
					ok = false
					continue
				}
				if !b {
					continue
				}
				pred := x.Block().Preds[i]
				last := pred.Instrs[len(pred.Instrs)-1]
				switch {
				case inArm(last, "version"):
					where["version"] = true
				case inArm(last, "verack"):
					where["verack"] = true
				default:
					ok = false
				}
			}
		}
		walk(ph)
		if !ok || len(where) != 1 {
			return ""
		}
		for k := range where {
			return k
		}
		return ""
	}
	k := newKeyer()
	for _, c := range calls {
		have := map[string]bool{}
		for _, w := range []string{"version", "verack"} {
			if inArm(c, w) {
				have[w] = true
			}
		}
		// guarding flags
		for _, g := range kit.FindGuards(f, func(cv ssa.Value) (bool, bool) {
			ph, ok := cv.(*ssa.Phi)
			return ok && flagArm(ph) != "", true
		}) {
			if d, _ := kit.DominatedByEdges(f, c, []kit.Edge{g.PassEdge()}, nil, p.Pos); d {
				cond := g.If.Cond
				for {
					if u, ok := cond.(*ssa.UnOp); ok {
						cond = u.X
						continue
					}
					break
				}
				have[flagArm(cond.(*ssa.Phi))] = true
			}
		}
		bad := ""
		for _, w := range []string{"version", "verack"} {
			if !have[w] {
				bad = "the handshake can be declared complete without a " + w + " message having been received (this call is neither in the " + w + " arm nor guarded by a flag that only the " + w + " arm sets)"
			}
		}
		r.Check(bad == "", "HANDSHAKE-BOTH", k.key("handshake/completion"), posOf(p, c), "version and verack both received", bad)
	}
}
