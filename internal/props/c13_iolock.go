package props

import (
	"go/token"
	"strings"

	"golang.org/x/tools/go/ssa"

	"verif/internal/kit"
	"verif/internal/load"
)

// checkNoIOUnderConnectionLock: Stop() takes connectionLock to close the connection, which is the
// only thing that unblocks a write to a peer that has stopped reading. So nothing that can block on
// the peer or on another goroutine — a network write/read, a channel operation, a wait — may run
// while connectionLock is held; the lock only guards the copy of the connection pointer.
func checkNoIOUnderConnectionLock(p *load.Program, r *kit.Report, rule string) {
	lockName := curName(p, "connectionLock")
	n := 0
	bad := ""
	at := "-"
	for _, f := range pkgFuncs(p, R) {
		if strings.HasSuffix(p.FileOf(f.Pos()), "_test.go") {
			continue
		}
		var li *kit.LockInfo
		holds := func(in ssa.Instruction) bool {
			if li == nil {
				li = kit.Lockset(f, entryLocks(p)[f])
			}
			return strings.Contains(li.HeldAt(in), "."+lockName+":")
		}
		// only functions that take the lock at all are of interest
		takes := false
		kit.AllInstrs(f, func(in ssa.Instruction) {
			if c, ok := in.(ssa.CallInstruction); ok {
				if fl, _ := kit.FieldOfAddr(recvOfLockCall(c)); fl != nil && fl.Name() == lockName {
					takes = true
				}
			}
		})
		if !takes {
			continue
		}
		n++
		r.Fn(kit.ShortID(kit.FuncID(f)))
		kit.AllInstrs(f, func(in ssa.Instruction) {
			what := ""
			switch x := in.(type) {
			case *ssa.Send:
				what = "channel send"
			case *ssa.UnOp:
				if x.Op == token.ARROW {
					what = "channel receive"
				}
			case *ssa.Select:
				if x.Blocking {
					what = "select"
				}
			case ssa.CallInstruction:
				if _, isDefer := in.(*ssa.Defer); isDefer {
					return
				}
				id := kit.CallID(x)
				switch {
				case strings.HasPrefix(id, load.WirePkg+".WriteMessage"), strings.HasPrefix(id, load.WirePkg+".ReadMessage"):
					what = "network I/O (" + kit.ShortID(id) + ")"
				case id == "sync.WaitGroup.Wait", id == "io.ReadFull", id == "io.Copy", id == "io.CopyN":
					what = kit.ShortID(id)
				case x.Common().IsInvoke() && (x.Common().Method.Name() == "Write" || x.Common().Method.Name() == "Read") && strings.Contains(x.Common().Value.Type().String(), "net.Conn"):
					what = "connection " + x.Common().Method.Name()
				}
			}
			if what != "" && holds(in) && bad == "" {
				bad = what + " while connectionLock is held: Stop() needs that lock to close the connection, so a peer that stops reading blocks the writer and Stop for ever (a verify-only node never disconnects, Run never returns)"
				at = posOf(p, in)
			}
		})
	}
	if n == 0 {
		r.Unknown(rule, "connectionLock/users", "-", "no function takes connectionLock")
		return
	}
	r.Check(bad == "", rule, "connectionLock/no-blocking-op", at, "connectionLock guards only the connection pointer ("+itoa(n)+" functions take it)", bad)
}

func itoa(n int) string {
	s := ""
	if n == 0 {
		return "0"
	}
	for n > 0 {
		s = string(rune('0'+n%10)) + s
		n /= 10
	}
	return s
}

// recvOfLockCall returns the receiver address of a Lock/Unlock/RLock/RUnlock call, or nil.
func recvOfLockCall(c ssa.CallInstruction) ssa.Value {
	id := kit.CallID(c)
	if !strings.HasPrefix(id, "sync.Mutex.") && !strings.HasPrefix(id, "sync.RWMutex.") {
		return nil
	}
	if len(c.Common().Args) == 0 {
		return nil
	}
	return c.Common().Args[0]
}
