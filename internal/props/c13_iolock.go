package props

import (
	"go/token"
	"strings"

	"golang.org/x/tools/go/ssa"

	"verif/internal/kit"
	"verif/internal/load"
)

// checkNoIOUnderConnectionLock: Stop() takes connectionLock to close the connection, which is the
// only thing that unblocks a write to a peer that has stopped reading. So nothing that can block on
// the peer or on another goroutine — a network write/read, a channel operation, a wait — may run
// while connectionLock is held; the lock only guards the copy of the connection pointer.
func checkNoIOUnderConnectionLock(p *load.Program, r *kit.Report, rule string) {
	lockName := curName(p, "connectionLock")
	n := 0
	bad := ""
	at := "-"
	for _, f := range pkgFuncs(p, R) {
		if strings.HasSuffix(p.FileOf(f.Pos()), "_test.go") {
			continue
		}
		var li *kit.LockInfo
		holds := func(in ssa.Instruction) bool {
			if li == nil {
				li = kit.Lockset(f, entryLocks(p)[f])
			}
			return strings.Contains(li.HeldAt(in), "."+lockName+":")
		}
		// only functions that take the lock at all are of interest
		takes := false
		kit.AllInstrs(f, func(in ssa.Instruction) {
			if c, ok := in.(ssa.CallInstruction); ok {
				if fl, _ := kit.FieldOfAddr(recvOfLockCall(c)); fl != nil && fl.Name() == lockName {
					takes = true
				}
			}
		})
		if !takes {
			continue
		}
		n++
		r.Fn(kit.ShortID(kit.FuncID(f)))
		kit.AllInstrs(f, func(in ssa.Instruction) {
			what := ""
			switch x := in.(type) {
			case *ssa.Send:
				what = "channel send"
			case *ssa.UnOp:
				if x.Op == token.ARROW {
					what = "channel receive"
				}
			case *ssa.Select:
				if x.Blocking {
					what = "select"
				}
			case ssa.CallInstruction:
				if _, isDefer := in.(*ssa.Defer); isDefer {
					return
				}
				id := kit.CallID(x)
				switch {
				case strings.HasPrefix(id, load.WirePkg+".WriteMessage"), strings.HasPrefix(id, load.WirePkg+".ReadMessage"):
					what = "network I/O (" + kit.ShortID(id) + ")"
				case id == "sync.WaitGroup.Wait", id == "io.ReadFull", id == "io.Copy", id == "io.CopyN":
					what = kit.ShortID(id)
				case x.Common().IsInvoke() && (x.Common().Method.Name() == "Write" || x.Common().Method.Name() == "Read") && strings.Contains(x.Common().Value.Type().String(), "net.Conn"):
					what = "connection " + x.Common().Method.Name()
				}
			}
			if what != "" && holds(in) && bad == "" {
				bad = what + " while connectionLock is held: Stop() needs that lock to close the connection, so a peer that stops reading blocks the writer and Stop for ever (a verify-only node never disconnects, Run never returns)"
				at = posOf(p, in)
			}
		})
	}
	if n == 0 {
		r.Unknown(rule, "connectionLock/users", "-", "no function takes connectionLock")
		return
	}
	r.Check(bad == "", rule, "connectionLock/no-blocking-op", at, "connectionLock guards only the connection pointer ("+itoa(n)+" functions take it)", bad)
}

func itoa(n int) string {
	s := ""
	if n == 0 {
		return "0"
	}
	for n > 0 {
		s = string(rune('0'+n%10)) + s
		n /= 10
	}
	return s
}

// recvOfLockCall returns the receiver address of a Lock/Unlock/RLock/RUnlock call, or nil.
func recvOfLockCall(c ssa.CallInstruction) ssa.Value {
	id := kit.CallID(c)
	if !strings.HasPrefix(id, "sync.Mutex.") && !strings.HasPrefix(id, "sync.RWMutex.") {
		return nil
	}
	if len(c.Common().Args) == 0 {
		return nil
	}
	return c.Common().Args[0]
}

// checkStopOrder: BitcoinNode.Stop closes the connection before it closes the outgoing message
// channel. MessageChannel.Add sends while holding the channel's mutex and Close needs that mutex;
// with the queue full a sender is parked in Add, and only the closed connection makes sendOutgoing
// fail, flush the queue and release it. Closing the channel first blocks Stop for ever with the
// connection still open (a refused peer is never disconnected; Run never returns).
func checkStopOrder(p *load.Program, r *kit.Report, rule string) {
	f := fn(p, r, rule, R, "BitcoinNode.Stop")
	if f == nil {
		return
	}
	connF := p.Field(R, "BitcoinNode", "connection")
	chanF := p.Field(R, "BitcoinNode", "outgoingMsgChannel")
	var connClose, chClose ssa.Instruction
	kit.AllInstrs(f, func(in ssa.Instruction) {
		c, ok := in.(ssa.CallInstruction)
		if !ok {
			return
		}
		com := c.Common()
		if com.IsInvoke() && com.Method.Name() == "Close" && loadOfField(kit.Strip(com.Value), connF) {
			connClose = in
		}
		if kit.CallID(c) == R+".MessageChannel.Close" && len(com.Args) > 0 {
			if fl, _ := kit.FieldOfAddr(com.Args[0]); fl == chanF {
				chClose = in
			}
		}
	})
	pos := posOf(p, f.Blocks[0].Instrs[0])
	bad := ""
	switch {
	case connClose == nil:
		bad = "Stop does not close the connection"
	case chClose == nil:
		bad = "Stop does not close the outgoing message channel"
	default:
		// the channel close is not reachable before the connection-closing section: every path to
		// it passes the test of n.connection (the close itself when a connection exists)
		nilTests := kit.FindGuards(f, func(c ssa.Value) (bool, bool) {
			b, ok := c.(*ssa.BinOp)
			if !ok || (b.Op != token.EQL && b.Op != token.NEQ) || !kit.IsNilConst(b.Y) || !loadOfField(kit.Strip(b.X), connF) {
				return false, false
			}
			return true, b.Op == token.NEQ
		})
		var after []kit.Edge
		for _, g := range nilTests {
			after = append(after, g.FailEdge()) // no connection: nothing to close
		}
		pre := kit.Reach(f, []kit.Pt{kit.Entry(f)}, kit.Opts{StopAt: kit.InstrSet(connClose), BlockEdge: kit.EdgeSet(after...)})
		if pre.Has(chClose) {
			bad = "the outgoing message channel is closed (" + posOf(p, chClose) + ") before the connection (" + posOf(p, connClose) + "): with a full queue a sender is parked inside MessageChannel.Add holding the mutex that Close needs, and only the closed connection releases it — Stop blocks for ever with the connection open"
		}
	}
	r.Check(bad == "", rule, "BitcoinNode.Stop/connection-before-channel", pos, "connection.Close() precedes outgoingMsgChannel.Close()", bad)
}

// checkNoPeerReadUnderNodeLock: no handler reads from the peer while it holds the node mutex.
// Stop() starts with Address(), NodeManager polls IsBusy()/ID() under its own mutex and run() takes
// the node mutex right after the threads stop: a peer that sends part of a payload and then goes
// silent would park the handler inside the read with the mutex held — every timeout path goes
// through Stop and blocks, Run never returns and the manager freezes with it.
func checkNoPeerReadUnderNodeLock(p *load.Program, r *kit.Report, rule string) {
	fns, _ := allHandlers(p)
	seen := map[*ssa.Function]bool{}
	n := 0
	k := newKeyer()
	var walk func(f *ssa.Function, depth int)
	walk = func(f *ssa.Function, depth int) {
		if f == nil || seen[f] || f.Blocks == nil || depth > 4 || f.Pkg == nil || f.Pkg.Pkg.Path() != R {
			return
		}
		seen[f] = true
		li := kit.Lockset(f, entryLocks(p)[f])
		name := kit.ShortID(kit.FuncID(f))
		bad := ""
		reads := 0
		kit.AllInstrs(f, func(in ssa.Instruction) {
			c, ok := in.(ssa.CallInstruction)
			if !ok {
				return
			}
			if _, isDefer := in.(*ssa.Defer); isDefer {
				return
			}
			id := kit.CallID(c)
			isRead := false
			switch {
			case id == R+".readMessage", id == R+".DiscardInput", id == R+".DiscardInputWithCounter", id == R+".readHeader",
				id == "io.ReadFull", id == "io.CopyN", id == "io.Copy", id == "encoding/binary.Read",
				strings.HasPrefix(id, load.WirePkg+".ReadVarInt"), strings.HasSuffix(id, ".Deserialize"), strings.HasSuffix(id, ".BtcDecode"):
				isRead = true
			}
			if isRead {
				// only reads whose source is the handler's reader parameter (an io.Reader), not an
				// in-memory buffer
				src := false
				for _, a := range c.Common().Args {
					if kit.DependsOn(a, func(v ssa.Value) bool {
						prm, ok := v.(*ssa.Parameter)
						return ok && strings.HasSuffix(prm.Type().String(), "io.Reader")
					}) {
						src = true
					}
				}
				if !src {
					return
				}
				reads++
				held := li.HeldAt(in)
				if strings.Contains(held, ".Mutex:") && bad == "" {
					bad = kit.ShortID(id) + " at " + posOf(p, in) + " reads from the peer while the node mutex is held (" + held + "): a peer that stops sending mid-payload parks the handler with the lock that Stop(), run() and the node manager need"
				}
				return
			}
			if sc := kit.StaticCallee(c); sc != nil {
				walk(sc, depth+1)
			}
		})
		if reads > 0 {
			n++
			r.Check(bad == "", rule, k.key(name+"/reads-without-node-lock"), posOf(p, f.Blocks[0].Instrs[0]), "peer reads are made with the node mutex released", bad)
		}
	}
	for _, h := range fns {
		walk(h, 0)
	}
	if n < 8 {
		r.Unknown(rule, "handlers/reads", "-", "expected at least 8 handler functions that read from the peer, found %d", n)
	}
}
