package props

import (
	"go/token"
	"go/types"
	"strings"

	"golang.org/x/tools/go/ssa"

	"verif/internal/kit"
	"verif/internal/load"
)

func init() { register("C06", checkC06) }

// lockReleases lists the instructions of f that release lock key (any mode).
func lockReleases(f *ssa.Function, key string) []ssa.Instruction {
	lin := kit.NewLin(f)
	var out []ssa.Instruction
	kit.AllInstrs(f, func(in ssa.Instruction) {
		c, ok := in.(ssa.CallInstruction)
		if !ok {
			return
		}
		if _, isDefer := in.(*ssa.Defer); isDefer {
			return
		}
		if k, _, op := kit.LockOp(lin, c); op < 0 && k == key {
			out = append(out, in)
		}
	})
	return out
}

func nilTestOfField(f *ssa.Function, fld *types.Var) []kit.Guard {
	return kit.FindGuards(f, func(c ssa.Value) (bool, bool) {
		b, ok := c.(*ssa.BinOp)
		if !ok || (b.Op != token.EQL && b.Op != token.NEQ) || !kit.IsNilConst(b.Y) || !loadOfField(b.X, fld) {
			return false, false
		}
		return true, b.Op == token.EQL // guarded fact: "is nil"
	})
}

func checkC06(p *load.Program, r *kit.Report) {
	r.Rule("STAMP-GUARDED", "GetTxRequests stamps LastRequested only behind contains(NodeIDs, nodeID)", 1)
	checkStampBehindGuards(p, r, "STAMP-GUARDED")
	r.Rule("FRESH-VECTOR", "every inventory vector added to a getdata message inside a loop is created in that iteration (AddInvVect keeps the pointer)", 2)
	checkInvVectFresh(p, r, "FRESH-VECTOR")
	r.Rule("CLAIM-IS-REQUESTED", "in handleInventory an item for which AddTxID answered true is put into the getdata message before the loop goes on (the entry is already stamped as requested from this peer)", 1)
	checkClaimIsRequested(p, r, "CLAIM-IS-REQUESTED")
	r.NotDecided = "linearizability under all interleavings (the lock-set result gives atomicity of each decision, not a proof about their composition); timing of the request timeout; the end-to-end inv→getdata→tx leg over a connection."
	r.Rule("LOCKSET", "every access to TxData{LastRequested,Received,NodeIDs,ReceivedFrom} holds that entry's RWMutex (write mode for writes) and every access to txMap.txs holds the bucket's RWMutex; constructors exempt", 20)
	r.Rule("TEST-AND-SET", "TxData.Received is stored only behind the nil edge of a test of the same entry's Received with the entry lock held continuously from the test to the store (or in the literal of a freshly inserted entry); sendTx is reachable only through that edge or the fresh-insert edge, at most once", 3)
	r.Rule("RETENTION", "Clean keeps an entry whose latest activity — the delivery when delivered — is after the cut-off; removeID removes exactly one announcer", 2)
	r.Rule("MUST-PASS", "AddTxID returns true only after stamping LastRequested (or inserting a fresh entry); GetTxRequests returns every txid it stamped (the accumulated list is returned unsliced) and appends a txid only behind Received == nil, contains(NodeIDs, nodeID) and the timeout test, after stamping; Run saves only relevant txs after ProcessTx", 5)

	r.Rule("SENT-IS-FROZEN", "a message passed to sendMessage (which only queues the pointer for the sender goroutine) is not written afterwards by the function that built it: the overflow batch of a getdata starts in a fresh message", 8)
	checkSentIsFrozen(p, r, "SENT-IS-FROZEN")
	r.Rule("REQUEST-PROVENANCE", "the txid batch NodeManager.RequestTxs sends to a node is the result of GetTxRequests(node.id, …) for that same node in the same iteration, never a batch booked for a node tried earlier", 1)
	checkRequestProvenance(p, r, "REQUEST-PROVENANCE")
	txData := func(n string) *types.Var { return p.Field(R, "TxData", n) }
	received := txData("Received")
	lastReq := txData("LastRequested")
	nodeIDs := txData("NodeIDs")
	txsF := p.Field(R, "txMap", "txs")
	if received == nil || lastReq == nil || nodeIDs == nil || txsF == nil {
		r.Unknown("LOCKSET", "anchor:TxData", "-", "TxData/txMap fields not found")
		return
	}
	r.Rule("INSERT-ATOMIC", "a fresh entry is stored into a bucket map only in the write-locked critical section whose lookup found no entry for that txid (no read-locked lookup, no release in between)", 2)
	checkInsertAtomic(p, r, "INSERT-ATOMIC", txsF)
	r.Rule("DELIVER", "TxManager.sendTx returns only after the tx was put on the processing channel or the caller's interrupt fired (the warning timer only logs)", 1)
	checkSendTxDelivers(p, r, "DELIVER")
	funcs := pkgFuncs(p, R)
	gb := []guardedBy{{Field: received, Mutex: "RWMutex"}, {Field: lastReq, Mutex: "RWMutex"}, {Field: nodeIDs, Mutex: "RWMutex"},
		{Field: txData("ReceivedFrom"), Mutex: "RWMutex"}, {Field: txsF, Mutex: "RWMutex"}}
	checkGuarded(p, r, "LOCKSET", funcs, gb, nil, func(fn *ssa.Function, a fieldAccess) string {
		if strings.HasSuffix(p.FileOf(fn.Pos()), "_test.go") {
			return "test"
		}
		return ""
	})

	checkTxRetention(p, r, "RETENTION")
	checkRemoveID(p, r, "RETENTION")
	r.Rule("ANNOUNCERS-KEPT", "the announcer list of an entry other goroutines can see changes only by appendID/removeID of its own previous value", 2)
	checkAnnouncersKept(p, r, "ANNOUNCERS-KEPT")
	addTx := fn(p, r, "TEST-AND-SET", R, "TxManager.AddTx")
	if addTx != nil {
		li := kit.Lockset(addTx, nil)
		nilG := nilTestOfField(addTx, received)
		k := newKeyer()
		n := 0
		for _, w := range kit.DirectWrites(addTx) {
			if w.Field != received {
				continue
			}
			n++
			key := k.key("AddTx/store:Received")
			if kit.IsFresh(w.Base) {
				// the fresh entry must be inserted in the same bucket critical section as the miss
				r.OK("TEST-AND-SET", key, posOf(p, w.Instr), "literal of a fresh entry")
				continue
			}
			bad := ""
			// the test on the same entry
			var same []kit.Guard
			for _, g := range nilG {
				_, b := kit.LoadedField(g.If.Cond.(*ssa.BinOp).X)
				if li.Key(b) == li.Key(w.Base) {
					same = append(same, g)
				}
			}
			if ok, path := kit.DominatedByEdges(addTx, w.Instr, edgesOf(same, true), nil, p.Pos); !ok || len(same) == 0 {
				bad = "Received is overwritten without testing that it is still nil: " + path
			} else {
				lock := li.Key(w.Base) + ".RWMutex"
				rel := lockReleases(addTx, lock)
				// the load used by the test must hold the write lock, and no release between test and store
				for _, g := range same {
					ld := g.If.Cond.(*ssa.BinOp).X.(ssa.Instruction)
					if !li.Holds(ld, lock, true) {
						bad = "the nil test of Received is made without the entry's write lock (held: " + li.HeldAt(ld) + "): two deliveries can both see nil"
					}
					reach := kit.Reach(addTx, []kit.Pt{kit.EdgeStart(g.PassEdge())}, kit.Opts{StopAt: kit.InstrSet(w.Instr)})
					for _, x := range rel {
						if reach.Has(x) {
							bad = "the entry lock is released at " + posOf(p, x) + " between the nil test and the store of Received: check-then-set is not atomic, the tx can be forwarded twice"
						}
					}
				}
			}
			r.Check(bad == "", "TEST-AND-SET", key, posOf(p, w.Instr), "behind Received == nil in one write-locked section", bad)
		}
		if n == 0 {
			r.Bad("TEST-AND-SET", "AddTx/store:Received", posOf(p, addTx.Blocks[0].Instrs[0]), "AddTx never records the delivery")
		}
		// sendTx gating
		sends := kit.CallsTo(addTx, R+".TxManager.sendTx")
		exists := mapLookupGuards(addTx, txsF)
		block := append(edgesOf(nilG, true), edgesOf(exists, false)...)
		reach := kit.Reach(addTx, []kit.Pt{kit.Entry(addTx)}, kit.Opts{BlockEdge: kit.EdgeSet(block...)})
		bad := ""
		for _, s := range sends {
			if reach.Has(s) {
				bad = "the tx can be forwarded to the processor although it had already been received: " + reach.PathTo(s, p.Pos)
			}
			after := kit.Reach(addTx, kit.After(s), kit.Opts{})
			for _, s2 := range sends {
				if after.Has(s2) {
					bad = "one delivery can forward the tx twice"
				}
			}
			if kit.Strip(s.Common().Args[len(s.Common().Args)-1]) != ssa.Value(addTx.Params[len(addTx.Params)-1]) {
				bad = "the forwarded tx is not the delivered one"
			}
		}
		if len(sends) == 0 {
			bad = "deliveries are never forwarded"
		}
		// every first delivery IS forwarded: from the nil edge / fresh edge every path to return passes sendTx
		var stops []ssa.Instruction
		for _, s := range sends {
			stops = append(stops, s)
		}
		for _, e := range append(edgesOf(nilG, true), edgesOf(exists, false)...) {
			rr := kit.Reach(addTx, []kit.Pt{kit.EdgeStart(e)}, kit.Opts{StopAt: kit.InstrSet(stops...)})
			for _, ret := range kit.Returns(addTx) {
				if rr.Has(ret) && bad == "" {
					bad = "a first delivery can return without being forwarded: " + rr.PathTo(ret, p.Pos)
				}
			}
		}
		r.Check(bad == "", "TEST-AND-SET", "AddTx/sendTx", posOf(p, addTx.Blocks[0].Instrs[0]), "forwarded exactly on the first-delivery and fresh-insert edges", bad)
	}

	if f := fn(p, r, "MUST-PASS", R, "TxManager.AddTxID"); f != nil {
		var stamps []ssa.Instruction
		for _, w := range kit.DirectWrites(f) {
			if w.Field == lastReq {
				if c := isCallTo(w.Val, "time.Now"); c != nil {
					stamps = append(stamps, w.Instr)
				}
			}
		}
		reach := kit.Reach(f, []kit.Pt{kit.Entry(f)}, kit.Opts{StopAt: kit.InstrSet(stamps...)})
		bad := ""
		nTrue := 0
		for _, ret := range kit.Returns(f) {
			ds, isC := boolDecisions(ret, 0)
			if !isC {
				bad = "request decision is not a constant per path"
				continue
			}
			for _, d := range ds {
				if d.Val {
					nTrue++
					if d.taken(reach) {
						bad = "`request it` is answered without stamping LastRequested: the same tx is requested from every announcer"
					}
				}
			}
		}
		if nTrue == 0 {
			bad = "AddTxID never asks for a tx"
		}
		// false on Received != nil
		rg := nilTestOfField(f, received)
		for _, e := range edgesOf(rg, false) {
			rr := kit.Reach(f, []kit.Pt{kit.EdgeStart(e)}, kit.Opts{})
			for _, ret := range kit.Returns(f) {
				ds, _ := boolDecisions(ret, 0)
				for _, d := range ds {
					if d.Val && d.taken(rr) {
						bad = "a tx that was already received is requested again"
					}
				}
			}
		}
		if len(rg) == 0 {
			bad = "Received is not consulted"
		}
		// within-timeout arm records the announcer
		if len(kit.CallsTo(f, R+".appendID")) == 0 {
			bad = "announcers are not recorded while a request is outstanding"
		}
		r.Check(bad == "", "MUST-PASS", "AddTxID/decision", posOf(p, f.Blocks[0].Instrs[0]), "true only after stamping; false for received txs; announcers recorded", bad)
	}

	if f := fn(p, r, "MUST-PASS", R, "TxManager.GetTxRequests"); f != nil {
		pos := posOf(p, f.Blocks[0].Instrs[0])
		bad := ""
		for _, ret := range kit.Returns(f) {
			if kit.ReturnErrClass(ret) == kit.ErrNonNil {
				continue
			}
			v := kit.Strip(kit.RetOperand(ret, 0))
			if kit.DependsOn(v, func(x ssa.Value) bool {
				sl, ok := x.(*ssa.Slice)
				if !ok {
					return false
				}
				_, isSliceOfSlice := sl.X.Type().Underlying().(*types.Slice)
				return isSliceOfSlice
			}) {
				bad = "the list of txids is cut after the entries were stamped and the node removed from their announcers: the dropped txids are marked as requested from this node but never requested"
			}
		}
		r.Check(bad == "", "MUST-PASS", "GetTxRequests/returns-all-stamped", pos, "the accumulated list is returned as built", bad)
		// the append of a txid is behind the three tests and after the stamp, in one locked section
		var app *ssa.Call
		kit.AllInstrs(f, func(in ssa.Instruction) {
			if c, ok := in.(*ssa.Call); ok && kit.CallID(c) == "builtin.append" && strings.Contains(c.Type().String(), "Hash32") {
				app = c
			}
		})
		bad = ""
		if app == nil {
			bad = "no txid is ever returned"
		} else {
			rg := nilTestOfField(f, received)
			cont := kit.FindGuards(f, kit.CallCond(func(c *ssa.Call) bool { return loadOfField(c.Call.Args[0], nodeIDs) }, R+".contains"))
			var stamp ssa.Instruction
			for _, w := range kit.DirectWrites(f) {
				if w.Field == lastReq {
					stamp = w.Instr
				}
			}
			rm := kit.CallsTo(f, R+".removeID")
			switch {
			case len(rg) == 0 || len(cont) == 0 || stamp == nil || len(rm) == 0:
				bad = "missing one of: Received test, contains(NodeIDs, nodeID), LastRequested stamp, removeID"
			default:
				if ok, _ := kit.DominatedByEdges(f, app, edgesOf(rg, true), nil, p.Pos); !ok {
					bad = "a received tx can be requested again"
				}
				if ok, _ := kit.DominatedByEdges(f, app, edgesOf(cont, true), nil, p.Pos); !ok {
					bad = "a tx can be requested from a node that did not announce it"
				}
				header, body := loopBodyEntry(f, app)
				if header != nil && body != nil {
					rr := kit.Reach(f, []kit.Pt{{B: body, I: 0}}, kit.Opts{StopAt: kit.InstrSet(stamp)})
					if rr.Has(app) {
						bad = "a txid is returned without re-stamping LastRequested"
					}
				}
				// timeout test: time.Since(LastRequested) < timeout → skip
				to := kit.FindGuards(f, func(c ssa.Value) (bool, bool) {
					b, ok := c.(*ssa.BinOp)
					if !ok || (b.Op != token.LSS && b.Op != token.GEQ && b.Op != token.LEQ && b.Op != token.GTR) {
						return false, false
					}
					if isCallTo(b.X, "time.Since") == nil {
						return false, false
					}
					return true, b.Op == token.GEQ || b.Op == token.GTR
				})
				if ok, _ := kit.DominatedByEdges(f, app, edgesOf(to, true), nil, p.Pos); !ok || len(to) == 0 {
					bad = "a tx can be re-requested before the request timeout elapsed"
				}
			}
		}
		r.Check(bad == "", "MUST-PASS", "GetTxRequests/append-guards", pos, "append behind Received==nil, announced-by-node, timed-out, after stamp", bad)
	}

	if f := fn(p, r, "MUST-PASS", R, "TxManager.Run"); f != nil {
		var proc, save *ssa.Call
		kit.AllInstrs(f, func(in ssa.Instruction) {
			if c, ok := in.(*ssa.Call); ok && c.Call.IsInvoke() {
				switch c.Call.Method.Name() {
				case "ProcessTx":
					proc = c
				case "SaveTx":
					save = c
				}
			}
		})
		bad := ""
		if proc == nil || save == nil {
			bad = "ProcessTx/SaveTx calls not found"
		} else {
			rel := kit.FindGuards(f, func(c ssa.Value) (bool, bool) {
				e, ok := c.(*ssa.Extract)
				return ok && e.Tuple == ssa.Value(proc) && e.Index == 0, true
			})
			if ok, _ := kit.DominatedByEdges(f, save, edgesOf(rel, true), nil, p.Pos); !ok || len(rel) == 0 {
				bad = "SaveTx is not confined to relevant txs"
			}
			if ok, _ := kit.DominatedByEdges(f, save, edgesOf(errNilGuards(f, proc), true), nil, p.Pos); !ok {
				bad = "SaveTx can run although ProcessTx failed"
			}
			if save.Call.Args[len(save.Call.Args)-1] != proc.Call.Args[len(proc.Call.Args)-1] {
				bad = "the tx saved is not the tx processed"
			}
			header, body := loopBodyEntry(f, proc)
			if header != nil && body != nil {
				if kit.Reach(f, kit.After(proc), kit.Opts{StopAt: kit.InstrSet(header.Instrs[0])}).Has(proc) {
					bad = "a tx can be processed twice in one iteration"
				}
				if kit.Reach(f, []kit.Pt{{B: body, I: 0}}, kit.Opts{StopAt: kit.InstrSet(proc)}).Has(header.Instrs[0]) {
					bad = "a queued tx can be skipped without ProcessTx"
				}
			}
		}
		r.Check(bad == "", "MUST-PASS", "Run/process-then-save", posOf(p, f.Blocks[0].Instrs[0]), "each queued tx: ProcessTx once, SaveTx iff relevant, same tx", bad)
	}

	if f := fn(p, r, "MUST-PASS", R, "BitcoinNode.handleInventory"); f != nil {
		// every item with shouldRequest is added to a getdata that is sent before a nil return
		var add []ssa.Instruction
		for _, c := range kit.CallsTo(f, load.WirePkg+".MsgGetData.AddInvVect") {
			add = append(add, c)
		}
		sends := kit.CallsTo(f, R+".BitcoinNode.sendMessage")
		var ss []ssa.Instruction
		for _, s := range sends {
			ss = append(ss, s)
		}
		bad := ""
		if len(add) == 0 || len(sends) == 0 {
			bad = "inventory items are not turned into a getdata request"
		} else {
			for _, a := range add {
				// after a successful add the request list is not empty: the `len(InvList) > 0` false edge
				// is infeasible on these paths; shutdown (interrupt) paths are exempt
				intr := interruptEdges(f)
				empty := emptyListEdges(f)
				rr := kit.Reach(f, kit.After(a), kit.Opts{StopAt: kit.InstrSet(ss...), BlockEdge: func(e kit.Edge) bool { return intr(e) || empty[e] }})
				for _, ret := range kit.Returns(f) {
					if rr.Has(ret) && rr.ErrClass(ret) != kit.ErrNonNil {
						bad = "a txid accepted for request can be dropped: nil return at " + posOf(p, ret) + " without sending the getdata: " + rr.PathTo(ret, p.Pos)
					}
				}
			}
			// shouldRequest gate
			for _, c := range kit.CallsTo(f, R+".TxManager.AddTxID") {
				g := kit.FindGuards(f, func(cv ssa.Value) (bool, bool) {
					e, ok := cv.(*ssa.Extract)
					return ok && e.Tuple == ssa.Value(c.(*ssa.Call)) && e.Index == 0, true
				})
				for _, a := range add {
					if ok, _ := kit.DominatedByEdges(f, a, edgesOf(g, true), nil, p.Pos); !ok || len(g) == 0 {
						bad = "a tx is requested although the manager said not to (duplicate request)"
					}
				}
			}
		}
		r.Check(bad == "", "MUST-PASS", "handleInventory/request-what-was-granted", posOf(p, f.Blocks[0].Instrs[0]), "granted txids are requested before returning nil", bad)
	}
}

// mapLookupGuards: Ifs on the `ok` of a lookup in the map held by field f; pass = found.
func mapLookupGuards(fnc *ssa.Function, f *types.Var) []kit.Guard {
	return kit.FindGuards(fnc, func(c ssa.Value) (bool, bool) {
		e, ok := c.(*ssa.Extract)
		if !ok || e.Index != 1 {
			return false, false
		}
		lk, ok := e.Tuple.(*ssa.Lookup)
		if !ok || !lk.CommaOk || !loadOfField(lk.X, f) {
			return false, false
		}
		return true, true
	})
}

// interruptEdges: edges taken when a receive from the node's interrupt channel fired (shutdown).
func interruptEdges(f *ssa.Function) func(kit.Edge) bool {
	intr := map[kit.Edge]bool{}
	kit.AllInstrs(f, func(in ssa.Instruction) {
		sel, ok := in.(*ssa.Select)
		if !ok {
			return
		}
		for idx, st := range sel.States {
			if fl, _ := kit.LoadedField(st.Chan); fl != nil && fl.Name() == "interrupt" {
				for _, e := range selectArmEdges(sel, idx) {
					intr[e] = true
				}
			} else if prm, ok := kit.Strip(st.Chan).(*ssa.Parameter); ok && strings.Contains(prm.Type().String(), "chan interface{}") {
				for _, e := range selectArmEdges(sel, idx) {
					intr[e] = true
				}
			}
		}
	})
	return func(e kit.Edge) bool { return intr[e] }
}

// selectArmEdges returns the CFG edges taken when arm idx of sel is chosen.
func selectArmEdges(sel *ssa.Select, idx int) []kit.Edge {
	var index ssa.Value
	for _, ref := range *sel.Referrers() {
		if e, ok := ref.(*ssa.Extract); ok && e.Index == 0 {
			index = e
		}
	}
	if index == nil {
		return nil
	}
	var out []kit.Edge
	tested := map[int64]bool{}
	var lastIf *ssa.If
	for _, ref := range *index.Referrers() {
		b, ok := ref.(*ssa.BinOp)
		if !ok || b.Op != token.EQL {
			continue
		}
		k, ok := kit.ConstInt(b.Y)
		if !ok {
			continue
		}
		tested[k] = true
		for _, r2 := range *b.Referrers() {
			if ifi, ok := r2.(*ssa.If); ok {
				if k == int64(idx) {
					out = append(out, kit.Edge{From: ifi.Block(), Succ: 0})
				}
				if lastIf == nil || ifi.Block().Index > lastIf.Block().Index {
					lastIf = ifi
				}
			}
		}
	}
	n := len(sel.States)
	if !sel.Blocking {
		// default arm has index -1... states only
	}
	if len(out) == 0 && !tested[int64(idx)] && lastIf != nil && len(tested) == n-1 {
		// the untested last arm: false edge of the last comparison
		out = append(out, kit.Edge{From: lastIf.Block(), Succ: 1})
	}
	return out
}

// emptyListEdges: the edges taken when `len(x.InvList) > 0` is false.
func emptyListEdges(f *ssa.Function) map[kit.Edge]bool {
	out := map[kit.Edge]bool{}
	for _, g := range kit.FindGuards(f, func(c ssa.Value) (bool, bool) {
		b, ok := c.(*ssa.BinOp)
		if !ok {
			return false, false
		}
		z, isC := kit.ConstInt(b.Y)
		if !isC {
			return false, false
		}
		cl := isCallTo(b.X, "builtin.len")
		if cl == nil {
			return false, false
		}
		if fl, _ := kit.LoadedField(cl.Call.Args[0]); fl == nil || fl.Name() != "InvList" {
			return false, false
		}
		// pass = "not empty"; the fail edge is the empty-list edge
		switch {
		case b.Op == token.GTR && z == 0, b.Op == token.NEQ && z == 0, b.Op == token.GEQ && z == 1:
			return true, true
		case b.Op == token.EQL && z == 0, b.Op == token.LEQ && z == 0, b.Op == token.LSS && z == 1:
			return true, false
		}
		return false, false
	}) {
		out[g.FailEdge()] = true
	}
	return out
}
