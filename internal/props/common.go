package props

import (
	"fmt"
	"go/token"
	"go/types"
	"strings"

	"golang.org/x/tools/go/ssa"

	"verif/internal/kit"
	"verif/internal/load"
)

const (
	H = load.HeadersPkg
	R = load.RootPkg
)

// fn resolves a function by role name; an unresolved anchor is an undecided obligation (fails).
func fn(p *load.Program, r *kit.Report, rule, pkg, name string) *ssa.Function {
	f := p.Func(pkg, name)
	if f == nil || f.Blocks == nil {
		r.Unknown(rule, "anchor:"+name, "-", "function %s.%s not found in the loaded program", pkg, name)
		return nil
	}
	r.Fn(kit.ShortID(kit.FuncID(f)))
	return f
}

func field(p *load.Program, r *kit.Report, rule, pkg, typ, name string) *types.Var {
	f := p.Field(pkg, typ, name)
	if f == nil {
		r.Unknown(rule, "anchor:"+typ+"."+name, "-", "field %s.%s.%s not found", pkg, typ, name)
	}
	return f
}

// pkgFuncs returns the functions with bodies (including closures) of the given packages.
func pkgFuncs(p *load.Program, pkgs ...string) []*ssa.Function {
	var out []*ssa.Function
	for _, f := range p.OwnFunctions() {
		pk := f.Pkg
		if pk == nil && f.Parent() != nil {
			pk = f.Parent().Pkg
		}
		if pk == nil {
			continue
		}
		for _, w := range pkgs {
			if pk.Pkg.Path() == w {
				out = append(out, f)
			}
		}
	}
	return out
}

// ownerStruct returns the named struct type (in any package) that declares field f.
func ownerStruct(p *load.Program, f *types.Var) string {
	if f == nil || f.Pkg() == nil {
		return ""
	}
	pk := p.All[f.Pkg().Path()]
	if pk == nil {
		return ""
	}
	sc := pk.Types.Scope()
	for _, n := range sc.Names() {
		tn, ok := sc.Lookup(n).(*types.TypeName)
		if !ok {
			continue
		}
		st, ok := tn.Type().Underlying().(*types.Struct)
		if !ok {
			continue
		}
		for i := 0; i < st.NumFields(); i++ {
			if st.Field(i) == f {
				return tn.Name()
			}
		}
	}
	return ""
}

// headersState: the mutators of the headers package, counting writes to fields of Repository,
// Branch and HeaderData, channel sends/closes and storage writes.
func headersMutators(p *load.Program) *kit.Mutators {
	funcs := pkgFuncs(p, H)
	owners := map[*types.Var]string{}
	return kit.ComputeMutators(funcs, func(w kit.Write) bool {
		switch w.Kind {
		case "send", "close":
			return true
		}
		if w.Field == nil {
			return false
		}
		o, ok := owners[w.Field]
		if !ok {
			o = ownerStruct(p, w.Field)
			owners[w.Field] = o
		}
		if w.Field.Pkg() == nil || w.Field.Pkg().Path() != H {
			return false
		}
		return o == "Repository" || o == "Branch" || o == "HeaderData"
	})
}

// retLabel gives a stable, line-free label to a return: the error text or sentinel it returns.
func retLabel(ret *ssa.Return) string {
	idx := kit.ErrResultIndex(ret.Parent())
	if idx < 0 || idx >= len(ret.Results) {
		return "return"
	}
	return "return " + errLabel(kit.RetOperand(ret, idx), 0)
}

func errLabel(v ssa.Value, depth int) string {
	if depth > 6 {
		return "?"
	}
	if kit.IsNilConst(v) {
		return "nil"
	}
	switch x := v.(type) {
	case *ssa.UnOp:
		if x.Op == token.MUL {
			if g, ok := x.X.(*ssa.Global); ok {
				return g.Name()
			}
		}
	case *ssa.Call:
		id := kit.CallID(x)
		args := x.Call.Args
		switch {
		case strings.HasSuffix(id, "errors.New") && len(args) == 1:
			if s, ok := kit.ConstString(args[0]); ok {
				return fmt.Sprintf("%q", s)
			}
		case strings.HasSuffix(id, "errors.Wrap") || strings.HasSuffix(id, "errors.Wrapf"):
			inner := errLabel(args[0], depth+1)
			if s, ok := kit.ConstString(args[1]); ok {
				if inner == "err" || inner == "?" {
					return fmt.Sprintf("wrap(%q)", s)
				}
				return fmt.Sprintf("wrap(%s,%q)", inner, s)
			}
			return "wrap(" + inner + ")"
		case id == "fmt.Errorf" || strings.HasSuffix(id, "errors.Errorf"):
			if s, ok := kit.ConstString(args[0]); ok {
				return fmt.Sprintf("%q", s)
			}
		}
		return "err"
	case *ssa.Extract:
		return "err"
	case *ssa.Phi:
		return "err"
	}
	return "?"
}

// errCause returns the name of the package-level sentinel error a returned value wraps, or "".
func errCause(v ssa.Value) string {
	for i := 0; i < 8; i++ {
		switch x := v.(type) {
		case *ssa.UnOp:
			if x.Op == token.MUL {
				if g, ok := x.X.(*ssa.Global); ok {
					return g.Name()
				}
			}
			return ""
		case *ssa.Call:
			id := kit.CallID(x)
			if strings.HasSuffix(id, "errors.Wrap") || strings.HasSuffix(id, "errors.Wrapf") {
				v = x.Call.Args[0]
				continue
			}
			return ""
		default:
			return ""
		}
	}
	return ""
}

// errCauseVia is errCause of the idx-th operand of ret over the paths explored by r: a phi is
// resolved to the incoming values of the edges that were taken; "" unless they all agree.
func errCauseVia(r *kit.Reached, ret *ssa.Return, idx int) string {
	var rec func(v ssa.Value, at ssa.Instruction, depth int) string
	rec = func(v ssa.Value, at ssa.Instruction, depth int) string {
		if depth > 8 {
			return ""
		}
		switch x := v.(type) {
		case *ssa.Call:
			id := kit.CallID(x)
			if strings.HasSuffix(id, "errors.Wrap") || strings.HasSuffix(id, "errors.Wrapf") {
				return rec(x.Call.Args[0], at, depth+1)
			}
			return ""
		case *ssa.Phi:
			rs := r.Resolve(v, at)
			if len(rs) == 0 || (len(rs) == 1 && rs[0].V == v) {
				return ""
			}
			c := rec(rs[0].V, rs[0].At, depth+1)
			for _, y := range rs[1:] {
				if rec(y.V, y.At, depth+1) != c {
					return ""
				}
			}
			return c
		}
		return errCause(v)
	}
	return rec(kit.RetOperand(ret, idx), ret, 0)
}

// boolDecision is one place where a function decides a boolean result: a return of a constant, or
// an edge on which a constant flows into the phi that is returned (the shape left by expanding a
// helper, or by `result := …; return result`).
type boolDecision struct {
	Val  bool
	Ret  *ssa.Return
	Edge *kit.Edge
}

func (d boolDecision) taken(r *kit.Reached) bool {
	if d.Edge != nil {
		return r.Edges[*d.Edge] && r.Has(d.Ret)
	}
	return r.Has(d.Ret)
}

// boolDecisions resolves the idx-th operand of ret; ok is false when some path returns a value that
// is not a constant.
func boolDecisions(ret *ssa.Return, idx int) (out []boolDecision, ok bool) {
	ok = true
	seen := map[ssa.Value]bool{}
	var rec func(v ssa.Value, e *kit.Edge)
	rec = func(v ssa.Value, e *kit.Edge) {
		if b, isC := kit.ConstBool(v); isC {
			out = append(out, boolDecision{b, ret, e})
			return
		}
		ph, isPhi := v.(*ssa.Phi)
		if !isPhi || seen[v] {
			ok = false
			return
		}
		seen[v] = true
		for i, inc := range ph.Edges {
			pred := ph.Block().Preds[i]
			for si, sc := range pred.Succs {
				if sc == ph.Block() {
					rec(inc, &kit.Edge{From: pred, Succ: si})
					break
				}
			}
		}
	}
	rec(kit.RetOperand(ret, idx), nil)
	return
}

// dedupe makes construct keys unique by appending #n to repeats, in source order.
type keyer struct{ seen map[string]int }

func newKeyer() *keyer { return &keyer{seen: map[string]int{}} }
func (k *keyer) key(s string) string {
	k.seen[s]++
	if n := k.seen[s]; n > 1 {
		return fmt.Sprintf("%s#%d", s, n)
	}
	return s
}

// loadOfField matches a value that is a load of the given field (optionally of a given base).
func loadOfField(v ssa.Value, f *types.Var) bool {
	lf, _ := kit.LoadedField(v)
	return lf != nil && lf == f
}

// curName maps a canonical field name to the name the field has in the current tree (pure renames
// are followed through the anchor table); unique over the structs of the two packages.
func curName(p *load.Program, canonical string) string {
	if p.Renames == nil {
		return canonical
	}
	found := ""
	for _, m := range p.Renames.FieldAlias {
		if a, ok := m[canonical]; ok {
			if found != "" && found != a {
				return canonical
			}
			found = a
		}
	}
	if found != "" {
		return found
	}
	return canonical
}

// fname is the canonical short name of a function (renames followed).
func fname(f *ssa.Function) string {
	id := kit.FuncID(f)
	if i := strings.LastIndex(id, "."); i >= 0 {
		return id[i+1:]
	}
	return id
}

// pAtom is the linear atom of the idx-th parameter of f (receiver = 0), independent of its name.
func pAtom(f *ssa.Function, idx int) kit.Lin {
	if idx < len(f.Params) {
		return kit.LinAtom("p:" + f.Params[idx].Name())
	}
	return kit.LinBad("parameter %d missing", idx)
}

// prmAt is the idx-th parameter of f (receiver = 0) or nil.
func prmAt(f *ssa.Function, idx int) *ssa.Parameter {
	if idx < len(f.Params) {
		return f.Params[idx]
	}
	return nil
}

// prmOfType returns the n-th (0-based) parameter of f whose type string ends with suffix.
func prmOfType(f *ssa.Function, suffix string, n int) *ssa.Parameter {
	for _, prm := range f.Params {
		if strings.HasSuffix(prm.Type().String(), suffix) {
			if n == 0 {
				return prm
			}
			n--
		}
	}
	return nil
}

// recvPtr maps a receiver argument to the pointer it was loaded from when the method has a value
// receiver (`(*p).M()` passes a struct copy `*p`).
func recvPtr(v ssa.Value) ssa.Value {
	if u, ok := v.(*ssa.UnOp); ok && u.Op == token.MUL {
		if _, isStruct := u.Type().Underlying().(*types.Struct); isStruct {
			return u.X
		}
	}
	return v
}

// recvIsField: the receiver argument is (a copy of) the object loaded from field f.
func recvIsField(v ssa.Value, f *types.Var) bool {
	return loadOfField(recvPtr(v), f)
}

// callResult0 returns the call behind v when v is the call itself or Extract #idx of it.
func callOf(v ssa.Value, idx int) *ssa.Call {
	v = kit.Strip(v)
	switch x := v.(type) {
	case *ssa.Call:
		if idx == 0 {
			return x
		}
	case *ssa.Extract:
		if x.Index == idx {
			if c, ok := x.Tuple.(*ssa.Call); ok {
				return c
			}
		}
	}
	return nil
}

// errNilGuards: Ifs that test the error result (index idx, or the sole result) of call against nil;
// pass edge = the nil edge.
func errNilGuards(f *ssa.Function, call *ssa.Call) []kit.Guard {
	return kit.FindGuards(f, func(c ssa.Value) (bool, bool) {
		b, ok := c.(*ssa.BinOp)
		if !ok || (b.Op != token.NEQ && b.Op != token.EQL) {
			return false, false
		}
		var v ssa.Value
		if kit.IsNilConst(b.Y) {
			v = b.X
		} else if kit.IsNilConst(b.X) {
			v = b.Y
		} else {
			return false, false
		}
		if !types.Identical(v.Type(), types.Universe.Lookup("error").Type()) {
			return false, false
		}
		// `err := errors.Wrap(f(), "…"); if err != nil`: pkg/errors wrappers are nil exactly when
		// their argument is
		for {
			w, ok := v.(*ssa.Call)
			if !ok || w == call || len(w.Call.Args) == 0 {
				break
			}
			switch kit.CallID(w) {
			case "github.com/pkg/errors.Wrap", "github.com/pkg/errors.Wrapf", "github.com/pkg/errors.WithStack", "github.com/pkg/errors.WithMessage":
				v = w.Call.Args[0]
				continue
			}
			break
		}
		switch x := v.(type) {
		case *ssa.Call:
			if x != call {
				return false, false
			}
		case *ssa.Extract:
			if x.Tuple != ssa.Value(call) {
				return false, false
			}
		default:
			return false, false
		}
		return true, b.Op == token.EQL
	})
}

func posOf(p *load.Program, in ssa.Instruction) string {
	if in == nil {
		return "-"
	}
	if in.Pos().IsValid() {
		return p.Pos(in.Pos())
	}
	// fall back to the nearest instruction with a position in the block
	for _, x := range in.Block().Instrs {
		if x.Pos().IsValid() {
			return p.Pos(x.Pos())
		}
	}
	return kit.ShortID(kit.FuncID(in.Parent()))
}

func edgesOf(gs []kit.Guard, pass bool) []kit.Edge {
	var out []kit.Edge
	for _, g := range gs {
		if pass {
			out = append(out, g.PassEdge())
		} else {
			out = append(out, g.FailEdge())
		}
	}
	return out
}
