package props

import (
	"go/token"
	"go/types"
	"sort"
	"strings"

	"golang.org/x/tools/go/ssa"

	"verif/internal/kit"
	"verif/internal/load"
)

// ERR-DISPOSITION — a baseline rule over every fallible call of the two packages.
//
// For a call site c of callee G inside function F whose last result is an error, the disposition
// of that error is decided from the flow graph:
//
//	propagate  every path from the `err != nil` edge ends in a return of F whose error result is
//	           non-nil on that path (wrapped or not), or the error value itself is returned;
//	absorb     some path from the failing edge reaches a nil-error return or carries on (logged,
//	           counted, retried, turned into a boolean);
//	ignored    the error result is never looked at.
//
// The reference tree's dispositions per (F, G) are frozen in errdisp.json (written together with
// anchors.json). On the current tree — after renames were followed and new helpers expanded — every
// site of a pair that the reference tree propagates at all of its sites must still propagate. An
// error that used to end the operation and is now swallowed turns a refusal into a silent success:
// a failed save reported as saved, a failed lookup read as "not processed", a failed target
// computation treated as "no constraint".
//
// Only that direction is enforced generically; the opposite one (an error that must be tolerated)
// is the business of the TOLERATE rules of the properties that need it.

const (
	dispPropagate = "propagate"
	dispAbsorb    = "absorb"
	dispIgnored   = "ignored"
)

func isErrorType(t types.Type) bool {
	return types.Identical(t, types.Universe.Lookup("error").Type())
}

// calleeKey names the callee of c: the canonical function id for static calls, "invoke:<iface>.<m>"
// for interface method calls; "" for dynamic calls through function values.
func calleeKey(c ssa.CallInstruction) string {
	com := c.Common()
	if com.IsInvoke() {
		return "invoke:" + types.TypeString(com.Value.Type(), func(p *types.Package) string { return p.Path() }) + "." + com.Method.Name()
	}
	if kit.StaticCallee(c) == nil {
		return ""
	}
	return kit.CallID(c)
}

// errDisposition classifies call c (a *ssa.Call in f); ok is false when the callee returns no
// error, f returns no error, or the shape is not one the classification is sure about.
func errDisposition(f *ssa.Function, c *ssa.Call, lenient bool) (string, bool) {
	sig := c.Call.Signature()
	n := sig.Results().Len()
	if n == 0 || !isErrorType(sig.Results().At(n-1).Type()) {
		return "", false
	}
	if kit.ErrResultIndex(f) < 0 {
		return "", false
	}
	// the error value
	var errV ssa.Value
	if n == 1 {
		errV = c
	} else if c.Referrers() != nil {
		for _, ref := range *c.Referrers() {
			if ex, ok := ref.(*ssa.Extract); ok && ex.Index == n-1 {
				errV = ex
			}
			// `return g()` of a tuple
			if _, ok := ref.(*ssa.Return); ok {
				return dispPropagate, true
			}
		}
	}
	if errV == nil || errV.Referrers() == nil || len(*errV.Referrers()) == 0 {
		return dispIgnored, true
	}
	guards := errNilGuards(f, c)
	if len(guards) == 0 {
		// returned directly (possibly wrapped): `return errors.Wrap(g(), …)` / `return err`
		direct := false
		onlyReturn := true
		var walk func(v ssa.Value, depth int)
		walk = func(v ssa.Value, depth int) {
			if depth > 3 || v.Referrers() == nil {
				return
			}
			for _, ref := range *v.Referrers() {
				switch x := ref.(type) {
				case *ssa.Return:
					direct = true
				case *ssa.Call:
					if strings.HasPrefix(kit.CallID(x), "github.com/pkg/errors.W") {
						walk(x, depth+1)
					} else {
						onlyReturn = false
					}
				case *ssa.DebugRef:
				default:
					onlyReturn = false
				}
			}
		}
		walk(errV, 0)
		if direct && onlyReturn {
			return dispPropagate, true
		}
		return "", false // stored, merged in a phi, passed on: not classified
	}
	all := true
	any := false
	// the reference table is built without excusing anything (strict); the current tree is read
	// leniently, so a pair is enforced only when the reference tree propagates on every path and a
	// report needs a path that an error of this callee can really take
	var excused func(kit.Edge) bool
	if lenient {
		excused = kit.EdgeSet(sentinelEdges(f, c, errV)...)
	}
	for _, e := range edgesOf(guards, false) {
		rr := kit.Reach(f, []kit.Pt{kit.EdgeStart(e)}, kit.Opts{BlockEdge: excused})
		for _, ret := range kit.Returns(f) {
			if !rr.Has(ret) {
				continue
			}
			any = true
			if kit.ReturnErrClass(ret) != kit.ErrNonNil && rr.ErrClass(ret) != kit.ErrNonNil {
				all = false
			}
		}
	}
	if !any {
		return "", false
	}
	if all {
		return dispPropagate, true
	}
	return dispAbsorb, true
}

// sentinelEdges: the edges on which the error of call c has been found equal to a package-level
// sentinel (`errors.Cause(err) == storage.ErrNotFound`) that the callee cannot produce by itself —
// no function in the callee's static call tree reads that variable. Such an edge is not taken by an
// error of this callee, so what follows it says nothing about its disposition. (Errors handed up
// from dynamic calls inside the callee are not traced; an interface callee can produce anything and
// excuses nothing.)
func sentinelEdges(f *ssa.Function, c *ssa.Call, errV ssa.Value) []kit.Edge {
	callee := kit.StaticCallee(c)
	if callee == nil {
		return nil
	}
	sentinel := func(v ssa.Value) *ssa.Global {
		if u, ok := v.(*ssa.UnOp); ok && u.Op == token.MUL {
			if g, ok := u.X.(*ssa.Global); ok && isErrorType(u.Type()) {
				return g
			}
		}
		return nil
	}
	var out []kit.Edge
	for _, g := range kit.FindGuards(f, func(cv ssa.Value) (bool, bool) {
		b, ok := cv.(*ssa.BinOp)
		if !ok || (b.Op != token.EQL && b.Op != token.NEQ) {
			return false, false
		}
		glob, other := sentinel(b.Y), b.X
		if glob == nil {
			glob, other = sentinel(b.X), b.Y
		}
		if glob == nil || !kit.DependsOn(other, func(v ssa.Value) bool { return v == errV }) {
			return false, false
		}
		if readsGlobal(callee, glob, map[*ssa.Function]bool{}) {
			return false, false
		}
		return true, b.Op == token.EQL
	}) {
		out = append(out, g.PassEdge())
	}
	return out
}

// readsGlobal: some function in the static call tree of f (any package) refers to glob.
func readsGlobal(f *ssa.Function, glob *ssa.Global, seen map[*ssa.Function]bool) bool {
	if f == nil || seen[f] || f.Blocks == nil {
		return false
	}
	seen[f] = true
	found := false
	kit.AllInstrs(f, func(in ssa.Instruction) {
		if found {
			return
		}
		for _, op := range in.Operands(nil) {
			if *op == ssa.Value(glob) {
				found = true
				return
			}
		}
		if ci, ok := in.(ssa.CallInstruction); ok {
			if g := kit.StaticCallee(ci); g != nil && readsGlobal(g, glob, seen) {
				found = true
			}
		}
		if mc, ok := in.(*ssa.MakeClosure); ok {
			if g, ok := mc.Fn.(*ssa.Function); ok && readsGlobal(g, glob, seen) {
				found = true
			}
		}
	})
	return found
}

// ErrDisposition builds the table F → G → dispositions for the program (used to write the
// reference file).
func ErrDisposition(p *load.Program) map[string]map[string][]string {
	out := map[string]map[string][]string{}
	for _, f := range pkgFuncs(p, R, H) {
		file := p.FileOf(f.Pos())
		if strings.HasSuffix(file, "_test.go") || strings.HasSuffix(file, "test_helpers.go") || strings.HasSuffix(file, "test_nodes.go") || f.Parent() != nil {
			continue
		}
		fid := kit.FuncID(f)
		kit.AllInstrs(f, func(in ssa.Instruction) {
			c, ok := in.(*ssa.Call)
			if !ok {
				return
			}
			g := calleeKey(c)
			if g == "" {
				return
			}
			d, ok := errDisposition(f, c, false)
			if !ok {
				return
			}
			if out[fid] == nil {
				out[fid] = map[string][]string{}
			}
			have := false
			for _, x := range out[fid][g] {
				if x == d {
					have = true
				}
			}
			if !have {
				out[fid][g] = append(out[fid][g], d)
				sort.Strings(out[fid][g])
			}
		})
	}
	return out
}

// Ownership: a swallowed error is reported under a property only where "this error ends the
// operation" is part of what the property states — a refusal verdict (C08), the proof-of-work
// verdict (C02), a failed save or load reported as done (C10, C11, C17, C20), a lookup that reports
// a value it could not read (C01, C09, C18, C19), a block or transaction handed on although a step
// failed (C04, C05, C06, C16), a peer carried on with after its message could not be read (C03, C13,
// C14, C15). C07 and C12 own no call sites: neither the stream contents nor the crash points depend
// on an error being returned.
//
// errDispTrees: entry points whose static call trees (within the two packages) own the call sites.
var errDispTrees = map[string][]string{
	"C01": {H + ".Repository.Hash", H + ".Repository.Header"},
	"C02": {H + ".Branch.Target"},
	"C03": {H + ".Repository.VerifyHeader", R + ".BitcoinNode.handleHeadersVerify"},
	"C04": {R + ".BlockDownloader.HandleBlock", R + ".BitcoinNode.handleBlock"},
	"C05": {R + ".NodeManager.synchronizeBlocks", R + ".NodeManager.runSynchronizeBlocks", R + ".BlockManager.AddRequest"},
	"C06": {R + ".TxManager.AddTxID", R + ".TxManager.AddTx", R + ".TxManager.GetTxRequests", R + ".TxManager.Run", R + ".BitcoinNode.handleInventory", R + ".BitcoinNode.handleTx", R + ".NodeManager.RequestTxs", R + ".BitcoinNode.RequestTxs"},
	"C08": {H + ".Repository.ProcessHeader"},
	"C09": {H + ".Repository.HashHeight", H + ".Repository.CheckHeader", H + ".Repository.GetHeader", H + ".Repository.PreviousHash", H + ".Repository.Hash", H + ".Repository.Header", H + ".Repository.GetHeaders"},
	"C10": {H + ".Repository.Clean", H + ".Repository.clean"},
	"C11": {H + ".Repository.Save", H + ".Repository.Load"},
	"C13": {R + ".BitcoinNode.handshake", R + ".BitcoinNode.handleHeadersVerify", R + ".BitcoinNode.accept", R + ".BitcoinNode.handleVersion", R + ".BitcoinNode.handleVerack"},
	"C14": {R + ".BitcoinNode.handleMessage", R + ".readMessage", R + ".readHeader", R + ".DiscardInput", R + ".DiscardInputWithCounter"},
	"C15": {R + ".BitcoinNode.handleMessage", R + ".BitcoinNode.readIncoming", R + ".BitcoinNode.sendOutgoing", R + ".BitcoinNode.run", R + ".readMessage", R + ".readHeader"},
	"C16": {R + ".BlockDownloader.Run", R + ".BlockDownloader.HandleBlock", R + ".BlockManager.Run", R + ".BlockManager.requestBlock"},
	"C17": {H + ".Repository.MarkHeaderInvalid", H + ".Repository.MarkHeaderNotInvalid", H + ".saveInvalidHashes", H + ".loadInvalidHashes"},
	"C18": {H + ".Repository.VerifyMerkleProof"},
	"C19": {H + ".Repository.GetLocatorHashes", H + ".Repository.GetVerifyOnlyLocatorHashes", R + ".BitcoinNode.sendInitialHeaderRequest", R + ".BitcoinNode.sendHeaderRequest", R + ".BitcoinNode.sendVerifyHeaderRequest"},
	"C20": {R + ".StoragePeerRepository.Load", R + ".StoragePeerRepository.Save", R + ".StoragePeerRepository.Add", R + ".StoragePeerRepository.LoadSeeds"},
}

// errDispPairs: single (function, callee) pairs owned in addition to the trees.
var errDispPairs = map[string][][2]string{
	"C02": {{H + ".Repository.ProcessHeader", H + ".Branch.Target"}},
	"C17": {{H + ".Repository.Save", H + ".saveInvalidHashes"}, {H + ".Repository.clean", H + ".saveInvalidHashes"}, {H + ".Repository.load", H + ".loadInvalidHashes"}},
}

// ownsErrDisposition: the property has call sites under this rule.
func ownsErrDisposition(property string) bool {
	return len(errDispTrees[property]) > 0 || len(errDispPairs[property]) > 0
}

// checkErrDisposition applies the rule to the call sites owned by the property's entry points.
// handlers: the message handlers are reached through the handler table (dynamic dispatch) and are
// added to the roots of the properties that start at handleMessage.
func checkErrDisposition(p *load.Program, r *kit.Report, rule string) {
	ref := p.RefErrDisp
	if ref == nil {
		r.Unknown(rule, "errdisp/reference", "-", "no reference table of error dispositions (errdisp.json)")
		return
	}
	var roots []*ssa.Function
	for _, id := range errDispTrees[r.Property] {
		if f := p.FuncByID(id); f != nil {
			roots = append(roots, f)
		}
	}
	if r.Property == "C14" || r.Property == "C15" {
		hs, _ := allHandlers(p)
		roots = append(roots, hs...)
	}
	owned := staticReach(roots...)
	only := map[*ssa.Function]map[string]bool{} // functions owned for some callees only
	for _, pr := range errDispPairs[r.Property] {
		f := p.FuncByID(pr[0])
		if f == nil || owned[f] {
			continue
		}
		if only[f] == nil {
			only[f] = map[string]bool{}
		}
		only[f][pr[1]] = true
	}
	for f := range only {
		owned[f] = true
	}
	k := newKeyer()
	pairs := 0
	for f := range owned {
		if f.Parent() != nil {
			continue
		}
		fid := kit.FuncID(f)
		refF := ref[fid]
		if refF == nil {
			continue
		}
		// current dispositions per callee, with the offending site
		type site struct {
			at   ssa.Instruction
			disp string
		}
		cur := map[string][]site{}
		kit.AllInstrs(f, func(in ssa.Instruction) {
			c, ok := in.(*ssa.Call)
			if !ok {
				return
			}
			g := calleeKey(c)
			if g == "" {
				return
			}
			if d, ok := errDisposition(f, c, true); ok {
				cur[g] = append(cur[g], site{in, d})
			}
		})
		for g, rd := range refF {
			if len(rd) != 1 || rd[0] != dispPropagate {
				continue
			}
			if only[f] != nil && !only[f][g] {
				continue
			}
			sites := cur[g]
			if len(sites) == 0 {
				continue // the call moved away or its handling is not classifiable any more
			}
			pairs++
			bad := ""
			var at ssa.Instruction = sites[0].at
			for _, s := range sites {
				if s.disp != dispPropagate {
					at = s.at
					what := "can be followed by a successful (nil-error) return or by carrying on"
					if s.disp == dispIgnored {
						what = "is no longer looked at"
					}
					bad = "an error of " + strings.TrimPrefix(kit.ShortID(g), "invoke:") + " " + what + " in " + kit.ShortID(fid) + "; the reference tree returns it from every call site of this function: a failure is now reported as success (or as `nothing to do`)"
				}
			}
			r.Check(bad == "", rule, k.key(kit.ShortID(fid)+"/err:"+strings.TrimPrefix(kit.ShortID(g), "invoke:")), posOf(p, at), "still propagated at every call site", bad)
		}
	}
	if pairs == 0 {
		r.Unknown(rule, "errdisp/pairs", "-", "no (function, callee) pair of the reference table was found in the call trees of this property's entry points")
	}
	r.CallSites += pairs
}
