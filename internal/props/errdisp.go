package props

import (
	"go/token"
	"go/types"
	"sort"
	"strings"

	"golang.org/x/tools/go/ssa"

	"verif/internal/kit"
	"verif/internal/load"
)

// ERR-DISPOSITION — a baseline rule over every fallible call of the two packages.
//
// For a call site c of callee G inside function F whose last result is an error, the disposition
// of that error is decided from the flow graph:
//
//	propagate  every path from the `err != nil` edge ends in a return of F whose error result is
//	           non-nil on that path (wrapped or not), or the error value itself is returned;
//	absorb     some path from the failing edge reaches a nil-error return or carries on (logged,
//	           counted, retried, turned into a boolean);
//	ignored    the error result is never looked at.
//
// The reference tree's dispositions per (F, G) are frozen in errdisp.json (written together with
// anchors.json). On the current tree — after renames were followed and new helpers expanded — every
// site of a pair that the reference tree propagates at all of its sites must still propagate. An
// error that used to end the operation and is now swallowed turns a refusal into a silent success:
// a failed save reported as saved, a failed lookup read as "not processed", a failed target
// computation treated as "no constraint".
//
// Only that direction is enforced generically; the opposite one (an error that must be tolerated)
// is the business of the TOLERATE rules of the properties that need it.

const (
	dispPropagate = "propagate"
	dispAbsorb    = "absorb"
	dispIgnored   = "ignored"
	// dispExcept + "<id>;<id>": returned on every path except behind a test for one of these
	// package-level sentinels (a tolerated condition such as "not found")
	dispExcept = "propagate-except:"
)

func isErrorType(t types.Type) bool {
	return types.Identical(t, types.Universe.Lookup("error").Type())
}

// calleeKey names the callee of c: the canonical function id for static calls, "invoke:<iface>.<m>"
// for interface method calls; "" for dynamic calls through function values.
func calleeKey(c ssa.CallInstruction) string {
	com := c.Common()
	if com.IsInvoke() {
		return "invoke:" + types.TypeString(com.Value.Type(), func(p *types.Package) string { return p.Path() }) + "." + com.Method.Name()
	}
	if kit.StaticCallee(c) == nil {
		return ""
	}
	return kit.CallID(c)
}

// errDisposition classifies call c (a *ssa.Call in f); ok is false when the callee returns no
// error, f returns no error, or the shape is not one the classification is sure about.
func errDisposition(f *ssa.Function, c *ssa.Call, lenient bool) (string, bool) {
	sig := c.Call.Signature()
	n := sig.Results().Len()
	if n == 0 || !isErrorType(sig.Results().At(n-1).Type()) {
		return "", false
	}
	if kit.ErrResultIndex(f) < 0 {
		return "", false
	}
	// the error value
	var errV ssa.Value
	if n == 1 {
		errV = c
	} else if c.Referrers() != nil {
		for _, ref := range *c.Referrers() {
			if ex, ok := ref.(*ssa.Extract); ok && ex.Index == n-1 {
				errV = ex
			}
			// `return g()` of a tuple
			if _, ok := ref.(*ssa.Return); ok {
				return dispPropagate, true
			}
		}
	}
	if errV == nil || errV.Referrers() == nil || len(*errV.Referrers()) == 0 {
		return dispIgnored, true
	}
	guards := errNilGuards(f, c)
	if len(guards) == 0 {
		// returned directly (possibly wrapped): `return errors.Wrap(g(), …)` / `return err`
		direct := false
		onlyReturn := true
		var walk func(v ssa.Value, depth int)
		walk = func(v ssa.Value, depth int) {
			if depth > 3 || v.Referrers() == nil {
				return
			}
			for _, ref := range *v.Referrers() {
				switch x := ref.(type) {
				case *ssa.Return:
					direct = true
				case *ssa.Call:
					if strings.HasPrefix(kit.CallID(x), "github.com/pkg/errors.W") {
						walk(x, depth+1)
					} else {
						onlyReturn = false
					}
				case *ssa.DebugRef:
				default:
					onlyReturn = false
				}
			}
		}
		walk(errV, 0)
		if direct && onlyReturn {
			return dispPropagate, true
		}
		return "", false // stored, merged in a phi, passed on: not classified
	}
	// the reference table is built without excusing anything (strict); the current tree is read
	// leniently (sentinels the callee cannot produce are not followed), so a report needs a path that
	// an error of this callee can really take
	sents := sentinelEdges(f, c, errV)
	// what can happen once the call has failed: one traversal from the call with its error known to
	// be non-nil (every later nil test of it, of a wrapper around it or of a result temporary that
	// carries it is then decided), not one per test — `if err != nil && cause != X { return err }; if
	// err != nil { …tolerated… }` has two tests and one meaning. closed: the sentinel tests taken
	// as "not that sentinel".
	classify := func(closed []sentinelEdge) (all, any bool) {
		all = true
		var edges []kit.Edge
		conds := map[ssa.Value]bool{}
		for _, se := range closed {
			if se.cond != nil {
				conds[se.cond] = !se.equalWhenTrue
			} else {
				edges = append(edges, se.edge)
			}
		}
		from := ssa.Instruction(c)
		if ex, ok := errV.(*ssa.Extract); ok {
			from = ex // the fact is about the extracted value: start behind its definition
		}
		rr := kit.Reach(f, kit.After(from), kit.Opts{BlockEdge: kit.EdgeSet(edges...), AssumeNonNil: []ssa.Value{errV}, AssumeConds: conds})
		for _, ret := range kit.Returns(f) {
			if !rr.Has(ret) {
				continue
			}
			any = true
			if kit.ReturnErrClass(ret) != kit.ErrNonNil && rr.ErrClass(ret) != kit.ErrNonNil {
				all = false
			}
		}
		return
	}
	all, any := classify(sents)
	if !any {
		return "", false
	}
	if !all {
		return dispAbsorb, true
	}
	// a sentinel is tolerated when opening its tests (only) lets a path reach a return without a
	// (known) error — wherever the test stands; a test that only picks another message for the
	// sentinel is not a tolerance. The reference table is built without excusing anything; the
	// current tree is read leniently: sentinels the callee cannot produce stay closed.
	live := map[string]bool{}
	seenID := map[string]bool{}
	for _, se := range sents {
		if seenID[se.id] || (lenient && !se.producible) {
			continue
		}
		seenID[se.id] = true
		var others []sentinelEdge
		for _, o := range sents {
			if o.id != se.id {
				others = append(others, o)
			}
		}
		if a2, any2 := classify(others); any2 && !a2 {
			live[se.id] = true
		}
	}
	if len(live) == 0 {
		return dispPropagate, true
	}
	var ids []string
	for id := range live {
		ids = append(ids, id)
	}
	sort.Strings(ids)
	return dispExcept + strings.Join(ids, ";"), true
}

type sentinelEdge struct {
	edge       kit.Edge // the edge on which the error equals the sentinel (a branch on the comparison)
	id         string   // "<pkg>.<Name>|<message>"
	producible bool     // the callee's static call tree reads the variable (or the callee is not known)
	// a comparison that is not branched on but merged into a boolean phi (`return cause == A ||
	// cause == B` of an expanded helper)
	cond          ssa.Value
	equalWhenTrue bool
}

// sentinelID names a package-level error variable by its qualified name and, when it is initialised
// with errors.New("…"), its message — a renamed sentinel with the same message is the same sentinel.
func sentinelID(g *ssa.Global) string {
	id := g.Pkg.Pkg.Path() + "." + g.Name()
	if init := g.Pkg.Func("init"); init != nil {
		kit.AllInstrs(init, func(in ssa.Instruction) {
			st, ok := in.(*ssa.Store)
			if !ok || st.Addr != ssa.Value(g) {
				return
			}
			if call, ok := kit.Strip(st.Val).(*ssa.Call); ok && len(call.Call.Args) == 1 {
				if k, ok := call.Call.Args[0].(*ssa.Const); ok && k.Value != nil {
					id += "|" + strings.Trim(k.Value.ExactString(), "\"")
				}
			}
		})
	}
	return id
}

// sameSentinel: equal qualified name or equal message.
func sameSentinel(a, b string) bool {
	an, am, _ := strings.Cut(a, "|")
	bn, bm, _ := strings.Cut(b, "|")
	return an == bn || (am != "" && am == bm)
}

// sentinelEdges: the edges on which the error of call c has been found equal to a package-level
// sentinel (`errors.Cause(err) == storage.ErrNotFound`), with whether the callee can produce that
// sentinel by itself — some function in its static call tree (any package) reads the variable. An
// edge for a sentinel the callee cannot produce is not taken by an error of this callee, so what
// follows it says nothing about its disposition. (Errors handed up from dynamic calls inside the
// callee are not traced; an interface callee can produce anything.)
func sentinelEdges(f *ssa.Function, c *ssa.Call, errV ssa.Value) []sentinelEdge {
	callee := kit.StaticCallee(c)
	sentinel := func(v ssa.Value) *ssa.Global {
		if u, ok := v.(*ssa.UnOp); ok && u.Op == token.MUL {
			if g, ok := u.X.(*ssa.Global); ok && isErrorType(u.Type()) {
				return g
			}
		}
		return nil
	}
	var out []sentinelEdge
	var cur *ssa.Global
	for _, g := range kit.FindGuards(f, func(cv ssa.Value) (bool, bool) {
		b, ok := cv.(*ssa.BinOp)
		if !ok || (b.Op != token.EQL && b.Op != token.NEQ) {
			return false, false
		}
		glob, other := sentinel(b.Y), b.X
		if glob == nil {
			glob, other = sentinel(b.X), b.Y
		}
		if glob == nil || !kit.DependsOn(other, func(v ssa.Value) bool { return v == errV }) {
			return false, false
		}
		return true, b.Op == token.EQL
	}) {
		// the global of this guard (FindGuards does not hand it back)
		cur = nil
		if b, ok := stripNot(g.If.Cond).(*ssa.BinOp); ok {
			if cur = sentinel(b.Y); cur == nil {
				cur = sentinel(b.X)
			}
		}
		if cur == nil {
			continue
		}
		prod := callee == nil || callee.Blocks == nil || readsGlobal(callee, cur, map[*ssa.Function]bool{})
		out = append(out, sentinelEdge{edge: g.PassEdge(), id: sentinelID(cur), producible: prod})
	}
	// comparisons merged into a boolean phi
	kit.AllInstrs(f, func(in ssa.Instruction) {
		b, ok := in.(*ssa.BinOp)
		if !ok || (b.Op != token.EQL && b.Op != token.NEQ) || b.Referrers() == nil {
			return
		}
		glob, other := sentinel(b.Y), b.X
		if glob == nil {
			glob, other = sentinel(b.X), b.Y
		}
		if glob == nil || !kit.DependsOn(other, func(v ssa.Value) bool { return v == errV }) {
			return
		}
		intoPhi := false
		for _, ref := range *b.Referrers() {
			if _, isPhi := ref.(*ssa.Phi); isPhi {
				intoPhi = true
			}
		}
		if !intoPhi {
			return
		}
		prod := callee == nil || callee.Blocks == nil || readsGlobal(callee, glob, map[*ssa.Function]bool{})
		out = append(out, sentinelEdge{id: sentinelID(glob), producible: prod, cond: b, equalWhenTrue: b.Op == token.EQL})
	})
	return out
}

func stripNot(v ssa.Value) ssa.Value {
	for {
		u, ok := v.(*ssa.UnOp)
		if !ok || u.Op != token.NOT {
			return v
		}
		v = u.X
	}
}

// readsGlobal: some function in the static call tree of f (any package) refers to glob, or calls a
// method of an interface of glob's package.
func readsGlobal(f *ssa.Function, glob *ssa.Global, seen map[*ssa.Function]bool) bool {
	if f == nil || seen[f] || f.Blocks == nil {
		return false
	}
	seen[f] = true
	found := false
	kit.AllInstrs(f, func(in ssa.Instruction) {
		if found {
			return
		}
		for _, op := range in.Operands(nil) {
			if *op == ssa.Value(glob) {
				found = true
				return
			}
		}
		if ci, ok := in.(ssa.CallInstruction); ok {
			if g := kit.StaticCallee(ci); g != nil && readsGlobal(g, glob, seen) {
				found = true
			}
			// a method of an interface declared in the sentinel's own package (storage.Storage for
			// storage.ErrNotFound) hands the sentinel up
			if com := ci.Common(); com.IsInvoke() {
				if nt, ok := com.Value.Type().(*types.Named); ok && nt.Obj().Pkg() != nil && nt.Obj().Pkg() == glob.Pkg.Pkg {
					found = true
				}
			}
		}
		if mc, ok := in.(*ssa.MakeClosure); ok {
			if g, ok := mc.Fn.(*ssa.Function); ok && readsGlobal(g, glob, seen) {
				found = true
			}
		}
	})
	return found
}

// ErrDisposition builds the table F → G → dispositions for the program (used to write the
// reference file).
func ErrDisposition(p *load.Program) map[string]map[string][]string {
	out := map[string]map[string][]string{}
	for _, f := range pkgFuncs(p, R, H) {
		file := p.FileOf(f.Pos())
		if strings.HasSuffix(file, "_test.go") || strings.HasSuffix(file, "test_helpers.go") || strings.HasSuffix(file, "test_nodes.go") || f.Parent() != nil {
			continue
		}
		fid := kit.FuncID(f)
		kit.AllInstrs(f, func(in ssa.Instruction) {
			c, ok := in.(*ssa.Call)
			if !ok {
				return
			}
			g := calleeKey(c)
			if g == "" {
				return
			}
			d, ok := errDisposition(f, c, false)
			if !ok {
				return
			}
			if out[fid] == nil {
				out[fid] = map[string][]string{}
			}
			have := false
			for _, x := range out[fid][g] {
				if x == d {
					have = true
				}
			}
			if !have {
				out[fid][g] = append(out[fid][g], d)
				sort.Strings(out[fid][g])
			}
		})
	}
	return out
}

// Ownership: a swallowed error is reported under a property only where "this error ends the
// operation" is part of what the property states — a refusal verdict (C08), the proof-of-work
// verdict (C02), a failed save or load reported as done (C10, C11, C17, C20), a lookup that reports
// a value it could not read (C01, C09, C18, C19), a block or transaction handed on although a step
// failed (C04, C05, C06, C16), a peer carried on with after its message could not be read (C03, C13,
// C14, C15). C07 and C12 own no call sites: neither the stream contents nor the crash points depend
// on an error being returned.
//
// errDispTrees: entry points whose static call trees (within the two packages) own the call sites.
var errDispTrees = map[string][]string{
	"C01": {H + ".Repository.Hash", H + ".Repository.Header"},
	"C02": {H + ".Branch.Target"},
	"C03": {H + ".Repository.VerifyHeader", R + ".BitcoinNode.handleHeadersVerify"},
	"C04": {R + ".BlockDownloader.HandleBlock", R + ".BitcoinNode.handleBlock"},
	"C05": {R + ".NodeManager.synchronizeBlocks", R + ".NodeManager.runSynchronizeBlocks", R + ".BlockManager.AddRequest"},
	"C06": {R + ".TxManager.AddTxID", R + ".TxManager.AddTx", R + ".TxManager.GetTxRequests", R + ".TxManager.Run", R + ".BitcoinNode.handleInventory", R + ".BitcoinNode.handleTx", R + ".NodeManager.RequestTxs", R + ".BitcoinNode.RequestTxs"},
	"C08": {H + ".Repository.ProcessHeader"},
	"C09": {H + ".Repository.HashHeight", H + ".Repository.CheckHeader", H + ".Repository.GetHeader", H + ".Repository.PreviousHash", H + ".Repository.Hash", H + ".Repository.Header", H + ".Repository.GetHeaders"},
	"C10": {H + ".Repository.Clean", H + ".Repository.clean"},
	"C11": {H + ".Repository.Save", H + ".Repository.Load"},
	"C13": {R + ".BitcoinNode.handshake", R + ".BitcoinNode.handleHeadersVerify", R + ".BitcoinNode.accept", R + ".BitcoinNode.handleVersion", R + ".BitcoinNode.handleVerack"},
	"C14": {R + ".BitcoinNode.handleMessage", R + ".readMessage", R + ".readHeader", R + ".DiscardInput", R + ".DiscardInputWithCounter"},
	"C15": {R + ".BitcoinNode.handleMessage", R + ".BitcoinNode.readIncoming", R + ".BitcoinNode.sendOutgoing", R + ".BitcoinNode.run", R + ".readMessage", R + ".readHeader"},
	"C16": {R + ".BlockDownloader.Run", R + ".BlockDownloader.HandleBlock", R + ".BlockManager.Run", R + ".BlockManager.requestBlock"},
	"C17": {H + ".Repository.MarkHeaderInvalid", H + ".Repository.MarkHeaderNotInvalid", H + ".saveInvalidHashes", H + ".loadInvalidHashes"},
	"C18": {H + ".Repository.VerifyMerkleProof"},
	"C19": {H + ".Repository.GetLocatorHashes", H + ".Repository.GetVerifyOnlyLocatorHashes", R + ".BitcoinNode.sendInitialHeaderRequest", R + ".BitcoinNode.sendHeaderRequest", R + ".BitcoinNode.sendVerifyHeaderRequest"},
	"C20": {R + ".StoragePeerRepository.Load", R + ".StoragePeerRepository.Save", R + ".StoragePeerRepository.Add", R + ".StoragePeerRepository.LoadSeeds"},
}

// errDispPairs: single (function, callee) pairs owned in addition to the trees.
var errDispPairs = map[string][][2]string{
	"C02": {{H + ".Repository.ProcessHeader", H + ".Branch.Target"}},
	"C17": {{H + ".Repository.Save", H + ".saveInvalidHashes"}, {H + ".Repository.clean", H + ".saveInvalidHashes"}, {H + ".Repository.load", H + ".loadInvalidHashes"}},
}

// ownsErrDisposition: the property has call sites under this rule.
func ownsErrDisposition(property string) bool {
	return len(errDispTrees[property]) > 0 || len(errDispPairs[property]) > 0
}

// checkErrDisposition applies the rule to the call sites owned by the property's entry points.
// handlers: the message handlers are reached through the handler table (dynamic dispatch) and are
// added to the roots of the properties that start at handleMessage.
func checkErrDisposition(p *load.Program, r *kit.Report, rule string) {
	ref := p.RefErrDisp
	if ref == nil {
		r.Unknown(rule, "errdisp/reference", "-", "no reference table of error dispositions (errdisp.json)")
		return
	}
	var roots []*ssa.Function
	for _, id := range errDispTrees[r.Property] {
		if f := p.FuncByID(id); f != nil {
			roots = append(roots, f)
		}
	}
	if r.Property == "C14" || r.Property == "C15" {
		hs, _ := allHandlers(p)
		roots = append(roots, hs...)
	}
	owned := staticReach(roots...)
	only := map[*ssa.Function]map[string]bool{} // functions owned for some callees only
	for _, pr := range errDispPairs[r.Property] {
		f := p.FuncByID(pr[0])
		if f == nil || owned[f] {
			continue
		}
		if only[f] == nil {
			only[f] = map[string]bool{}
		}
		only[f][pr[1]] = true
	}
	for f := range only {
		owned[f] = true
	}
	k := newKeyer()
	pairs := 0
	for f := range owned {
		if f.Parent() != nil {
			continue
		}
		fid := kit.FuncID(f)
		refF := ref[fid]
		if refF == nil {
			continue
		}
		// current dispositions per callee, with the offending site
		type site struct {
			at   ssa.Instruction
			disp string
		}
		cur := map[string][]site{}
		kit.AllInstrs(f, func(in ssa.Instruction) {
			c, ok := in.(*ssa.Call)
			if !ok {
				return
			}
			g := calleeKey(c)
			if g == "" {
				return
			}
			if d, ok := errDisposition(f, c, true); ok {
				cur[g] = append(cur[g], site{in, d})
			}
		})
		for g, rd := range refF {
			// enforced: pairs the reference tree returns at every site, possibly except behind
			// tests for named sentinels
			enforce := len(rd) > 0
			var allowed []string
			for _, d := range rd {
				switch {
				case d == dispPropagate:
				case strings.HasPrefix(d, dispExcept):
					allowed = append(allowed, strings.Split(strings.TrimPrefix(d, dispExcept), ";")...)
				default:
					enforce = false
				}
			}
			if !enforce {
				continue
			}
			if only[f] != nil && !only[f][g] {
				continue
			}
			sites := cur[g]
			if len(sites) == 0 {
				continue // the call moved away or its handling is not classifiable any more
			}
			pairs++
			bad := ""
			var at ssa.Instruction = sites[0].at
			callee := strings.TrimPrefix(kit.ShortID(g), "invoke:")
			for _, s := range sites {
				what := ""
				switch {
				case s.disp == dispPropagate:
				case strings.HasPrefix(s.disp, dispExcept):
					for _, id := range strings.Split(strings.TrimPrefix(s.disp, dispExcept), ";") {
						ok := false
						for _, a := range allowed {
							if sameSentinel(a, id) {
								ok = true
							}
						}
						if !ok {
							name, _, _ := strings.Cut(id, "|")
							what = "is now tolerated when it is " + kit.ShortID(name) + " (the operation carries on or reports success)"
						}
					}
				case s.disp == dispIgnored:
					what = "is no longer looked at"
				default:
					what = "can be followed by a successful (nil-error) return or by carrying on"
				}
				if what != "" {
					at = s.at
					ref := "returns it from every call site of this function"
					if len(allowed) > 0 {
						var names []string
						for _, a := range allowed {
							n, _, _ := strings.Cut(a, "|")
							names = append(names, kit.ShortID(n))
						}
						ref = "returns it from every call site of this function unless it is " + strings.Join(names, " or ")
					}
					bad = "an error of " + callee + " " + what + " in " + kit.ShortID(fid) + "; the reference tree " + ref + ": a failure is now reported as success (or as `nothing to do`)"
				}
			}
			good := "still propagated at every call site"
			if len(allowed) > 0 {
				good = "still propagated at every call site except for the sentinels the reference tree tolerates"
			}
			r.Check(bad == "", rule, k.key(kit.ShortID(fid)+"/err:"+callee), posOf(p, at), good, bad)
		}
	}
	if pairs == 0 {
		r.Unknown(rule, "errdisp/pairs", "-", "no (function, callee) pair of the reference table was found in the call trees of this property's entry points")
	}
	r.CallSites += pairs
}
