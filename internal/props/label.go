package props

import (
	"fmt"
	"go/token"
	"go/types"

	"golang.org/x/tools/go/ssa"

	"verif/internal/kit"
	"verif/internal/load"
)

// HEIGHT-LABEL: every hash→height label written into Branch.heightsMap / Repository.heights equals
// the positional height (parentHeight + offset + index in headers) of the header it labels.

type labelCtx struct {
	p                       *load.Program
	r                       *kit.Report
	rule                    string
	headersF, phF, offF     *types.Var
	hashF, mapF, repoHeight *types.Var
}

func newLabelCtx(p *load.Program, r *kit.Report, rule string) *labelCtx {
	c := &labelCtx{p: p, r: r, rule: rule,
		headersF: p.Field(H, "Branch", "headers"), phF: p.Field(H, "Branch", "parentHeight"),
		offF: p.Field(H, "Branch", "offset"), hashF: p.Field(H, "HeaderData", "Hash"),
		mapF: p.Field(H, "Branch", "heightsMap"), repoHeight: p.Field(H, "Repository", "heights")}
	if c.headersF == nil || c.phF == nil || c.offF == nil || c.hashF == nil || c.mapF == nil || c.repoHeight == nil {
		r.Unknown(rule, "anchor:Branch-fields", "-", "Branch/HeaderData/Repository fields not found")
		return nil
	}
	return c
}

// branchShape: parentHeight, offset and len(headers) of a branch value at an instruction.
type branchShape struct {
	ph, off, n kit.Lin
	fresh      bool
}

// shapeOf resolves the shape of branch value b at instruction at in lin's function. For a branch
// built in this function by a constructor call (NewBranch, CopyEmpty) the constructor's body is
// summarised; otherwise the fields are read symbolically.
func (c *labelCtx) shapeOf(lin *kit.LinEval, b ssa.Value, at ssa.Instruction) branchShape {
	b = kit.Strip(b)
	var call *ssa.Call
	switch x := b.(type) {
	case *ssa.Call:
		call = x
	case *ssa.Extract:
		if x.Index == 0 {
			call, _ = x.Tuple.(*ssa.Call)
		}
	}
	if call != nil {
		if callee := kit.StaticCallee(call); callee != nil && callee.Blocks != nil {
			if sh, ok := c.ctorSummary(lin, call, callee); ok {
				return sh
			}
		}
	}
	if a, ok := b.(*ssa.Alloc); ok && a.Heap {
		// composite literal in this function; a literal that does not list headers (and whose
		// headers field this function never stores) starts empty, like the constructors' results
		n := lin.LenFieldAt(a, c.headersF, at)
		storesHeaders := false
		if a.Referrers() != nil {
			for _, ref := range *a.Referrers() {
				if fa, ok := ref.(*ssa.FieldAddr); ok {
					if fl, _ := kit.FieldOfAddr(fa); fl == c.headersF && fa.Referrers() != nil {
						for _, r2 := range *fa.Referrers() {
							if st, ok := r2.(*ssa.Store); ok && st.Addr == ssa.Value(fa) {
								storesHeaders = true
							}
						}
					}
				}
			}
		}
		if !storesHeaders {
			n = kit.LinConst(0)
		}
		return branchShape{ph: lin.FieldAt(a, c.phF, at), off: lin.FieldAt(a, c.offF, at), n: n, fresh: true}
	}
	return branchShape{ph: lin.FieldAt(b, c.phF, at), off: lin.FieldAt(b, c.offF, at), n: lin.LenFieldAt(b, c.headersF, at)}
}

// ctorSummary: callee returns (as result 0) a Branch allocated in its body; summarise the values
// stored into parentHeight/offset/headers in the caller's terms.
func (c *labelCtx) ctorSummary(lin *kit.LinEval, call *ssa.Call, callee *ssa.Function) (branchShape, bool) {
	var alloc *ssa.Alloc
	for _, ret := range kit.Returns(callee) {
		v := kit.RetOperand(ret, 0)
		if kit.IsNilConst(v) {
			continue
		}
		a, ok := kit.Strip(v).(*ssa.Alloc)
		if !ok {
			return branchShape{}, false
		}
		if alloc != nil && alloc != a {
			return branchShape{}, false
		}
		alloc = a
	}
	if alloc == nil {
		return branchShape{}, false
	}
	sub := lin.InCallee(call)
	if sub == nil {
		return branchShape{}, false
	}
	sh := branchShape{ph: kit.LinBad("parentHeight not initialised"), off: kit.LinConst(0), n: kit.LinConst(0), fresh: true}
	// a value receiver returned by address (`func (b Branch) …{ …; return &b }`): the fields start
	// as those of the caller's argument
	kit.AllInstrs(callee, func(in ssa.Instruction) {
		st, ok := in.(*ssa.Store)
		if !ok || st.Addr != ssa.Value(alloc) {
			return
		}
		prm, ok := st.Val.(*ssa.Parameter)
		if !ok {
			return
		}
		for i, q := range callee.Params {
			if q != prm || i >= len(call.Call.Args) {
				continue
			}
			if ld, ok := kit.Strip(call.Call.Args[i]).(*ssa.UnOp); ok && ld.Op == token.MUL {
				sh.ph = lin.FieldAt(ld.X, c.phF, call)
				sh.off = lin.FieldAt(ld.X, c.offF, call)
				sh.n = lin.LenFieldAt(ld.X, c.headersF, call)
			}
		}
	})
	kit.AllInstrs(callee, func(in ssa.Instruction) {
		st, ok := in.(*ssa.Store)
		if !ok {
			return
		}
		f, base := kit.FieldOfAddr(st.Addr)
		if base != ssa.Value(alloc) {
			return
		}
		switch f {
		case c.phF:
			sh.ph = sub.Of(st.Val)
		case c.offF:
			sh.off = sub.Of(st.Val)
		case c.headersF:
			sh.n = sub.LenOf(st.Val)
		}
	})
	return sh, true
}

// elemOfRange: v is `S[i]` for a range-index loop; returns the slice value and the index.
func elemIndex(v ssa.Value) (ssa.Value, ssa.Value, bool) {
	u, ok := kit.Strip(v).(*ssa.UnOp)
	if !ok || u.Op != token.MUL {
		return nil, nil, false
	}
	ia, ok := u.X.(*ssa.IndexAddr)
	if !ok {
		return nil, nil, false
	}
	return ia.X, ia.Index, true
}

// sliceOrigin: S is `Y.headers` or `Y.headers[lo:hi]`; returns Y and lo.
func (c *labelCtx) sliceOrigin(lin *kit.LinEval, s ssa.Value) (ssa.Value, kit.Lin, bool) {
	lo := kit.LinConst(0)
	s = kit.Strip(s)
	if sl, ok := s.(*ssa.Slice); ok {
		if sl.Low != nil {
			lo = lin.Of(sl.Low)
		}
		s = kit.Strip(sl.X)
	}
	f, base := kit.LoadedField(s)
	if f != c.headersF {
		return nil, lo, false
	}
	return base, lo, true
}

// checkFunc examines every labelling event of f.
func (c *labelCtx) checkFunc(f *ssa.Function) int {
	name := kit.ShortID(kit.FuncID(f))
	lin := kit.NewLin(f)
	n := 0
	k := newKeyer()
	kit.AllInstrs(f, func(in ssa.Instruction) {
		switch x := in.(type) {
		case *ssa.MapUpdate:
			mf, mbase := kit.LoadedField(x.Map)
			if mf != c.mapF && mf != c.repoHeight {
				return
			}
			n++
			c.r.Fn(name)
			key := k.key(name + "/label:" + mf.Name())
			c.directLabel(lin, f, x, mf, mbase, key)
		case *ssa.Call:
			if kit.CallID(x) == H+".Branch.add" {
				n++
				c.r.Fn(name)
				c.addLabel(lin, f, x, k.key(name+"/label:add"))
			}
		}
	})
	return n
}

func (c *labelCtx) directLabel(lin *kit.LinEval, f *ssa.Function, mu *ssa.MapUpdate, mf *types.Var, mbase ssa.Value, key string) {
	pos := posOf(c.p, mu)
	label := lin.Of(mu.Value).Subst(c.ctorAtoms(lin, f))
	// (a) key is the Hash of a range element S[i]
	if hf, el := kit.LoadedField(mu.Key); hf == c.hashF {
		if s, idx, ok := elemIndex(el); ok {
			y, lo, ok := c.sliceOrigin(lin, s)
			if !ok {
				c.r.Unknown(c.rule, key, pos, "labelled element comes from a slice that is not a branch's headers")
				return
			}
			sh := c.shapeOf(lin, y, mu)
			want := sh.ph.Add(sh.off).Add(lo).Add(lin.Of(idx))
			c.verdict(key, pos, label, want, "element "+lin.Key(y)+".headers["+lo.String()+"+i]")
			return
		}
		// the add() helper: `b.heightsMap[header.Hash] = height` with header a parameter appended
		// in the same function: the label is the parameter, checked at the call sites.
		if prm, ok := kit.Strip(el).(*ssa.Parameter); ok {
			if lp, ok := kit.Strip(mu.Value).(*ssa.Parameter); ok {
				c.r.OK(c.rule, key, pos, "helper labels parameter %s with parameter %s: obligation moves to its %s call sites", prm.Name(), lp.Name(), f.Name())
				return
			}
		}
	}
	// (b) key is the hash of a HeaderData built here and placed into Y.headers
	if y, idx, ok := c.placedElement(lin, f, mu); ok {
		sh := c.shapeOf(lin, y, mu)
		// idx already accounts for the length before the append; offsets as of the label point
		want := sh.ph.Add(sh.off).Add(idx)
		c.verdict(key, pos, label, want, "new element of "+lin.Key(y)+".headers")
		return
	}
	// (c) ProcessHeader: label from the parent lookup
	if fname(f) == "ProcessHeader" {
		var find *ssa.Call
		for _, cc := range kit.CallsTo(f, H+".Branches.Find") {
			call := cc.(*ssa.Call)
			if fl, _ := kit.LoadedField(call.Call.Args[len(call.Call.Args)-1]); fl != nil && fl.Name() == "PrevBlock" {
				find = call
			}
		}
		if find != nil {
			want := lin.Of(extractOf(find, 1)).AddK(1)
			c.verdict(key, pos, label, want, "height of the parent found by Find(header.PrevBlock) + 1")
			return
		}
	}
	// (d) counter over decoded records (loadHistoricalHashHeights): handled by its own rule
	if fname(f) == "loadHistoricalHashHeights" {
		c.historical(lin, f, mu, key)
		return
	}
	// (e) constant genesis label
	if kc, ok := label.IsConst(); ok && kc == 0 && fname(f) == "NewRepository" {
		c.r.OKTrivial(c.rule, key, pos, "genesis hash labelled 0")
		return
	}
	c.r.Unknown(c.rule, key, pos, "cannot relate the labelled hash to a position in a branch")
}

func (c *labelCtx) verdict(key, pos string, label, want kit.Lin, what string) {
	switch {
	case !label.OK || !want.OK:
		c.r.Unknown(c.rule, key, pos, "not normalisable: label %s, position %s", label, want)
	case label.Equal(want):
		c.r.OK(c.rule, key, pos, "label − position ≡ 0 (%s; both = %s)", what, want)
	default:
		c.r.Bad(c.rule, key, pos, "label is %s but the positional height of %s is %s (difference %s): lookups by hash report a wrong height", label, what, want, label.Sub(want))
	}
}

// placedElement: the key of mu is a hash value that is also stored as the Hash of a HeaderData
// allocated in f, which is put into Y.headers by a slice literal or an append; returns Y and the
// element's index.
func (c *labelCtx) placedElement(lin *kit.LinEval, f *ssa.Function, mu *ssa.MapUpdate) (ssa.Value, kit.Lin, bool) {
	keyv := kit.Strip(mu.Key)
	var hd *ssa.Alloc
	kit.AllInstrs(f, func(in ssa.Instruction) {
		st, ok := in.(*ssa.Store)
		if !ok {
			return
		}
		fl, base := kit.FieldOfAddr(st.Addr)
		if fl == c.hashF && kit.Strip(st.Val) == keyv {
			if a, ok := base.(*ssa.Alloc); ok {
				hd = a
			}
		}
	})
	// or the key is read back from the HeaderData built here: `data := &HeaderData{…}; m[data.Hash]`
	if hd == nil {
		if fl, base := kit.LoadedField(mu.Key); fl == c.hashF {
			if a, ok := kit.Strip(base).(*ssa.Alloc); ok {
				hd = a
			}
		}
	}
	if hd == nil {
		return nil, kit.Lin{}, false
	}
	// hd stored at index j of an array that is sliced into the value stored to Y.headers
	for _, ref := range *hd.Referrers() {
		st, ok := ref.(*ssa.Store)
		if !ok || st.Val != ssa.Value(hd) {
			continue
		}
		ia, ok := st.Addr.(*ssa.IndexAddr)
		if !ok {
			continue
		}
		j, ok := kit.ConstInt(ia.Index)
		if !ok {
			continue
		}
		arr := ia.X
		for _, r2 := range *arr.Referrers() {
			sl, ok := r2.(*ssa.Slice)
			if !ok {
				continue
			}
			for _, r3 := range *sl.Referrers() {
				switch u := r3.(type) {
				case *ssa.Store: // literal stored directly into Y.headers
					if fl, base := kit.FieldOfAddr(u.Addr); fl == c.headersF {
						return base, kit.LinConst(j), true
					}
				case *ssa.Call: // append(old, lit...)
					if kit.CallID(u) == "builtin.append" && u.Call.Args[1] == ssa.Value(sl) {
						for _, r4 := range *u.Referrers() {
							if st2, ok := r4.(*ssa.Store); ok {
								if fl, base := kit.FieldOfAddr(st2.Addr); fl == c.headersF {
									return base, lin.LenOf(u.Call.Args[0]).AddK(j), true
								}
							}
						}
					}
				}
			}
		}
	}
	return nil, kit.Lin{}, false
}

// addLabel: X.add(hd, L). Lockstep induction: L is a counter that advances by exactly one in the
// block of every add, and its initial value equals parentHeight+offset+len(headers) of X as built.
func (c *labelCtx) addLabel(lin *kit.LinEval, f *ssa.Function, call *ssa.Call, key string) {
	pos := posOf(c.p, call)
	x := call.Call.Args[0]
	label := call.Call.Args[2]
	// one add site per target in this function
	for _, o := range kit.CallsTo(f, H+".Branch.add") {
		if o != ssa.CallInstruction(call) && lin.Key(o.Common().Args[0]) == lin.Key(x) {
			c.r.Unknown(c.rule, key, pos, "several add() sites fill the same branch: lockstep argument does not apply")
			return
		}
	}
	sh := c.shapeOf(lin, x, call)
	if !sh.fresh {
		// helper form: the target is built by the caller. Headers keep their height when they are
		// copied between branches of one chain, so the label must equal the positional height of the
		// element in the branch it is copied from.
		if s, idx, ok := elemIndex(call.Call.Args[1]); ok {
			if y, lo, ok := c.sliceOrigin(lin, s); ok {
				ys := c.shapeOf(lin, y, call)
				want := ys.ph.Add(ys.off).Add(lo).Add(lin.Of(idx))
				c.verdict(key, pos, lin.Of(label), want, "source element "+lin.Key(y)+".headers["+lo.String()+"+i] (target built by the caller)")
				return
			}
		}
		c.r.Unknown(c.rule, key, pos, "add() target %s is not a branch constructed in this function and the source is not a branch's headers", lin.Key(x))
		return
	}
	want := sh.ph.Add(sh.off).Add(sh.n)
	subst := c.ctorAtoms(lin, f)
	inits, bias, why := lockstepInitsBias(label, call)
	if why != "" {
		c.r.Bad(c.rule, key, pos, "the label passed to add() does not advance in lockstep with the headers added: %s", why)
		return
	}
	for _, in := range inits {
		l := lin.Of(in).AddK(bias).Subst(subst)
		if !l.OK || !want.OK {
			c.r.Unknown(c.rule, key, pos, "not normalisable: first label %s, first position %s", l, want)
			return
		}
		if !l.Equal(want) {
			c.r.Bad(c.rule, key, pos, "first label is %s but the first added header lands at height %s (parentHeight+offset+len of the new branch): every re-attached header is labelled %s off", l, want, l.Sub(want))
			return
		}
	}
	// secondary: the source slice starts at the header whose height is the first label
	detail := ""
	if s, _, ok := elemIndex(call.Call.Args[1]); ok {
		if y, lo, ok := c.sliceOrigin(lin, s); ok && lin.Key(y) != lin.Key(x) {
			ys := c.shapeOf(lin, y, call)
			src := ys.ph.Add(ys.off).Add(lo).Subst(subst)
			if src.OK && len(inits) == 1 {
				first := lin.Of(inits[0]).AddK(bias).Subst(subst)
				// only decidable when the source is the receiver (same chain, heights preserved)
				if _, isRecv := kit.Strip(y).(*ssa.Parameter); isRecv {
					if !src.Equal(first) {
						c.r.Bad(c.rule, key+"/source-start", pos, "headers are copied from %s.headers starting at height %s but labelled from %s: a header is skipped or duplicated", lin.Key(y), src, first)
						return
					}
					detail = fmt.Sprintf("; source slice starts at the header of height %s", src)
				}
			}
		}
	}
	c.r.OK(c.rule, key, pos, "first label %s = parentHeight+offset+len of the new branch, +1 per add%s", want, detail)
}

// lockstepInits walks the phi chain of the label: every non-initial edge must be `phi + 1` computed
// in the block of the add call; returns the initial values.
func lockstepInits(label ssa.Value, add *ssa.Call) ([]ssa.Value, string) { // nolint: kept for callers without bias
	inits, _, why := lockstepInitsBias(label, add)
	return inits, why
}

// lockstepInitsBias: as lockstepInits; bias is what the first label exceeds the returned initial
// values by (1 for the pre-increment form `height++; add(header, height)`).
func lockstepInitsBias(label ssa.Value, add *ssa.Call) ([]ssa.Value, int64, string) {
	if b, ok := label.(*ssa.BinOp); ok && b.Op == token.ADD {
		if ph, isPhi := b.X.(*ssa.Phi); isPhi {
			if k, isC := kit.ConstInt(b.Y); isC && k == 1 && (b.Block() == add.Block() || inLockstep(add, b)) {
				var inits []ssa.Value
				okForm := len(cycleOf(ph.Block())) > 0
				for _, e := range ph.Edges {
					if e == ssa.Value(b) {
						continue
					}
					if ei, isI := e.(ssa.Instruction); isI && ei.Block() != nil && cycleOf(ph.Block())[ei.Block()] {
						okForm = false
					}
					inits = append(inits, e)
				}
				if okForm && len(inits) > 0 {
					return inits, 1, ""
				}
			}
		}
	}
	inits, why := lockstepInitsPost(label, add)
	return inits, 0, why
}

func lockstepInitsPost(label ssa.Value, add *ssa.Call) ([]ssa.Value, string) {
	// form `add(S[i], base+i)` with i the index of the loop over S: element i gets base+i, so the
	// labels advance with the elements by construction; the first label is base
	if b, ok := label.(*ssa.BinOp); ok && b.Op == token.ADD {
		if _, idx, isElem := elemIndex(add.Call.Args[1]); isElem {
			for _, pair := range [][2]ssa.Value{{b.X, b.Y}, {b.Y, b.X}} {
				base, i := pair[0], pair[1]
				if i != idx {
					continue
				}
				// i counts from 0 in steps of one
				ib, isB := i.(*ssa.BinOp)
				var ph *ssa.Phi
				start := int64(0)
				if isB && ib.Op == token.ADD {
					if k, isC := kit.ConstInt(ib.Y); isC && k == 1 {
						ph, _ = ib.X.(*ssa.Phi)
						start = 1
					}
				} else {
					ph, _ = i.(*ssa.Phi)
				}
				if ph == nil {
					continue
				}
				okCounter := true
				for _, e := range ph.Edges {
					if k, isC := kit.ConstInt(e); isC {
						if k+start != 0 {
							okCounter = false
						}
						continue
					}
					eb, isB := e.(*ssa.BinOp)
					if !isB || eb.Op != token.ADD || eb.X != ssa.Value(ph) {
						okCounter = false
						continue
					}
					if k, isC := kit.ConstInt(eb.Y); !isC || k != 1 {
						okCounter = false
					}
				}
				if !okCounter {
					continue
				}
				// base does not change inside the element loop
				inner := naturalLoop(ph.Block())
				if bi, isInstr := base.(ssa.Instruction); isInstr && bi.Block() != nil && inner[bi.Block()] {
					continue
				}
				// base may itself be carried by an enclosing loop that adds one slice per round:
				// base' = base + len(S) keeps it in step with the number of headers added
				if op, isPhi := base.(*ssa.Phi); isPhi && len(cycleOf(op.Block())) > 0 && cycleOf(op.Block())[add.Block()] {
					slice, _, _ := elemIndex(add.Call.Args[1])
					var outerInits []ssa.Value
					okOuter := true
					for _, e := range op.Edges {
						e = kit.Strip(e)
						if eb, isB := e.(*ssa.BinOp); isB && eb.Op == token.ADD && kit.Strip(eb.X) == ssa.Value(op) {
							lc := isCallTo(eb.Y, "builtin.len")
							if lc == nil || kit.Strip(lc.Call.Args[0]) != kit.Strip(slice) {
								okOuter = false
							}
							continue
						}
						outerInits = append(outerInits, e)
					}
					if okOuter && len(outerInits) > 0 {
						return outerInits, ""
					}
					continue
				}
				return []ssa.Value{base}, ""
			}
		}
	}
	var inits []ssa.Value
	seen := map[ssa.Value]bool{}
	chain := map[ssa.Value]bool{}
	succ := func(ph *ssa.Phi) []*ssa.Phi {
		var out []*ssa.Phi
		for _, e := range ph.Edges {
			if p2, ok := e.(*ssa.Phi); ok {
				out = append(out, p2)
			} else if b, ok := e.(*ssa.BinOp); ok && b.Op == token.ADD {
				if p2, ok := b.X.(*ssa.Phi); ok {
					out = append(out, p2)
				}
			}
		}
		return out
	}
	if lp, ok := label.(*ssa.Phi); ok {
		// phis reachable from the label ...
		reach := map[*ssa.Phi]bool{}
		var dfs func(p *ssa.Phi)
		dfs = func(p *ssa.Phi) {
			if reach[p] {
				return
			}
			reach[p] = true
			for _, q := range succ(p) {
				dfs(q)
			}
		}
		dfs(lp)
		// ... from which the label is reachable again (the counter's cycle)
		for q := range reach {
			back := map[*ssa.Phi]bool{}
			var dfs2 func(p *ssa.Phi) bool
			dfs2 = func(p *ssa.Phi) bool {
				if back[p] {
					return false
				}
				back[p] = true
				for _, n := range succ(p) {
					if n == lp || dfs2(n) {
						return true
					}
				}
				return false
			}
			if q == lp {
				if dfs2(q) {
					chain[q] = true
				}
			} else if dfs2(q) {
				chain[q] = true
			}
		}
	}
	if len(chain) == 0 {
		// a single add outside any loop
		return []ssa.Value{label}, ""
	}
	why := ""
	var walk func(v ssa.Value)
	walk = func(v ssa.Value) {
		if seen[v] {
			return
		}
		seen[v] = true
		if ph, ok := v.(*ssa.Phi); ok && chain[ph] {
			for _, e := range ph.Edges {
				walk(e)
			}
			return
		}
		if b, ok := v.(*ssa.BinOp); ok {
			if p2, ok := b.X.(*ssa.Phi); ok && chain[p2] {
				k, isC := kit.ConstInt(b.Y)
				switch {
				case b.Op != token.ADD || !isC || k != 1:
					why = fmt.Sprintf("counter changes by %s %s per step", b.Op, b.Y.Name())
				case b.Block() != add.Block() && !inLockstep(add, b):
					why = "the counter is advanced outside the block that adds the header"
				case ssa.Value(p2) != add.Call.Args[2]:
					why = "the counter advanced is not the label passed to add()"
				}
				return
			}
		}
		inits = append(inits, v)
	}
	walk(label)
	// the increment must exist in the add's block
	found := false
	for _, in := range add.Block().Instrs {
		if b, ok := in.(*ssa.BinOp); ok && b.Op == token.ADD && b.X == add.Call.Args[2] {
			if k, ok := kit.ConstInt(b.Y); ok && k == 1 {
				found = true
			}
		}
	}
	if !found {
		// in another block of the same iteration, passed exactly when the add is
		kit.AllInstrs(add.Parent(), func(in ssa.Instruction) {
			if b, ok := in.(*ssa.BinOp); ok && b.Op == token.ADD && b.X == add.Call.Args[2] {
				if k, ok := kit.ConstInt(b.Y); ok && k == 1 && inLockstep(add, b) {
					found = true
				}
			}
		})
	}
	if !found && why == "" {
		why = "no `label + 1` next to the add() call"
	}
	return inits, why
}

// historical: labels in loadHistoricalHashHeights are file*headersPerFile + record index.
func (c *labelCtx) historical(lin *kit.LinEval, f *ssa.Function, mu *ssa.MapUpdate, key string) {
	pos := posOf(c.p, mu)
	label := lin.Of(mu.Value)
	// label must be  headersPerFile·file + iter  where file is the index used for headersFilePath
	var fileArg ssa.Value
	for _, cc := range kit.CallsTo(f, H+".headersFilePath") {
		fileArg = cc.Common().Args[0]
	}
	if fileArg == nil {
		c.r.Unknown(c.rule, key, pos, "no headersFilePath(file) call")
		return
	}
	per := c.constVal("headersPerFile")
	fl := lin.Of(fileArg)
	d := label.Sub(fl.Scale(per))
	ok := label.OK && fl.OK && d.K == 0 && len(d.T) == 1
	for a, co := range d.T {
		if len(a) < 5 || a[:5] != "iter:" || co != 1 {
			ok = false
		}
	}
	if ok {
		c.r.OK(c.rule, key, pos, "label = headersPerFile·file + record index (%s)", label)
	} else {
		c.r.Bad(c.rule, key, pos, "label of a stored header is %s, want %d·file + record index with file = %s", label, per, fl)
	}
}

func (c *labelCtx) constVal(name string) int64 {
	o := c.p.All[H].Types.Scope().Lookup(name)
	if cn, ok := o.(*types.Const); ok {
		if v, ok := kit.ConstFromTypes(cn); ok {
			return v
		}
	}
	return -1
}

// ctorAtoms maps the field atoms of branches built by constructor calls in f to the constructor's
// summarised values.
func (c *labelCtx) ctorAtoms(lin *kit.LinEval, f *ssa.Function) map[string]kit.Lin {
	m := map[string]kit.Lin{}
	kit.AllInstrs(f, func(in ssa.Instruction) {
		call, ok := in.(*ssa.Call)
		if !ok {
			return
		}
		callee := kit.StaticCallee(call)
		if callee == nil || callee.Blocks == nil || callee.Pkg == nil || callee.Pkg.Pkg.Path() != H {
			return
		}
		sh, ok := c.ctorSummary(lin, call, callee)
		if !ok {
			return
		}
		for _, key := range []string{lin.Key(call), lin.Key(call) + "#0"} {
			m["f:"+key+".parentHeight"] = sh.ph
			m["f:"+key+".offset"] = sh.off
			m["len:"+key+".headers"] = sh.n
		}
	})
	return m
}

// naturalLoop returns the blocks of the natural loop headed by h: h and everything that reaches
// one of its back edges (predecessors dominated by h) without passing through h.
func naturalLoop(h *ssa.BasicBlock) map[*ssa.BasicBlock]bool {
	out := map[*ssa.BasicBlock]bool{h: true}
	var st []*ssa.BasicBlock
	for _, p := range h.Preds {
		if h.Dominates(p) {
			st = append(st, p)
		}
	}
	for len(st) > 0 {
		x := st[len(st)-1]
		st = st[:len(st)-1]
		if out[x] {
			continue
		}
		out[x] = true
		st = append(st, x.Preds...)
	}
	return out
}

// innermostLoop returns the header of the smallest natural loop that contains b, and the loop's
// blocks (nil when b is in no loop).
func innermostLoop(f *ssa.Function, b *ssa.BasicBlock) (*ssa.BasicBlock, map[*ssa.BasicBlock]bool) {
	var best *ssa.BasicBlock
	var bestL map[*ssa.BasicBlock]bool
	for _, h := range f.Blocks {
		back := false
		for _, pr := range h.Preds {
			if h.Dominates(pr) {
				back = true
			}
		}
		if !back {
			continue
		}
		l := naturalLoop(h)
		if l[b] && (best == nil || len(l) < len(bestL)) {
			best, bestL = h, l
		}
	}
	return best, bestL
}

// inLockstep: within one iteration of the innermost loop around add, the increment inc is executed
// exactly when add is: every path from add to the next iteration passes inc, and inc is not
// reachable from the top of an iteration without passing add (a callback-style iterator puts the
// add into the callback and the increment behind the callback's `keep going` answer).
func inLockstep(add *ssa.Call, inc ssa.Instruction) bool {
	f := add.Parent()
	header, loop := innermostLoop(f, add.Block())
	if header == nil || !loop[inc.Block()] || len(header.Instrs) == 0 {
		return false
	}
	after := kit.Reach(f, kit.After(add), kit.Opts{StopAt: kit.InstrSet(inc)})
	if after.Has(header.Instrs[0]) {
		return false
	}
	var starts []kit.Pt
	for _, s := range header.Succs {
		if loop[s] {
			starts = append(starts, kit.Pt{B: s, I: 0})
		}
	}
	before := kit.Reach(f, starts, kit.Opts{StopAt: kit.InstrSet(add)})
	return !before.Has(inc)
}
