package props

import (
	"go/token"
	"go/types"
	"strings"

	"golang.org/x/tools/go/ssa"

	"verif/internal/kit"
	"verif/internal/load"
)

func init() { register("C04", checkC04) }

// invokes lists invoke-mode calls of method name in f.
func invokes(f *ssa.Function, name string) []*ssa.Call {
	var out []*ssa.Call
	kit.AllInstrs(f, func(in ssa.Instruction) {
		if c, ok := in.(*ssa.Call); ok && c.Call.IsInvoke() && c.Call.Method.Name() == name {
			out = append(out, c)
		}
	})
	return out
}

// guardOrWrapper returns pass edges for a guard that is either matched directly in f by direct, or
// delegated to a callee W of the same package whose every nil-error return is dominated (inside W)
// by an edge matched by direct; f must test W's error and the pass edge is the nil-error edge.
func guardOrWrapper(p *load.Program, f *ssa.Function, direct func(*ssa.Function) []kit.Guard) []kit.Edge {
	out := edgesOf(direct(f), true)
	kit.AllInstrs(f, func(in ssa.Instruction) {
		c, ok := in.(*ssa.Call)
		if !ok {
			return
		}
		w := kit.StaticCallee(c)
		if w == nil || w.Blocks == nil || w == f || w.Pkg == nil || w.Pkg != f.Pkg || kit.ErrResultIndex(w) < 0 {
			return
		}
		gs := direct(w)
		if len(gs) == 0 {
			return
		}
		all := true
		for _, ret := range kit.Returns(w) {
			if kit.ReturnErrClass(ret) == kit.ErrNonNil {
				continue
			}
			if ok, _ := kit.DominatedByEdges(w, ret, edgesOf(gs, true), nil, p.Pos); !ok {
				all = false
			}
		}
		if all {
			out = append(out, edgesOf(errNilGuards(f, c), true)...)
		}
	})
	return out
}

func checkC04(p *load.Program, r *kit.Report) {
	r.Rule("CANCEL-BEFORE-CONFIRM", "the confirmation stage of handleBlock lies behind a wasCancelled() == false test made after the receive loop", 1)
	checkConfirmBehindCancelCheck(p, r, "CANCEL-BEFORE-CONFIRM")
	importRules(p, r, "C16", "a download whose stream was cut, whose block did not verify or whose processor failed must be reported as failed: Run returns what the handler sent on Complete", 3, nil, "RESULT-FLOW")
	importRules(p, r, "C16", "a cancelled download issues no confirmation: the downloader's state (cancelled / started / complete) decides who signals and whether the handler goes on, and a cancellation must not be overwritten by a later state change", 1, nil, "CHAN-BUDGET")
	r.NotDecided = "correctness of the dependency's merkle tree/proof construction (that each emitted proof verifies): merkle_proof.MerkleTree is trusted; block contents as values."
	r.Rule("GUARD-DOM", "ProcessCoinbaseTx, ConfirmTx and AppendBlockTxIDs are dominated by (a) received count == announced txCount, (b) FinalizeMerkleProofs() root Equal header.MerkleRoot (directly or through a wrapper all of whose successes are behind it), (c) len(proofs) == len(relevant txids); HandleBlock delegates only behind requestedHash.Equal(hash of the delivered header); the node starts the handler only behind blockRequest.Equal(blockHash)", 11)
	r.Rule("MUST-PASS", "per received tx: AddHash(txid) exactly once and the counter +1 exactly once on every path to the next iteration, txid = *tx.TxHash(); relevant txids and AddMerkleProof only behind isRelevant, before AddHash; every relevant tx gets its proof requested; every iteration of the confirmation loop calls ConfirmTx; the node closes txChannel exactly once on every exit after creating it", 3)
	r.Rule("PAIRING", "ConfirmTx(txid, height, proof) gets blockTxIDs[i] and the tree's own merkleProofs[i] (same index), after BlockHeader/BlockHash of that proof were set from the verified header", 2)
	r.Rule("OWNERSHIP", "the *wire.BlockHeader the node passes to the block handler (and that the downloader stores in every confirmed proof) is allocated in handleBlock for that message, never shared storage; every tx put on the tx channel is allocated in its own loop iteration (the coinbase and the relevant txs outlive the iteration)", 2)
	r.Rule("ORDER", "coinbase → confirmations → AppendBlockTxIDs, each behind the previous success", 2)

	f := fn(p, r, "GUARD-DOM", R, "BlockDownloader.handleBlock")
	if f == nil {
		return
	}
	pos := posOf(p, f.Blocks[0].Instrs[0])
	txCount := prmOfType(f, "uint64", 0)
	headerP := prmOfType(f, "wire.BlockHeader", 0)
	finals := kit.CallsTo(f, load.MerklePkg+".MerkleTree.FinalizeMerkleProofs")
	if len(finals) != 1 {
		// may have moved into a wrapper: search the package for the call
		finals = nil
		for _, g := range pkgFuncs(p, R) {
			for _, c := range kit.CallsTo(g, load.MerklePkg+".MerkleTree.FinalizeMerkleProofs") {
				finals = append(finals, c)
			}
		}
	}
	rootF := p.Field(load.WirePkg, "BlockHeader", "MerkleRoot")
	rootGuard := func(g *ssa.Function) []kit.Guard {
		return kit.FindGuards(g, kit.CallCond(func(c *ssa.Call) bool {
			var isRoot, isHdr bool
			for _, a := range c.Call.Args {
				if fl, _ := kit.FieldOfAddr(a); fl == rootF {
					isHdr = true
				}
				if kit.DependsOn(a, func(v ssa.Value) bool {
					e, ok := v.(*ssa.Extract)
					if !ok || e.Index != 0 {
						return false
					}
					cc, ok := e.Tuple.(*ssa.Call)
					return ok && kit.CallID(cc) == load.MerklePkg+".MerkleTree.FinalizeMerkleProofs"
				}) {
					isRoot = true
				}
			}
			return isRoot && isHdr
		}, load.BitcoinPkg+".Hash32.Equal"))
	}
	rootPass := guardOrWrapper(p, f, rootGuard)
	countPass := edgesOf(kit.FindGuards(f, func(c ssa.Value) (bool, bool) {
		b, ok := c.(*ssa.BinOp)
		if !ok || (b.Op != token.EQL && b.Op != token.NEQ) {
			return false, false
		}
		x, y := b.X, b.Y
		if x == ssa.Value(txCount) {
			x, y = y, x
		}
		if y != ssa.Value(txCount) {
			return false, false
		}
		// x derives from the loop counter
		isCounter := false
		v := x
		for {
			if cv, ok := v.(*ssa.Convert); ok {
				v = cv.X
				continue
			}
			break
		}
		v = kit.Provenance(v)
		for {
			if cv, ok := v.(*ssa.Convert); ok {
				v = cv.X
				continue
			}
			break
		}
		if ph, ok := v.(*ssa.Phi); ok {
			for _, e := range ph.Edges {
				if bo, ok := e.(*ssa.BinOp); ok && bo.Op == token.ADD && bo.X == ssa.Value(ph) {
					isCounter = true
				}
			}
		}
		if !isCounter {
			return false, false
		}
		return true, b.Op == token.EQL
	}), true)
	proofCountPass := edgesOf(kit.FindGuards(f, func(c ssa.Value) (bool, bool) {
		b, ok := c.(*ssa.BinOp)
		if !ok || (b.Op != token.EQL && b.Op != token.NEQ) {
			return false, false
		}
		if isCallTo(b.X, "builtin.len") == nil || isCallTo(b.Y, "builtin.len") == nil {
			return false, false
		}
		return true, b.Op == token.EQL
	}), true)

	k := newKeyer()
	var coinbase, confirm, appendIDs *ssa.Call
	for _, name := range []string{"ProcessCoinbaseTx", "ConfirmTx", "AppendBlockTxIDs"} {
		cs := invokes(f, name)
		if len(cs) != 1 {
			r.Bad("GUARD-DOM", "handleBlock/anchor:"+name, pos, "expected one %s call, found %d", name, len(cs))
			continue
		}
		c := cs[0]
		switch name {
		case "ProcessCoinbaseTx":
			coinbase = c
		case "ConfirmTx":
			confirm = c
		default:
			appendIDs = c
		}
		for _, gd := range []struct {
			what string
			pass []kit.Edge
			msg  string
		}{
			{"count", countPass, "the block is reported although fewer/more transactions were received than announced (stream cut or padded)"},
			{"merkle-root", rootPass, "the block is reported without the merkle root computed over the received transactions having been compared with the header's (altered or substituted transactions are accepted)"},
			{"proof-count", proofCountPass, "the block is reported although the number of proofs differs from the number of relevant txids"},
		} {
			ok, path := kit.DominatedByEdges(f, c, gd.pass, nil, p.Pos)
			r.Check(ok && len(gd.pass) > 0, "GUARD-DOM", k.key("handleBlock/"+name+"-behind-"+gd.what), posOf(p, c), "behind the "+gd.what+" check", gd.msg+": "+path)
		}
	}

	// per-tx loop
	addHash := kit.CallsTo(f, load.MerklePkg+".MerkleTree.AddHash")
	addProof := kit.CallsTo(f, load.MerklePkg+".MerkleTree.AddMerkleProof")
	procs := invokes(f, "ProcessTx")
	bad := ""
	if len(addHash) != 1 || len(procs) != 1 {
		bad = "expected one AddHash and one ProcessTx per received tx"
	} else {
		ah := addHash[0].(*ssa.Call)
		header, body := loopBodyEntry(f, ah)
		if header == nil || body == nil {
			bad = "AddHash is not in the receive loop"
		} else {
			if kit.Reach(f, []kit.Pt{{B: body, I: 0}}, kit.Opts{StopAt: kit.InstrSet(ah)}).Has(header.Instrs[0]) {
				bad = "a received tx can reach the next iteration without being hashed into the merkle tree (e.g. only relevant txs are hashed): the computed root no longer covers every tx"
			}
			if kit.Reach(f, kit.After(ah), kit.Opts{StopAt: kit.InstrSet(header.Instrs[0])}).Has(ah) {
				bad = "a tx can be hashed twice"
			}
			// counter increment exactly once per iteration
			var inc ssa.Instruction
			for _, in := range header.Instrs {
				if ph, ok := in.(*ssa.Phi); ok {
					for _, e := range ph.Edges {
						if bo, ok := e.(*ssa.BinOp); ok && bo.Op == token.ADD && bo.X == ssa.Value(ph) {
							if kk, ok := kit.ConstInt(bo.Y); ok && kk == 1 && isIntPhi(ph) {
								inc = bo
							}
						}
					}
				}
			}
			if inc == nil {
				bad = "the received-tx counter is not incremented by one per iteration"
			} else if kit.Reach(f, []kit.Pt{{B: body, I: 0}}, kit.Opts{StopAt: kit.InstrSet(inc)}).Has(header.Instrs[0]) {
				bad = "an iteration can skip the counter"
			}
			// txid provenance
			isTxid := func(v ssa.Value) bool {
				u, ok := kit.Strip(v).(*ssa.UnOp)
				if !ok {
					return false
				}
				c := isCallTo(u.X, load.WirePkg+".MsgTx.TxHash")
				return c != nil
			}
			if !isTxid(ah.Call.Args[1]) {
				bad = "the hash added to the tree is not the received tx's TxHash()"
			}
			rel := kit.FindGuards(f, func(c ssa.Value) (bool, bool) {
				e, ok := c.(*ssa.Extract)
				return ok && e.Tuple == ssa.Value(procs[0]) && e.Index == 0, true
			})
			if ok, _ := kit.DominatedByEdges(f, ah, edgesOf(rel, true), nil, p.Pos); ok && len(rel) > 0 {
				bad = "AddHash is confined to relevant txs"
			}
			for _, ap := range addProof {
				if ok, _ := kit.DominatedByEdges(f, ap, edgesOf(rel, true), nil, p.Pos); !ok || len(rel) == 0 {
					bad = "a proof is requested for a tx the processor did not mark relevant"
				}
				if kit.Reach(f, kit.After(ah), kit.Opts{StopAt: kit.InstrSet(header.Instrs[0])}).Has(ap) {
					bad = "AddMerkleProof is called after AddHash of the same tx"
				}
				if !isTxid(ap.Common().Args[1]) {
					bad = "the proof is requested for something other than the tx's txid"
				}
			}
			if len(addProof) == 0 {
				bad = "no merkle proof is ever requested"
			}
			// … and for every tx the processor marked relevant: from ProcessTx, a path that does
			// not take the not-relevant edge must request the proof before the tx is hashed
			if len(rel) > 0 && len(addProof) > 0 {
				notRel := map[kit.Edge]bool{}
				for _, e := range edgesOf(rel, false) {
					notRel[e] = true
				}
				var aps []ssa.Instruction
				for _, ap := range addProof {
					aps = append(aps, ap)
				}
				stop := kit.InstrSet(aps...)
				rr := kit.Reach(f, kit.After(procs[0]), kit.Opts{StopAt: stop, BlockEdge: func(e kit.Edge) bool { return notRel[e] }})
				if rr.Has(ah) {
					bad = "a tx the processor marked relevant can be hashed without its proof being requested (" + rr.PathTo(ah, p.Pos) + "): it is never confirmed although the block is reported complete"
				}
			}
		}
	}
	r.Check(bad == "", "MUST-PASS", "handleBlock/per-tx", pos, "AddHash(txid) and i++ exactly once per received tx; AddMerkleProof iff relevant, before AddHash", bad)

	// PAIRING
	if confirm != nil {
		bad := ""
		a := confirm.Call.Args // ctx, txid, height, proof
		ts, ti, ok1 := elemIndex(a[1])
		ps, pi, ok2 := elemIndex(a[3])
		switch {
		case !ok1:
			bad = "the confirmed txid is not an element of the relevant-txid list"
		case !ok2:
			bad = "the proof passed to ConfirmTx is not an element of the proofs returned by the merkle tree (" + describe(kit.Strip(a[3])) + "): a rebuilt or copied proof can omit data the verifier needs"
		case ti != pi:
			bad = "txid and proof are taken at different indexes"
		default:
			_ = ts
			// the list is the tree's result; a phi of that result and nil constants (error paths of
			// an expanded helper) is the same list wherever it is non-nil
			src := kit.Strip(ps)
			if ph, isPhi := src.(*ssa.Phi); isPhi {
				var only ssa.Value
				same := true
				for _, inc := range ph.Edges {
					inc = kit.Strip(inc)
					if kit.IsNilConst(inc) {
						continue
					}
					if only != nil && only != inc {
						same = false
					}
					only = inc
				}
				if same && only != nil {
					src = only
				}
			}
			if e, ok := src.(*ssa.Extract); !ok || e.Index != 1 || callOf(e, 1) == nil || kit.CallID(callOf(e, 1)) != load.MerklePkg+".MerkleTree.FinalizeMerkleProofs" {
				bad = "the proofs confirmed are not the ones FinalizeMerkleProofs returned"
			}
		}
		if bad == "" {
			// BlockHeader/BlockHash stored before ConfirmTx in the same iteration
			n := 0
			for _, w := range kit.DirectWrites(f) {
				if w.Field == nil || w.Field.Pkg() == nil || w.Field.Pkg().Path() != load.MerklePkg {
					continue
				}
				if w.Field.Name() == "BlockHeader" {
					n++
					if kit.Strip(w.Val) != ssa.Value(headerP) {
						bad = "the proof's BlockHeader is not the verified header"
					}
					if !kit.Reach(f, kit.After(w.Instr), kit.Opts{}).Has(confirm) || w.Instr.Block() != confirm.Block() && !w.Instr.Block().Dominates(confirm.Block()) {
						bad = "the proof's BlockHeader is set after ConfirmTx"
					}
				}
				if w.Field.Name() == "BlockHash" {
					n++
				}
			}
			if n < 2 {
				bad = "BlockHeader/BlockHash of the emitted proof are not set"
			}
		}
		r.Check(bad == "", "PAIRING", "handleBlock/ConfirmTx-args", posOf(p, confirm), "ConfirmTx(blockTxIDs[i], height, merkleProofs[i]) with header/hash set", bad)
		hv := kit.Strip(a[2])
		okH := false
		if c, ok := hv.(*ssa.Call); ok && kit.CallID(c) == R+".BlockDownloader.Height" {
			okH = true
		}
		r.Check(okH, "PAIRING", "handleBlock/ConfirmTx-height", posOf(p, confirm), "height is the downloader's height", "the confirmation height is not the requested block's height")
		// every relevant txid is confirmed: no iteration of the confirmation loop reaches the next
		// one (or the loop exit) without ConfirmTx, except by returning an error
		badC := ""
		if header, body := loopBodyEntry(f, confirm); header == nil || body == nil {
			badC = "ConfirmTx is not called in a loop over the relevant txids"
		} else {
			rr := kit.Reach(f, []kit.Pt{{B: body, I: 0}}, kit.Opts{StopAt: kit.InstrSet(confirm)})
			if rr.Has(header.Instrs[0]) {
				badC = "an iteration of the confirmation loop can skip ConfirmTx (" + rr.PathTo(header.Instrs[0], p.Pos) + "): a tx the processor marked relevant is not confirmed although the block is reported complete"
			}
		}
		r.Check(badC == "", "MUST-PASS", "handleBlock/confirm-every-relevant", posOf(p, confirm), "every iteration over the relevant txids calls ConfirmTx or returns an error", badC)
	}
	// ORDER
	if coinbase != nil && confirm != nil && appendIDs != nil {
		bad := ""
		if ok, _ := kit.DominatedByEdges(f, confirm, edgesOf(errNilGuards(f, coinbase), true), nil, p.Pos); !ok {
			bad = "confirmations can be issued before/without the coinbase having been processed successfully"
		}
		if ok, _ := kit.DominatedByEdges(f, appendIDs, edgesOf(errNilGuards(f, coinbase), true), nil, p.Pos); !ok {
			bad = "block txids are recorded although ProcessCoinbaseTx failed"
		}
		for _, e := range edgesOf(errNilGuards(f, confirm), false) {
			if kit.Reach(f, []kit.Pt{kit.EdgeStart(e)}, kit.Opts{}).Has(appendIDs) {
				bad = "the block is recorded as processed although a confirmation failed"
			}
		}
		if kit.Reach(f, kit.After(appendIDs), kit.Opts{}).Has(confirm) {
			bad = "the processed marker is written before the confirmations"
		}
		r.Check(bad == "", "ORDER", "handleBlock/coinbase-confirm-append", pos, "coinbase → confirmations → AppendBlockTxIDs", bad)
		// success return only after append
		bad = ""
		pre := kit.Reach(f, []kit.Pt{kit.Entry(f)}, kit.Opts{StopAt: kit.InstrSet(appendIDs)})
		for _, ret := range kit.Returns(f) {
			if pre.Has(ret) && pre.ErrClass(ret) != kit.ErrNonNil {
				bad = "handleBlock can report success (" + retLabel(ret) + " at " + posOf(p, ret) + ") without recording the block: " + pre.PathTo(ret, p.Pos)
			}
		}
		r.Check(bad == "", "ORDER", "handleBlock/success-means-recorded", pos, "nil is returned only after AppendBlockTxIDs", bad)
	}

	// HandleBlock
	if hb := fn(p, r, "GUARD-DOM", R, "BlockDownloader.HandleBlock"); hb != nil {
		calls := kit.CallsTo(hb, R+".BlockDownloader.handleBlock")
		eq := kit.FindGuards(hb, kit.CallCond(func(c *ssa.Call) bool {
			var reqd, got bool
			for _, a := range c.Call.Args {
				if kit.DependsOn(a, func(v ssa.Value) bool {
					cc, ok := v.(*ssa.Call)
					return ok && kit.CallID(cc) == R+".BlockDownloader.Hash"
				}) {
					reqd = true
				}
				if kit.DependsOn(a, func(v ssa.Value) bool {
					cc, ok := v.(*ssa.Call)
					return ok && kit.CallID(cc) == load.WirePkg+".BlockHeader.BlockHash" && kit.Strip(cc.Call.Args[0]) == ssa.Value(prmOfType(hb, "wire.BlockHeader", 0))
				}) {
					got = true
				}
			}
			return reqd && got
		}, load.BitcoinPkg+".Hash32.Equal"))
		bad := ""
		if len(calls) != 1 {
			bad = "HandleBlock does not delegate to handleBlock exactly once"
		} else if ok, path := kit.DominatedByEdges(hb, calls[0], edgesOf(eq, true), nil, p.Pos); !ok || len(eq) == 0 {
			bad = "a block whose header does not hash to the requested hash is processed: " + path
		} else if kit.Strip(calls[0].Common().Args[2]) != ssa.Value(prmOfType(hb, "wire.BlockHeader", 0)) {
			bad = "the header processed is not the one whose hash was compared"
		}
		r.Check(bad == "", "GUARD-DOM", "HandleBlock/requested-hash", posOf(p, hb.Blocks[0].Instrs[0]), "handleBlock only behind requestedHash.Equal(&hash of header)", bad)
	}
	// node side
	if nb := fn(p, r, "GUARD-DOM", R, "BitcoinNode.handleBlock"); nb != nil {
		reqF := p.Field(R, "BitcoinNode", "blockRequest")
		eq := kit.FindGuards(nb, kit.CallCond(func(c *ssa.Call) bool {
			return loadOfField(kit.Strip(c.Call.Args[0]), reqF) && isCallTo(c.Call.Args[1], load.WirePkg+".BlockHeader.BlockHash") != nil
		}, load.BitcoinPkg+".Hash32.Equal"))
		var mk *ssa.MakeChan
		var thread ssa.Instruction
		kit.AllInstrs(nb, func(in ssa.Instruction) {
			if m, ok := in.(*ssa.MakeChan); ok && strings.Contains(m.Type().String(), "MsgTx") {
				mk = m
			}
			if c, ok := in.(*ssa.Call); ok && strings.HasSuffix(kit.CallID(c), "threads.NewUninterruptableThread") {
				thread = c
			}
		})
		bad := ""
		if mk == nil || thread == nil {
			bad = "tx channel / handler thread not found"
		} else {
			if ok, _ := kit.DominatedByEdges(nb, thread, edgesOf(eq, true), nil, p.Pos); !ok || len(eq) == 0 {
				bad = "the block handler is started for a block other than the requested one"
			}
		}
		r.Check(bad == "", "GUARD-DOM", "node.handleBlock/requested-only", posOf(p, nb.Blocks[0].Instrs[0]), "handler started only behind blockRequest.Equal(blockHash)", bad)
		// OWNERSHIP: the header handed to the block handler ends up inside every proof that is
		// confirmed (merkleProofs[i].BlockHeader = header): it must be an object allocated for this
		// message, not storage that the next message overwrites
		{
			badO := "the block handler is not called with a block header"
			var at ssa.Instruction
			funcs := []*ssa.Function{nb}
			funcs = append(funcs, nb.AnonFuncs...)
			for _, g := range funcs {
				kit.AllInstrs(g, func(in ssa.Instruction) {
					c, ok := in.(ssa.CallInstruction)
					if !ok || c.Common().IsInvoke() || kit.StaticCallee(c) != nil {
						return
					}
					if _, isB := c.Common().Value.(*ssa.Builtin); isB {
						return
					}
					for _, a := range c.Common().Args {
						if !strings.HasSuffix(a.Type().String(), "wire.BlockHeader") {
							continue
						}
						at = in
						v := kit.Strip(a)
						// a captured variable: the value bound by the enclosing function
						viaCell := false
						if u, ok := v.(*ssa.UnOp); ok && u.Op == token.MUL {
							if _, isFV := u.X.(*ssa.FreeVar); isFV {
								v, viaCell = u.X, true
							}
						}
						if fv, ok := v.(*ssa.FreeVar); ok {
							for i, x := range g.FreeVars {
								if x == fv {
									for _, ref := range *g.Referrers() {
										if mc, ok := ref.(*ssa.MakeClosure); ok && i < len(mc.Bindings) {
											v = kit.Strip(mc.Bindings[i])
										}
									}
								}
							}
							if cell, ok := v.(*ssa.Alloc); ok && viaCell {
								// the variable's cell: the value stored into it
								n := 0
								for _, ref := range *cell.Referrers() {
									if st, ok := ref.(*ssa.Store); ok && st.Addr == ssa.Value(cell) {
										n++
										v = kit.Strip(st.Val)
									}
								}
								if n != 1 {
									v = cell
								}
							}
						}
						if al, ok := v.(*ssa.Alloc); ok && al.Parent() == nb {
							badO = ""
						} else {
							badO = "the header passed to the block handler is " + describe(v) + ", not an object allocated for this message: proofs keep a pointer to it and the next block message overwrites it"
						}
					}
				})
			}
			pos := posOf(p, nb.Blocks[0].Instrs[0])
			if at != nil {
				pos = posOf(p, at)
			}
			r.Check(badO == "", "OWNERSHIP", "node.handleBlock/fresh-header", pos, "the header given to the handler is allocated per message", badO)
		}
		// every tx handed to the handler through the channel is an object of its own: the downloader
		// keeps the first one (the coinbase) until the merkle root is verified and the processor may
		// keep the relevant ones; a recycled slot would be overwritten by a later tx of the block
		if mk != nil {
			badT := "no tx is sent on the tx channel"
			var at ssa.Instruction
			kit.AllInstrs(nb, func(in ssa.Instruction) {
				var ch, val ssa.Value
				switch x := in.(type) {
				case *ssa.Send:
					ch, val = x.Chan, x.X
				case *ssa.Select:
					for _, st := range x.States {
						if st.Dir == types.SendOnly && kit.Strip(st.Chan) == ssa.Value(mk) {
							ch, val = st.Chan, st.Send
						}
					}
				}
				if ch == nil || kit.Strip(ch) != ssa.Value(mk) {
					return
				}
				at = in
				v := kit.Strip(val)
				al, ok := v.(*ssa.Alloc)
				switch {
				case !ok:
					badT = "the tx sent to the block handler is " + describe(v) + ", not an object allocated for this tx: the handler keeps the coinbase (and the processor what it marked relevant) while later txs of the block overwrite it"
				case len(cycleOf(al.Block())) == 0:
					badT = "the tx sent to the block handler is allocated once, outside the per-tx loop, and reused for every tx"
				default:
					badT = ""
				}
			})
			posT := posOf(p, nb.Blocks[0].Instrs[0])
			if at != nil {
				posT = posOf(p, at)
			}
			r.Check(badT == "", "OWNERSHIP", "node.handleBlock/fresh-tx", posT, "each tx sent on the tx channel is allocated in that iteration", badT)
		}
		if mk != nil {
			var closes []ssa.Instruction
			for _, w := range kit.DirectWrites(nb) {
				if w.Kind == "close" && kit.Strip(w.Instr.(ssa.CallInstruction).Common().Args[0]) == ssa.Value(mk) {
					closes = append(closes, w.Instr)
				}
			}
			bad := ""
			pre := kit.Reach(nb, kit.After(mk), kit.Opts{StopAt: kit.InstrSet(closes...)})
			for _, ret := range kit.Returns(nb) {
				if pre.Has(ret) {
					bad = "an exit after the handler was started leaves txChannel open (" + retLabel(ret) + " at " + posOf(p, ret) + "): the block handler waits for ever instead of seeing a short count"
				}
			}
			for _, c := range closes {
				after := kit.Reach(nb, kit.After(c), kit.Opts{})
				for _, c2 := range closes {
					if after.Has(c2) {
						bad = "txChannel can be closed twice on one path"
					}
				}
				// no send after close
				for _, w := range kit.DirectWrites(nb) {
					if w.Kind == "send" && after.Has(w.Instr) {
						bad = "a tx can be sent on txChannel after it was closed"
					}
				}
			}
			r.Check(bad == "" && len(closes) > 0, "MUST-PASS", "node.handleBlock/close-txChannel-once", posOf(p, mk), "close(txChannel) exactly once on every exit", bad)
		}
	}
}
