package props

import (
	"strings"

	"golang.org/x/tools/go/ssa"

	"verif/internal/kit"
	"verif/internal/load"
)

// checkTxRetention: TxManager.Clean may drop an entry only when its latest activity — the delivery
// time when it was delivered, else the last request — is older than the cut-off. An entry dropped
// after delivery makes the tx requestable and processable a second time. Decided structurally: the
// time whose After(oldest) keeps the entry is derived from TxData.Latest() or from the Received
// field.
func checkTxRetention(p *load.Program, r *kit.Report, rule string) {
	f := fn(p, r, rule, R, "TxManager.Clean")
	if f == nil {
		return
	}
	pos := posOf(p, f.Blocks[0].Instrs[0])
	received := p.Field(R, "TxData", "Received")
	bad := "no retention test (time.After(oldest)) found"
	for _, c := range kit.Calls(f, func(id string) bool { return id == "time.Time.After" || id == "time.Time.Before" }) {
		call, ok := c.(*ssa.Call)
		if !ok {
			continue
		}
		bad = ""
		uses := false
		for _, a := range call.Call.Args {
			if kit.DependsOn(a, func(v ssa.Value) bool {
				if cc, ok := v.(*ssa.Call); ok && kit.CallID(cc) == R+".TxData.Latest" {
					return true
				}
				return loadOfField(v, received)
			}) {
				uses = true
			}
		}
		if !uses {
			bad = "the retention test at " + posOf(p, call) + " does not look at the delivery time (TxData.Latest / Received): a tx delivered after the cut-off but first requested before it is dropped, requested again and processed twice"
		}
	}
	r.Check(bad == "", rule, "Clean/keeps-recently-delivered", pos, "retention decided by Latest() (delivery time when delivered)", bad)
}

// checkRemoveID: removeID(ids, id) returns the list without one element on the match edge (length
// len(ids)-1, whatever the order) and the list itself otherwise. Dropping more forgets announcers
// that must still be asked after a timeout.
func checkRemoveID(p *load.Program, r *kit.Report, rule string) {
	f := fn(p, r, rule, R, "removeID")
	if f == nil {
		return
	}
	pos := posOf(p, f.Blocks[0].Instrs[0])
	lin := kit.NewLin(f)
	ids := f.Params[0]
	want := lin.LenOf(ids).AddK(-1)
	match := kit.FindGuards(f, kit.CallCond(nil, "bytes.Equal"))
	if len(match) == 0 {
		match = kit.FindGuards(f, func(c ssa.Value) (bool, bool) {
			b, ok := c.(*ssa.BinOp)
			return ok && strings.Contains(b.X.Type().String(), "uuid"), true
		})
	}
	bad := ""
	if len(match) != 1 {
		bad = "the element to remove is not selected by one comparison"
	} else {
		onMatch := kit.Reach(f, []kit.Pt{kit.EdgeStart(match[0].PassEdge())}, kit.Opts{})
		n := 0
		for _, ret := range kit.Returns(f) {
			v := kit.RetOperand(ret, 0)
			if onMatch.Has(ret) {
				n++
				got := lin.LenOf(v)
				if !got.OK || !got.Equal(want) {
					bad = "after removing the matching id the list has " + got.String() + " elements, want " + want.String() + " (every other announcer must be kept)"
				}
			} else if kit.Strip(v) != ssa.Value(ids) {
				bad = "without a match something other than the unchanged list is returned"
			}
		}
		if n == 0 {
			bad = "no return on the match edge"
		}
	}
	r.Check(bad == "", rule, "removeID/removes-exactly-one", pos, "len(result) = len(ids)-1 on a match, the list itself otherwise", bad)
	_ = load.RootPkg
}
