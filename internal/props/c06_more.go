package props

import (
	"go/token"
	"go/types"
	"strings"

	"golang.org/x/tools/go/ssa"

	"verif/internal/kit"
	"verif/internal/load"
)

// checkTxRetention: TxManager.Clean may drop an entry only when its latest activity — the delivery
// time when it was delivered, else the last request — is older than the cut-off. An entry dropped
// after delivery makes the tx requestable and processable a second time. Decided structurally: the
// time whose After(oldest) keeps the entry is derived from TxData.Latest() or from the Received
// field.
func checkTxRetention(p *load.Program, r *kit.Report, rule string) {
	f := fn(p, r, rule, R, "TxManager.Clean")
	if f == nil {
		return
	}
	pos := posOf(p, f.Blocks[0].Instrs[0])
	received := p.Field(R, "TxData", "Received")
	bad := "no retention test (time.After(oldest)) found"
	for _, c := range kit.Calls(f, func(id string) bool { return id == "time.Time.After" || id == "time.Time.Before" }) {
		call, ok := c.(*ssa.Call)
		if !ok {
			continue
		}
		bad = ""
		uses := false
		for _, a := range call.Call.Args {
			if kit.DependsOn(a, func(v ssa.Value) bool {
				if cc, ok := v.(*ssa.Call); ok && kit.CallID(cc) == R+".TxData.Latest" {
					return true
				}
				return loadOfField(v, received)
			}) {
				uses = true
			}
		}
		if !uses {
			bad = "the retention test at " + posOf(p, call) + " does not look at the delivery time (TxData.Latest / Received): a tx delivered after the cut-off but first requested before it is dropped, requested again and processed twice"
		}
	}
	r.Check(bad == "", rule, "Clean/keeps-recently-delivered", pos, "retention decided by Latest() (delivery time when delivered)", bad)
}

// checkRemoveID: removeID(ids, id) returns the list without one element on the match edge (length
// len(ids)-1, whatever the order) and the list itself otherwise. Dropping more forgets announcers
// that must still be asked after a timeout.
func checkRemoveID(p *load.Program, r *kit.Report, rule string) {
	f := fn(p, r, rule, R, "removeID")
	if f == nil {
		return
	}
	pos := posOf(p, f.Blocks[0].Instrs[0])
	lin := kit.NewLin(f)
	ids := f.Params[0]
	want := lin.LenOf(ids).AddK(-1)
	match := kit.FindGuards(f, kit.CallCond(nil, "bytes.Equal"))
	if len(match) == 0 {
		match = kit.FindGuards(f, func(c ssa.Value) (bool, bool) {
			b, ok := c.(*ssa.BinOp)
			return ok && strings.Contains(b.X.Type().String(), "uuid"), true
		})
	}
	bad := ""
	if len(match) != 1 {
		bad = "the element to remove is not selected by one comparison"
	} else {
		onMatch := kit.Reach(f, []kit.Pt{kit.EdgeStart(match[0].PassEdge())}, kit.Opts{})
		n := 0
		for _, ret := range kit.Returns(f) {
			v := kit.RetOperand(ret, 0)
			if onMatch.Has(ret) {
				n++
				got := lin.LenOf(v)
				if !got.OK || !got.Equal(want) {
					bad = "after removing the matching id the list has " + got.String() + " elements, want " + want.String() + " (every other announcer must be kept)"
				}
			} else if kit.Strip(v) != ssa.Value(ids) {
				bad = "without a match something other than the unchanged list is returned"
			}
		}
		if n == 0 {
			bad = "no return on the match edge"
		}
	}
	r.Check(bad == "", rule, "removeID/removes-exactly-one", pos, "len(result) = len(ids)-1 on a match, the list itself otherwise", bad)
	_ = load.RootPkg
}

// checkSentIsFrozen: sendMessage only puts the message pointer on the outgoing channel; the sender
// goroutine serialises it later. A message that was handed to sendMessage must therefore not be
// written again by the function that built it (reusing the "full" getdata for the overflow batch
// drops the first batch and requests the overflow twice) — a fresh message is started instead.
func checkSentIsFrozen(p *load.Program, r *kit.Report, rule string) {
	k := newKeyer()
	n := 0
	mutator := func(name string) bool {
		for _, pre := range []string{"Add", "Set", "Clear", "BtcDecode", "Deserialize", "Reset"} {
			if strings.HasPrefix(name, pre) {
				return true
			}
		}
		return false
	}
	for _, f := range pkgFuncs(p, R) {
		for _, c := range kit.CallsTo(f, R+".BitcoinNode.sendMessage") {
			args := c.Common().Args
			if len(args) < 3 {
				continue
			}
			mi, ok := args[2].(*ssa.MakeInterface)
			if !ok {
				continue
			}
			msg := kit.Strip(mi.X)
			if _, isPtr := msg.Type().Underlying().(*types.Pointer); !isPtr {
				continue
			}
			n++
			name := kit.ShortID(kit.FuncID(f))
			key := k.key(name + "/sent:" + strings.TrimPrefix(msg.Type().String(), "*github.com/tokenized/pkg/"))
			def, _ := msg.(ssa.Instruction)
			rr := kit.Reach(f, kit.After(c.(ssa.Instruction)), kit.Opts{StopAt: func(in ssa.Instruction) bool { return def != nil && in == def }})
			bad := ""
			for _, w := range kit.DirectWrites(f) {
				if w.Field == nil || !rr.Has(w.Instr) || w.Instr == def {
					continue
				}
				if w.Base == msg {
					bad = "field " + w.Field.Name() + " of the message is written at " + posOf(p, w.Instr) + " after it was queued with sendMessage (" + rr.PathTo(w.Instr, p.Pos) + "): the queued message shares the struct — what is serialised later is the overwritten content"
				}
			}
			kit.AllInstrs(f, func(in ssa.Instruction) {
				cc, ok := in.(ssa.CallInstruction)
				if !ok || !rr.Has(in) || in == def || in == c.(ssa.Instruction) {
					return
				}
				g := kit.StaticCallee(cc)
				if g == nil || len(cc.Common().Args) == 0 || kit.Strip(cc.Common().Args[0]) != msg {
					return
				}
				if g.Signature.Recv() != nil && mutator(g.Name()) {
					bad = kit.ShortID(kit.CallID(cc)) + " is called at " + posOf(p, in) + " on a message that was already queued with sendMessage (" + rr.PathTo(in, p.Pos) + ")"
				}
			})
			r.Check(bad == "", rule, key, posOf(p, c), "the message is not written after it was queued", bad)
		}
	}
	if n < 8 {
		r.Unknown(rule, "sendMessage/sites", "-", "expected at least 8 sendMessage calls with a message built in the caller, found %d", n)
	}
}

// checkRequestProvenance: the txid batch the manager hands to a node is the batch GetTxRequests
// computed (and booked) for that very node in the same iteration of the retry loop.
func checkRequestProvenance(p *load.Program, r *kit.Report, rule string) {
	f := fn(p, r, rule, R, "NodeManager.RequestTxs")
	if f == nil {
		return
	}
	idF := p.Field(R, "BitcoinNode", "id")
	reqs := kit.CallsTo(f, R+".BitcoinNode.RequestTxs")
	if len(reqs) == 0 {
		r.Bad(rule, "NodeManager.RequestTxs/batch", posOf(p, f.Blocks[0].Instrs[0]), "no node.RequestTxs call")
		return
	}
	k := newKeyer()
	for _, c := range reqs {
		args := c.Common().Args
		node := kit.Strip(args[0])
		bad := ""
		v := kit.Provenance(args[len(args)-1])
		e, ok := v.(*ssa.Extract)
		var get *ssa.Call
		if ok && e.Index == 0 {
			get, _ = e.Tuple.(*ssa.Call)
		}
		switch {
		case get == nil || kit.CallID(get) != R+".TxManager.GetTxRequests":
			if _, isPhi := v.(*ssa.Phi); isPhi {
				bad = "the batch sent to this node can be one that GetTxRequests computed (and booked) for a node tried earlier: that node stays booked although nothing was asked of it, and this node is asked for txs it may never have announced, or again after its own request"
			} else {
				bad = "the batch sent is " + describe(v) + ", not the result of GetTxRequests for this node"
			}
		default:
			idOK := false
			for _, a := range get.Call.Args {
				if u, ok := kit.Strip(a).(*ssa.UnOp); ok && u.Op == token.MUL {
					if fa, ok := u.X.(*ssa.FieldAddr); ok {
						if fl, base := kit.FieldOfAddr(fa); fl == idF && kit.Strip(base) == node {
							idOK = true
						}
					}
				}
			}
			if !idOK {
				bad = "GetTxRequests was asked for a different node than the one the batch is sent to"
			}
		}
		r.Check(bad == "", rule, k.key("NodeManager.RequestTxs/batch"), posOf(p, c), "node.RequestTxs(GetTxRequests(node.id, …)) — same node, same iteration", bad)
	}
}

// checkInsertAtomic: a fresh entry is put into a bucket's map (txMap.txs[txid] = …) in the same
// write-locked critical section as the lookup that found no entry for that txid. With the lookup
// under a read lock (or a release in between) two announcers of the same new tx both miss and both
// insert — the tx is requested from two peers at once — and an announcement can overwrite the entry
// an unsolicited delivery has just marked received, so the next delivery is processed again.
func checkInsertAtomic(p *load.Program, r *kit.Report, rule string, txsF *types.Var) {
	k := newKeyer()
	n := 0
	for _, f := range pkgFuncs(p, R) {
		if strings.HasSuffix(p.FileOf(f.Pos()), "_test.go") {
			continue
		}
		var li *kit.LockInfo
		kit.AllInstrs(f, func(in ssa.Instruction) {
			mu, ok := in.(*ssa.MapUpdate)
			if !ok {
				return
			}
			fl, base := kit.LoadedField(mu.Map)
			if fl != txsF {
				return
			}
			// Clean rebuilds the map wholesale (a new map, entries copied): not an insert by txid
			if _, fresh := kit.Strip(mu.Map).(*ssa.MakeMap); fresh {
				return
			}
			if li == nil {
				li = kit.Lockset(f, entryLocks(p)[f])
			}
			n++
			name := kit.ShortID(kit.FuncID(f))
			key := li.Key(base) + ".RWMutex"
			// the lookup of the same map that precedes the insert
			var lookups []*ssa.Lookup
			kit.AllInstrs(f, func(x ssa.Instruction) {
				if lk, ok := x.(*ssa.Lookup); ok && lk.CommaOk {
					if f2, b2 := kit.LoadedField(lk.X); f2 == txsF && li.Key(b2) == li.Key(base) {
						lookups = append(lookups, lk)
					}
				}
			})
			bad := ""
			if len(lookups) == 0 {
				bad = "an entry is stored without a lookup of the same map in this function"
			}
			for _, lk := range lookups {
				if !kit.Reach(f, kit.After(lk), kit.Opts{}).Has(mu) {
					continue
				}
				if !li.Holds(lk, key, true) {
					bad = "the lookup at " + posOf(p, lk) + " that decides `no entry yet` does not hold " + key + " in write mode (held: " + li.HeldAt(lk) + "): two announcers of the same new tx both miss and both insert"
				}
				for _, rel := range lockReleases(f, key) {
					if kit.Reach(f, kit.After(lk), kit.Opts{StopAt: kit.InstrSet(mu)}).Has(rel) && kit.Reach(f, kit.After(rel), kit.Opts{}).Has(mu) {
						bad = key + " is released at " + posOf(p, rel) + " between the lookup that found no entry and the insert: another goroutine can insert (or mark received) the same txid in between, and this insert overwrites it"
					}
				}
			}
			if bad == "" && !li.Holds(mu, key, true) {
				bad = "the insert does not hold " + key + " in write mode"
			}
			r.Check(bad == "", rule, k.key(name+"/insert:txs"), posOf(p, mu), "lookup miss and insert are one write-locked critical section", bad)
		})
	}
	if n < 2 {
		r.Unknown(rule, "txMap.txs/inserts", "-", "expected at least 2 inserts into a bucket map (AddTxID, AddTx), found %d", n)
	}
}

// checkSendTxDelivers: sendTx hands the tx to the processing thread or gives up only because the
// caller is being interrupted; the timer arm of its select only logs. AddTx has already marked the
// entry received, so a return on the timer arm drops the tx for good (never processed, never
// requested again).
func checkSendTxDelivers(p *load.Program, r *kit.Report, rule string) {
	f := fn(p, r, rule, R, "TxManager.sendTx")
	if f == nil {
		return
	}
	chF := p.Field(R, "TxManager", "txChannel")
	var intr *ssa.Parameter
	for _, prm := range f.Params {
		if _, ok := prm.Type().Underlying().(*types.Chan); ok {
			intr = prm
		}
	}
	// edges taken when the send happened or the interrupt fired
	var done []kit.Edge
	nSel := 0
	kit.AllInstrs(f, func(in ssa.Instruction) {
		sel, ok := in.(*ssa.Select)
		if !ok {
			return
		}
		nSel++
		for i, st := range sel.States {
			isSend := st.Dir == types.SendOnly && loadOfField(kit.Strip(st.Chan), chF)
			isIntr := st.Dir == types.RecvOnly && intr != nil && kit.Strip(st.Chan) == ssa.Value(intr)
			if isSend || isIntr {
				done = append(done, selectArmEdges(sel, i)...)
			}
		}
	})
	// a plain blocking send also delivers
	var sends []ssa.Instruction
	kit.AllInstrs(f, func(in ssa.Instruction) {
		if s, ok := in.(*ssa.Send); ok && loadOfField(kit.Strip(s.Chan), chF) {
			sends = append(sends, in)
		}
	})
	bad := ""
	if nSel == 0 && len(sends) == 0 {
		bad = "sendTx never sends on the tx channel"
	}
	pre := kit.Reach(f, []kit.Pt{kit.Entry(f)}, kit.Opts{BlockEdge: kit.EdgeSet(done...), StopAt: kit.InstrSet(sends...)})
	for _, ret := range kit.Returns(f) {
		if pre.Has(ret) {
			// the channel may legitimately be unset (no processing thread): a nil test of the field
			nilCh := nilTestOfField(f, chF)
			if d, _ := kit.DominatedByEdges(f, ret, edgesOf(nilCh, true), nil, p.Pos); d && len(nilCh) > 0 {
				continue
			}
			bad = "sendTx can return (" + posOf(p, ret) + ") without having sent the tx and without being interrupted (" + pre.PathTo(ret, p.Pos) + "): the entry is already marked received, so the tx is never processed and never requested again"
		}
	}
	r.Check(bad == "", rule, "TxManager.sendTx/delivers-or-interrupted", posOf(p, f.Blocks[0].Instrs[0]), "every return is behind the send arm or the interrupt arm", bad)
}
