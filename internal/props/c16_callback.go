package props

import (
	"strings"

	"golang.org/x/tools/go/ssa"

	"verif/internal/kit"
	"verif/internal/load"
)

// checkCallbackUnlocked: a function value that was stored by another component (block handler,
// "on stop" callback, header handler, message handlers) is never called while a mutex of the
// calling object is held. The callbacks take locks of their own (BlockDownloader.Stop takes
// stateLock) while the same component, holding that lock, calls back into the node
// (Cancel → CancelBlockRequest takes the node mutex): calling out under the lock closes the cycle
// and both sides block for ever.
func checkCallbackUnlocked(p *load.Program, r *kit.Report, rule string) {
	n := 0
	k := newKeyer()
	for _, f := range pkgFuncs(p, R) {
		if strings.HasSuffix(p.FileOf(f.Pos()), "_test.go") {
			continue
		}
		var li *kit.LockInfo
		kit.AllInstrs(f, func(in ssa.Instruction) {
			c, ok := in.(ssa.CallInstruction)
			if !ok {
				return
			}
			if _, isDefer := in.(*ssa.Defer); isDefer {
				return
			}
			com := c.Common()
			if com.IsInvoke() || kit.StaticCallee(c) != nil {
				return
			}
			if _, isB := com.Value.(*ssa.Builtin); isB {
				return
			}
			// the called value is read from a struct field (directly or through a local copy)
			fl, _ := kit.LoadedField(kit.Strip(com.Value))
			if fl == nil {
				return
			}
			if li == nil {
				li = kit.Lockset(f, nil)
			}
			if !li.Reached(in) {
				return
			}
			n++
			name := kit.ShortID(kit.FuncID(f))
			r.Fn(name)
			key := k.key("callback:" + fl.Name() + "@" + name)
			if held := li.HeldAt(in); held != "{}" {
				r.Bad(rule, key, posOf(p, in), "the callback stored in field %s is called while %s is held: the callee takes its own locks and calls back into this object, which closes a lock-order cycle (both sides block for ever)", fl.Name(), held)
			} else {
				r.OK(rule, key, posOf(p, in), "callback %s called with no lock held", fl.Name())
			}
		})
	}
	if n == 0 {
		r.Unknown(rule, "callback/sites", "-", "no call of a function value stored in a field found")
	}
	_ = load.RootPkg
}
