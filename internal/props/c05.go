package props

import (
	"go/token"
	"go/types"
	"strings"

	"golang.org/x/tools/go/ssa"

	"verif/internal/kit"
	"verif/internal/load"
)

func init() { register("C05", checkC05) }

func checkC05(p *load.Program, r *kit.Report) {
	r.Rule("ABORT-THEN-WAIT", "after close(abort) synchronizeBlocks ends a round successfully only after it received the request's completion value", 1)
	checkAbortThenWait(p, r, "ABORT-THEN-WAIT")
	importRules(p, r, "C04", "a download that was cancelled because another one finished the block (or the block was orphaned) must not process the block again: the confirmation stage lies behind a cancellation test made after the last transaction", 1, nil, "CANCEL-BEFORE-CONFIRM")
	importRules(p, r, "C16", "a block is marked complete (and the next one requested) only after a download of it finished without error: the error must travel from the handler through Run and the on-complete thread unchanged", 3, nil, "RESULT-FLOW")
	r.Rule("TRIGGER-RESTARTS", "TriggerBlockSynchronize leaves the work to the registered round only behind IsComplete() == false of its thread", 1)
	checkTriggerRestarts(p, r, "TRIGGER-RESTARTS")
	importRules(p, r, "C16", "a request that is abandoned while a node is delivering the block, a download counted complete without having processed the requested block, or a registry that loses running downloads, leaves best-chain blocks unprocessed", 3, nil, "GIVE-UP")
	importRules(p, r, "C04", "a download that reports success lets synchronizeBlocks move on to the next height: every error of handleBlock's calls — the write of the processed marker above all — must be returned, or the block is counted as done without the marker the walk back stops at and is never requested again", 1,
		func(o *kit.Obligation) bool { return strings.HasPrefix(o.Construct, "BlockDownloader.handleBlock/") }, "ERR-DISPOSITION")
	importRules(p, r, "C04", "the processed marker (AppendBlockTxIDs) is what the walk back stops at: it must be written last, only for a fully processed block", 2, nil, "ORDER")
	importRules(p, r, "C09", "synchronizeBlocks checks the pending block with headers.Hash(height): a refused tip height ends the round with the request still in flight (the block is then requested and processed twice)", 6, nil, "TIP-BOUND")
	importRules(p, r, "C09", "synchronizeBlocks walks back from the tip with headers.PreviousHash: a `none` for a held predecessor ends every round without a request", 2,
		func(o *kit.Obligation) bool { return strings.HasPrefix(o.Construct, "PreviousHash") }, "LOOKUP-SHAPE")
	r.NotDecided = "everything about which blocks are requested for a given chain/processed set, reorg timing and failure recovery over histories; strictly-ascending contiguous processing as an observed sequence. Decided are the guards, pairing and signalling facts necessary for it."
	r.Rule("GUARD-DOM", "synchronizeBlocks returns before any request when the tip is below StartBlockHeight; a block is prepended to the request list only behind height > StartBlockHeight and a not-yet-processed answer of FetchBlockTxIDs; close(abort) only for a non-nil channel of the current request", 4)
	r.Rule("LOOP-EXITS", "the walk back from the tip stops (and requests are issued) only at the configured start height or at a block whose processed marker exists; there is no other way from the walk to AddRequest", 1)
	r.Rule("LOCKSTEP", "walking back prepends one hash and decrements the height in the same step; requests are issued for hashes[k] with height = first height + k (ascending, contiguous)", 2)
	r.Rule("MUST-PASS", "between two AddRequest calls a receive from the current request's complete channel lies on every path (one request in flight); after a non-nil completion error no further request is issued in this round; abort is closed at most once per request", 2)
	r.Rule("LOCKSET", "blockSyncNeeded/blockManagerThread are accessed under blockManagerLock; the restart flag is read and cleared in one critical section", 6)
	r.Rule("GUARD-DOM/manager", "a block request completes only when a downloader of that hash finished without error (shared with C16)", 2)
	r.Rule("MUST-PASS/manager", "terminal signal exactly once per request, after cancelling the other downloaders (shared with C16)", 2)

	f := fn(p, r, "GUARD-DOM", R, "NodeManager.synchronizeBlocks")
	if f == nil {
		return
	}
	pos := posOf(p, f.Blocks[0].Instrs[0])
	lin := kit.NewLin(f)
	startF := p.Field(R, "Config", "StartBlockHeight")
	adds := kit.CallsTo(f, R+".BlockManager.AddRequest")
	if len(adds) != 1 {
		r.Bad("GUARD-DOM", "synchronizeBlocks/anchor:AddRequest", pos, "expected one AddRequest call, found %d", len(adds))
		return
	}
	add := adds[0].(*ssa.Call)
	isStart := func(v ssa.Value) bool { return loadOfField(v, startF) }

	// (a1) below-start return
	{
		var lastH ssa.Value
		kit.AllInstrs(f, func(in ssa.Instruction) {
			if c, ok := in.(*ssa.Call); ok && c.Call.IsInvoke() && c.Call.Method.Name() == "HashHeight" && lastH == nil {
				lastH = c
			}
		})
		gs := kit.FindGuards(f, func(c ssa.Value) (bool, bool) {
			b, ok := c.(*ssa.BinOp)
			if !ok || lastH == nil {
				return false, false
			}
			if b.X == lastH && isStart(b.Y) {
				switch b.Op {
				case token.LSS:
					return true, false
				case token.GEQ:
					return true, true
				}
			}
			return false, false
		})
		ok, path := kit.DominatedByEdges(f, add, edgesOf(gs, true), nil, p.Pos)
		r.Check(ok && len(gs) > 0, "GUARD-DOM", "synchronizeBlocks/tip-below-start", pos, "no request when lastHeight < StartBlockHeight", "blocks can be requested although the tip is below the configured start height: "+path)
	}
	// (a2) prepend guards
	var prepend *ssa.Call
	kit.AllInstrs(f, func(in ssa.Instruction) {
		c, ok := in.(*ssa.Call)
		if !ok || kit.CallID(c) != "builtin.append" || len(cycleOf(c.Block())) == 0 {
			return
		}
		if _, isPhi := c.Call.Args[1].(*ssa.Phi); isPhi {
			if sl, ok := c.Call.Args[0].(*ssa.Slice); ok {
				if _, isArr := sl.X.(*ssa.Alloc); isArr {
					prepend = c
				}
			}
		}
	})
	if prepend == nil {
		// equivalent form: the walk appends (descending heights) and the list is reversed in place,
		// once, before the first request
		kit.AllInstrs(f, func(in ssa.Instruction) {
			c, ok := in.(*ssa.Call)
			if !ok || kit.CallID(c) != "builtin.append" || len(cycleOf(c.Block())) == 0 {
				return
			}
			if _, isPhi := c.Call.Args[0].(*ssa.Phi); isPhi {
				if sl, ok := c.Call.Args[1].(*ssa.Slice); ok {
					if _, isArr := sl.X.(*ssa.Alloc); isArr && reversedBefore(f, add) {
						prepend = c
					}
				}
			}
		})
	}
	if prepend == nil {
		r.Bad("LOCKSTEP", "synchronizeBlocks/prepend", pos, "the walk back does not prepend the previous hash to the request list (append([]{prev}, hashes...)), nor append it and reverse the list once before the requests")
		return
	}
	var walkH *ssa.Phi
	for _, in := range prepend.Block().Instrs {
		if b, ok := in.(*ssa.BinOp); ok && b.Op == token.SUB {
			if ph, ok := b.X.(*ssa.Phi); ok {
				if k, ok := kit.ConstInt(b.Y); ok && k == 1 {
					walkH = ph
				}
			}
		}
	}
	r.Check(walkH != nil, "LOCKSTEP", "synchronizeBlocks/prepend", posOf(p, prepend), "one hash prepended and height decremented by one in the same step", "the height is not decremented together with the prepend: request heights drift from the hashes")
	if walkH == nil {
		return
	}
	{
		hL := lin.Of(walkH)
		st := kit.LinAtom("f:" + lin.Key(f.Params[0]) + ".config.StartBlockHeight")
		gs := kit.FindGuards(f, func(c ssa.Value) (bool, bool) {
			b, ok := c.(*ssa.BinOp)
			if !ok || !(isStart(b.Y) || isStart(b.X)) {
				return false, false
			}
			x, y := lin.Of(b.X), lin.Of(b.Y)
			var d kit.Lin
			if isStart(b.Y) {
				d = x.Sub(hL) // height side must be the walk height
				if !d.Equal(kit.LinConst(0)) {
					return false, false
				}
				switch b.Op { // height OP start ; pass fact: height > start
				case token.GTR:
					return true, true
				case token.LEQ:
					return true, false
				}
			} else {
				d = y.Sub(hL)
				if !d.Equal(kit.LinConst(0)) {
					return false, false
				}
				switch b.Op { // start OP height
				case token.LSS:
					return true, true
				case token.GEQ:
					return true, false
				}
			}
			_ = st
			return false, false
		})
		ok, path := kit.DominatedByEdges(f, prepend, edgesOf(gs, true), nil, p.Pos)
		r.Check(ok && len(gs) > 0, "GUARD-DOM", "synchronizeBlocks/walk-stops-at-start", posOf(p, prepend), "a previous block is added only while height > StartBlockHeight",
			"a block below the configured start height can be added to the request list (the height is compared with StartBlockHeight only after stepping back): "+path)
		// processed marker
		var fetch *ssa.Call
		kit.AllInstrs(f, func(in ssa.Instruction) {
			if c, ok := in.(*ssa.Call); ok && c.Call.IsInvoke() && c.Call.Method.Name() == "FetchBlockTxIDs" && len(cycleOf(c.Block())) > 0 {
				fetch = c
			}
		})
		bad := ""
		if fetch == nil {
			bad = "the processed-block marker is not consulted while walking back"
		} else {
			ex := kit.FindGuards(f, func(c ssa.Value) (bool, bool) {
				// (through the result temporary of an expanded wrapper around the lookup)
				e, ok := kit.Strip(c).(*ssa.Extract)
				return ok && e.Tuple == ssa.Value(fetch) && e.Index == 1, false
			})
			if ok, _ := kit.DominatedByEdges(f, prepend, edgesOf(ex, true), nil, p.Pos); !ok || len(ex) == 0 {
				bad = "an already processed block can be added to the request list"
			}
			if ok, _ := kit.DominatedByEdges(f, prepend, edgesOf(errNilGuards(f, fetch), true), nil, p.Pos); !ok {
				bad = "the walk continues although FetchBlockTxIDs failed"
			}
		}
		r.Check(bad == "", "GUARD-DOM", "synchronizeBlocks/skip-processed", posOf(p, prepend), "prepend only behind FetchBlockTxIDs → not exists", bad)
		// the walk back ends (and requests follow) only at the start height or at a processed block:
		// with those two exits closed no request is reachable. Any other way out of the walk that
		// goes on to request blocks (e.g. a height remembered from an earlier round) leaves best-chain
		// blocks below the stopping point unrequested after a reorg.
		if fetch != nil && len(gs) > 0 {
			var closed []kit.Edge
			for _, g := range gs {
				closed = append(closed, g.FailEdge())
			}
			// every `exists` answer of FetchBlockTxIDs (before and inside the walk)
			kit.AllInstrs(f, func(in ssa.Instruction) {
				c, ok := in.(*ssa.Call)
				if !ok || !c.Call.IsInvoke() || c.Call.Method.Name() != "FetchBlockTxIDs" {
					return
				}
				for _, g := range kit.FindGuards(f, func(v ssa.Value) (bool, bool) {
					e, ok := kit.Strip(v).(*ssa.Extract)
					return ok && e.Tuple == ssa.Value(c) && e.Index == 1, true
				}) {
					closed = append(closed, g.PassEdge())
				}
			})
			ok, path := kit.DominatedByEdges(f, add, closed, nil, p.Pos)
			r.Check(ok, "LOOP-EXITS", "synchronizeBlocks/walk-exits", posOf(p, prepend), "requests are only reachable through the start-height exit or the processed-block exit of the walk back",
				"the walk back can stop, and blocks be requested, without having reached the start height or a processed block: "+path)
		}
	}
	// (b) request heights
	{
		hArg := kit.Strip(add.Call.Args[3])
		bad := ""
		walkL, _ := prepend.Call.Args[1].(*ssa.Phi)
		if walkL == nil {
			walkL, _ = prepend.Call.Args[0].(*ssa.Phi) // append-and-reverse form
		}
		// the list walked by the request loop and the index of the current element
		var listV, listIdx ssa.Value
		if s, ix, ok := elemIndex(kit.Strip(add.Call.Args[2])); ok {
			listV, listIdx = kit.Provenance(s), kit.Strip(ix)
		}
		// first: the height the walk back stopped at, paired with the list it built
		first := func(e ssa.Value) (bool, string) {
			e = kit.Provenance(e)
			if e == ssa.Value(walkH) && (listV == nil || listV == ssa.Value(walkL)) {
				return true, ""
			}
			// a merge of the walk's exits: (height, list) pairs must be (h, hashes) or (h-1, prepend)
			hp, ok1 := e.(*ssa.Phi)
			lp, ok2 := listV.(*ssa.Phi)
			if ok1 && ok2 && hp.Block() == lp.Block() {
				for i := range hp.Edges {
					he, le := hp.Edges[i], lp.Edges[i]
					same := he == ssa.Value(walkH) && le == ssa.Value(walkL)
					stepped := false
					if b, ok := he.(*ssa.BinOp); ok && b.Op == token.SUB && b.X == ssa.Value(walkH) && b.Block() == prepend.Block() && le == ssa.Value(prepend) {
						if k, ok := kit.ConstInt(b.Y); ok && k == 1 {
							stepped = true
						}
					}
					if !same && !stepped {
						return false, ""
					}
				}
				return true, ""
			}
			return false, "the request height takes an unexpected value: " + describe(e)
		}
		ph, isPhi := hArg.(*ssa.Phi)
		sum, isSum := hArg.(*ssa.BinOp)
		switch {
		case isPhi:
			okInit, okStep := false, false
			for _, e := range ph.Edges {
				e = kit.Provenance(e)
				if b, ok := e.(*ssa.BinOp); ok && b.Op == token.ADD && b.X == ssa.Value(ph) {
					if k, ok := kit.ConstInt(b.Y); ok && k == 1 {
						okStep = true
					}
					continue
				}
				ok, why := first(e)
				if ok {
					okInit = true
				} else if why != "" {
					bad = why
				}
			}
			if !okInit {
				bad = "the first request does not use the height the walk back stopped at"
			} else if !okStep {
				bad = "the request height does not advance by one per block"
			}
		case isSum && sum.Op == token.ADD && listIdx != nil && (kit.Strip(sum.X) == listIdx || kit.Strip(sum.Y) == listIdx):
			// hashes[i] requested at first + i, i counting the elements from 0
			base := sum.X
			if kit.Strip(sum.X) == listIdx {
				base = sum.Y
			}
			ok, why := first(base)
			if !ok {
				bad = "the first request does not use the height the walk back stopped at"
				if why != "" {
					bad = why
				}
			}
			if _, lo, okR := indexCounter(listIdx); !okR || lo != 0 {
				bad = "the request list is not walked from its first element in steps of one"
			}
		default:
			bad = "the request height is not carried by the request loop"
		}
		{
			// hash argument = current element of the list
			if _, _, ok := elemIndex(add.Call.Args[2]); !ok {
				if _, _, ok2 := elemIndex(kit.Strip(add.Call.Args[2])); !ok2 {
					bad = "the requested hash is not the current element of the request list"
				}
			}
		}
		r.Check(bad == "", "LOCKSTEP", "synchronizeBlocks/request-heights", posOf(p, add), "request k: hashes[k] at first height + k", bad)
	}
	// (c)(d)(e) signalling
	completeCh := extractOf(add, 0)
	abortCh := extractOf(add, 1)
	var sel *ssa.Select
	kit.AllInstrs(f, func(in ssa.Instruction) {
		if s, ok := in.(*ssa.Select); ok {
			for _, st := range s.States {
				if st.Chan == completeCh {
					sel = s
				}
			}
		}
	})
	if sel == nil {
		r.Bad("MUST-PASS", "synchronizeBlocks/wait-for-complete", posOf(p, add), "no select receives from the request's complete channel")
		return
	}
	cIdx := -1
	for i, st := range sel.States {
		if st.Chan == completeCh {
			cIdx = i
		}
	}
	arm := selectArmEdges(sel, cIdx)
	{
		var stops []kit.Pt
		blocked := kit.EdgeSet(arm...)
		reach := kit.Reach(f, kit.After(add), kit.Opts{BlockEdge: blocked})
		_ = stops
		bad := ""
		if reach.Has(add) {
			bad = "a second block can be requested while the previous request is still pending: " + reach.PathTo(add, p.Pos)
		}
		if len(arm) == 0 {
			bad = "completion arm not resolved"
		}
		r.Check(bad == "", "MUST-PASS", "synchronizeBlocks/one-in-flight", posOf(p, sel), "the next request is reachable only through the completion arm", bad)
	}
	{
		// err != nil edge in the completion arm
		var errV ssa.Value
		for _, ref := range *sel.Referrers() {
			if e, ok := ref.(*ssa.Extract); ok && e.Index == 2+cIdx {
				errV = e
			}
		}
		bad := ""
		gs := kit.FindGuards(f, func(c ssa.Value) (bool, bool) {
			b, ok := c.(*ssa.BinOp)
			if !ok || (b.Op != token.EQL && b.Op != token.NEQ) || b.X != errV || !kit.IsNilConst(b.Y) {
				return false, false
			}
			return true, b.Op == token.NEQ
		})
		if errV == nil || len(gs) == 0 {
			bad = "the completion value is not examined"
		} else {
			for _, e := range edgesOf(gs, true) {
				rr := kit.Reach(f, []kit.Pt{kit.EdgeStart(e)}, kit.Opts{})
				if rr.Has(add) {
					bad = "after a request ended with an error (aborted because the block left the best chain, or failed) the round goes on requesting the remaining, now stale, blocks: " + rr.PathTo(add, p.Pos)
				}
			}
		}
		r.Check(bad == "", "MUST-PASS", "synchronizeBlocks/stop-round-on-error", posOf(p, sel), "a non-nil completion ends the round", bad)
	}
	{
		var closes []ssa.Instruction
		for _, w := range kit.DirectWrites(f) {
			if w.Kind == "close" {
				closes = append(closes, w.Instr)
			}
		}
		bad := ""
		if len(closes) == 0 {
			bad = "an orphaned request is never aborted"
		}
		for _, c := range closes {
			if kit.Strip(c.(ssa.CallInstruction).Common().Args[0]) != abortCh {
				bad = "close() is applied to something other than the current request's abort channel"
			}
			rr := kit.Reach(f, kit.After(c), kit.Opts{StopAt: kit.InstrSet(add)})
			for _, c2 := range closes {
				if rr.Has(c2) {
					bad = "abort can be closed again for the same request on a later poll (close of closed channel panics and the synchronisation thread dies): " + rr.PathTo(c2, p.Pos)
				}
			}
			// non-nil channel: complete/abort nil test returns before the wait loop
			ng := kit.FindGuards(f, func(cv ssa.Value) (bool, bool) {
				b, ok := cv.(*ssa.BinOp)
				if !ok || (b.Op != token.EQL && b.Op != token.NEQ) || !kit.IsNilConst(b.Y) || (b.X != completeCh && b.X != abortCh) {
					return false, false
				}
				return true, b.Op == token.NEQ
			})
			if ok, _ := kit.DominatedByEdges(f, c, edgesOf(ng, true), nil, p.Pos); !ok || len(ng) == 0 {
				bad = "the channels returned by AddRequest are not tested for nil (AddRequest returns nil channels once the manager stopped): close(nil) panics"
			}
		}
		r.Check(bad == "", "GUARD-DOM", "synchronizeBlocks/abort-once", pos, "close(abort) at most once per request, on a non-nil channel", bad)
	}

	// LOCKSET
	nm := func(n string) *types.Var { return p.Field(R, "NodeManager", n) }
	checkGuarded(p, r, "LOCKSET", pkgFuncs(p, R), []guardedBy{{Field: nm("blockSyncNeeded"), Mutex: "blockManagerLock"}, {Field: nm("blockManagerThread"), Mutex: "blockManagerLock"}},
		nil, func(*ssa.Function, fieldAccess) string { return "" })
	if g := fn(p, r, "LOCKSET", R, "NodeManager.runSynchronizeBlocks"); g != nil {
		li := kit.Lockset(g, nil)
		lock := li.Key(g.Params[0]) + "." + curName(p, "blockManagerLock")
		var ld, st ssa.Instruction
		for _, a := range fieldAccesses(g, nm("blockSyncNeeded")) {
			if a.write {
				st = a.in
			} else {
				ld = a.in
			}
		}
		bad := ""
		if ld == nil || st == nil {
			bad = "the restart flag is not read and cleared"
		} else {
			rr := kit.Reach(g, kit.After(ld), kit.Opts{StopAt: kit.InstrSet(st)})
			for _, x := range lockReleases(g, lock) {
				if rr.Has(x) {
					bad = "the restart flag is read and cleared in two critical sections: a trigger in between is lost"
				}
			}
		}
		r.Check(bad == "", "LOCKSET", "runSynchronizeBlocks/read-and-clear", posOf(p, g.Blocks[0].Instrs[0]), "read and clear under one lock hold", bad)
	}

	// shared manager rules
	sub := kit.NewReport(r.Property, r.Tier, r.Seed)
	checkBlockManager(p, sub)
	for _, o := range sub.Obls {
		switch o.Construct {
		case "onDownloaderCompleted/mark-only-on-success", "markBlockRequestComplete/close-once":
			o.Rule = "GUARD-DOM/manager"
			r.Obls = append(r.Obls, o)
		case "processRequest/one-terminal-signal", "processRequest/cancel-before-signal":
			o.Rule = "MUST-PASS/manager"
			r.Obls = append(r.Obls, o)
		}
	}
	for fn := range sub.Analysed {
		r.Fn(fn)
	}
}

// indexCounter: idx is a loop counter (or rangeindex+1) advancing by one; returns its phi and the
// first value used.
func indexCounter(idx ssa.Value) (*ssa.Phi, int64, bool) {
	start := int64(0)
	var ph *ssa.Phi
	switch x := idx.(type) {
	case *ssa.Phi:
		ph = x
	case *ssa.BinOp:
		if k, isC := kit.ConstInt(x.Y); isC && x.Op == token.ADD {
			ph, _ = x.X.(*ssa.Phi)
			start = k
		}
	}
	if ph == nil {
		return nil, 0, false
	}
	var init *int64
	for _, e := range ph.Edges {
		if k, isC := kit.ConstInt(e); isC {
			if init != nil && *init != k {
				return nil, 0, false
			}
			kk := k
			init = &kk
			continue
		}
		b, isB := e.(*ssa.BinOp)
		if !isB || b.Op != token.ADD || b.X != ssa.Value(ph) {
			return nil, 0, false
		}
		if k, isC := kit.ConstInt(b.Y); !isC || k != 1 {
			return nil, 0, false
		}
	}
	if init == nil {
		return nil, 0, false
	}
	return ph, *init + start, true
}

// reversedBefore: a loop `for i, j := 0, len(l)-1; i < j; i, j = i+1, j-1 { l[i], l[j] = l[j], l[i] }`
// runs on every path before `before` (its header dominates it and the loop does not contain it).
func reversedBefore(f *ssa.Function, before ssa.Instruction) bool {
	for _, h := range f.Blocks {
		back := false
		for _, pr := range h.Preds {
			if h.Dominates(pr) {
				back = true
			}
		}
		if !back || !h.Dominates(before.Block()) {
			continue
		}
		loop := naturalLoop(h)
		if loop[before.Block()] {
			continue
		}
		// two counters: +1 from 0, -1 from len-1
		var up, down *ssa.Phi
		for _, in := range h.Instrs {
			ph, ok := in.(*ssa.Phi)
			if !ok {
				continue
			}
			for _, e := range ph.Edges {
				if bo, ok := e.(*ssa.BinOp); ok && bo.X == ssa.Value(ph) {
					if k, isC := kit.ConstInt(bo.Y); isC && k == 1 {
						switch bo.Op {
						case token.ADD:
							up = ph
						case token.SUB:
							down = ph
						}
					}
				}
			}
		}
		if up == nil || down == nil {
			continue
		}
		initOK := false
		for _, e := range up.Edges {
			if k, isC := kit.ConstInt(e); isC && k == 0 {
				initOK = true
			}
		}
		downInit := false
		for _, e := range down.Edges {
			if bo, ok := e.(*ssa.BinOp); ok && bo.Op == token.SUB {
				if k, isC := kit.ConstInt(bo.Y); isC && k == 1 && isCallTo(bo.X, "builtin.len") != nil {
					downInit = true
				}
			}
		}
		condOK := false
		if iff, ok := h.Instrs[len(h.Instrs)-1].(*ssa.If); ok {
			if bo, ok := iff.Cond.(*ssa.BinOp); ok && ((bo.Op == token.LSS && bo.X == ssa.Value(up) && bo.Y == ssa.Value(down)) || (bo.Op == token.GTR && bo.X == ssa.Value(down) && bo.Y == ssa.Value(up))) {
				condOK = true
			}
		}
		// the swap: stores at [up] and [down], each of a value loaded from the other index
		swapUp, swapDown := false, false
		for b := range loop {
			for _, in := range b.Instrs {
				st, ok := in.(*ssa.Store)
				if !ok {
					continue
				}
				ia, ok := st.Addr.(*ssa.IndexAddr)
				if !ok {
					continue
				}
				src, ok := st.Val.(*ssa.UnOp)
				if !ok || src.Op != token.MUL {
					continue
				}
				sia, ok := src.X.(*ssa.IndexAddr)
				if !ok || kit.Strip(sia.X) != kit.Strip(ia.X) {
					continue
				}
				if ia.Index == ssa.Value(up) && sia.Index == ssa.Value(down) {
					swapUp = true
				}
				if ia.Index == ssa.Value(down) && sia.Index == ssa.Value(up) {
					swapDown = true
				}
			}
		}
		if initOK && downInit && condOK && swapUp && swapDown {
			return true
		}
	}
	return false
}
