package props

import (
	"go/token"
	"strings"

	"golang.org/x/tools/go/ssa"

	"verif/internal/kit"
	"verif/internal/load"
)

// checkGiveUpOnlyIdle: processRequest abandons a request with ErrNodeNotAvailable only after a run
// of polls during which NO download of the block was active: the counter that is compared before
// that return is advanced only on the edge where the number of active downloads is zero and is
// reset on the other edge. (Counting something else — e.g. failed attempts to start a second
// download — abandons a block that one node is still delivering: the manager's Run ends and the
// request never gets its terminal signal.)
func checkGiveUpOnlyIdle(p *load.Program, r *kit.Report, rule string) {
	f := fn(p, r, rule, R, "BlockManager.processRequest")
	if f == nil {
		return
	}
	pos := posOf(p, f.Blocks[0].Instrs[0])
	// the give-up return
	var giveUp *ssa.Return
	for _, ret := range kit.Returns(f) {
		if errCause(kit.RetOperand(ret, 0)) == "ErrNodeNotAvailable" {
			giveUp = ret
		}
	}
	if giveUp == nil {
		r.OKTrivial(rule, "processRequest/give-up-only-idle", pos, "processRequest never gives up with ErrNodeNotAvailable")
		return
	}
	// guarded by counter > K
	var ctr *ssa.Phi
	gs := kit.FindGuards(f, func(c ssa.Value) (bool, bool) {
		b, ok := c.(*ssa.BinOp)
		if !ok || (b.Op != token.GTR && b.Op != token.GEQ) {
			return false, false
		}
		if _, isC := kit.ConstInt(b.Y); !isC {
			return false, false
		}
		x := b.X
		if add, ok := x.(*ssa.BinOp); ok && add.Op == token.ADD {
			// compared right after the increment: `counter++; if counter > K`
			if k, isC := kit.ConstInt(add.Y); isC && k == 1 {
				x = add.X
			}
		}
		if ph, ok := x.(*ssa.Phi); ok {
			if d, _ := kit.DominatedByEdges(f, giveUp, []kit.Edge{{From: b.Block(), Succ: 0}}, nil, p.Pos); d {
				ctr = ph
				return true, true
			}
		}
		return false, false
	})
	if len(gs) != 1 || ctr == nil {
		r.Bad(rule, "processRequest/give-up-only-idle", posOf(p, giveUp), "the give-up return is not guarded by a poll counter")
		return
	}
	// the number of active downloads: len() of the result of Downloaders(hash) / DownloaderCount
	isActive := func(v ssa.Value) bool {
		return kit.DependsOn(v, func(x ssa.Value) bool {
			c, ok := x.(*ssa.Call)
			if !ok {
				return false
			}
			id := kit.CallID(c)
			return id == R+".BlockManager.Downloaders" || id == R+".BlockManager.DownloaderCount"
		})
	}
	// idle edges: active == 0 / !(active > 0) / active < 1
	var idle, busy []kit.Edge
	for _, g := range kit.FindGuards(f, func(c ssa.Value) (bool, bool) {
		b, ok := c.(*ssa.BinOp)
		if !ok || !isActive(b.X) {
			return false, false
		}
		k, isC := kit.ConstInt(b.Y)
		if !isC {
			return false, false
		}
		switch {
		case b.Op == token.GTR && k == 0, b.Op == token.NEQ && k == 0, b.Op == token.GEQ && k == 1:
			return true, false // pass = idle = condition false
		case b.Op == token.EQL && k == 0, b.Op == token.LEQ && k == 0, b.Op == token.LSS && k == 1:
			return true, true
		}
		return false, false
	}) {
		idle = append(idle, g.PassEdge())
		busy = append(busy, g.FailEdge())
	}
	bad := ""
	if len(idle) == 0 {
		bad = "the number of active downloads of the block is not tested: the request can be abandoned while a node is still delivering the block"
	}
	// every increment of the counter is behind an idle edge; every path through a busy edge back to
	// the counter resets it
	web := map[*ssa.Phi]bool{}
	var walk func(ph *ssa.Phi)
	walk = func(ph *ssa.Phi) {
		if web[ph] {
			return
		}
		web[ph] = true
		for i, e := range ph.Edges {
			if ip, ok := e.(*ssa.Phi); ok {
				walk(ip)
				continue
			}
			pred := ph.Block().Preds[i]
			last := pred.Instrs[len(pred.Instrs)-1]
			if k, isC := kit.ConstInt(e); isC {
				if k != 0 && bad == "" {
					bad = "the poll counter is set to a non-zero constant"
				}
				continue
			}
			b, ok := e.(*ssa.BinOp)
			if !ok || b.Op != token.ADD {
				if bad == "" {
					bad = "the poll counter takes a value that is neither 0 nor counter+1"
				}
				continue
			}
			// the increment itself must be on an idle path
			if d, _ := kit.DominatedByEdges(f, b, idle, nil, p.Pos); !d && bad == "" {
				bad = "the counter that leads to ErrNodeNotAvailable is advanced (at " + posOf(p, b) + ") on a path where a download of the block may be active: a slow but healthy download is abandoned"
			}
			_ = last
		}
	}
	walk(ctr)
	if bad == "" {
		// after a busy edge the counter is 0 when it is next compared
		for _, e := range busy {
			rr := kit.Reach(f, []kit.Pt{kit.EdgeStart(e)}, kit.Opts{StopAt: kit.InstrSet(gs[0].If)})
			// the value of ctr at the guard on these paths: every traversed incoming edge of the
			// web from this region must be the constant 0
			for ph := range web {
				for i, inc := range ph.Edges {
					pred := ph.Block().Preds[i]
					for si, sc := range pred.Succs {
						if sc == ph.Block() && rr.Edges[kit.Edge{From: pred, Succ: si}] {
							if _, isPhi := inc.(*ssa.Phi); isPhi {
								continue
							}
							if k, isC := kit.ConstInt(inc); !isC || k != 0 {
								if _, isAdd := inc.(*ssa.BinOp); isAdd && ph.Block() != gs[0].If.Block() {
									continue
								}
								bad = "a poll with an active download does not reset the counter"
							}
						}
					}
				}
			}
		}
	}
	r.Check(bad == "", rule, "processRequest/give-up-only-idle", posOf(p, giveUp), "ErrNodeNotAvailable only after consecutive polls without any active download", bad)
}

// checkRemoveDownloaderIdentity: removeDownloader takes out exactly the downloader it is given: the
// element is selected by pointer identity with the parameter (not by a derived attribute that
// several downloaders may share), and one element is removed.
func checkRemoveDownloaderIdentity(p *load.Program, r *kit.Report, rule string) {
	f := fn(p, r, rule, R, "BlockManager.removeDownloader")
	if f == nil {
		return
	}
	pos := posOf(p, f.Blocks[0].Instrs[0])
	dlF := p.Field(R, "downloadThread", "downloader")
	prm := prmAt(f, 2)
	gs := kit.FindGuards(f, func(c ssa.Value) (bool, bool) {
		b, ok := c.(*ssa.BinOp)
		if !ok || (b.Op != token.EQL && b.Op != token.NEQ) {
			return false, false
		}
		x, y := kit.Strip(b.X), kit.Strip(b.Y)
		if y != ssa.Value(prm) {
			x, y = y, x
		}
		if y != ssa.Value(prm) {
			return false, false
		}
		if fl, _ := kit.LoadedField(x); fl != dlF {
			return false, false
		}
		return true, b.Op == token.EQL
	})
	bad := ""
	if len(gs) == 0 {
		bad = "the downloader to remove is not selected by identity (dt.downloader == downloader): an attribute shared by several downloaders removes them all"
	}
	var stores []ssa.Instruction
	for _, w := range kit.DirectWrites(f) {
		if w.Field != nil && w.Field.Name() == curName(p, "downloaders") && w.Kind == "store" {
			stores = append(stores, w.Instr)
		}
	}
	if len(stores) == 0 && bad == "" {
		bad = "the downloader list is not updated"
	}
	for _, st := range stores {
		if d, _ := kit.DominatedByEdges(f, st, edgesOf(gs, true), nil, p.Pos); !d && bad == "" {
			bad = "the downloader list is rewritten on a path that did not match the given downloader"
		}
	}
	r.Check(bad == "", rule, "removeDownloader/identity", pos, "removes exactly the element with dt.downloader == downloader", bad)
	_ = strings.TrimSpace
	_ = load.RootPkg
}

// checkCompleteCarriesVerdict: the value HandleBlock sends on Complete decides whether the manager
// marks the block complete (nil) — nil may be sent only as the result of handleBlock on the arm
// where the received header hashes to the requested block; every other send is a non-nil error.
func checkCompleteCarriesVerdict(p *load.Program, r *kit.Report, rule string) {
	f := fn(p, r, rule, R, "BlockDownloader.HandleBlock")
	if f == nil {
		return
	}
	pos := posOf(p, f.Blocks[0].Instrs[0])
	compF := p.Field(R, "BlockDownloader", "Complete")
	hb := kit.CallsTo(f, R+".BlockDownloader.handleBlock")
	eq := kit.FindGuards(f, kit.CallCond(nil, load.BitcoinPkg+".Hash32.Equal"))
	bad := ""
	n := 0
	kit.AllInstrs(f, func(in ssa.Instruction) {
		s, ok := in.(*ssa.Send)
		if !ok {
			return
		}
		if fl, _ := kit.LoadedField(s.Chan); fl != compF {
			return
		}
		n++
		if kit.ClassifyErr(s.X, s) == kit.ErrNonNil {
			return
		}
		// possibly nil: must be handleBlock's result, behind the hash-equal edge
		isResult := false
		for _, c := range hb {
			if kit.Strip(s.X) == c.Value() {
				isResult = true
			}
		}
		if !isResult {
			bad = "a value that may be nil is sent on Complete at " + posOf(p, s) + " without being the result of handleBlock: the manager takes nil for \"block processed\" and marks the request complete"
			return
		}
		if d, _ := kit.DominatedByEdges(f, s, edgesOf(eq, true), nil, p.Pos); !d || len(eq) == 0 {
			bad = "handleBlock's result is reported for a block whose hash was not compared with the requested one"
		}
	})
	if n == 0 {
		bad = "nothing is sent on Complete"
	}
	r.Check(bad == "", rule, "HandleBlock/complete-carries-verdict", pos, "nil reaches Complete only as handleBlock's result for the requested hash", bad)
}

// checkErrorStopsManager: a non-nil result of processRequest means the request got NO terminal
// signal (every signalling path of processRequest returns nil — MUST-PASS). BlockManager.Run must
// therefore stop on it: going on to the next request leaves the failed one with zero terminal
// signals while the manager keeps running, and its requester waits for ever.
func checkErrorStopsManager(p *load.Program, r *kit.Report, rule string) {
	f := fn(p, r, rule, R, "BlockManager.Run")
	if f == nil {
		return
	}
	calls := kit.CallsTo(f, R+".BlockManager.processRequest")
	pos := posOf(p, f.Blocks[0].Instrs[0])
	if len(calls) != 1 {
		r.Bad(rule, "BlockManager.Run/error-stops-manager", pos, "expected one processRequest call, found %d", len(calls))
		return
	}
	call := calls[0].(*ssa.Call)
	eg := errNilGuards(f, call)
	bad := ""
	if len(eg) == 0 {
		bad = "the result of processRequest is not tested"
	}
	for _, e := range edgesOf(eg, false) {
		rr := kit.Reach(f, []kit.Pt{kit.EdgeStart(e)}, kit.Opts{})
		if rr.Has(call) {
			bad = "after processRequest failed (the request received no terminal signal) Run goes on to the next request (" + rr.PathTo(call, p.Pos) + "): the failed request's requester waits for ever while the manager keeps running"
		}
	}
	r.Check(bad == "", rule, "BlockManager.Run/error-stops-manager", posOf(p, call), "a processRequest error ends Run (no further request is processed)", bad)
}
