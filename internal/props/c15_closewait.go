package props

import (
	"strings"

	"golang.org/x/tools/go/ssa"

	"verif/internal/kit"
	"verif/internal/load"
)

// checkCloseBeforeWait: where a headers message is teed through a WaitingBuffer to the alternate
// header handler running in its own thread, the buffer is closed BEFORE the thread is waited for.
// The handler blocks in WaitingBuffer.Read until bytes arrive or the buffer is closed; when the
// connection dies in the middle of the message only the Close ends it. Waiting first never
// returns: the message handler, readIncoming and Run hang.
//
// Effective order at the end of a function: explicit calls in control-flow order, then deferred
// calls in reverse order of registration.
func checkCloseBeforeWait(p *load.Program, r *kit.Report, rule string) {
	n := 0
	k := newKeyer()
	for _, f := range pkgFuncs(p, R) {
		if strings.HasSuffix(p.FileOf(f.Pos()), "_test.go") {
			continue
		}
		var closes, waits []ssa.CallInstruction
		kit.AllInstrs(f, func(in ssa.Instruction) {
			c, ok := in.(ssa.CallInstruction)
			if !ok {
				return
			}
			id := kit.CallID(c)
			switch {
			case strings.HasSuffix(id, "threads.WaitingBuffer.Close"):
				closes = append(closes, c)
			case id == R+".waitWithWarning", id == "sync.WaitGroup.Wait":
				// only waits for the alternate header handler: in a function that also closes a buffer
				waits = append(waits, c)
			}
		})
		if len(closes) == 0 || len(waits) == 0 {
			continue
		}
		n++
		name := kit.ShortID(kit.FuncID(f))
		r.Fn(name)
		bad := ""
		for _, cl := range closes {
			for _, w := range waits {
				_, clDefer := cl.(*ssa.Defer)
				_, wDefer := w.(*ssa.Defer)
				switch {
				case clDefer && wDefer:
					// the later registered runs first: the Close must be registered after the wait
					if !kit.Reach(f, kit.After(w), kit.Opts{}).Has(cl) {
						bad = "defer " + posOf(p, w) + " (wait) is registered after defer " + posOf(p, cl) + " (buffer.Close): deferred calls run last-in first-out, so the wait runs before the buffer is closed"
					}
				case !clDefer && wDefer:
					// explicit close, deferred wait: close runs first
				case clDefer && !wDefer:
					bad = "the handler thread is waited for at " + posOf(p, w) + " while buffer.Close is only deferred: the wait runs first"
				default:
					if kit.Reach(f, kit.After(w), kit.Opts{}).Has(cl) && !kit.Reach(f, kit.After(cl), kit.Opts{}).Has(w) {
						bad = "the handler thread is waited for at " + posOf(p, w) + " before buffer.Close at " + posOf(p, cl)
					}
				}
			}
		}
		r.Check(bad == "", rule, k.key("close-before-wait:"+name), posOf(p, closes[0]), "the waiting buffer is closed before the alternate handler's thread is waited for",
			bad+": when the connection ends inside a headers message the alternate handler stays blocked in WaitingBuffer.Read, the wait never returns and Run never returns")
	}
	if n == 0 {
		r.Unknown(rule, "close-before-wait/sites", "-", "no function closes a waiting buffer and waits for a handler thread")
	}
	_ = load.RootPkg
}
