package props

import (
	"fmt"
	"go/token"
	"go/types"
	"strings"

	"golang.org/x/tools/go/ssa"

	"verif/internal/kit"
	"verif/internal/load"
)

func init() { register("C16", checkC16) }

// sendsOn lists the Send instructions of f whose channel is loaded from field fld.
func sendsOn(f *ssa.Function, fld *types.Var) []*ssa.Send {
	var out []*ssa.Send
	kit.AllInstrs(f, func(in ssa.Instruction) {
		if s, ok := in.(*ssa.Send); ok && loadOfField(kit.Strip(s.Chan), fld) {
			out = append(out, s)
		}
	})
	return out
}

func boolFieldGuards(f *ssa.Function, fld *types.Var) []kit.Guard {
	return kit.FindGuards(f, func(c ssa.Value) (bool, bool) { return loadOfField(c, fld), true })
}

func checkC16(p *load.Program, r *kit.Report) {
	importRules(p, r, "C04", "the block handler ends (and sends Complete) only when the node closes the tx channel: every exit of the node's handleBlock after the handler was started closes it, or Run and the manager's shutdown wait for ever", 1,
		func(o *kit.Obligation) bool { return strings.Contains(o.Construct, "close-txChannel-once") }, "MUST-PASS")
	r.Rule("RESULT-FLOW", "BlockDownloader.Run returns the value it received on Complete; the on-complete thread hands onDownloaderCompleted the value it received from the download thread", 3)
	checkRunReturnsReceived(p, r, "RESULT-FLOW")
	checkCompletedGetsThreadResult(p, r, "RESULT-FLOW")
	r.Rule("COUNT-ALL", "BlockManager.Downloaders(hash) lists every registered downloader of the hash: the only way past a matching downloader is the append", 1)
	checkDownloadersCountsAll(p, r, "COUNT-ALL")
	r.Rule("EXIT-ORDER", "when BlockManager.Run ends, Stop (cancel every downloader) runs before shutdown (wait for the downloader list to empty)", 1)
	checkStopBeforeShutdown(p, r, "EXIT-ORDER")
	r.NotDecided = "interleavings proper (who wins which select), goroutine leaks inside the dependency's thread objects, retry timing; that HandleBlock is activated at most once per downloader is an assumption recorded from the node side (completeBlock clears the handler)."
	r.Rule("CHAN-BUDGET", "Started/Complete have capacity ≥ 2; HandleBlock sends Started first and exactly one Complete on every return; Cancel and Stop send at most one of each, only on the edge where isCancelled was false, and that test and the store isCancelled=true are one stateLock critical section ⇒ at most 2 sends per channel, no sender can block", 8)
	r.Rule("BLOCKING-OP", "every select in BlockDownloader.Run and cancelAndWaitForComplete has a timer arm; the wait loop is bounded", 3)
	r.Rule("GUARD-DOM", "markBlockRequestComplete is called only behind err == nil; it closes currentComplete only behind hash.Equal(&m.currentHash) and !currentIsComplete, setting the flag, under currentLock; new requests in the poll arm only behind activeDownloadCount < concurrentBlockRequests", 3)
	r.Rule("MUST-PASS", "every nil return of processRequest performs exactly one terminal operation on request.complete (send BlockAborted xor close) after cancelDownloaders; onDownloaderCompleted removes the downloader on every path; a processRequest error (no terminal signal was given) ends BlockManager.Run", 4)
	r.Rule("CALLBACK-UNLOCKED", "a function value kept in a field (block handler, on-stop callback, header handler, message handler) is called only with no mutex held by the caller (lock-order cycles with the callee's own locks)", 3)
	r.Rule("GIVE-UP", "processRequest abandons a block only after consecutive polls without any active download; removeDownloader removes exactly the given downloader (identity); HandleBlock sends nil on Complete only as handleBlock's result for the requested hash", 3)
	r.Rule("SNAPSHOT", "cancelDownloaders/Stop cancel the elements of a snapshot of the downloader list copied under downloaderLock (completions shrink the live list concurrently)", 2)
	r.Rule("LOCKSET", "downloader flags under stateLock, downloader list under downloaderLock, current request state under currentLock, requestsClosed under requestLock", 15)
	r.Assume("HandleBlock runs at most once per BlockDownloader (the node clears the block handler in completeBlock on every path that invoked it)")

	bdField := func(n string) *types.Var { return p.Field(R, "BlockDownloader", n) }
	started, complete := bdField("Started"), bdField("Complete")
	isCancelled, isStarted, isComplete := bdField("isCancelled"), bdField("isStarted"), bdField("isComplete")
	if started == nil || complete == nil || isCancelled == nil {
		r.Unknown("CHAN-BUDGET", "anchor:BlockDownloader", "-", "fields not found")
		return
	}
	// capacities
	if f := fn(p, r, "CHAN-BUDGET", R, "NewBlockDownloader"); f != nil {
		for _, fld := range []*types.Var{started, complete} {
			capv := int64(-1)
			for _, w := range kit.DirectWrites(f) {
				if w.Field == fld {
					if mc, ok := kit.Strip(w.Val).(*ssa.MakeChan); ok {
						capv, _ = kit.ConstInt(mc.Size)
					}
				}
			}
			r.Check(capv >= 2, "CHAN-BUDGET", "NewBlockDownloader/cap:"+fld.Name(), posOf(p, f.Blocks[0].Instrs[0]), fmt.Sprintf("capacity %d", capv),
				fmt.Sprintf("capacity of %s is %d: the handler's signal plus one Cancel/Stop signal need 2 slots, a sender can block for ever", fld.Name(), capv))
		}
	}
	// HandleBlock
	if f := fn(p, r, "CHAN-BUDGET", R, "BlockDownloader.HandleBlock"); f != nil {
		ss, cs := sendsOn(f, started), sendsOn(f, complete)
		bad := ""
		if len(ss) != 1 {
			bad = fmt.Sprintf("HandleBlock sends Started %d times", len(ss))
		} else {
			// first: dominates every other effect/return
			reach := kit.Reach(f, []kit.Pt{kit.Entry(f)}, kit.Opts{StopAt: kit.InstrSet(ss[0])})
			for _, ret := range kit.Returns(f) {
				if reach.Has(ret) {
					bad = "HandleBlock can return without signalling Started"
				}
			}
			for _, c := range cs {
				if reach.Has(c) {
					bad = "Complete can be signalled before Started"
				}
			}
		}
		r.Check(bad == "", "CHAN-BUDGET", "HandleBlock/started-first", posOf(p, f.Blocks[0].Instrs[0]), "one Started send, before anything else", bad)
		bad = ""
		var ci []ssa.Instruction
		for _, c := range cs {
			ci = append(ci, c)
		}
		pre := kit.Reach(f, []kit.Pt{kit.Entry(f)}, kit.Opts{StopAt: kit.InstrSet(ci...)})
		for _, ret := range kit.Returns(f) {
			if pre.Has(ret) {
				bad = "HandleBlock can return without sending Complete: Run waits for its timeout"
			}
		}
		for _, c := range cs {
			after := kit.Reach(f, kit.After(c), kit.Opts{})
			for _, c2 := range cs {
				if after.Has(c2) {
					bad = "HandleBlock can send Complete twice on one path (budget 2 exceeded together with Cancel/Stop)"
				}
			}
		}
		r.Check(bad == "" && len(cs) > 0, "CHAN-BUDGET", "HandleBlock/complete-exactly-once", posOf(p, f.Blocks[0].Instrs[0]), "exactly one Complete send on every return path", bad)
	}
	// Cancel / Stop
	for _, name := range []string{"BlockDownloader.Cancel", "BlockDownloader.Stop"} {
		f := fn(p, r, "CHAN-BUDGET", R, name)
		if f == nil {
			continue
		}
		li := kit.Lockset(f, nil)
		lock := li.Key(f.Params[0]) + "." + curName(p, "stateLock")
		cg := boolFieldGuards(f, isCancelled)
		notCancelled := edgesOf(cg, false)
		bad := ""
		if len(cg) == 0 {
			bad = "isCancelled is not tested"
		}
		// sends only through the not-cancelled edge (flags tracked exactly)
		reach := kit.Reach(f, []kit.Pt{kit.Entry(f)}, kit.Opts{BlockEdge: kit.EdgeSet(notCancelled...)})
		all := append(sendsOn(f, started), sendsOn(f, complete)...)
		for _, s := range all {
			if reach.Has(s) {
				bad = "a signal is sent at " + posOf(p, s) + " although the download had already been cancelled: a second Cancel/Stop adds signals beyond the channel capacity and the block handler can block for ever on Started/Complete (" + reach.PathTo(s, p.Pos) + ")"
			}
		}
		// at most one per channel per path
		for _, fld := range []*types.Var{started, complete} {
			for _, s := range sendsOn(f, fld) {
				after := kit.Reach(f, kit.After(s), kit.Opts{})
				for _, s2 := range sendsOn(f, fld) {
					if after.Has(s2) {
						bad = "two sends on " + fld.Name() + " on one path"
					}
				}
			}
		}
		// completed downloads: no sends at all
		done := boolFieldGuards(f, isComplete)
		for _, e := range edgesOf(done, true) {
			rr := kit.Reach(f, []kit.Pt{kit.EdgeStart(e)}, kit.Opts{})
			for _, s := range all {
				if rr.Has(s) {
					bad = "signals are sent for a download that already completed"
				}
			}
		}
		r.Check(bad == "", "CHAN-BUDGET", name+"/sends-only-on-first-cancel", posOf(p, f.Blocks[0].Instrs[0]), "≤1 Started and ≤1 Complete, only when isCancelled was false", bad)
		// test-and-set in one section
		bad = ""
		var setStore ssa.Instruction
		for _, w := range kit.DirectWrites(f) {
			if w.Field == isCancelled {
				if b, ok := kit.ConstBool(w.Val); ok && b {
					setStore = w.Instr
				}
			}
		}
		if setStore == nil {
			bad = "isCancelled is never set: Cancel and Stop (or two Cancels) would both signal"
		} else {
			rel := lockReleases(f, lock)
			for _, g := range cg {
				ld, _ := g.If.Cond.(ssa.Instruction)
				if u, ok := g.If.Cond.(*ssa.UnOp); ok && u.Op == token.NOT {
					ld, _ = u.X.(ssa.Instruction)
				}
				if ld != nil && !li.Holds(ld, lock, true) {
					bad = "isCancelled is tested without stateLock"
				}
				// from the not-yet-cancelled edge to the store (the already-cancelled edge has
				// nothing left to record)
				rr := kit.Reach(f, []kit.Pt{kit.EdgeStart(g.FailEdge())}, kit.Opts{StopAt: kit.InstrSet(setStore)})
				for _, x := range rel {
					if rr.Has(x) && kit.Reach(f, kit.After(x), kit.Opts{}).Has(setStore) {
						bad = "stateLock is released between the test of isCancelled and isCancelled = true: Cancel and Stop can both decide to signal"
					}
				}
			}
			if !li.Holds(setStore, lock, true) {
				bad = "isCancelled is set without stateLock"
			}
			// set on every path that passed the not-complete test before unlocking
			for _, e := range edgesOf(done, false) {
				// (a path on which isCancelled was already true needs no store)
				rr := kit.Reach(f, []kit.Pt{kit.EdgeStart(e)}, kit.Opts{StopAt: kit.InstrSet(setStore), BlockEdge: kit.EdgeSet(edgesOf(cg, true)...)})
				for _, x := range rel {
					if rr.Has(x) {
						bad = "the lock can be released without recording the cancellation"
					}
				}
			}
		}
		r.Check(bad == "", "CHAN-BUDGET", name+"/test-and-set", posOf(p, f.Blocks[0].Instrs[0]), "test of isCancelled and isCancelled = true in one stateLock section", bad)
	}
	// started-flag consistency: Cancel/Stop read isStarted to decide about Started
	_ = isStarted

	// BLOCKING-OP
	for _, name := range []string{"BlockDownloader.Run", "BlockDownloader.cancelAndWaitForComplete"} {
		f := fn(p, r, "BLOCKING-OP", R, name)
		if f == nil {
			continue
		}
		k := newKeyer()
		n := 0
		kit.AllInstrs(f, func(in ssa.Instruction) {
			sel, ok := in.(*ssa.Select)
			if !ok {
				return
			}
			n++
			timer := !sel.Blocking
			for _, st := range sel.States {
				if isCallTo(st.Chan, "time.After") != nil {
					timer = true
				}
			}
			r.Check(timer, "BLOCKING-OP", k.key(name+"/select"), posOf(p, sel), "has a timer arm", "this wait has no timeout arm: if the expected signal never comes Run never returns")
		})
		kit.AllInstrs(f, func(in ssa.Instruction) {
			if u, ok := in.(*ssa.UnOp); ok && u.Op == token.ARROW {
				n++
				r.Bad("BLOCKING-OP", k.key(name+"/recv"), posOf(p, u), "bare receive without timeout")
			}
		})
		if n == 0 {
			r.Unknown("BLOCKING-OP", name+"/select", "-", "no blocking operation found")
		}
		if name == "BlockDownloader.cancelAndWaitForComplete" {
			// bounded loop: the timer arm returns once a counter reaches a constant
			bounded := false
			for _, g := range kit.FindGuards(f, func(c ssa.Value) (bool, bool) {
				b, ok := c.(*ssa.BinOp)
				if !ok || (b.Op != token.GEQ && b.Op != token.GTR) {
					return false, false
				}
				_, isC := kit.ConstInt(b.Y)
				return isC, true
			}) {
				rr := kit.Reach(f, []kit.Pt{kit.EdgeStart(g.PassEdge())}, kit.Opts{StopAt: func(in ssa.Instruction) bool { _, ok := in.(*ssa.Select); return ok }})
				for _, ret := range kit.Returns(f) {
					if rr.Has(ret) {
						bounded = true
					}
				}
			}
			r.Check(bounded, "BLOCKING-OP", name+"/bounded", posOf(p, f.Blocks[0].Instrs[0]), "gives up after a fixed number of timer ticks", "the wait for the cancelled handler is unbounded")
		}
	}

	checkBlockManager(p, r)
	checkCallbackUnlocked(p, r, "CALLBACK-UNLOCKED")
	checkGiveUpOnlyIdle(p, r, "GIVE-UP")
	checkRemoveDownloaderIdentity(p, r, "GIVE-UP")
	checkCompleteCarriesVerdict(p, r, "GIVE-UP")
	checkErrorStopsManager(p, r, "MUST-PASS")

	// LOCKSET
	funcs := pkgFuncs(p, R)
	bm := func(n string) *types.Var { return p.Field(R, "BlockManager", n) }
	gb := []guardedBy{
		{Field: isCancelled, Mutex: "stateLock"}, {Field: isStarted, Mutex: "stateLock"}, {Field: isComplete, Mutex: "stateLock"}, {Field: bdField("canceller"), Mutex: "stateLock"},
		{Field: bm("downloaders"), Mutex: "downloaderLock"},
		{Field: bm("currentHash"), Mutex: "currentLock"}, {Field: bm("currentIsComplete"), Mutex: "currentLock"}, {Field: bm("currentComplete"), Mutex: "currentLock"},
		{Field: bm("requestsClosed"), Mutex: "requestLock"},
	}
	checkGuarded(p, r, "LOCKSET", funcs, gb, nil, func(fn *ssa.Function, a fieldAccess) string {
		id := kit.FuncID(fn)
		switch {
		case id == R+".BlockManager.Stop" && !a.write && onlyFeedsLen(a.in):
			return "len() of the list for a log line; the value does not influence control flow"
		case id == R+".BlockManager.processRequest" && !a.write:
			if fl, _ := kit.FieldOfAddr(a.in.(*ssa.FieldAddr)); fl != nil && fl.Name() == "currentComplete" {
				return "read by processRequest, the only writer of currentComplete, after it stored it under the lock"
			}
		}
		return ""
	})
}

// onlyFeedsLen: the address is loaded only to take len() of the value.
func onlyFeedsLen(in ssa.Instruction) bool {
	fa, ok := in.(*ssa.FieldAddr)
	if !ok {
		return false
	}
	for _, ref := range *fa.Referrers() {
		u, ok := ref.(*ssa.UnOp)
		if !ok {
			return false
		}
		for _, r2 := range *u.Referrers() {
			c, ok := r2.(*ssa.Call)
			if !ok || kit.CallID(c) != "builtin.len" {
				return false
			}
		}
	}
	return true
}

func checkBlockManager(p *load.Program, r *kit.Report) {
	bm := func(n string) *types.Var { return p.Field(R, "BlockManager", n) }
	// onDownloaderCompleted
	if f := fn(p, r, "GUARD-DOM", R, "downloadFinisher.onDownloaderCompleted"); f != nil {
		marks := kit.CallsTo(f, R+".BlockManager.markBlockRequestComplete")
		rm := kit.CallsTo(f, R+".BlockManager.removeDownloader")
		errP := f.Params[len(f.Params)-1]
		nilG := kit.FindGuards(f, func(c ssa.Value) (bool, bool) {
			b, ok := c.(*ssa.BinOp)
			if !ok || (b.Op != token.EQL && b.Op != token.NEQ) || b.X != ssa.Value(errP) || !kit.IsNilConst(b.Y) {
				return false, false
			}
			return true, b.Op == token.EQL
		})
		bad := ""
		if len(marks) == 0 {
			bad = "a finished download never marks its block complete"
		}
		for _, m := range marks {
			if ok, path := kit.DominatedByEdges(f, m, edgesOf(nilG, true), nil, p.Pos); !ok {
				bad = "the block is marked complete although the downloader finished with an error (cancelled, interrupted, failed): " + path
			}
			// hash passed is the downloader's hash
			if c := callOf(m.Common().Args[len(m.Common().Args)-1], 0); c == nil || kit.CallID(c) != R+".BlockDownloader.Hash" {
				bad = "the block marked complete is not the finished downloader's block"
			}
		}
		r.Check(bad == "", "GUARD-DOM", "onDownloaderCompleted/mark-only-on-success", posOf(p, f.Blocks[0].Instrs[0]), "markBlockRequestComplete only behind err == nil", bad)
		bad = ""
		if len(rm) == 0 {
			bad = "finished downloaders are never removed from the list"
		} else {
			pre := kit.Reach(f, []kit.Pt{kit.Entry(f)}, kit.Opts{StopAt: kit.InstrSet(rm[0])})
			for _, ret := range kit.Returns(f) {
				if pre.Has(ret) {
					bad = "a completion path returns without removing the downloader: the list never returns to empty"
				}
			}
		}
		r.Check(bad == "", "MUST-PASS", "onDownloaderCompleted/remove", posOf(p, f.Blocks[0].Instrs[0]), "removeDownloader on every path", bad)
	}
	// markBlockRequestComplete
	if f := fn(p, r, "GUARD-DOM", R, "BlockManager.markBlockRequestComplete"); f != nil {
		cur := bm("currentHash")
		flag := bm("currentIsComplete")
		var closeI ssa.Instruction
		for _, w := range kit.DirectWrites(f) {
			if w.Kind == "close" {
				closeI = w.Instr
			}
		}
		bad := ""
		if closeI == nil {
			bad = "currentComplete is never closed"
		} else {
			eq := kit.FindGuards(f, kit.CallCond(func(c *ssa.Call) bool {
				for _, a := range c.Call.Args {
					if fl, _ := kit.FieldOfAddr(a); fl == cur {
						return true
					}
				}
				return false
			}, load.BitcoinPkg+".Hash32.Equal"))
			fg := boolFieldGuards(f, flag)
			if ok, _ := kit.DominatedByEdges(f, closeI, edgesOf(eq, true), nil, p.Pos); !ok || len(eq) == 0 {
				bad = "a download of another block can complete the current request"
			}
			if ok, _ := kit.DominatedByEdges(f, closeI, edgesOf(fg, false), nil, p.Pos); !ok || len(fg) == 0 {
				bad = "currentComplete can be closed twice (second close panics)"
			}
			set := false
			for _, w := range kit.DirectWrites(f) {
				if w.Field == flag {
					if b, ok := kit.ConstBool(w.Val); ok && b {
						if ok, _ := kit.DominatedByEdges(f, closeI, nil, nil, p.Pos); !ok {
							// store must be on every path to the close or right after
							if kit.Reach(f, []kit.Pt{kit.Entry(f)}, kit.Opts{StopAt: kit.InstrSet(w.Instr)}).Has(closeI) && !kit.Reach(f, kit.After(closeI), kit.Opts{}).Has(w.Instr) {
								continue
							}
						}
						set = true
					}
				}
			}
			if !set {
				bad = "currentIsComplete is not set when the channel is closed"
			}
			li := kit.Lockset(f, nil)
			if !li.Holds(closeI, li.Key(f.Params[0])+"."+curName(p, "currentLock"), true) {
				bad = "the close is not under currentLock"
			}
		}
		r.Check(bad == "", "GUARD-DOM", "markBlockRequestComplete/close-once", posOf(p, f.Blocks[0].Instrs[0]), "close(currentComplete) behind same-hash and not-yet-complete, under currentLock", bad)
	}
	// processRequest
	if f := fn(p, r, "MUST-PASS", R, "BlockManager.processRequest"); f != nil {
		completeF := p.Field(R, "downloadRequest", "complete")
		abortF := p.Field(R, "downloadRequest", "abort")
		var terminals []ssa.Instruction
		for _, w := range kit.DirectWrites(f) {
			switch w.Kind {
			case "send":
				if loadOfField(kit.Strip(w.Instr.(*ssa.Send).Chan), completeF) {
					terminals = append(terminals, w.Instr)
				}
			case "close":
				if loadOfField(kit.Strip(w.Instr.(ssa.CallInstruction).Common().Args[0]), completeF) {
					terminals = append(terminals, w.Instr)
				}
			}
		}
		bad := ""
		pre := kit.Reach(f, []kit.Pt{kit.Entry(f)}, kit.Opts{StopAt: kit.InstrSet(terminals...)})
		for _, ret := range kit.Returns(f) {
			if pre.Has(ret) && pre.ErrClass(ret) != kit.ErrNonNil {
				bad = "processRequest can return nil without any terminal signal on request.complete: the requester waits for ever"
			}
		}
		for _, t := range terminals {
			after := kit.Reach(f, kit.After(t), kit.Opts{})
			for _, t2 := range terminals {
				if after.Has(t2) {
					bad = "two terminal signals for one request (completed and aborted, or twice)"
				}
			}
			for _, ret := range kit.Returns(f) {
				if after.Has(ret) && after.ErrClass(ret) == kit.ErrNonNil {
					bad = "an error is returned after the request was already signalled"
				}
			}
		}
		if len(terminals) < 2 {
			bad = "expected an aborted signal and a completed signal on request.complete"
		}
		r.Check(bad == "", "MUST-PASS", "processRequest/one-terminal-signal", posOf(p, f.Blocks[0].Instrs[0]), "exactly one of {send BlockAborted, close} before a nil return", bad)
		// each terminal preceded by cancelDownloaders on every path from its select arm
		cancels := kit.CallsTo(f, R+".BlockManager.cancelDownloaders")
		var ci []ssa.Instruction
		for _, c := range cancels {
			ci = append(ci, c)
		}
		bad = ""
		kit.AllInstrs(f, func(in ssa.Instruction) {
			sel, ok := in.(*ssa.Select)
			if !ok {
				return
			}
			for idx, st := range sel.States {
				fl, _ := kit.LoadedField(kit.Strip(st.Chan))
				if fl == nil || (fl != abortF && fl.Name() != "currentComplete") {
					continue
				}
				for _, e := range selectArmEdges(sel, idx) {
					rr := kit.Reach(f, []kit.Pt{kit.EdgeStart(e)}, kit.Opts{StopAt: kit.InstrSet(ci...)})
					for _, t := range terminals {
						if rr.Has(t) {
							bad = "on the " + fl.Name() + " arm the request is signalled without cancelling the other downloaders of the block: a second source can deliver and process the block again, out of order"
						}
					}
				}
			}
		})
		if len(cancels) == 0 {
			bad = "downloaders of a finished/aborted request are never cancelled"
		}
		r.Check(bad == "", "MUST-PASS", "processRequest/cancel-before-signal", posOf(p, f.Blocks[0].Instrs[0]), "cancelDownloaders(hash) precedes the terminal signal on both arms", bad)
		// concurrency cap
		bad = ""
		reqs := kit.CallsTo(f, R+".BlockManager.requestBlock")
		capF := bm("concurrentBlockRequests")
		capG := kit.FindGuards(f, func(c ssa.Value) (bool, bool) {
			b, ok := c.(*ssa.BinOp)
			if !ok || !loadOfField(b.Y, capF) {
				return false, false
			}
			cl := isCallTo(b.X, "builtin.len")
			if cl == nil || callOf(cl.Call.Args[0], 0) == nil || kit.CallID(callOf(cl.Call.Args[0], 0)) != R+".BlockManager.Downloaders" {
				// the count may have been incremented/phi'd: accept value derived from len(Downloaders())
				if !kit.DependsOn(b.X, func(v ssa.Value) bool {
					c2, ok := v.(*ssa.Call)
					return ok && kit.CallID(c2) == R+".BlockManager.Downloaders"
				}) {
					return false, false
				}
			}
			switch b.Op {
			case token.LSS:
				return true, true
			case token.GEQ:
				return true, false
			}
			return false, false
		})
		inLoop := 0
		for _, rq := range reqs {
			if len(cycleOf(rq.Block())) == 0 {
				continue // the initial request
			}
			inLoop++
			if ok, _ := kit.DominatedByEdges(f, rq, edgesOf(capG, true), nil, p.Pos); !ok || len(capG) == 0 {
				bad = "a further download of the same block can be started without testing the configured concurrency limit"
			}
		}
		if inLoop == 0 {
			bad = "no retry request in the poll loop"
		}
		r.Check(bad == "", "GUARD-DOM", "processRequest/concurrency-cap", posOf(p, f.Blocks[0].Instrs[0]), "requestBlock in the poll arm only behind len(Downloaders(hash)) < concurrentBlockRequests", bad)
	}
	// SNAPSHOT
	for _, name := range []string{"BlockManager.cancelDownloaders", "BlockManager.Stop"} {
		f := fn(p, r, "SNAPSHOT", R, name)
		if f == nil {
			continue
		}
		dl := bm("downloaders")
		bad := ""
		cs := kit.CallsTo(f, R+".BlockDownloader.Cancel")
		if len(cs) == 0 {
			bad = "no downloader is cancelled"
		}
		li := kit.Lockset(f, nil)
		for _, c := range cs {
			// receiver: field downloader of element X[i], X a MakeSlice filled by copy(X, m.downloaders) under the lock
			ok := false
			kit.DependsOn(c.Common().Args[0], func(v ssa.Value) bool {
				ia, isIA := v.(*ssa.IndexAddr)
				if !isIA {
					return false
				}
				ms, isMS := ia.X.(*ssa.MakeSlice)
				if !isMS {
					return false
				}
				for _, ref := range *ms.Referrers() {
					if cp, isCall := ref.(*ssa.Call); isCall && kit.CallID(cp) == "builtin.copy" && cp.Call.Args[0] == ssa.Value(ms) && loadOfField(cp.Call.Args[1], dl) {
						if li.Holds(cp, li.Key(f.Params[0])+"."+curName(p, "downloaderLock"), false) {
							ok = true
						}
					}
				}
				return ok
			})
			if !ok {
				bad = "the downloaders cancelled are not taken from a snapshot copied under downloaderLock: completions remove entries from the live list while it is walked, so a downloader can be skipped and stays parked in Run"
			}
		}
		r.Check(bad == "", "SNAPSHOT", name+"/snapshot", posOf(p, f.Blocks[0].Instrs[0]), "iterates a copy made under the lock", bad)
	}
}
