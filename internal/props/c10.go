package props

import (
	"go/token"
	"go/types"
	"strings"

	"golang.org/x/tools/go/ssa"

	"verif/internal/kit"
	"verif/internal/load"
)

func init() { register("C10", checkC10) }

// orderedBehindSuccess: calls (by ID, in this order) in f; each later call is dominated by the
// nil-error edge of the previous one.
func orderedBehindSuccess(p *load.Program, r *kit.Report, rule string, f *ssa.Function, short string, ids ...string) {
	var prev *ssa.Call
	for i, id := range ids {
		cs := kit.CallsTo(f, id)
		key := short + "/order:" + kit.ShortID(id)
		if len(cs) == 0 {
			r.Bad(rule, key, posOf(p, f.Blocks[0].Instrs[0]), "%s is not called by %s", kit.ShortID(id), short)
			return
		}
		call, _ := cs[0].(*ssa.Call)
		if call == nil {
			r.Unknown(rule, key, posOf(p, cs[0]), "not a plain call")
			return
		}
		if i > 0 {
			eg := errNilGuards(f, prev)
			ok, path := kit.DominatedByEdges(f, call, edgesOf(eg, true), nil, p.Pos)
			if !(ok && len(eg) > 0) {
				// the failure may be parked in a variable that every later step tests (`if acc == nil {
				// acc = step() }`): decided on the flow — the step is not reachable around the previous
				// one, nor after it with its error non-nil
				if errV := errValueOf(prev); errV != nil {
					var from ssa.Instruction = prev
					if ex, isEx := errV.(*ssa.Extract); isEx {
						from = ex
					}
					around := kit.Reach(f, []kit.Pt{kit.Entry(f)}, kit.Opts{StopAt: kit.InstrSet(prev)})
					failed := kit.Reach(f, kit.After(from), kit.Opts{AssumeNonNil: []ssa.Value{errV}})
					switch {
					case around.Has(call):
						path = around.PathTo(call, p.Pos)
					case failed.Has(call):
						path = failed.PathTo(call, p.Pos)
					default:
						ok, eg = true, append(eg, kit.Guard{})
					}
				}
			}
			r.Check(ok && len(eg) > 0, rule, key, posOf(p, call), "runs only after "+kit.ShortID(ids[i-1])+" succeeded",
				kit.ShortID(id)+" can run although "+kit.ShortID(ids[i-1])+" failed or was skipped: "+path)
		} else {
			r.OKTrivial(rule, key, posOf(p, call), "first step")
		}
		prev = call
	}
}

// loopBodyMustPass: in the range loop over slice-valued `over` (predicate on the ranged value) of
// f, every path from the body entry to the next iteration passes one of `through`, except through
// the allowed skip edges.
func loopBodyEntry(f *ssa.Function, inBody ssa.Instruction) (*ssa.BasicBlock, *ssa.BasicBlock) {
	// innermost cycle header of inBody: the block with a rangeindex phi that dominates inBody's block
	b := inBody.Block()
	cyc := cycleOf(b)
	var header *ssa.BasicBlock
	for x := range cyc {
		if !x.Dominates(b) {
			continue
		}
		// a loop header has a back edge from a block it dominates
		back := false
		for _, pr := range x.Preds {
			if x.Dominates(pr) {
				back = true
			}
		}
		if !back {
			continue
		}
		if header == nil || header.Dominates(x) {
			header = x
		}
	}
	if header == nil {
		return nil, nil
	}
	// body entry: successor of header inside the cycle
	for _, s := range header.Succs {
		if cyc[s] && s != header && (s == b || s.Dominates(b) || reachBlocks(s, false)[b]) {
			return header, s
		}
	}
	return header, nil
}

func checkC10(p *load.Program, r *kit.Report) {
	importRules(p, r, "C11", "the branch Clean consolidates takes the place of the oldest branch: with another parent (or first header) the new main branch still answers hash lookups through the displaced chain's map, and the displaced chain can no longer be extended", 1, nil, "CONSOLIDATE-IDENTITY")
	importRules(p, r, "C09", "history that Clean drops from memory stays retrievable by hash through the repository's height map: ProcessHeader must have entered every accepted hash under its true height", 2,
		func(o *kit.Obligation) bool {
			return strings.Contains(o.Construct, "Repository.ProcessHeader/label:heights")
		}, "HEIGHT-LABEL")
	importRules(p, r, "C09", "after Clean the last header file overlaps what is still in memory: a range query must take each height from memory first and from the file only where memory has no answer, or a later reorganisation is answered from the stale part of the file", 4, nil, "LOOKUP-SHAPE")
	importRules(p, r, "C09", "Clean rewrites the header files: anything the lookups cache from them must be refreshed", 1, nil, "NEW-STATE")
	importRules(p, r, "C11", "clean writes the best chain and the branches to storage and then drops them from memory: history stays retrievable only if the files have the layout the readers expect", 2,
		func(o *kit.Obligation) bool {
			return o.Rule != "MERGE-SHAPE" || strings.HasPrefix(o.Construct, "Branch.Save")
		}, "MAIN-FILE-SHAPE", "MERGE-SHAPE")
	importRules(p, r, "C11", "best-chain history that Clean drops from memory stays retrievable by hash only if its hashes are in the height map: the restore paths (load, migrate) must have registered them", 3, nil, "RESTORE-REGISTERS")
	importRules(p, r, "C09", "the best-chain status of a header must not depend on whether Clean has pruned its height from memory: on the height-map arm the flag is a comparison with the best chain's header at that height, whatever the height", 4, nil, "FLAG-RULE")
	r.NotDecided = "the statement itself (all observables equal before/after Clean for every tree): consolidation correctness for three or more generations as values, file-boundary and prune-depth arithmetic over histories. Decided are ordering, coverage-of-every-branch, label and all-or-nothing facts that are necessary for it."
	r.Rule("ORDER", "clean runs consolidate → saveMainBranch → prune → saveInvalidHashes, each behind the previous nil-error edge; in prune every branch is saved before it is pruned or dropped and a Save error returns before repo.branches is replaced; nothing is added to a branch and no tip is stored after the automatic clean in ProcessHeader", 6)
	r.Rule("NO-EFFECT-BEFORE-ERROR", "consolidate replaces repo.branches and repo.longest only after its last error return", 3)
	r.Rule("COVER-ALL", "consolidate re-attaches (Connect) every branch other than the old root and the old tip, searching the list under construction for the parent; prune lowers the prune height to the fork point of every side branch (no branch is skipped)", 2)
	r.Rule("HEIGHT-LABEL", "labels written by Consolidate/Truncate/Connect equal positional heights (shared with C09)", 3)
	r.Rule("GUARD-DOM", "Prune(n) is called with n = pruneHeight - PrunedLowestHeight() behind PrunedLowestHeight() < pruneHeight; the automatic clean runs only when Height()%10000 == 0 on the best-branch arm; NewRepository registers the genesis hash at height 0 on every path", 3)

	if f := fn(p, r, "ORDER", H, "Repository.clean"); f != nil {
		orderedBehindSuccess(p, r, "ORDER", f, "clean", H+".Repository.consolidate", H+".Repository.saveMainBranch", H+".Repository.prune", H+".saveInvalidHashes")
	}
	branchesF := p.Field(H, "Repository", "branches")
	longestF := p.Field(H, "Repository", "longest")

	// consolidate: repository fields only
	if f := fn(p, r, "NO-EFFECT-BEFORE-ERROR", H, "Repository.consolidate"); f != nil {
		owners := map[*types.Var]string{}
		m := kit.ComputeMutators(pkgFuncs(p, H), func(w kit.Write) bool {
			if w.Field == nil {
				return false
			}
			o, ok := owners[w.Field]
			if !ok {
				o = ownerStruct(p, w.Field)
				owners[w.Field] = o
			}
			return o == "Repository" && w.Field.Pkg().Path() == H
		})
		noEffectBeforeError(p, r, "NO-EFFECT-BEFORE-ERROR", f, m, "consolidate")
		// both fields replaced together: every nil return after a store to one passes the store to the other
		var sb, sl ssa.Instruction
		for _, w := range kit.DirectWrites(f) {
			if w.Field == branchesF && w.Kind == "store" {
				sb = w.Instr
			}
			if w.Field == longestF {
				sl = w.Instr
			}
		}
		bad := ""
		if sb == nil || sl == nil {
			bad = "consolidate does not install both the new branch list and the new tip branch"
		} else {
			for _, pair := range [][2]ssa.Instruction{{sb, sl}, {sl, sb}} {
				reach := kit.Reach(f, kit.After(pair[0]), kit.Opts{StopAt: kit.InstrSet(pair[1])})
				back := kit.Reach(f, []kit.Pt{kit.Entry(f)}, kit.Opts{StopAt: kit.InstrSet(pair[0])})
				for _, ret := range kit.Returns(f) {
					if reach.Has(ret) && !back.Has(pair[1]) {
						bad = "repo.branches and repo.longest are not replaced together"
					}
				}
			}
		}
		r.Check(bad == "", "NO-EFFECT-BEFORE-ERROR", "consolidate/replace-together", posOf(p, f.Blocks[0].Instrs[0]), "branches and longest are stored together at the end", bad)

		// COVER-ALL: Connect for every other branch
		conn := kit.CallsTo(f, H+".Branch.Connect")
		if len(conn) != 1 {
			r.Bad("COVER-ALL", "consolidate/reconnect-every-branch", posOf(p, f.Blocks[0].Instrs[0]), "expected one Connect call in the re-attach loop, found %d", len(conn))
		} else {
			header, body := loopBodyEntry(f, conn[0])
			if header == nil || body == nil {
				r.Unknown("COVER-ALL", "consolidate/reconnect-every-branch", posOf(p, conn[0]), "Connect is not inside a loop")
			} else {
				elem := recvPtr(conn[0].Common().Args[0])
				// allowed skips: elem == oldestBranch / elem == longestBranch
				skips := kit.FindGuards(f, func(c ssa.Value) (bool, bool) {
					// Branches{old root, old tip}.Includes(elem)
					if call, ok := c.(*ssa.Call); ok && kit.CallID(call) == H+".Branches.Includes" && len(call.Call.Args) == 2 && call.Call.Args[1] == elem {
						els := sliceLiteralElems(call.Call.Args[0])
						if len(els) == 0 {
							return false, false
						}
						for _, e := range els {
							if !loadOfField(e, longestF) && !isOldestPhi(e) {
								return false, false
							}
						}
						return true, true
					}
					b, ok := c.(*ssa.BinOp)
					if !ok || (b.Op != token.EQL && b.Op != token.NEQ) {
						return false, false
					}
					if b.X != elem && b.Y != elem {
						return false, false
					}
					other := b.X
					if b.X == elem {
						other = b.Y
					}
					// other must be the old root (a *Branch phi/local chosen from repo.branches by the
					// parentHeight scan) or the old tip (load of repo.longest)
					if loadOfField(other, longestF) || isOldestPhi(other) {
						return true, b.Op == token.EQL
					}
					return false, false
				})
				reach := kit.Reach(f, []kit.Pt{{B: body, I: 0}}, kit.Opts{StopAt: kit.InstrSet(conn[0]), BlockEdge: kit.EdgeSet(edgesOf(skips, true)...)})
				bad := ""
				if reach.Has(header.Instrs[0]) {
					bad = "a branch other than the old root and the old tip can be skipped without Connect: its headers drop out of the tree after Clean (" + reach.PathTo(header.Instrs[0], p.Pos) + ")"
				}
				// a skip goes on with the next branch: it must not end the loop (`break` for `continue`)
				if bad == "" && len(skips) >= 1 {
					var starts []kit.Pt
					for _, e := range edgesOf(skips, true) {
						starts = append(starts, kit.EdgeStart(e))
					}
					out := kit.Reach(f, starts, kit.Opts{StopAt: func(in ssa.Instruction) bool { return in == header.Instrs[0] || in == ssa.Instruction(conn[0]) }})
					for _, ret := range kit.Returns(f) {
						if out.Has(ret) {
							bad = "skipping the old root / old tip ends the loop instead of going on with the next branch (" + out.PathTo(ret, p.Pos) + "): every branch that sorts after it is never reconnected and drops out of the tree and of the saved index"
						}
					}
				}
				r.Check(bad == "" && len(skips) >= 1, "COVER-ALL", "consolidate/reconnect-every-branch", posOf(p, conn[0]), "every branch except old root and old tip reaches Connect", bad)

				// the list Connect searches for the parent is the list being built: a branch whose
				// parent is another side branch finds it only there (the list is sorted parents first)
				{
					cc := conn[0].Common()
					list := kit.Strip(cc.Args[len(cc.Args)-1])
					ph, isPhi := list.(*ssa.Phi)
					bad := ""
					grows := func(v ssa.Value) bool {
						return kit.DependsOn(v, func(x ssa.Value) bool {
							c, ok := x.(*ssa.Call)
							if !ok || len(c.Call.Args) != 2 {
								return false
							}
							if b, ok := c.Call.Value.(*ssa.Builtin); !ok || b.Name() != "append" {
								return false
							}
							if kit.Strip(c.Call.Args[0]) != list {
								return false
							}
							for _, e := range sliceLiteralElems(c.Call.Args[1]) {
								if ex, ok := kit.Provenance(e).(*ssa.Extract); ok && ex.Index == 0 && ex.Tuple == conn[0].Value() {
									return true
								}
							}
							return false
						})
					}
					switch {
					case !isPhi:
						bad = "Connect searches a fixed list (" + describe(list) + "), not the list the reconnected branches are added to: a branch whose parent is another side branch is not connected and drops out of the tree"
					default:
						found := false
						for _, e := range ph.Edges {
							if grows(e) {
								found = true
							}
						}
						if !found {
							bad = "the list Connect searches does not grow by the branch just connected: a branch whose parent is another side branch is not connected and drops out of the tree"
						} else if sb != nil {
							if st, ok := sb.(*ssa.Store); ok && !kit.DependsOn(st.Val, func(x ssa.Value) bool { return x == ssa.Value(ph) }) {
								bad = "the list stored as repo.branches is not the list the reconnected branches were added to"
							}
						}
					}
					r.Check(bad == "", "COVER-ALL", "consolidate/connect-searches-growing-list", posOf(p, conn[0]), "Connect searches the list under construction, which becomes repo.branches", bad)
				}
			}
		}
	}

	// prune
	if f := fn(p, r, "ORDER", H, "Repository.prune"); f != nil {
		saves := kit.CallsTo(f, H+".Branch.Save")
		prunes := kit.CallsTo(f, H+".Branch.Prune")
		var storeB ssa.Instruction
		for _, w := range kit.DirectWrites(f) {
			if w.Field == branchesF && w.Kind == "store" {
				storeB = w.Instr
			}
		}
		bad := ""
		if len(saves) != 1 || len(prunes) != 1 || storeB == nil {
			bad = "expected one Save, one Prune and one store of repo.branches"
		} else {
			save := saves[0].(*ssa.Call)
			eg := errNilGuards(f, save)
			if ok, _ := kit.DominatedByEdges(f, prunes[0], edgesOf(eg, true), nil, p.Pos); !ok || len(eg) == 0 {
				bad = "a branch can be pruned although saving it failed or was skipped: history dropped from memory would not be retrievable"
			}
			// same element
			if recvPtr(save.Call.Args[0]) != recvPtr(prunes[0].Common().Args[0]) {
				bad = "the branch pruned is not the branch saved"
			}
			// the drop (continue) also after save: the body entry reaches header only via Save
			header, body := loopBodyEntry(f, save)
			if header != nil && body != nil {
				reach := kit.Reach(f, []kit.Pt{{B: body, I: 0}}, kit.Opts{StopAt: kit.InstrSet(save)})
				if reach.Has(header.Instrs[0]) {
					bad = "a branch can be dropped from memory without being saved"
				}
			}
			// Save error returns before branches replaced
			for _, e := range edgesOf(eg, false) {
				if kit.Reach(f, []kit.Pt{kit.EdgeStart(e)}, kit.Opts{}).Has(storeB) {
					bad = "repo.branches is replaced although a Save failed"
				}
			}
		}
		r.Check(bad == "", "ORDER", "prune/save-before-drop", posOf(p, f.Blocks[0].Instrs[0]), "Save precedes Prune/drop of the same branch; Save error returns first", bad)

		// COVER-ALL: prune height lowered for every side branch
		lin := kit.NewLin(f)
		phs := kit.CallsTo(f, H+".Branch.ParentHeight")
		bad = ""
		if len(phs) != 1 {
			bad = "prune height is not lowered to the fork point of the side branches"
		} else {
			header, body := loopBodyEntry(f, phs[0])
			cmp := kit.FindGuards(f, func(c ssa.Value) (bool, bool) {
				b, ok := c.(*ssa.BinOp)
				if !ok || (b.Op != token.LSS && b.Op != token.GTR && b.Op != token.LEQ && b.Op != token.GEQ) {
					return false, false
				}
				return b.X == ssa.Value(phs[0].(*ssa.Call)) || b.Y == ssa.Value(phs[0].(*ssa.Call)), true
			})
			if header == nil || body == nil || len(cmp) != 1 {
				bad = "no comparison of ParentHeight() with the prune height in a loop over the branches"
			} else {
				reach := kit.Reach(f, []kit.Pt{{B: body, I: 0}}, kit.Opts{StopAt: kit.InstrSet(cmp[0].If)})
				if reach.Has(header.Instrs[0]) {
					bad = "a side branch can be skipped when lowering the prune height: headers it forks from may be pruned and the branch dropped"
				}
				// ranged slice is repo.branches[1:]
			}
		}
		r.Check(bad == "", "COVER-ALL", "prune/height-covers-every-side-branch", posOf(p, f.Blocks[0].Instrs[0]), "pruneHeight = min(height-depth, every side branch's ParentHeight())", bad)

		// GUARD-DOM: Prune argument
		bad = ""
		if len(prunes) == 1 {
			pc := prunes[0].(*ssa.Call)
			arg := lin.Of(pc.Call.Args[1])
			// find pruneHeight value: arg + PrunedLowestHeight(elem)
			var plh kit.Lin
			for _, c := range kit.CallsTo(f, H+".Branch.PrunedLowestHeight") {
				if recvPtr(c.Common().Args[0]) == recvPtr(pc.Call.Args[0]) {
					plh = lin.Of(c.(*ssa.Call))
				}
			}
			if !plh.OK {
				// no call of the getter (its body written out): PrunedLowestHeight() is parentHeight + offset
				phF, offF := p.Field(H, "Branch", "parentHeight"), p.Field(H, "Branch", "offset")
				if phF != nil && offF != nil {
					recv := recvPtr(pc.Call.Args[0])
					plh = lin.FieldAt(recv, phF, pc).Add(lin.FieldAt(recv, offF, pc))
				}
			}
			ph := arg.Add(plh)
			gs := kit.FindGuards(f, func(c ssa.Value) (bool, bool) { return cmpMatches(lin, c, ph.Sub(plh), 1) })
			ownTerm := ""
			if ph.OK {
				pre := "f:" + lin.Key(recvPtr(pc.Call.Args[0])) + "."
				for a, c := range ph.T {
					if c != 0 && strings.HasPrefix(a, pre) {
						ownTerm = a
					}
				}
			}
			if !arg.OK || !plh.OK {
				bad = "Prune count not normalisable"
			} else if ownTerm != "" {
				bad = "Prune(" + arg.String() + ") is not pruneHeight − PrunedLowestHeight() (= parentHeight + offset): count + lowest height = " + ph.String() + " still depends on the branch's own " + ownTerm + ", so a branch that was pruned before loses the wrong number of headers"
			} else if ok, _ := kit.DominatedByEdges(f, pc, edgesOf(gs, true), nil, p.Pos); !ok {
				bad = "Prune(" + arg.String() + ") is not behind PrunedLowestHeight() < pruneHeight"
			}
		}
		r.Check(bad == "", "GUARD-DOM", "prune/count", posOf(p, f.Blocks[0].Instrs[0]), "Prune(pruneHeight - PrunedLowestHeight()) behind PrunedLowestHeight() < pruneHeight", bad)
	}

	// labels of the consolidation helpers
	if c := newLabelCtx(p, r, "HEIGHT-LABEL"); c != nil {
		for _, n := range []string{"Branch.Consolidate", "Branch.Truncate", "Branch.Connect"} {
			if f := fn(p, r, "HEIGHT-LABEL", H, n); f != nil {
				if c.checkFunc(f) == 0 {
					// labelling moved into a helper: look one level down
					found := 0
					kit.AllInstrs(f, func(in ssa.Instruction) {
						if call, ok := in.(*ssa.Call); ok {
							if sc := kit.StaticCallee(call); sc != nil && sc.Blocks != nil && sc.Pkg != nil && sc.Pkg.Pkg.Path() == H && sc.Name() != "add" {
								found += c.checkFunc(sc)
							}
						}
					})
					if found == 0 {
						r.Unknown("HEIGHT-LABEL", n+"/labels", posOf(p, f.Blocks[0].Instrs[0]), "no labelling event found")
					}
				}
			}
		}
	}

	// automatic clean
	if ph := fn(p, r, "GUARD-DOM", H, "Repository.ProcessHeader"); ph != nil {
		cl := kit.CallsTo(ph, H+".Repository.clean")
		bad := ""
		if len(cl) == 0 {
			bad = "no automatic clean call"
		}
		gs := kit.FindGuards(ph, func(c ssa.Value) (bool, bool) {
			b, ok := c.(*ssa.BinOp)
			if !ok || (b.Op != token.EQL && b.Op != token.NEQ) {
				return false, false
			}
			rem, ok := b.X.(*ssa.BinOp)
			if !ok || rem.Op != token.REM {
				return false, false
			}
			if k, ok := kit.ConstInt(rem.Y); !ok || k != 10000 {
				return false, false
			}
			if z, ok := kit.ConstInt(b.Y); !ok || z != 0 {
				return false, false
			}
			return true, b.Op == token.EQL
		})
		for _, c := range cl {
			if ok, _ := kit.DominatedByEdges(ph, c, edgesOf(gs, true), nil, p.Pos); !ok || len(gs) == 0 {
				bad = "automatic clean is not confined to Height()%10000 == 0"
			}
		}
		r.Check(bad == "", "GUARD-DOM", "ProcessHeader/auto-clean", posOf(p, ph.Blocks[0].Instrs[0]), "clean only every 10000 heights", bad)
		// clean rebuilds every branch as a new object and replaces repo.branches/repo.longest: the
		// *Branch values ProcessHeader looked up before it are stale afterwards, so nothing may be
		// added to a branch, and the tip may not be stored, after the automatic clean
		if len(cl) > 0 {
			badA := ""
			for _, c := range cl {
				rr := kit.Reach(ph, kit.After(c.(ssa.Instruction)), kit.Opts{})
				kit.AllInstrs(ph, func(in ssa.Instruction) {
					if !rr.Has(in) || badA != "" {
						return
					}
					if cc, ok := in.(ssa.CallInstruction); ok {
						switch kit.CallID(cc) {
						case H + ".Branch.Add", H + ".NewBranch":
							badA = kit.ShortID(kit.CallID(cc)) + " at " + posOf(p, in) + " runs after the automatic clean: the header is added to a branch object that clean has just replaced (the tip stays one short and the next header is an orphan)"
						}
					}
				})
				for _, w := range kit.DirectWrites(ph) {
					if (w.Field == longestF || w.Field == branchesF) && rr.Has(w.Instr) && badA == "" {
						badA = "repo." + w.Field.Name() + " is stored at " + posOf(p, w.Instr) + " after the automatic clean replaced it"
					}
				}
			}
			r.Check(badA == "", "ORDER", "ProcessHeader/auto-clean-last", posOf(p, cl[0]), "no branch mutation or tip store follows the automatic clean", badA)
		}
	}
	checkGenesisSeed(p, r, "GUARD-DOM")
}

// checkGenesisSeed: NewRepository registers the genesis hash at height 0 in the long-lived height
// map on every path (for every network): once the first header is pruned from memory that entry is
// the only way a by-hash lookup finds it.
func checkGenesisSeed(p *load.Program, r *kit.Report, rule string) {
	f := fn(p, r, rule, H, "NewRepository")
	if f == nil {
		return
	}
	heightsF := p.Field(H, "Repository", "heights")
	var seeds []ssa.Instruction
	for _, w := range kit.DirectWrites(f) {
		if w.Field == heightsF && w.Kind == "mapupdate" {
			if k, ok := kit.ConstInt(w.Val); ok && k == 0 {
				seeds = append(seeds, w.Instr)
			}
		}
	}
	bad := ""
	if len(seeds) == 0 {
		bad = "NewRepository does not register the genesis hash at height 0"
	} else {
		rr := kit.Reach(f, []kit.Pt{kit.Entry(f)}, kit.Opts{StopAt: kit.InstrSet(seeds...)})
		for _, ret := range kit.Returns(f) {
			if rr.Has(ret) {
				bad = "a repository can be constructed without the genesis hash in the height map (" + rr.PathTo(ret, p.Pos) + "): on that configuration the first header is unknown by hash once it is pruned from memory"
			}
		}
	}
	r.Check(bad == "", rule, "NewRepository/genesis-height-registered", posOf(p, f.Blocks[0].Instrs[0]), "heights[genesis] = 0 on every path", bad)
}

// isOldestPhi: the value chosen by the oldest-branch scan (a *Branch phi / local assigned from
// range elements).
func isOldestPhi(v ssa.Value) bool {
	v = kit.Strip(v)
	if ph, ok := v.(*ssa.Phi); ok {
		for _, e := range ph.Edges {
			if kit.IsNilConst(e) {
				return true
			}
			if p2, ok := e.(*ssa.Phi); ok && isOldestPhi(p2) && p2 != ph {
				return true
			}
		}
	}
	return false
}

// sliceLiteralElems: v is a slice literal `T{e0, e1, …}` built in this function (an array
// allocation, one store per index, sliced whole); returns the elements, nil when v is anything else
// or the array is written elsewhere.
func sliceLiteralElems(v ssa.Value) []ssa.Value {
	sl, ok := kit.Strip(v).(*ssa.Slice)
	if !ok || sl.Low != nil || sl.High != nil {
		return nil
	}
	al, ok := sl.X.(*ssa.Alloc)
	if !ok || al.Referrers() == nil {
		return nil
	}
	var out []ssa.Value
	for _, ref := range *al.Referrers() {
		switch x := ref.(type) {
		case *ssa.Slice:
			if x != sl {
				return nil
			}
		case *ssa.IndexAddr:
			if _, isConst := kit.ConstInt(x.Index); !isConst || x.Referrers() == nil || len(*x.Referrers()) != 1 {
				return nil
			}
			st, ok := (*x.Referrers())[0].(*ssa.Store)
			if !ok || st.Addr != ssa.Value(x) {
				return nil
			}
			out = append(out, st.Val)
		case *ssa.DebugRef:
		default:
			return nil
		}
	}
	return out
}
