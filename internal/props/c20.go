package props

import (
	"fmt"
	"go/token"
	"go/types"
	"strings"

	"golang.org/x/tools/go/ssa"

	"verif/internal/kit"
	"verif/internal/load"
)

func init() { register("C20", checkC20) }

func checkC20(p *load.Program, r *kit.Report) {
	r.Rule("SWAP-SHAPE", "PeerList.Swap exchanges the two slice elements, it does not write through them", 1)
	checkSwapSwapsElements(p, r, "SWAP-SHAPE")
	r.Rule("CLEAR-RESETS", "Clear resets list and lookup on every path, whatever the removal of the stored file answers", 2)
	checkClearAlwaysResets(p, r, "CLEAR-RESETS")
	r.NotDecided = "score sums over histories, the shuffle, concurrent histories beyond the atomicity of each method, byte-equality of a round trip."
	r.Rule("LOCKSET", "lookup/list/lastSaved and the Score/LastTime of stored peers are accessed only under the repository lock (constructor and LoadSeeds, which runs before any thread exists, exempt)", 15)
	r.Rule("PERSIST-UNDER-LOCK", "StoragePeerRepository writes the peers file only while it holds the repository lock that it serialised the list under: two Saves (or a Save and updates) cannot leave an older snapshot on disk after a newer one", 1)
	checkPersistUnderLock(p, r, "PERSIST-UNDER-LOCK", R, "StoragePeerRepository", func(c ssa.CallInstruction) string {
		cc, ok := c.(*ssa.Call)
		if ok && cc.Call.IsInvoke() && cc.Call.Method.Name() == "Write" && cc.Call.Method.Pkg() != nil && cc.Call.Method.Pkg().Path() == load.StoragePkg {
			return "the peers file"
		}
		return ""
	}, 1)
	r.Rule("PAIRED-UPDATE", "every append to list is followed on the same path by lookup[address] = the same peer; in Add both are behind the lookup-miss edge", 3)
	r.Rule("SCORE-SHAPE", "UpdateScore stores Score + delta into the looked-up peer; Get keeps a peer exactly when Score >= minScore and (maxScore == -1 or Score <= maxScore)", 2)
	r.Rule("NEW-STATE", "Get/Count answer from list/lookup and the peers' Score/LastTime only; a field added since the reference tree that they read is rewritten after every change of that data", 1)
	r.Rule("CODEC-SYM", "Peer.write + Save's header and readPeer + Load's header agree item by item; readPeer accepts every address length the writer emits (0 included)", 3)
	r.Rule("ALLOC-BOUND", "sizes decoded from the peers file (count, address size) never size an allocation without an upper bound derived from the data present and a non-negative test", 1)
	r.Rule("MUST-PASS", "Load keeps every fully decoded peer: a decoding error ends the loop without an error return; Save writes on every successful path unless a dirty flag that every mutator sets says nothing changed", 2)

	sp := func(n string) *types.Var { return p.Field(R, "StoragePeerRepository", n) }
	pf := func(n string) *types.Var { return p.Field(R, "Peer", n) }
	listF, lookupF := sp("list"), sp("lookup")
	if listF == nil || lookupF == nil || pf("Score") == nil {
		r.Unknown("LOCKSET", "anchor:StoragePeerRepository", "-", "fields not found")
		return
	}
	repoT := p.Named(R, "StoragePeerRepository")
	var methods []*ssa.Function
	ms := p.SSA.MethodSets.MethodSet(types.NewPointer(repoT))
	for i := 0; i < ms.Len(); i++ {
		if f := p.SSA.MethodValue(ms.At(i)); f != nil && f.Blocks != nil && !p.Skipped(f) {
			methods = append(methods, f)
		}
	}
	if f := p.Func(R, "NewPeerRepository"); f != nil {
		methods = append(methods, f)
	}
	{
		var readers []*ssa.Function
		for _, n := range []string{"StoragePeerRepository.Get", "StoragePeerRepository.Count"} {
			if f := p.Func(R, n); f != nil {
				readers = append(readers, f)
			}
		}
		under := map[*types.Var]bool{listF: true, lookupF: true, pf("Score"): true, pf("LastTime"): true}
		checkNewState(p, r, "NEW-STATE", "StoragePeerRepository/derived-state", R, "StoragePeerRepository", readers, pkgFuncs(p, R), func(g *ssa.Function) []ssa.Instruction {
			var out []ssa.Instruction
			if fname(g) == "NewPeerRepository" {
				return nil
			}
			for _, w := range kit.DirectWrites(g) {
				if under[w.Field] && !kit.IsFresh(w.Base) {
					out = append(out, w.Instr)
				}
			}
			return out
		})
	}
	checkGuarded(p, r, "LOCKSET", methods, []guardedBy{
		{Field: listF, Mutex: "lock"}, {Field: lookupF, Mutex: "lock"}, {Field: sp("lastSaved"), Mutex: "lock"},
		{Field: pf("Score"), Mutex: "lock", ByRecv: true}, {Field: pf("LastTime"), Mutex: "lock", ByRecv: true},
	}, nil, func(f *ssa.Function, a fieldAccess) string {
		if fname(f) == "LoadSeeds" {
			return "LoadSeeds is outside the property's operation alphabet and runs before any thread is started"
		}
		return ""
	})

	// one critical section per method: list and lookup are brought from one consistent state to the
	// next without releasing the lock in between (Load clears both, then refills the list: with the
	// lock dropped around the storage read an Add lands in both, and the list-only reset that follows
	// leaves its address in lookup alone — refused by Add, never returned by Get, lost on Save)
	{
		kk := newKeyer()
		nSec := 0
		for _, f := range pkgFuncs(p, R) {
			if f.Signature.Recv() == nil || !strings.HasSuffix(f.Signature.Recv().Type().String(), ".StoragePeerRepository") {
				continue
			}
			var ws []ssa.Instruction
			for _, w := range kit.DirectWrites(f) {
				if w.Field == listF || w.Field == lookupF {
					ws = append(ws, w.Instr)
				}
			}
			if len(ws) < 2 {
				continue
			}
			nSec++
			li := kit.Lockset(f, nil)
			key := li.Key(f.Params[0]) + ".lock"
			bad := ""
			for _, rel := range lockReleases(f, key) {
				before := false
				for _, w := range ws {
					if kit.Reach(f, kit.After(w), kit.Opts{}).Has(rel) {
						before = true
					}
				}
				if !before {
					continue
				}
				after := kit.Reach(f, kit.After(rel), kit.Opts{})
				for _, w := range ws {
					if after.Has(w) && bad == "" {
						bad = "the repository lock is released at " + posOf(p, rel) + " between two updates of list/lookup (next one at " + posOf(p, w) + "): a concurrent Add in between is half undone by the later update (its address stays in lookup but not in list)"
					}
				}
			}
			r.Check(bad == "", "PAIRED-UPDATE", kk.key(kit.ShortID(kit.FuncID(f))+"/one-critical-section"), posOf(p, f.Blocks[0].Instrs[0]), "all updates of list/lookup happen in one critical section", bad)
		}
		if nSec == 0 {
			r.Unknown("PAIRED-UPDATE", "StoragePeerRepository/one-critical-section", "-", "no method with several list/lookup updates found")
		}
	}
	// PAIRED-UPDATE
	for _, f := range methods {
		for _, w := range kit.DirectWrites(f) {
			if w.Field != listF || w.Kind != "store" {
				continue
			}
			ap := isCallTo(w.Val, "builtin.append")
			if ap == nil {
				// a peer stored at an index of the list (a list filled after it was sized): the
				// same object is entered into lookup in the same iteration
				st, isSt := w.Instr.(*ssa.Store)
				if !isSt {
					continue
				}
				if _, isElem := st.Addr.(*ssa.IndexAddr); !isElem {
					continue
				}
				name := "StoragePeerRepository." + f.Name()
				bad := ""
				var mu ssa.Instruction
				for _, w2 := range kit.DirectWrites(f) {
					if w2.Field == lookupF && w2.Kind == "mapupdate" && kit.Strip(w2.Val) == kit.Strip(st.Val) {
						mu = w2.Instr
						if fl, base := kit.LoadedField(w2.Key); fl == nil || fl.Name() != "Address" || kit.Strip(base) != kit.Strip(st.Val) {
							bad = "lookup is keyed by something other than the stored peer's address"
						}
					}
				}
				if mu == nil {
					bad = "a peer is stored into the list while a different object (or none) is entered into lookup under its address: updates through lookup (UpdateScore, UpdateTime) no longer reach the peer that Get and Save read from the list"
				} else {
					header, _ := loopBodyEntry(f, w.Instr)
					stop := []ssa.Instruction{mu}
					rr := kit.Reach(f, kit.After(w.Instr), kit.Opts{StopAt: kit.InstrSet(stop...)})
					if header != nil && rr.Has(header.Instrs[0]) {
						bad = "an iteration stores a peer into the list without entering it into lookup"
					}
					for _, ret := range kit.Returns(f) {
						if rr.Has(ret) {
							bad = "a path stores a peer into the list and returns without updating lookup"
						}
					}
				}
				r.Check(bad == "", "PAIRED-UPDATE", name+"/element+lookup", posOf(p, w.Instr), "list[i] and lookup[address] receive the same peer on the same path", bad)
				continue
			}
			name := "StoragePeerRepository." + f.Name()
			r.Fn(name)
			// element appended
			var elem ssa.Value
			if sl, ok := ap.Call.Args[1].(*ssa.Slice); ok {
				if arr, ok := sl.X.(*ssa.Alloc); ok {
					for _, ref := range *arr.Referrers() {
						if ia, ok := ref.(*ssa.IndexAddr); ok {
							for _, r2 := range *ia.Referrers() {
								if st, ok := r2.(*ssa.Store); ok {
									elem = st.Val
								}
							}
						}
					}
				}
			}
			bad := ""
			var mu ssa.Instruction
			for _, w2 := range kit.DirectWrites(f) {
				if w2.Field == lookupF && w2.Kind == "mapupdate" && w2.Val == elem {
					mu = w2.Instr
					// key = the element's Address
					if fl, base := kit.LoadedField(w2.Key); fl == nil || fl.Name() != "Address" || kit.Strip(base) != kit.Strip(elem) {
						// or by the very value the peer's Address was initialised with
						same := false
						if al, ok := kit.Strip(elem).(*ssa.Alloc); ok {
							for _, ref := range *al.Referrers() {
								if fa, ok := ref.(*ssa.FieldAddr); ok {
									if f2, _ := kit.FieldOfAddr(fa); f2 != nil && f2.Name() == "Address" {
										n := 0
										for _, r2 := range *fa.Referrers() {
											if st, ok := r2.(*ssa.Store); ok && st.Addr == ssa.Value(fa) {
												n++
												if kit.Strip(st.Val) == kit.Strip(w2.Key) {
													same = true
												}
											}
										}
										if n != 1 {
											same = false
										}
									}
								}
							}
						}
						if !same {
							bad = "lookup is keyed by something other than the appended peer's address"
						}
					}
				}
			}
			if mu == nil {
				bad = "a peer is appended to the list without being entered into lookup (or a different object is entered): the two no longer describe the same set"
			} else {
				header, _ := loopBodyEntry(f, w.Instr)
				stop := []ssa.Instruction{mu}
				if header != nil {
					stop = append(stop, header.Instrs[0])
				}
				rr := kit.Reach(f, kit.After(w.Instr), kit.Opts{StopAt: kit.InstrSet(stop...)})
				for _, ret := range kit.Returns(f) {
					if rr.Has(ret) {
						bad = "a path appends to list and returns without updating lookup"
					}
				}
				if header != nil && rr.Has(header.Instrs[0]) {
					bad = "an iteration appends to list without updating lookup"
				}
			}
			if fname(f) == "Add" && bad == "" {
				miss := mapLookupGuards(f, lookupF)
				if ok, _ := kit.DominatedByEdges(f, w.Instr, edgesOf(miss, false), nil, p.Pos); !ok || len(miss) == 0 {
					bad = "Add appends without testing that the address is not yet in lookup: duplicates"
				}
				// test and insert are one critical section: the repository lock is not released
				// between the miss and the append (two concurrent Adds of one address would both
				// see the miss and both insert)
				if bad == "" {
					li := kit.Lockset(f, nil)
					lock := li.Key(f.Params[0]) + "." + curName(p, "lock")
					rel := lockReleases(f, lock)
					for _, g := range miss {
						// from the map read that the test is about
						var lookup ssa.Instruction
						if e, ok := g.If.Cond.(*ssa.Extract); ok {
							lookup, _ = e.Tuple.(ssa.Instruction)
						}
						if lookup == nil {
							continue
						}
						rr := kit.Reach(f, kit.After(lookup), kit.Opts{StopAt: kit.InstrSet(w.Instr)})
						for _, x := range rel {
							if _, isDefer := x.(*ssa.Defer); isDefer {
								continue
							}
							if rr.Has(x) && kit.Reach(f, kit.After(x), kit.Opts{}).Has(w.Instr) {
								bad = "the repository lock is released at " + posOf(p, x) + " between the test that the address is unknown and the insert: two concurrent Adds of the same address both insert it (held once no longer holds)"
							}
						}
					}
				}
				// lookup keyed by the parameter address
			}
			r.Check(bad == "", "PAIRED-UPDATE", name+"/append+lookup", posOf(p, w.Instr), "append and lookup[address] = same peer on the same path", bad)
		}
	}

	// SCORE-SHAPE
	if f := fn(p, r, "SCORE-SHAPE", R, "StoragePeerRepository.UpdateScore"); f != nil {
		bad := "Score is not updated"
		for _, w := range kit.DirectWrites(f) {
			if w.Field != pf("Score") {
				continue
			}
			b, ok := w.Val.(*ssa.BinOp)
			delta := f.Params[len(f.Params)-1]
			switch {
			case !ok || b.Op != token.ADD:
				bad = "the new score is not old score + delta"
			case !((loadOfField(b.X, pf("Score")) && b.Y == ssa.Value(delta)) || (loadOfField(b.Y, pf("Score")) && b.X == ssa.Value(delta))):
				bad = "the new score is not old score + delta"
			default:
				bad = ""
				// the peer is the one looked up by the address parameter
				_, base := kit.FieldOfAddr(w.Instr.(*ssa.Store).Addr)
				lk := false
				kit.DependsOn(base, func(v ssa.Value) bool {
					if l, ok := v.(*ssa.Lookup); ok && loadOfField(l.X, lookupF) && kit.Strip(l.Index) == ssa.Value(f.Params[2]) {
						lk = true
					}
					return lk
				})
				if !lk {
					bad = "the peer updated is not lookup[address]"
				}
			}
		}
		r.Check(bad == "", "SCORE-SHAPE", "UpdateScore/sum", posOf(p, f.Blocks[0].Instrs[0]), "lookup[address].Score += delta", bad)
	}
	if f := fn(p, r, "SCORE-SHAPE", R, "StoragePeerRepository.Get"); f != nil {
		minP, maxP := prmAt(f, 2), prmAt(f, 3)
		var keep ssa.Instruction
		kit.AllInstrs(f, func(in ssa.Instruction) {
			if c, ok := in.(*ssa.Call); ok && kit.CallID(c) == "builtin.append" && len(cycleOf(c.Block())) > 0 {
				keep = in
			}
		})
		score := func(v ssa.Value) bool { return loadOfField(v, pf("Score")) }
		lo := kit.FindGuards(f, func(c ssa.Value) (bool, bool) {
			b, ok := c.(*ssa.BinOp)
			if !ok {
				return false, false
			}
			switch {
			case score(b.X) && b.Y == ssa.Value(minP) && b.Op == token.GEQ:
				return true, true
			case score(b.X) && b.Y == ssa.Value(minP) && b.Op == token.LSS:
				return true, false
			case score(b.Y) && b.X == ssa.Value(minP) && b.Op == token.LEQ:
				return true, true
			case score(b.Y) && b.X == ssa.Value(minP) && b.Op == token.GTR:
				return true, false
			}
			return false, false
		})
		hi := kit.FindGuards(f, func(c ssa.Value) (bool, bool) {
			b, ok := c.(*ssa.BinOp)
			if !ok {
				return false, false
			}
			switch {
			case score(b.X) && b.Y == ssa.Value(maxP) && b.Op == token.LEQ:
				return true, true
			case score(b.X) && b.Y == ssa.Value(maxP) && b.Op == token.GTR:
				return true, false
			case score(b.Y) && b.X == ssa.Value(maxP) && b.Op == token.GEQ:
				return true, true
			case score(b.Y) && b.X == ssa.Value(maxP) && b.Op == token.LSS:
				return true, false
			}
			return false, false
		})
		unb := kit.FindGuards(f, func(c ssa.Value) (bool, bool) {
			b, ok := c.(*ssa.BinOp)
			if !ok || (b.Op != token.EQL && b.Op != token.NEQ) || b.X != ssa.Value(maxP) {
				return false, false
			}
			if k, ok := kit.ConstInt(b.Y); !ok || k != -1 {
				return false, false
			}
			return true, b.Op == token.EQL
		})
		bad := ""
		switch {
		case keep == nil:
			bad = "no peer is ever returned"
		case len(lo) == 0 || len(hi) == 0 || len(unb) == 0:
			// the tests are not all branch conditions (e.g. a helper returns `Score <= max` as a
			// value): decide the filter by evaluating one iteration for every ordering of
			// Score, minScore and maxScore (and maxScore == -1)
			bad = "the filter does not compare Score with minScore (>=), maxScore (<=) and maxScore with -1"
			if header, body := loopBodyEntry(f, keep); header != nil && body != nil {
				var pred *ssa.BasicBlock
				for _, pb := range body.Preds {
					if pb == header {
						pred = pb
					}
				}
				bad = ""
				for _, sc := range []int64{-7, -1, 0, 5} {
					for _, mn := range []int64{sc - 1, sc, sc + 1} {
						for _, mx := range []int64{-1, sc - 1, sc, sc + 1, -3} {
							at, ok := miniRun(body, pred, func(v ssa.Value) (int64, bool) {
								switch {
								case v == ssa.Value(minP):
									return mn, true
								case v == ssa.Value(maxP):
									return mx, true
								case score(v):
									return sc, true
								}
								return 0, false
							}, func(in ssa.Instruction) bool { return in == keep || in == header.Instrs[0] })
							want := sc >= mn && (mx == -1 || sc <= mx)
							if !ok {
								bad = "the filter's decision depends on something other than Score, minScore and maxScore"
							} else if (at == keep) != want {
								bad = fmt.Sprintf("a peer with score %d is %s for the range [%d, %d] (an upper bound of -1 means unbounded)", sc, map[bool]string{true: "returned", false: "left out"}[at == keep], mn, mx)
							}
						}
					}
				}
			}
		default:
			if ok, _ := kit.DominatedByEdges(f, keep, edgesOf(lo, true), nil, p.Pos); !ok {
				bad = "a peer below minScore can be returned"
			}
			if ok, _ := kit.DominatedByEdges(f, keep, append(edgesOf(hi, true), edgesOf(unb, true)...), nil, p.Pos); !ok {
				bad = "a peer above maxScore can be returned although maxScore is not -1"
			}
			// completeness: a peer satisfying both tests is kept: from the body entry with the fail
			// edges blocked every path reaches keep
			header, body := loopBodyEntry(f, keep)
			if header != nil && body != nil {
				block := append(edgesOf(lo, false), edgesOf(hi, false)...)
				// a list entry is never nil (every append stores the address of a fresh Peer —
				// PAIRED-UPDATE): a defensive `peer == nil` test on the current element cannot fire
				for _, g := range kit.FindGuards(f, func(c ssa.Value) (bool, bool) {
					b, ok := c.(*ssa.BinOp)
					if !ok || (b.Op != token.EQL && b.Op != token.NEQ) || !kit.IsNilConst(b.Y) {
						return false, false
					}
					u, ok := kit.Strip(b.X).(*ssa.UnOp)
					if !ok || u.Op != token.MUL {
						return false, false
					}
					ia, ok := u.X.(*ssa.IndexAddr)
					if !ok || !loadOfField(kit.Strip(ia.X), listF) {
						return false, false
					}
					return true, b.Op == token.EQL
				}) {
					block = append(block, g.PassEdge())
				}
				rr := kit.Reach(f, []kit.Pt{{B: body, I: 0}}, kit.Opts{BlockEdge: kit.EdgeSet(block...), StopAt: kit.InstrSet(keep)})
				if rr.Has(header.Instrs[0]) {
					bad = "a peer inside the requested range can be left out"
				}
			}
		}
		r.Check(bad == "", "SCORE-SHAPE", "Get/filter", posOf(p, f.Blocks[0].Instrs[0]), "Score >= min && (max == -1 || Score <= max)", bad)
		// the decision about one peer never ends the scan: the peers after it are examined as well
		if keep != nil {
			bad2 := ""
			if header, body := loopBodyEntry(f, keep); header != nil && body != nil {
				rr := kit.Reach(f, []kit.Pt{{B: body, I: 0}}, kit.Opts{StopAt: func(in ssa.Instruction) bool { return in == header.Instrs[0] }})
				for _, ret := range kit.Returns(f) {
					if rr.Has(ret) {
						bad2 = "the scan of the list can end at a peer (" + rr.PathTo(ret, p.Pos) + "): every peer stored after it is missing from the answer although its score lies in the requested range"
					}
				}
			} else {
				bad2 = "the filter is not applied in a loop over the list"
			}
			r.Check(bad2 == "", "SCORE-SHAPE", "Get/scans-every-peer", posOf(p, keep), "no exit from the scan other than the end of the list", bad2)
		}
	}

	// CODEC-SYM
	wr, rd := fn(p, r, "CODEC-SYM", R, "Peer.write"), fn(p, r, "CODEC-SYM", R, "readPeer")
	codecPair(p, r, "CODEC-SYM", "Peer.write↔readPeer", wr, rd, nil, 0, 0)
	// the reader accepts every length the writer can emit: Peer.write stores int32(len(Address))
	// without a lower bound (Add accepts the empty address), so readPeer may refuse negative
	// sizes only
	if rd != nil {
		var size ssa.Value
		// the first use of the decoded size for reading the address: io.CopyN(…, n) or make([]byte, n)
		var copyN ssa.Instruction
		var sizeArg ssa.Value
		kit.AllInstrs(rd, func(in ssa.Instruction) {
			if copyN != nil {
				return
			}
			if c, ok := in.(*ssa.Call); ok && kit.CallID(c) == "io.CopyN" {
				copyN, sizeArg = c, c.Call.Args[2]
			}
			if m, ok := in.(*ssa.MakeSlice); ok {
				if _, isC := kit.ConstInt(m.Len); !isC {
					copyN, sizeArg = m, m.Len
				}
			}
		})
		bad := ""
		if copyN == nil {
			bad = "no read of the address bytes sized by the decoded length found"
		} else {
			// the decoded size: the local whose address is passed to binary.Read and that feeds the read
			kit.DependsOn(sizeArg, func(v ssa.Value) bool {
				if u, ok := v.(*ssa.UnOp); ok {
					if _, isAlloc := u.X.(*ssa.Alloc); isAlloc && size == nil {
						size = u
					}
				}
				return false
			})
			// evaluate from the binary.Read that fills that local
			if u, ok := size.(*ssa.UnOp); ok {
				size = nil
				for _, ref := range *u.X.Referrers() {
					if mi, ok := ref.(*ssa.MakeInterface); ok {
						for _, r2 := range *mi.Referrers() {
							if c, ok := r2.(*ssa.Call); ok && kit.CallID(c) == "encoding/binary.Read" {
								size = c
							}
						}
					}
				}
			}
			if size == nil {
				bad = "the length passed to io.CopyN is not the decoded address size"
			} else {
				for _, v := range []int64{-1, 0, 1, 17} {
					outs, why := evalSlice(size, v, copyN, sizeArg)
					for _, got := range outs {
						switch {
						case v < 0 && got != evalReturned:
							bad = "a negative address size reaches the read of the address bytes"
						case v >= 0 && got == evalReturned:
							bad = fmt.Sprintf("a record with address length %d is refused although Peer.write produces it: that peer and every peer after it is dropped by Load", v)
						case v >= 0 && got != v:
							bad = fmt.Sprintf("address length %d is read as %d bytes", v, got)
						}
					}
					if why != "" && v >= 0 {
						bad = fmt.Sprintf("a record with address length %d is refused although Peer.write produces it (%s)", v, why)
					}
				}
			}
		}
		r.Check(bad == "", "CODEC-SYM", "readPeer/accepts-writer-range", posOf(p, rd.Blocks[0].Instrs[0]), "address lengths 0, 1, … are read back; only negative sizes are refused", bad)
	}
	if sv, ld := fn(p, r, "CODEC-SYM", R, "StoragePeerRepository.Save"), fn(p, r, "CODEC-SYM", R, "StoragePeerRepository.Load"); sv != nil && ld != nil {
		exp := map[string]bool{R + ".Peer.write": true, R + ".readPeer": true}
		lw, lr := kit.WireLayout(sv, exp, 0), kit.WireLayout(ld, exp, 0)
		ok, why := kit.LayoutsAgree(lw, lr)
		if ok {
			r.OK("CODEC-SYM", "Save↔Load", posOf(p, sv.Blocks[0].Instrs[0]), "file layout %s", kit.LayoutString(lw))
		} else {
			r.Bad("CODEC-SYM", "Save↔Load", posOf(p, sv.Blocks[0].Instrs[0]), "peers file writer and reader disagree: %s", why)
		}
	}

	// ALLOC-BOUND
	funcs := []*ssa.Function{}
	for _, n := range []string{"StoragePeerRepository.Load", "readPeer"} {
		if f := p.Func(R, n); f != nil {
			funcs = append(funcs, f)
		}
	}
	t := kit.NewTaint(funcs, nil)
	k := newKeyer()
	n := 0
	decoded := 0
	for _, f := range funcs {
		kit.AllInstrs(f, func(in ssa.Instruction) {
			if c, ok := in.(*ssa.Call); ok && kit.CallID(c) == "encoding/binary.Read" {
				decoded++
			}
		})
		for _, s := range t.Sinks(f) {
			n++
			ok, why := t.Bounded(f, s.Size, s.Instr)
			key := k.key(f.Name() + "/" + s.What)
			r.Check(ok, "ALLOC-BOUND", key, posOf(p, s.Instr), "decoded size ("+s.Why+") is bounded before it sizes the allocation",
				"a size read from the peers file ("+s.Why+") sizes an allocation unchecked ("+why+"): a negative or huge value in a damaged file panics in makeslice instead of keeping the peers already read")
		}
	}
	if decoded < 4 {
		r.Unknown("ALLOC-BOUND", "decoded-values", "-", "expected the decoder to read at least 4 values with binary.Read, found %d", decoded)
	} else if n == 0 {
		r.OK("ALLOC-BOUND", "Load+readPeer/no-decoded-size-allocates", "peers.go", "%d decoded values, none sizes an allocation directly", decoded)
	}

	// MUST-PASS: Load keeps the prefix
	if f := fn(p, r, "MUST-PASS", R, "StoragePeerRepository.Load"); f != nil {
		rps := kit.CallsTo(f, R+".readPeer")
		bad := ""
		if len(rps) != 1 {
			bad = "expected one readPeer call in a loop"
		} else {
			rp := rps[0].(*ssa.Call)
			eg := errNilGuards(f, rp)
			if len(eg) == 0 || len(cycleOf(rp.Block())) == 0 {
				bad = "readPeer is not error-checked inside a loop"
			}
			for _, e := range edgesOf(eg, false) {
				rr := kit.Reach(f, []kit.Pt{kit.EdgeStart(e)}, kit.Opts{})
				for _, ret := range kit.Returns(f) {
					if rr.Has(ret) && rr.ErrClass(ret) != kit.ErrNil {
						bad = "a record that cannot be decoded (file cut short) makes Load fail instead of keeping the peers that were fully written"
					}
				}
				// nothing clears the list after the error
				for _, w := range kit.DirectWrites(f) {
					if (w.Field == listF || w.Field == lookupF) && w.Kind == "store" && rr.Has(w.Instr) {
						if _, isAppend := kit.Strip(w.Val).(*ssa.Call); !isAppend && !keepsAccumulated(w.Val) {
							if st, isSt := w.Instr.(*ssa.Store); isSt {
								if _, isElem := st.Addr.(*ssa.IndexAddr); isElem {
									continue // an element store: judged with the list it fills
								}
							}
							if why := refilledFrom(f, w, listF); why != "" {
								bad = "the list is replaced after a decoding error (" + why + ")"
							}
						}
					}
				}
			}
			// decoded peers go into repo.list: appended in the loop or installed on every path after it
			inLoop := false
			for _, w := range kit.DirectWrites(f) {
				if w.Field == listF && len(cycleOf(w.Instr.Block())) > 0 {
					inLoop = true
				}
			}
			if !inLoop && bad == "" {
				// installed after the loop on every path from the loop to a return
				var inst []ssa.Instruction
				for _, w := range kit.DirectWrites(f) {
					if w.Field == listF && kit.Reach(f, kit.After(rp), kit.Opts{}).Has(w.Instr) {
						inst = append(inst, w.Instr)
					}
				}
				rr := kit.Reach(f, kit.After(rp), kit.Opts{StopAt: kit.InstrSet(inst...)})
				for _, ret := range kit.Returns(f) {
					if rr.Has(ret) {
						bad = "peers decoded before an error are parsed into a local list that is not installed on every path: they are lost"
					}
				}
			}
		}
		r.Check(bad == "", "MUST-PASS", "Load/keeps-decoded-prefix", posOf(p, f.Blocks[0].Instrs[0]), "decoding error → break, no error return, list kept", bad)
	}
	// MUST-PASS: Save writes, or skips only behind a dirty flag every mutator sets
	if f := fn(p, r, "MUST-PASS", R, "StoragePeerRepository.Save"); f != nil {
		ws := storageCalls(f, "Write")
		var wi []ssa.Instruction
		for _, w := range ws {
			wi = append(wi, w)
		}
		bad := ""
		pre := kit.Reach(f, []kit.Pt{kit.Entry(f)}, kit.Opts{StopAt: kit.InstrSet(wi...)})
		for _, ret := range kit.Returns(f) {
			if !pre.Has(ret) || kit.ReturnErrClass(ret) == kit.ErrNonNil {
				continue
			}
			// a skip: which repository flag guards it?
			var flag *types.Var
			for _, g := range kit.FindGuards(f, func(c ssa.Value) (bool, bool) {
				fl, base := kit.LoadedField(c)
				if fl == nil || len(f.Params) == 0 || kit.Root(base) != ssa.Value(f.Params[0]) {
					return false, false
				}
				if bt, ok := fl.Type().Underlying().(*types.Basic); !ok || bt.Kind() != types.Bool {
					return false, false
				}
				flag = fl
				return true, true
			}) {
				_ = g
			}
			if flag == nil {
				bad = "Save can return nil without writing the peers file"
				break
			}
			// every mutator must set the flag
			state := map[*types.Var]bool{listF: true, lookupF: true, pf("Score"): true, pf("LastTime"): true, pf("Address"): true}
			for _, m := range methods {
				if m == f || fname(m) == "Load" || fname(m) == "Clear" || fname(m) == "NewPeerRepository" {
					continue
				}
				mut, sets := false, false
				for _, w := range kit.DirectWrites(m) {
					if state[w.Field] && !kit.IsFresh(w.Base) {
						mut = true
					}
					if w.Field == flag {
						if b, ok := kit.ConstBool(w.Val); ok && b {
							sets = true
						}
					}
				}
				if mut && !sets {
					bad = "Save is skipped while Repository." + flag.Name() + " is false, but " + m.Name() + " changes peer state without setting it: that change is never saved"
				}
			}
		}
		r.Check(bad == "" && len(ws) > 0, "MUST-PASS", "Save/persists-every-change", posOf(p, f.Blocks[0].Instrs[0]), "every successful Save writes the file (or every mutator sets the dirty flag)", bad)
	}
}

// keepsAccumulated: the stored value is the accumulated list (phi / local), not a fresh empty one.
func keepsAccumulated(v ssa.Value) bool {
	switch kit.Strip(v).(type) {
	case *ssa.Phi, *ssa.UnOp:
		return true
	}
	return false
}

// refilledFrom: the store w replaces repo.list by make(PeerList, len(X)) with X the list of decoded
// peers (accumulated in the decoding loop), and a loop counting from 0 by 1 up to len(X) stores
// element i of X (or its address) at index i of the new list. Returns "" when that holds.
func refilledFrom(f *ssa.Function, w kit.Write, listF *types.Var) string {
	mk, ok := kit.Strip(w.Val).(*ssa.MakeSlice)
	if !ok {
		return "not a list of the decoded peers: " + describe(kit.Strip(w.Val))
	}
	lenOf := func(v ssa.Value) ssa.Value {
		c, ok := kit.Strip(v).(*ssa.Call)
		if !ok {
			return nil
		}
		if b, ok := c.Call.Value.(*ssa.Builtin); !ok || b.Name() != "len" {
			return nil
		}
		return kit.Strip(c.Call.Args[0])
	}
	x := lenOf(mk.Len)
	if x == nil || !keepsAccumulated(x) {
		return "the new list is not sized by the number of decoded peers"
	}
	found := ""
	n := 0
	kit.AllInstrs(f, func(in ssa.Instruction) {
		st, ok := in.(*ssa.Store)
		if !ok {
			return
		}
		dst, ok := st.Addr.(*ssa.IndexAddr)
		if !ok || !(loadOfField(dst.X, listF) || kit.Strip(dst.X) == ssa.Value(mk)) {
			return
		}
		n++
		// source: X[i] or &X[i] with the same index value
		var src *ssa.IndexAddr
		kit.DependsOnNoPhi(st.Val, func(v ssa.Value) bool {
			if ia, ok := v.(*ssa.IndexAddr); ok && kit.Strip(ia.X) == x {
				src = ia
				return true
			}
			return false
		})
		if src == nil || kit.Strip(src.Index) != kit.Strip(dst.Index) {
			found = "element i of the new list is not decoded peer i"
			return
		}
		// the index counts 0, 1, 2, … below len(X)
		idx := kit.Strip(dst.Index)
		var ph *ssa.Phi
		k := int64(0)
		switch y := idx.(type) {
		case *ssa.Phi:
			ph = y
		case *ssa.BinOp:
			if c, isC := kit.ConstInt(y.Y); isC && y.Op == token.ADD {
				ph, _ = y.X.(*ssa.Phi)
				k = c
			}
		}
		if ph == nil {
			found = "the fill index is not a simple loop counter"
			return
		}
		var init, step ssa.Value
		for _, e := range ph.Edges {
			if _, isC := kit.ConstInt(e); isC {
				init = e
			} else {
				step = e
			}
		}
		if init == nil || step == nil {
			found = "the fill index is not a simple loop counter"
			return
		}
		c0, _ := kit.ConstInt(init)
		sb, isB := step.(*ssa.BinOp)
		if c0+k != 0 || !isB || sb.Op != token.ADD || sb.X != ssa.Value(ph) {
			found = "the fill does not start at the first decoded peer and advance by one"
			return
		}
		if c, isC := kit.ConstInt(sb.Y); !isC || c != 1 {
			found = "the fill does not advance by one"
			return
		}
		bounded := false
		for _, b := range f.Blocks {
			if ifi, ok := b.Instrs[len(b.Instrs)-1].(*ssa.If); ok {
				if bo, ok := ifi.Cond.(*ssa.BinOp); ok && bo.Op == token.LSS && (kit.Strip(bo.X) == idx || kit.Strip(bo.X) == ssa.Value(ph) || bo.X == step) {
					if y := lenOf(bo.Y); y != nil && (y == x || y == ssa.Value(mk) || loadOfField(y, listF)) {
						bounded = true
					}
				}
			}
		}
		if !bounded {
			found = "the fill loop is not bounded by the number of decoded peers"
		}
	})
	if n == 0 {
		return "the new list is never filled"
	}
	return found
}
