package props

import (
	"go/token"
	"go/types"
	"sort"
	"strings"

	"golang.org/x/tools/go/ssa"

	"verif/internal/kit"
	"verif/internal/load"
)

// Rules added after the seventh round of seeded changes (small value-level slips: the wrong one of
// two similar fields or variables, a shadowed result, an aliased value, a copy into an empty slice).

// ---- RETURN-FIELDS: a baseline over the small accessor methods --------------------------------

// accessorFields: for a small method that only reads its receiver (locking and atomic loads
// allowed, no other calls), the receiver fields its results depend on; ok is false for anything else.
func accessorFields(f *ssa.Function) ([]string, bool) {
	if f.Signature.Recv() == nil || f.Blocks == nil || len(f.Params) == 0 || f.Signature.Results().Len() == 0 || f.Parent() != nil {
		return nil, false
	}
	n := 0
	ok := true
	kit.AllInstrs(f, func(in ssa.Instruction) {
		n++
		switch x := in.(type) {
		case *ssa.Store:
			if _, local := x.Addr.(*ssa.Alloc); !local {
				ok = false
			}
		case *ssa.MapUpdate, *ssa.Send, *ssa.Go, *ssa.Select:
			ok = false
		case ssa.CallInstruction:
			id := kit.CallID(x)
			switch {
			case strings.HasPrefix(id, "sync.Mutex."), strings.HasPrefix(id, "sync.RWMutex."), id == "sync/atomic.Value.Load", id == "builtin.len":
			default:
				ok = false
			}
		}
	})
	if !ok || n > 40 {
		return nil, false
	}
	recv := f.Params[0]
	// a value receiver is spilled into a local cell
	isRecv := func(v ssa.Value) bool {
		if v == ssa.Value(recv) || kit.Root(v) == ssa.Value(recv) {
			return true
		}
		if a, ok := kit.Root(v).(*ssa.Alloc); ok && a.Referrers() != nil {
			for _, ref := range *a.Referrers() {
				if st, ok := ref.(*ssa.Store); ok && st.Addr == ssa.Value(a) && st.Val == ssa.Value(recv) {
					return true
				}
			}
		}
		return false
	}
	set := map[string]bool{}
	for _, ret := range kit.Returns(f) {
		for _, res := range ret.Results {
			kit.DependsOn(res, func(v ssa.Value) bool {
				switch x := v.(type) {
				case *ssa.FieldAddr:
					if isRecv(x.X) {
						if fl, _ := kit.FieldOfAddr(x); fl != nil && (!isSyncType(fl.Type()) || strings.Contains(fl.Type().String(), "atomic")) {
							set[fl.Name()] = true
						}
					}
				case *ssa.Field:
					if isRecv(x.X) {
						if fl, _ := kit.FieldOfAddr(x); fl != nil {
							set[fl.Name()] = true
						}
					}
				}
				return false
			})
		}
	}
	if len(set) == 0 {
		return nil, false
	}
	var out []string
	for k := range set {
		out = append(out, k)
	}
	sort.Strings(out)
	return out, true
}

// RetFields builds the reference table: accessor → the receiver fields its results come from.
func RetFields(p *load.Program) map[string][]string {
	out := map[string][]string{}
	for _, f := range pkgFuncs(p, R, H) {
		file := p.FileOf(f.Pos())
		if strings.HasSuffix(file, "_test.go") || strings.HasSuffix(file, "test_helpers.go") || strings.HasSuffix(file, "test_nodes.go") {
			continue
		}
		if fs, ok := accessorFields(f); ok {
			out[kit.FuncID(f)] = fs
		}
	}
	return out
}

var retFieldsOwners = map[string][]string{
	R + ".BitcoinNode":           {"C03", "C13"},
	R + ".TxData":                {"C06"},
	R + ".TxManager":             {"C06"},
	R + ".BlockDownloader":       {"C16"},
	R + ".BlockManager":          {"C16"},
	R + ".Peer":                  {"C20"},
	R + ".StoragePeerRepository": {"C20"},
	R + ".NodeManager":           {"C05"},
	H + ".Branch":                {"C09"},
	H + ".Repository":            {"C09"},
	H + ".HeaderData":            {"C09"},
}

func ownsRetFields(property string) bool {
	for _, ps := range retFieldsOwners {
		for _, q := range ps {
			if q == property {
				return true
			}
		}
	}
	return false
}

// checkRetFields: an accessor still answers from the fields it answered from in the reference tree
// (`Verified()` from `verified`, not from the neighbouring `handshakeIsComplete`; `Latest()` from
// `Received`/`LastRequested`, not from `FirstSeen`). Functions that are no longer small accessors
// are not judged.
func checkRetFields(p *load.Program, r *kit.Report, rule string) {
	ref := p.RefRetFields
	if ref == nil {
		r.Unknown(rule, "retfields/reference", "-", "no reference table of accessor fields (retfields.json)")
		return
	}
	var ids []string
	for id := range ref {
		ids = append(ids, id)
	}
	sort.Strings(ids)
	n := 0
	for _, id := range ids {
		f := p.FuncByID(id)
		if f == nil || f.Signature.Recv() == nil {
			continue
		}
		rt := f.Signature.Recv().Type()
		if pt, ok := rt.(*types.Pointer); ok {
			rt = pt.Elem()
		}
		nt, ok := rt.(*types.Named)
		if !ok || nt.Obj().Pkg() == nil {
			continue
		}
		owner := nt.Obj().Pkg().Path() + "." + nt.Obj().Name()
		mine := false
		for _, q := range retFieldsOwners[owner] {
			if q == r.Property {
				mine = true
			}
		}
		if !mine {
			continue
		}
		cur, ok := accessorFields(f)
		if !ok {
			continue
		}
		// reference names → current names (pure renames followed)
		var want []string
		for _, w := range ref[id] {
			if fv := p.Field(nt.Obj().Pkg().Path(), nt.Obj().Name(), w); fv != nil {
				want = append(want, fv.Name())
			} else {
				want = append(want, w)
			}
		}
		sort.Strings(want)
		n++
		bad := ""
		if strings.Join(cur, ",") != strings.Join(want, ",") {
			bad = kit.ShortID(id) + " now answers from {" + strings.Join(cur, ", ") + "}; the reference tree answers from {" + strings.Join(want, ", ") + "}: callers that ask this question get the answer to another one"
		}
		r.Check(bad == "", rule, kit.ShortID(id)+"/answers-from", posOf(p, f.Blocks[0].Instrs[0]), "answers from {"+strings.Join(want, ", ")+"}", bad)
	}
	if n == 0 {
		r.OKTrivial(rule, "retfields/none", "-", "no accessor of this property's structs in the reference table")
	}
}

// ---- COPY-INTO-EMPTY ---------------------------------------------------------------------------

// checkCopyIntoEmpty: `copy(dst, src)` copies min(len(dst), len(src)) elements; a destination made
// with length 0 (`make([]T, 0, n)`, the "pre-size the capacity" slip) receives nothing, and the loop
// over the "snapshot" that follows visits no element.
func checkCopyIntoEmpty(p *load.Program, r *kit.Report, rule string) {
	owned := errOwnedFuncs(p, r.Property, errTolExtraTrees)
	var fs []*ssa.Function
	for f := range owned {
		fs = append(fs, f)
	}
	sort.Slice(fs, func(i, j int) bool { return kit.FuncID(fs[i]) < kit.FuncID(fs[j]) })
	n := 0
	k := newKeyer()
	for _, f := range fs {
		kit.AllInstrs(f, func(in ssa.Instruction) {
			c, ok := in.(*ssa.Call)
			if !ok || kit.CallID(c) != "builtin.copy" || len(c.Call.Args) != 2 {
				return
			}
			n++
			bad := ""
			if ms, ok := kit.Strip(c.Call.Args[0]).(*ssa.MakeSlice); ok {
				if l, isC := kit.ConstInt(ms.Len); isC && l == 0 {
					bad = "copy into a slice made with length 0 copies nothing (the capacity does not count): what follows works on an empty snapshot"
				}
			}
			r.Check(bad == "", rule, k.key(kit.ShortID(kit.FuncID(f))+"/copy"), posOf(p, in), "destination has a length", bad)
		})
	}
	if n == 0 {
		r.OKTrivial(rule, "copy/none", "-", "no copy() in the call trees of this property's entry points")
	}
}

// ---- the error received on Complete is what Run returns (C16; imported by C04, C05) -------------

func checkRunReturnsReceived(p *load.Program, r *kit.Report, rule string) {
	f := fn(p, r, rule, R, "BlockDownloader.Run")
	if f == nil {
		return
	}
	compF := p.Field(R, "BlockDownloader", "Complete")
	k := newKeyer()
	n := 0
	kit.AllInstrs(f, func(in ssa.Instruction) {
		sel, ok := in.(*ssa.Select)
		if !ok {
			return
		}
		recvIdx := 0
		for i, st := range sel.States {
			if st.Dir != types.RecvOnly {
				continue
			}
			myRecv := recvIdx
			recvIdx++
			if !loadOfField(kit.Strip(st.Chan), compF) {
				continue
			}
			// the received value and the branch of this case
			var got ssa.Value
			var idxV ssa.Value
			for _, ref := range *sel.Referrers() {
				if ex, ok := ref.(*ssa.Extract); ok {
					if ex.Index == 2+myRecv {
						got = ex
					}
					if ex.Index == 0 {
						idxV = ex
					}
				}
			}
			if got == nil || idxV == nil {
				r.Bad(rule, k.key("Run/complete-result"), posOf(p, sel), "the value received on Complete is not looked at: Run cannot report how the download ended")
				n++
				continue
			}
			gs := kit.FindGuards(f, func(c ssa.Value) (bool, bool) {
				b, ok := c.(*ssa.BinOp)
				if !ok || b.Op != token.EQL || b.X != idxV {
					return false, false
				}
				kk, isC := kit.ConstInt(b.Y)
				return isC && int(kk) == i, true
			})
			if len(gs) == 0 {
				continue
			}
			var starts []kit.Pt
			for _, g := range gs {
				starts = append(starts, kit.EdgeStart(g.PassEdge()))
			}
			rr := kit.Reach(f, starts, kit.Opts{})
			idx := kit.ErrResultIndex(f)
			bad := ""
			var at ssa.Instruction = sel
			for _, ret := range kit.Returns(f) {
				if !rr.Has(ret) || idx < 0 {
					continue
				}
				v := kit.RetOperand(ret, idx)
				if !kit.DependsOn(v, func(x ssa.Value) bool { return x == got }) {
					at = ret
					bad = "after the download's result arrived on Complete, Run returns " + describe(kit.Strip(v)) + " instead of that result (" + retLabel(ret) + "): a failed download is reported to the block manager as finished without error and the block is marked complete"
				}
			}
			n++
			r.Check(bad == "", rule, k.key("Run/complete-result"), posOf(p, at), "Run returns the value it received on Complete", bad)
		}
	})
	if n < 2 {
		r.Unknown(rule, "Run/complete-result", "-", "expected two select cases receiving from bd.Complete in Run, found %d", n)
	}
}

// checkCompletedGetsThreadResult (C16): the error handed to onDownloaderCompleted is the value
// received from the download thread's complete channel in the same closure.
func checkCompletedGetsThreadResult(p *load.Program, r *kit.Report, rule string) {
	key := "requestBlock/on-complete-passes-result"
	n := 0
	for _, f := range pkgFuncs(p, R) {
		top := f
		for top.Parent() != nil {
			top = top.Parent()
		}
		if fname(top) != "requestBlock" && fname(top) != "newOnCompleteThread" {
			continue
		}
		kit.AllInstrs(f, func(in ssa.Instruction) {
			c, ok := in.(*ssa.Call)
			if !ok || !strings.HasSuffix(kit.CallID(c), ".onDownloaderCompleted") {
				return
			}
			n++
			args := c.Call.Args
			errArg := args[len(args)-1]
			fromRecv := kit.DependsOn(errArg, func(v ssa.Value) bool {
				if u, ok := v.(*ssa.UnOp); ok && u.Op == token.ARROW {
					return true
				}
				return false
			})
			r.Check(fromRecv, rule, key, posOf(p, in), "the error passed on is the one received from the thread",
				"onDownloaderCompleted is given "+describe(kit.Strip(errArg))+", not the value received from the download thread's complete channel: every download is reported as finished without error, and a failed download of the current request marks the block complete")
		})
	}
	if n == 0 {
		r.Unknown(rule, key, "-", "no call of onDownloaderCompleted found in requestBlock")
	}
}

// ---- fresh per iteration / fresh per send -------------------------------------------------------

// checkInvVectFresh (C06): every inventory vector put into a getdata message is its own object —
// AddInvVect keeps the pointer. One object reused across the iterations of the loop makes every
// entry of the message the last txid.
func checkInvVectFresh(p *load.Program, r *kit.Report, rule string) {
	n := 0
	k := newKeyer()
	for _, name := range []string{"BitcoinNode.RequestTxs", "BitcoinNode.handleInventory"} {
		f := fn(p, r, rule, R, name)
		if f == nil {
			continue
		}
		kit.AllInstrs(f, func(in ssa.Instruction) {
			c, ok := in.(ssa.CallInstruction)
			if !ok || !strings.HasSuffix(kit.CallID(c), ".MsgGetData.AddInvVect") {
				return
			}
			args := c.Common().Args
			item := kit.Strip(args[len(args)-1])
			_, loop := innermostLoop(f, in.Block())
			if loop == nil {
				return
			}
			n++
			def, _ := kit.Root(item).(ssa.Instruction)
			fresh := false
			switch x := kit.Root(item).(type) {
			case *ssa.Alloc:
				fresh = loop[x.Block()]
			case *ssa.Call:
				fresh = loop[x.Block()]
			default:
				if def != nil {
					fresh = loop[def.Block()]
				}
			}
			r.Check(fresh, rule, k.key(name+"/inv-vector-per-item"), posOf(p, in), "the vector is created in the iteration that adds it",
				"the inventory vector added here ("+describe(item)+") is created outside the loop: AddInvVect keeps the pointer, so every entry of the getdata message ends up as the last txid — one tx is requested n times and the others never, although all of them were booked as requested from this peer")
		})
	}
	if n < 2 {
		r.Unknown(rule, "inv-vector-per-item", "-", "expected AddInvVect calls inside loops in RequestTxs and handleInventory, found %d", n)
	}
}

// checkSendFresh (C14): a message handed to sendMessage is queued by pointer and serialised later
// by the sender thread: it must not be a field of the node (the next handler overwrites it before
// the previous reply has left).
func checkSendFresh(p *load.Program, r *kit.Report, rule string) {
	hs, _ := allHandlers(p)
	n := 0
	k := newKeyer()
	seen := map[*ssa.Function]bool{}
	for _, f := range hs {
		if seen[f] || f.Blocks == nil {
			continue
		}
		seen[f] = true
		kit.AllInstrs(f, func(in ssa.Instruction) {
			c, ok := in.(ssa.CallInstruction)
			if !ok || kit.CallID(c) != R+".BitcoinNode.sendMessage" {
				return
			}
			args := c.Common().Args
			msg := args[len(args)-1]
			n++
			bad := ""
			if mi, ok := msg.(*ssa.MakeInterface); ok {
				if fa, ok := mi.X.(*ssa.FieldAddr); ok && len(f.Params) > 0 && kit.Root(fa.X) == ssa.Value(f.Params[0]) {
					fl, _ := kit.FieldOfAddr(fa)
					bad = "the message queued here is the node's own field " + fl.Name() + ": it is serialised later by the sender thread, after the next ping (or whatever writes the field next) has overwritten it — a pong goes out with another ping's nonce"
				}
			}
			r.Check(bad == "", rule, k.key(kit.ShortID(kit.FuncID(f))+"/sends-own-message"), posOf(p, in), "the queued message is not shared state of the node", bad)
		})
	}
	if n < 3 {
		r.Unknown(rule, "sends-own-message", "-", "expected at least 3 sendMessage calls in the message handlers, found %d", n)
	}
}

// ---- small shape rules ---------------------------------------------------------------------------

// checkDiscardBlockRemainder (C14): discardBlock runs (deferred) after part of a block message may
// have been read through the counting reader: it discards what is left, header.Length minus what
// the counter saw — never the full declared length again.
func checkDiscardBlockRemainder(p *load.Program, r *kit.Report, rule string) {
	f := fn(p, r, rule, R, "discardBlock")
	if f == nil {
		return
	}
	bad := ""
	var at ssa.Instruction = f.Blocks[0].Instrs[0]
	n := 0
	kit.AllInstrs(f, func(in ssa.Instruction) {
		c, ok := in.(ssa.CallInstruction)
		if !ok {
			return
		}
		switch kit.CallID(c) {
		case R + ".DiscardInputWithCounter":
			n++
		case R + ".DiscardInput":
			n++
			// acceptable only with an explicit remainder (length - count)
			a := c.Common().Args
			sub := false
			if b, ok := kit.Strip(a[len(a)-1]).(*ssa.BinOp); ok && b.Op == token.SUB {
				sub = true
			}
			if !sub {
				at = in
				bad = "discardBlock discards the full declared length although part of the message may already have been read: the rest of the stream is consumed beyond the message and the next message (the ping that follows) is swallowed"
			}
		}
	})
	if n == 0 {
		bad = "discardBlock discards nothing"
	}
	r.Check(bad == "", rule, "discardBlock/remainder-only", posOf(p, at), "discards header.Length minus what the counter has seen", bad)
}

// checkSwapSwapsElements (C20): PeerList.Swap exchanges the two slice elements (pointers), not the
// peers they point to — the list shares its *Peer objects with the lookup map and with lists handed
// out earlier.
func checkSwapSwapsElements(p *load.Program, r *kit.Report, rule string) {
	f := fn(p, r, rule, R, "PeerList.Swap")
	if f == nil {
		return
	}
	elemStores, otherStores := 0, 0
	var at ssa.Instruction = f.Blocks[0].Instrs[0]
	kit.AllInstrs(f, func(in ssa.Instruction) {
		st, ok := in.(*ssa.Store)
		if !ok {
			return
		}
		if ia, ok := st.Addr.(*ssa.IndexAddr); ok && len(f.Params) > 0 && kit.Strip(ia.X) == ssa.Value(f.Params[0]) {
			elemStores++
			return
		}
		otherStores++
		at = in
	})
	bad := ""
	switch {
	case otherStores > 0:
		bad = "Swap writes through the elements instead of exchanging them: the *Peer objects are shared with the lookup map and with every list returned earlier, so addresses, scores and times move between peers — UpdateScore(a) then credits another peer"
	case elemStores != 2:
		bad = "Swap does not store both elements"
	}
	r.Check(bad == "", rule, "PeerList.Swap/exchanges-elements", posOf(p, at), "l[i], l[j] = l[j], l[i]", bad)
}

// checkUnmarkRemovesOne (C17, imported by C08): MarkHeaderNotInvalid takes exactly the matching
// hash out of the list. Accepted shapes: the in-place append(list[:i], list[i+1:]...) with i the
// index of the match, or a rebuilt list that skips the match with `continue` (never `break`).
func checkUnmarkRemovesOne(p *load.Program, r *kit.Report, rule string) {
	f := fn(p, r, rule, H, "Repository.MarkHeaderNotInvalid")
	if f == nil {
		return
	}
	key := "MarkHeaderNotInvalid/removes-exactly-the-match"
	invF := p.Field(H, "Repository", "invalidHashes")
	var store *ssa.Store
	kit.AllInstrs(f, func(in ssa.Instruction) {
		if st, ok := in.(*ssa.Store); ok {
			if fl, _ := kit.FieldOfAddr(st.Addr); fl == invF {
				store = st
			}
		}
	})
	if store == nil {
		r.Bad(rule, key, posOf(p, f.Blocks[0].Instrs[0]), "the invalid list is never changed by MarkHeaderNotInvalid")
		return
	}
	eq := kit.FindGuards(f, kit.CallCond(nil, load.BitcoinPkg+".Hash32.Equal"))
	if len(eq) == 0 {
		r.Bad(rule, key, posOf(p, store), "no comparison of a listed hash with the hash to unmark")
		return
	}
	isList := func(v ssa.Value) bool { return loadOfField(kit.Strip(v), invF) }
	bad := ""
	val := kit.Strip(store.Val)
	// shape 1: append(list[:i], list[i+1:]...)
	if c, ok := val.(*ssa.Call); ok && kit.CallID(c) == "builtin.append" && len(c.Call.Args) == 2 {
		a, b := kit.Strip(c.Call.Args[0]), kit.Strip(c.Call.Args[1])
		sa, okA := a.(*ssa.Slice)
		sb, okB := b.(*ssa.Slice)
		if okA && okB && isList(sa.X) && isList(sb.X) && sa.Low == nil && sa.High != nil && sb.High == nil && sb.Low != nil {
			lin := kit.NewLin(f)
			hi, lo := lin.Of(sa.High), lin.Of(sb.Low)
			if !lo.Equal(hi.AddK(1)) {
				bad = "the list is rebuilt from list[:" + hi.String() + "] and list[" + lo.String() + ":]: not exactly one element is left out"
			}
			// the store lies behind the match — or the index removed is the very index whose element
			// was compared (a search loop `for i < len && !list[i].Equal(h) { i++ }` followed by an
			// `i == len` return reaches the store only with the match at i)
			if ok, _ := kit.DominatedByEdges(f, store, edgesOf(eq, true), nil, p.Pos); !ok && bad == "" {
				same := false
				for _, g := range eq {
					if c, isCall := g.If.Cond.(*ssa.Call); isCall {
						for _, a := range c.Call.Args {
							if ia, isIA := kit.Strip(a).(*ssa.IndexAddr); isIA && isList(ia.X) && lin.Of(ia.Index).Equal(hi) {
								same = true
							}
						}
					} else if u, isNot := g.If.Cond.(*ssa.UnOp); isNot {
						if c, isCall := u.X.(*ssa.Call); isCall {
							for _, a := range c.Call.Args {
								if ia, isIA := kit.Strip(a).(*ssa.IndexAddr); isIA && isList(ia.X) && lin.Of(ia.Index).Equal(hi) {
									same = true
								}
							}
						}
					}
				}
				if !same {
					bad = "the element is removed without having been compared with the hash to unmark"
				}
			}
			r.Check(bad == "", rule, key, posOf(p, store), "append(list[:i], list[i+1:]...) behind the match", bad)
			return
		}
	}
	// shape 2: a rebuilt list: every element that does not match is kept — from the top of an
	// iteration, with the match edges closed, the next iteration is reached only through an append
	var apps []ssa.Instruction
	kit.AllInstrs(f, func(in ssa.Instruction) {
		if c, ok := in.(*ssa.Call); ok && kit.CallID(c) == "builtin.append" {
			apps = append(apps, in)
		}
	})
	header, loop := innermostLoop(f, eq[0].If.Block())
	if header == nil || len(apps) == 0 {
		r.Bad(rule, key, posOf(p, store), "the new list is neither append(list[:i], list[i+1:]...) nor rebuilt element by element: it cannot be seen to lack exactly the unmarked hash")
		return
	}
	var starts []kit.Pt
	for _, s := range header.Succs {
		if loop[s] {
			starts = append(starts, kit.Pt{B: s, I: 0})
		}
	}
	rr := kit.Reach(f, starts, kit.Opts{StopAt: kit.InstrSet(apps...), BlockEdge: kit.EdgeSet(edgesOf(eq, true)...)})
	if rr.Has(header.Instrs[0]) {
		bad = "an element that does not match can be left out of the rebuilt list"
	}
	for _, ret := range kit.Returns(f) {
		if rr.Has(ret) {
			bad = "the rebuild can end before every element was looked at"
		}
	}
	// a match must not end the loop: the elements behind it are still to be copied
	m := kit.Reach(f, func() []kit.Pt {
		var out []kit.Pt
		for _, e := range edgesOf(eq, true) {
			out = append(out, kit.EdgeStart(e))
		}
		return out
	}(), kit.Opts{StopAt: func(in ssa.Instruction) bool { return in == header.Instrs[0] }})
	if m.Has(store) && !m.Has(header.Instrs[0]) {
		bad = "the loop ends at the match (break): every hash listed after the unmarked one is dropped from the list as well, and the shortened list is persisted"
	}
	r.Check(bad == "", rule, key, posOf(p, store), "rebuilt list keeps every element but the match", bad)
}

// checkLongestTiesKeepFirst (C11): among branches with exactly the same accumulated work
// Branches.Longest keeps the earlier one. Save writes the index in list order (the consolidated tip
// first) and Load picks the tip with Longest() over that order: a `>=` comparison (or the reversed,
// negated IsLonger) makes the loaded repository take the other of two equal-work branches as tip.
func checkLongestTiesKeepFirst(p *load.Program, r *kit.Report, rule string) {
	f := fn(p, r, rule, H, "Branches.Longest")
	if f == nil {
		return
	}
	key := "Branches.Longest/ties-keep-the-earlier-branch"
	isCand := func(v ssa.Value) bool {
		return kit.DependsOnNoPhi(v, func(x ssa.Value) bool {
			switch y := x.(type) {
			case *ssa.IndexAddr:
				// an element of the list itself or of a sub-slice of it (`range bs[1:]`)
				base := kit.Strip(y.X)
				if sl, ok := base.(*ssa.Slice); ok {
					base = kit.Strip(sl.X)
				}
				return len(f.Params) > 0 && base == ssa.Value(f.Params[0])
			case *ssa.Extract:
				_, isNext := y.Tuple.(*ssa.Next)
				return isNext
			}
			return false
		})
	}
	var found bool
	kit.AllInstrs(f, func(in ssa.Instruction) {
		c, ok := in.(*ssa.Call)
		if !ok {
			return
		}
		id := kit.CallID(c)
		isCmp := id == "math/big.Int.Cmp"
		isLonger := id == H+".Branch.IsLonger"
		if !isCmp && !isLonger || len(c.Call.Args) != 2 {
			return
		}
		candIsRecv := isCand(c.Call.Args[0])
		candIsArg := isCand(c.Call.Args[1])
		if candIsRecv == candIsArg {
			return
		}
		// the branch on this comparison
		var ifi *ssa.If
		var op token.Token
		neg := false
		for _, b := range f.Blocks {
			x, ok := b.Instrs[len(b.Instrs)-1].(*ssa.If)
			if !ok {
				continue
			}
			cond := x.Cond
			n := false
			for {
				if u, ok := cond.(*ssa.UnOp); ok && u.Op == token.NOT {
					cond, n = u.X, !n
					continue
				}
				break
			}
			if isLonger && cond == ssa.Value(c) {
				ifi, neg = x, n
			}
			if bo, ok := cond.(*ssa.BinOp); ok && isCmp && bo.X == ssa.Value(c) {
				if z, isC := kit.ConstInt(bo.Y); isC && z == 0 {
					ifi, op, neg = x, bo.Op, n
				}
			}
		}
		if ifi == nil {
			return
		}
		// which edge replaces the selection: the one that leads to a block feeding a candidate into a
		// selection phi
		replaceOnTrue, replaceOnFalse := false, false
		for _, b := range f.Blocks {
			for _, in2 := range b.Instrs {
				ph, ok := in2.(*ssa.Phi)
				if !ok {
					break
				}
				for i, e := range ph.Edges {
					if !isCand(e) {
						continue
					}
					pred := b.Preds[i]
					t, fl := ifi.Block().Succs[0], ifi.Block().Succs[1]
					// a successor speaks for its edge only when the edge is its only way in
					if t == pred || (len(t.Preds) == 1 && t.Dominates(pred)) {
						replaceOnTrue = true
					}
					if fl == pred || (len(fl.Preds) == 1 && fl.Dominates(pred)) {
						replaceOnFalse = true
					}
					// the comparison block feeds the phi directly on one of its edges
					if pred == ifi.Block() {
						if t == b && fl != b {
							replaceOnTrue = true
						}
						if fl == b && t != b {
							replaceOnFalse = true
						}
					}
				}
			}
		}
		if replaceOnTrue == replaceOnFalse {
			return
		}
		condTrueReplaces := replaceOnTrue != neg // the condition (negations stripped) holds on the replacing edge
		found = true
		strict := false
		switch {
		case isLonger:
			// cand.IsLonger(inc) true → strictly more; inc.IsLonger(cand) false → more or EQUAL
			strict = candIsRecv && condTrueReplaces
		default:
			o := op
			if !condTrueReplaces { // replacing when the comparison is false: invert
				switch o {
				case token.GTR:
					o = token.LEQ
				case token.GEQ:
					o = token.LSS
				case token.LSS:
					o = token.GEQ
				case token.LEQ:
					o = token.GTR
				}
			}
			if candIsRecv {
				strict = o == token.GTR
			} else {
				strict = o == token.LSS
			}
		}
		r.Check(strict, rule, key, posOf(p, c), "the selection is replaced only by a branch with strictly more work",
			"a branch with exactly the same accumulated work replaces the one selected before: after Save and Load (the index lists the consolidated tip first) the other of two equal-work branches becomes the tip, and LastHash/Hash(h)/CheckHeader differ from what the saved repository reported")
	})
	if !found {
		r.Unknown(rule, key, "-", "the comparison that decides the selection in Branches.Longest was not found")
	}
}

// checkNoSharedElementInLoop: a pointer that is created before a loop, refilled inside it
// (passed to a call or stored through) and appended to a slice (or sent, or put into a map) in
// every iteration makes all the collected elements one object holding the last value — `data :=
// &HeaderData{}; for … { data.Deserialize(r); result = append(result, data) }`.
func checkNoSharedElementInLoop(p *load.Program, r *kit.Report, rule string) {
	owned := errOwnedFuncs(p, r.Property, errTolExtraTrees)
	var fs []*ssa.Function
	for f := range owned {
		fs = append(fs, f)
	}
	sort.Slice(fs, func(i, j int) bool { return kit.FuncID(fs[i]) < kit.FuncID(fs[j]) })
	n := 0
	k := newKeyer()
	for _, f := range fs {
		kit.AllInstrs(f, func(in ssa.Instruction) {
			c, ok := in.(*ssa.Call)
			if !ok || kit.CallID(c) != "builtin.append" || len(c.Call.Args) != 2 {
				return
			}
			_, loop := innermostLoop(f, in.Block())
			if loop == nil {
				return
			}
			// the appended elements: append(s, x) arrives as a slice of a fresh array holding x
			var elems []ssa.Value
			if sl, ok := c.Call.Args[1].(*ssa.Slice); ok {
				if al, ok := sl.X.(*ssa.Alloc); ok && al.Referrers() != nil {
					for _, ref := range *al.Referrers() {
						if ia, ok := ref.(*ssa.IndexAddr); ok && ia.Referrers() != nil {
							for _, r2 := range *ia.Referrers() {
								if st, ok := r2.(*ssa.Store); ok && st.Addr == ssa.Value(ia) {
									elems = append(elems, st.Val)
								}
							}
						}
					}
				}
			}
			for _, e := range elems {
				if _, isPtr := e.Type().Underlying().(*types.Pointer); !isPtr {
					continue
				}
				n++
				obj := kit.Strip(e)
				def, isIn := obj.(ssa.Instruction)
				bad := ""
				if al, isAlloc := obj.(*ssa.Alloc); isAlloc && isIn && !loop[def.Block()] && al.Heap {
					// refilled inside the loop?
					refilled := false
					if al.Referrers() != nil {
						for _, ref := range *al.Referrers() {
							ri, _ := ref.(ssa.Instruction)
							if ri == nil || !loop[ri.Block()] || ri == ssa.Instruction(c) {
								continue
							}
							switch x := ref.(type) {
							case ssa.CallInstruction:
								if kit.CallID(x) != "builtin.append" {
									refilled = true
								}
							case *ssa.FieldAddr, *ssa.IndexAddr:
								refilled = true
							case *ssa.Store:
								if x.Addr == ssa.Value(al) {
									refilled = true
								}
							}
						}
					}
					if refilled {
						bad = "the object appended here is created once, before the loop, and refilled in every iteration: every element of the list is the same object and ends up holding the last value read"
					}
				}
				r.Check(bad == "", rule, k.key(kit.ShortID(kit.FuncID(f))+"/appended-element"), posOf(p, in), "each appended pointer is its own object", bad)
			}
		})
	}
	// the same through a callee that keeps the pointer it is given (wire.MsgGetHeaders.
	// AddBlockLocatorHash appends its argument): `for _, h := range hs { msg.Add(&h) }` — the
	// module is built with go 1.18 semantics, one loop variable for all iterations
	// (what is collected this way in the two packages are locator hashes and inventory vectors: the
	// content of those lists is what C19 and C06 are about; for other properties a wrong locator is
	// a refused or useless request, not a violation)
	retainOwners := map[string]bool{"C19": true, "C06": true}
	for _, f := range fs {
		if !retainOwners[r.Property] {
			break
		}
		kit.AllInstrs(f, func(in ssa.Instruction) {
			c, ok := in.(*ssa.Call)
			if !ok || c.Call.IsInvoke() {
				return
			}
			callee := kit.StaticCallee(c)
			if callee == nil || callee.Blocks == nil {
				return
			}
			_, loop := innermostLoop(f, in.Block())
			if loop == nil {
				return
			}
			for i, a := range c.Call.Args {
				al, isAlloc := kit.Strip(a).(*ssa.Alloc)
				if !isAlloc || !al.Heap || loop[al.Block()] || i >= len(callee.Params) || !retainsParam(callee, i) {
					continue
				}
				// rewritten inside the loop?
				rewritten := false
				for _, ref := range *al.Referrers() {
					if st, ok := ref.(*ssa.Store); ok && st.Addr == ssa.Value(al) && loop[st.Block()] {
						rewritten = true
					}
				}
				n++
				bad := ""
				if rewritten {
					bad = "the address of one variable that the loop overwrites in every iteration is handed to " + kit.ShortID(kit.FuncID(callee)) + ", which keeps the pointer: every collected entry is the same object and ends up holding the last value"
				}
				r.Check(bad == "", rule, k.key(kit.ShortID(kit.FuncID(f))+"/retained-argument"), posOf(p, in), "each retained pointer is its own object", bad)
			}
		})
	}
	if n == 0 {
		r.OKTrivial(rule, "shared-element/none", "-", "no pointer is appended inside a loop in the call trees of this property's entry points")
	}
}

// retainsParam: the function stores its i-th (pointer) parameter into memory that outlives the
// call — a field, a slice element (the argument array of an append), a map, a channel.
func retainsParam(f *ssa.Function, i int) bool {
	prm := f.Params[i]
	if _, isPtr := prm.Type().Underlying().(*types.Pointer); !isPtr {
		return false
	}
	found := false
	kit.AllInstrs(f, func(in ssa.Instruction) {
		switch x := in.(type) {
		case *ssa.Store:
			if kit.Strip(x.Val) == ssa.Value(prm) {
				if _, local := x.Addr.(*ssa.Alloc); !local {
					found = true
				}
			}
		case *ssa.MapUpdate:
			if kit.Strip(x.Value) == ssa.Value(prm) {
				found = true
			}
		case *ssa.Send:
			if kit.Strip(x.X) == ssa.Value(prm) {
				found = true
			}
		}
	})
	return found
}

// checkStampBehindGuards (C06): in GetTxRequests an entry is stamped as requested (LastRequested =
// now) only for a node that announced it: the store lies behind contains(NodeIDs, nodeID). A stamp
// made for a node that never announced the tx restarts the timeout without any request being sent;
// with periodic polls by every node an undelivered tx never becomes requestable again.
func checkStampBehindGuards(p *load.Program, r *kit.Report, rule string) {
	f := fn(p, r, rule, R, "TxManager.GetTxRequests")
	if f == nil {
		return
	}
	key := "GetTxRequests/stamp-only-for-an-announcer"
	lastF := p.Field(R, "TxData", "LastRequested")
	var stamps []ssa.Instruction
	kit.AllInstrs(f, func(in ssa.Instruction) {
		if st, ok := in.(*ssa.Store); ok {
			if fl, _ := kit.FieldOfAddr(st.Addr); fl != nil && fl == lastF {
				stamps = append(stamps, in)
			}
		}
	})
	if len(stamps) == 0 {
		r.Bad(rule, key, posOf(p, f.Blocks[0].Instrs[0]), "GetTxRequests never stamps LastRequested")
		return
	}
	has := kit.FindGuards(f, kit.CallCond(nil, R+".contains"))
	if len(has) == 0 {
		r.Unknown(rule, key, posOf(p, stamps[0]), "no contains(NodeIDs, nodeID) test found")
		return
	}
	k := newKeyer()
	for _, st := range stamps {
		ok, path := kit.DominatedByEdges(f, st, edgesOf(has, true), nil, p.Pos)
		r.Check(ok, rule, k.key(key), posOf(p, st), "the stamp lies behind contains(NodeIDs, nodeID)",
			"LastRequested is stamped for a node that may not have announced the tx ("+path+"): a poll by a bystander restarts the timeout although nothing is requested, and the peers that did announce the tx are refused until it runs out again")
	}
}

// checkSideBaseLabel (C19): the locator entry for a side branch pairs the hash of the lowest header
// the branch holds with THAT header's height — the label only drives the newest-first sort, so a
// wrong one (the branch tip's height) silently moves an old best-chain hash in front of the recent
// ones after an unconsolidated reorganisation.
func checkSideBaseLabel(p *load.Program, r *kit.Report, rule string) {
	f := fn(p, r, rule, H, "Repository.GetLocatorHashes")
	if f == nil {
		return
	}
	key := "GetLocatorHashes/side-branch-base-label"
	heightF := p.Field(H, "HeightHash", "Height")
	hashF := p.Field(H, "HeightHash", "Hash")
	lin := kit.NewLin(f)
	n := 0
	k := newKeyer()
	kit.AllInstrs(f, func(in ssa.Instruction) {
		al, ok := in.(*ssa.Alloc)
		if !ok || !strings.HasSuffix(al.Type().String(), "HeightHash") || al.Referrers() == nil {
			return
		}
		var hv, hashV ssa.Value
		for _, ref := range *al.Referrers() {
			fa, ok := ref.(*ssa.FieldAddr)
			if !ok || fa.Referrers() == nil {
				continue
			}
			fl, _ := kit.FieldOfAddr(fa)
			for _, r2 := range *fa.Referrers() {
				if st, ok := r2.(*ssa.Store); ok && st.Addr == ssa.Value(fa) {
					if fl == heightF {
						hv = st.Val
					}
					if fl == hashF {
						hashV = st.Val
					}
				}
			}
		}
		if hv == nil || hashV == nil {
			return
		}
		// the hash comes from AtHeight(x).Hash
		var at *ssa.Call
		kit.DependsOn(hashV, func(v ssa.Value) bool {
			if c, ok := v.(*ssa.Call); ok && kit.CallID(c) == H+".Branch.AtHeight" {
				at = c
				return true
			}
			return false
		})
		if at == nil {
			return // the best-chain entries are built in Branch.GetLocatorHashes
		}
		n++
		want := lin.Of(at.Call.Args[len(at.Call.Args)-1])
		got := lin.Of(hv)
		r.Check(got.Equal(want), rule, k.key(key), posOf(p, in), "Height is the height the hash was read at",
			"the entry pairs the hash at height "+want.String()+" with the label "+got.String()+": the sort by height puts this hash at the wrong place of the locator (after an unconsolidated reorganisation an old best-chain hash comes before the recent ones and a same-chain peer answers from far below our tip)")
	})
	if n == 0 {
		r.Unknown(rule, key, "-", "no side-branch entry {Height, AtHeight(…).Hash} found in GetLocatorHashes")
	}
}

// checkConfirmBehindCancelCheck (C04, imported by C05 and C16): the confirmation stage of
// BlockDownloader.handleBlock (coinbase, ConfirmTx, AppendBlockTxIDs) starts only behind a
// wasCancelled() == false test made after the last transaction was received — the per-transaction
// test inside the receive loop does not cover a cancel that lands after the last one.
func checkConfirmBehindCancelCheck(p *load.Program, r *kit.Report, rule string) {
	f := fn(p, r, rule, R, "BlockDownloader.handleBlock")
	if f == nil {
		return
	}
	key := "handleBlock/cancel-check-before-confirm"
	cb := kit.CallsTo(f, "invoke:"+R+".TxProcessor.ProcessCoinbaseTx")
	if len(cb) == 0 {
		kit.AllInstrs(f, func(in ssa.Instruction) {
			if c, ok := in.(ssa.CallInstruction); ok && c.Common().IsInvoke() && c.Common().Method.Name() == "ProcessCoinbaseTx" {
				cb = append(cb, c)
			}
		})
	}
	if len(cb) == 0 {
		r.Unknown(rule, key, "-", "no ProcessCoinbaseTx call in handleBlock")
		return
	}
	canc := kit.FindGuards(f, kit.CallCond(nil, R+".BlockDownloader.wasCancelled"))
	// only the tests outside the receive loop count
	var after []kit.Edge
	for _, g := range canc {
		if h, _ := innermostLoop(f, g.If.Block()); h == nil {
			after = append(after, g.FailEdge())
		}
	}
	ok, path := kit.DominatedByEdges(f, cb[0].(ssa.Instruction), after, nil, p.Pos)
	r.Check(ok && len(after) > 0, rule, key, posOf(p, cb[0].(ssa.Instruction)), "the confirmation stage lies behind wasCancelled() == false, tested after the receive loop",
		"the coinbase / ConfirmTx / AppendBlockTxIDs stage can start without a cancellation test after the last transaction ("+path+"): a download cancelled just then (another download of the block finished first, or the block was orphaned) still confirms its transactions and records the block")
}

// checkExtendedDispatch (C15): handleExtended hands the inner message only to the block or the tx
// handler. The handler table also holds handleExtended itself (under "extmsg"): a lookup with a
// command the peer chose freely lets an extended message nest extended messages, one stack frame
// and one TeeReader per 20 bytes sent, until the runtime aborts the process with a stack overflow
// that no recover contains.
func checkExtendedDispatch(p *load.Program, r *kit.Report, rule string) {
	f := fn(p, r, rule, R, "BitcoinNode.handleExtended")
	if f == nil {
		return
	}
	hf := p.Field(R, "BitcoinNode", "handlers")
	allowed := map[string]bool{"block": true, "tx": true}
	k := newKeyer()
	n := 0
	kit.AllInstrs(f, func(in ssa.Instruction) {
		lu, ok := in.(*ssa.Lookup)
		if !ok || !loadOfField(lu.X, hf) {
			return
		}
		n++
		key := k.key("handleExtended/dispatch-only-block-or-tx")
		if c, isConst := kit.ConstString(lu.Index); isConst {
			r.Check(allowed[c], rule, key, posOf(p, in), "constant command "+c, "handleExtended dispatches to the handler of `"+c+"`: only block and tx are extended payloads")
			return
		}
		v := kit.Strip(lu.Index)
		// the lookup is reached only where v was found equal to "block" or "tx"
		eq := kit.FindGuards(f, func(c ssa.Value) (bool, bool) {
			b, ok := c.(*ssa.BinOp)
			if !ok || (b.Op != token.EQL && b.Op != token.NEQ) {
				return false, false
			}
			x, y := kit.Strip(b.X), kit.Strip(b.Y)
			if y == v {
				x, y = y, x
			}
			if x != v {
				return false, false
			}
			if cs, isC := kit.ConstString(y); !isC || !allowed[cs] {
				return false, false
			}
			return true, b.Op == token.EQL
		})
		rr := kit.Reach(f, []kit.Pt{kit.Entry(f)}, kit.Opts{BlockEdge: kit.EdgeSet(edgesOf(eq, true)...)})
		bad := ""
		if rr.Has(in) {
			bad = "the handler table is consulted with a command the peer chose and that was not found to be block or tx (" + rr.PathTo(in, p.Pos) + "): the table holds handleExtended itself under extmsg, so nested extended messages recurse once per 20 bytes sent until the stack overflow aborts the process (no recover contains it); any other handler is reached without its checksum test as well"
		}
		r.Check(bad == "", rule, key, posOf(p, in), "the looked-up command is block or tx on every path", bad)
	})
	if n == 0 {
		r.Unknown(rule, "handleExtended/dispatch-only-block-or-tx", "-", "no lookup of the handler table in handleExtended")
	}
}

// minusOneSentinel: own functions with an integer result for which some return gives the constant
// -1 (`not found`) — Branch.Find, Branches.Find (second result), Repository.HashHeight, … Computed
// from the current tree.
func minusOneSentinel(p *load.Program) map[*ssa.Function]map[int]bool {
	out := map[*ssa.Function]map[int]bool{}
	for _, f := range pkgFuncs(p, R, H) {
		if f.Blocks == nil {
			continue
		}
		res := f.Signature.Results()
		for i := 0; i < res.Len(); i++ {
			bt, ok := res.At(i).Type().Underlying().(*types.Basic)
			if !ok || bt.Info()&types.IsInteger == 0 {
				continue
			}
			for _, ret := range kit.Returns(f) {
				if i < len(ret.Results) {
					if k, isC := kit.ConstInt(ret.Results[i]); isC && k == -1 {
						if out[f] == nil {
							out[f] = map[int]bool{}
						}
						out[f][i] = true
					}
				}
			}
		}
	}
	return out
}

// checkSentinelExact: the `not found` answer of a lookup is -1, and 0 is a valid answer (the first
// header, the first element). A test of such a result that puts 0 on the `not found` side
// (`<= 0`, `< 1`, `> 0`, `>= 1`) treats the first header as missing: a reorganisation whose fork
// point is the header at height 0 is not announced, a branch forking there is not found.
func checkSentinelExact(p *load.Program, r *kit.Report, rule string) {
	owned := errOwnedFuncs(p, r.Property, errTolExtraTrees)
	var fs []*ssa.Function
	for f := range owned {
		// the announcement of a reorganisation is C07's (its failure is logged and changes no
		// verdict and no stored state): decided there
		if kit.FuncID(f) == H+".Repository.sendBranchUpdate" {
			continue
		}
		fs = append(fs, f)
	}
	sort.Slice(fs, func(i, j int) bool { return kit.FuncID(fs[i]) < kit.FuncID(fs[j]) })
	sentinelExactIn(p, r, rule, fs)
}

func sentinelExactIn(p *load.Program, r *kit.Report, rule string, fs []*ssa.Function) {
	sent := minusOneSentinel(p)
	n := 0
	k := newKeyer()
	for _, f := range fs {
		kit.AllInstrs(f, func(in ssa.Instruction) {
			b, ok := in.(*ssa.BinOp)
			if !ok {
				return
			}
			switch b.Op {
			case token.LSS, token.LEQ, token.GTR, token.GEQ, token.EQL, token.NEQ:
			default:
				return
			}
			x, y, op := b.X, b.Y, b.Op
			if _, isC := kit.ConstInt(x); isC {
				x, y = y, x
				switch op {
				case token.LSS:
					op = token.GTR
				case token.LEQ:
					op = token.GEQ
				case token.GTR:
					op = token.LSS
				case token.GEQ:
					op = token.LEQ
				}
			}
			c, isC := kit.ConstInt(y)
			if !isC {
				return
			}
			// x is the sentinel result of a call
			var call *ssa.Call
			idx := 0
			switch v := kit.Strip(x).(type) {
			case *ssa.Call:
				call = v
			case *ssa.Extract:
				call, _ = v.Tuple.(*ssa.Call)
				idx = v.Index
			}
			if call == nil {
				return
			}
			callee := kit.StaticCallee(call)
			if callee == nil || !sent[callee][idx] {
				return
			}
			n++
			zeroAsMissing := (op == token.LEQ && c == 0) || (op == token.LSS && c == 1) || (op == token.GTR && c == 0) || (op == token.GEQ && c == 1)
			r.Check(!zeroAsMissing, rule, k.key(kit.ShortID(kit.FuncID(f))+"/"+kit.ShortID(kit.FuncID(callee))), posOf(p, in), "the test separates -1 from the valid answers",
				"the answer 0 of "+kit.ShortID(kit.FuncID(callee))+" (the first header / element) is treated like its `not found` answer -1")
		})
	}
	if n == 0 {
		r.OKTrivial(rule, "sentinel-tests/none", "-", "no -1-sentinel result is compared with a constant in the call trees of this property's entry points")
	}
}

// checkStopBeforeShutdown (C16): when BlockManager.Run ends, Stop (which cancels every registered
// downloader and interrupts its thread) runs before shutdown (which waits until the downloader list
// is empty). The other order waits for downloads nobody told to end: Run never returns while a
// download is in flight.
func checkStopBeforeShutdown(p *load.Program, r *kit.Report, rule string) {
	f := fn(p, r, rule, R, "BlockManager.Run")
	if f == nil {
		return
	}
	key := "BlockManager.Run/stop-before-shutdown"
	stopID, shutID := R+".BlockManager.Stop", R+".BlockManager.shutdown"
	// deferred work in registration order
	var defers []*ssa.Defer
	for _, b := range f.DomPreorder() {
		for _, in := range b.Instrs {
			if d, ok := in.(*ssa.Defer); ok {
				defers = append(defers, d)
			}
		}
	}
	var seq []string // order of execution at exit
	for i := len(defers) - 1; i >= 0; i-- {
		d := defers[i]
		switch id := kit.CallID(d); id {
		case stopID:
			seq = append(seq, "Stop")
			continue
		case shutID:
			seq = append(seq, "shutdown")
			continue
		}
		if mc, ok := d.Call.Value.(*ssa.MakeClosure); ok {
			if g, ok := mc.Fn.(*ssa.Function); ok {
				st, sh := kit.CallsTo(g, stopID), kit.CallsTo(g, shutID)
				switch {
				case len(st) > 0 && len(sh) > 0:
					if kit.Reach(g, kit.After(sh[0].(ssa.Instruction)), kit.Opts{}).Has(st[0].(ssa.Instruction)) {
						seq = append(seq, "shutdown", "Stop")
					} else {
						seq = append(seq, "Stop", "shutdown")
					}
				case len(st) > 0:
					seq = append(seq, "Stop")
				case len(sh) > 0:
					seq = append(seq, "shutdown")
				}
			}
		}
	}
	first := func(name string) int {
		for i, s := range seq {
			if s == name {
				return i
			}
		}
		return -1
	}
	si, hi := first("Stop"), first("shutdown")
	pos := posOf(p, f.Blocks[0].Instrs[0])
	switch {
	case hi < 0:
		r.Unknown(rule, key, pos, "no deferred shutdown in BlockManager.Run (exit sequence: %v)", seq)
	case si < 0 || si > hi:
		r.Bad(rule, key, pos, "at the end of Run shutdown (wait until no downloader is registered) runs before Stop (cancel the downloaders, interrupt their threads) — exit sequence %v: with a download in flight nobody ends it, the list never empties and Run never returns", seq)
	default:
		r.OK(rule, key, pos, "exit sequence %v", seq)
	}
}

// checkAbortThenWait (C05): after synchronizeBlocks closed `abort` for an orphaned block it keeps
// waiting for the request's completion value (the block manager answers BlockAborted on the
// unbuffered `complete` channel). Returning without reading it leaves processRequest blocked on
// that send for ever: the next round's request is queued behind it and never served.
func checkAbortThenWait(p *load.Program, r *kit.Report, rule string) {
	f := fn(p, r, rule, R, "NodeManager.synchronizeBlocks")
	if f == nil {
		return
	}
	key := "synchronizeBlocks/abort-then-wait-for-completion"
	var add *ssa.Call
	for _, c := range kit.CallsTo(f, R+".BlockManager.AddRequest") {
		add, _ = c.(*ssa.Call)
	}
	if add == nil {
		r.Unknown(rule, key, "-", "no AddRequest call in synchronizeBlocks")
		return
	}
	isRes := func(v ssa.Value, i int) bool {
		e, ok := kit.Strip(v).(*ssa.Extract)
		return ok && e.Tuple == ssa.Value(add) && e.Index == i
	}
	var closes []ssa.Instruction
	kit.AllInstrs(f, func(in ssa.Instruction) {
		if c, ok := in.(*ssa.Call); ok && kit.CallID(c) == "builtin.close" && len(c.Call.Args) == 1 && isRes(c.Call.Args[0], 1) {
			closes = append(closes, in)
		}
	})
	if len(closes) == 0 {
		r.Unknown(rule, key, posOf(p, add), "abort is never closed")
		return
	}
	var got []kit.Edge
	for _, b := range f.Blocks {
		ifi, ok := b.Instrs[len(b.Instrs)-1].(*ssa.If)
		if !ok {
			continue
		}
		bo, ok := ifi.Cond.(*ssa.BinOp)
		if !ok || bo.Op != token.EQL {
			continue
		}
		ex, ok := bo.X.(*ssa.Extract)
		if !ok || ex.Index != 0 {
			continue
		}
		sel, ok := ex.Tuple.(*ssa.Select)
		if !ok {
			continue
		}
		k, isC := kit.ConstInt(bo.Y)
		if !isC || k < 0 || int(k) >= len(sel.States) {
			continue
		}
		if st := sel.States[k]; st.Dir == types.RecvOnly && isRes(st.Chan, 0) {
			got = append(got, kit.Edge{From: b, Succ: 0})
		}
	}
	var recvs []ssa.Instruction
	kit.AllInstrs(f, func(in ssa.Instruction) {
		if u, ok := in.(*ssa.UnOp); ok && u.Op == token.ARROW && isRes(u.X, 0) {
			recvs = append(recvs, in)
		}
	})
	bad := ""
	at := closes[0]
	for _, cl := range closes {
		rr := kit.Reach(f, kit.After(cl), kit.Opts{StopAt: kit.InstrSet(recvs...), BlockEdge: kit.EdgeSet(got...)})
		for _, ret := range kit.Returns(f) {
			if rr.Has(ret) && rr.ErrClass(ret) != kit.ErrNonNil {
				at = cl
				bad = "after closing abort for an orphaned block synchronizeBlocks can end the round without reading the request's completion value (" + rr.PathTo(ret, p.Pos) + "): the block manager stays blocked sending BlockAborted on the unbuffered channel, and the next round's request is never served"
			}
		}
	}
	r.Check(bad == "", rule, key, posOf(p, at), "every successful end of the round after close(abort) follows the receipt of the completion value", bad)
}

// checkAnnouncersKept (C06): the announcer list of an entry that other goroutines can already see
// changes only by appendID / removeID of its previous value — one announcer is added or taken out.
// Replacing it wholesale (an empty list when a timed-out request is re-issued) forgets the peers
// that announced the tx while the first request was outstanding: the tx is never offered to them.
func checkAnnouncersKept(p *load.Program, r *kit.Report, rule string) {
	nodeIDs := p.Field(R, "TxData", "NodeIDs")
	if nodeIDs == nil {
		r.Unknown(rule, "TxData.NodeIDs", "-", "field not found")
		return
	}
	n := 0
	k := newKeyer()
	for _, f := range pkgFuncs(p, R) {
		if f.Blocks == nil || strings.HasSuffix(p.FileOf(f.Pos()), "_test.go") {
			continue
		}
		for _, w := range kit.DirectWrites(f) {
			if w.Field != nodeIDs || w.Kind != "store" {
				continue
			}
			st, ok := w.Instr.(*ssa.Store)
			if !ok {
				continue
			}
			if _, isElem := st.Addr.(*ssa.IndexAddr); isElem {
				continue
			}
			_, base := kit.FieldOfAddr(st.Addr)
			if al, fresh := kit.Strip(base).(*ssa.Alloc); fresh && al.Heap {
				// an entry under construction in this function (published later): any start value
				shared := false
				for _, ref := range *al.Referrers() {
					if mu, isMu := ref.(*ssa.MapUpdate); isMu && w.Instr.Block() != nil {
						if kit.Reach(f, kit.After(mu), kit.Opts{}).Has(w.Instr) {
							shared = true
						}
					}
				}
				if !shared {
					continue
				}
			}
			n++
			key := k.key(kit.ShortID(kit.FuncID(f)) + "/store:NodeIDs")
			ok2 := false
			if c := callOf(w.Val, 0); c != nil {
				id := kit.CallID(c)
				if (id == R+".appendID" || id == R+".removeID") && len(c.Call.Args) > 0 {
					if fl, b2 := kit.LoadedField(c.Call.Args[0]); fl == nodeIDs && kit.Strip(b2) == kit.Strip(base) {
						ok2 = true
					}
				}
			}
			r.Check(ok2, rule, key, posOf(p, w.Instr), "appendID/removeID of the entry's own list",
				"the announcer list of a shared entry is replaced by "+describe(kit.Strip(w.Val))+" instead of appendID/removeID of its previous value: the peers that announced the tx while a request was outstanding are forgotten and the tx is never requested from them")
		}
	}
	if n == 0 {
		r.Unknown(rule, "TxData.NodeIDs/stores", "-", "no store to the announcer list of a shared entry found")
	}
}

// checkSplitTableFrozen (C03): the split table (Repository.requiredSplit, Repository.splits) is
// configuration: after NewRepository built it no field of a Split that the repository holds is
// written again. A helper that adjusts the Height of its receiver must work on a copy — through a
// pointer receiver every locator request moves the height at which the required hash is enforced.
func checkSplitTableFrozen(p *load.Program, r *kit.Report, rule string) {
	fields := map[*types.Var]bool{}
	for _, n := range []string{"Name", "BeforeHash", "AfterHash", "Height"} {
		if f := p.Field(H, "Split", n); f != nil {
			fields[f] = true
		}
	}
	if len(fields) == 0 {
		r.Unknown(rule, "Split/fields", "-", "struct Split not found")
		return
	}
	n := 0
	k := newKeyer()
	for _, f := range pkgFuncs(p, H) {
		if f.Blocks == nil || strings.HasSuffix(p.FileOf(f.Pos()), "_test.go") {
			continue
		}
		name := kit.ShortID(kit.FuncID(f))
		for _, w := range kit.DirectWrites(f) {
			if w.Field == nil || !fields[w.Field] || w.Kind != "store" {
				continue
			}
			st, ok := w.Instr.(*ssa.Store)
			if !ok {
				continue
			}
			_, base := kit.FieldOfAddr(st.Addr)
			n++
			key := k.key(name + "/write:Split." + w.Field.Name())
			// a local value (a copy, or a literal under construction)
			if al, isAlloc := kit.Strip(base).(*ssa.Alloc); isAlloc && (!al.Heap || f.Name() == "NewRepository") {
				r.OK(rule, key, posOf(p, w.Instr), "written on a local value")
				continue
			}
			if ia, isElem := kit.Strip(base).(*ssa.IndexAddr); isElem && f.Name() == "NewRepository" {
				_ = ia
				r.OK(rule, key, posOf(p, w.Instr), "table under construction")
				continue
			}
			r.Bad(rule, key, posOf(p, w.Instr), "%s writes Split.%s through %s, which can be a split the repository holds: the height (or hash) at which the chain split is enforced changes while the repository runs", name, w.Field.Name(), describe(kit.Strip(base)))
		}
	}
	if n == 0 {
		r.OKTrivial(rule, "Split/no-field-writes", "-", "no field of a Split is written outside composite literals")
	}
}

// checkConsolidateIdentity (C11; C12 imports it): the branch Consolidate builds takes the place of
// `other` (the oldest branch): its parent, firstHeader, parentHeight and offset are other's. The
// first header names the branch file and its index entry — with the tip branch's first header the
// consolidated main chain is saved into the overtaking fork's stored file, whose stored parent
// height Save keeps: the next Load reports a chain that is not linked from genesis.
func checkConsolidateIdentity(p *load.Program, r *kit.Report, rule string) {
	f := fn(p, r, rule, H, "Branch.Consolidate")
	if f == nil {
		return
	}
	key := "Branch.Consolidate/takes-the-place-of-other"
	pos := posOf(p, f.Blocks[0].Instrs[0])
	var other *ssa.Parameter
	for _, prm := range f.Params[1:] {
		if strings.HasSuffix(prm.Type().String(), "headers.Branch") {
			other = prm
		}
	}
	if other == nil {
		r.Unknown(rule, key, pos, "no *Branch parameter")
		return
	}
	idFields := []string{"parent", "firstHeader", "parentHeight", "offset"}
	// fieldsFrom: for a Branch allocated in g, which of the identity fields are copies of the same
	// field of src (a pointer, or a struct value)
	fieldsFrom := func(g *ssa.Function, al *ssa.Alloc, isSrc func(base ssa.Value) bool) (map[string]bool, map[string]string) {
		okF := map[string]bool{}
		why := map[string]string{}
		whole := false
		for _, ref := range *al.Referrers() {
			if st, isSt := ref.(*ssa.Store); isSt && st.Addr == ssa.Value(al) {
				// *t = b (value receiver copied whole) or *t = *src
				v := kit.Strip(st.Val)
				if isSrc(v) {
					whole = true
				} else if u, isLd := v.(*ssa.UnOp); isLd && u.Op == token.MUL && isSrc(kit.Strip(u.X)) {
					whole = true
				}
			}
		}
		for _, n := range idFields {
			okF[n] = whole
		}
		for _, ref := range *al.Referrers() {
			fa, isFA := ref.(*ssa.FieldAddr)
			if !isFA || fa.Referrers() == nil {
				continue
			}
			fl, _ := kit.FieldOfAddr(fa)
			if fl == nil {
				continue
			}
			name := ""
			for _, n := range idFields {
				if fl == p.Field(H, "Branch", n) {
					name = n
				}
			}
			if name == "" {
				continue
			}
			for _, r2 := range *fa.Referrers() {
				st, isSt := r2.(*ssa.Store)
				if !isSt || st.Addr != ssa.Value(fa) {
					continue
				}
				sf, sbase := kit.LoadedField(st.Val)
				if sf == fl && sbase != nil && isSrc(kit.Strip(sbase)) {
					okF[name] = true
				} else {
					okF[name] = false
					why[name] = describe(kit.Strip(st.Val))
				}
			}
		}
		return okF, why
	}
	bad := ""
	found := false
	for _, ret := range kit.Returns(f) {
		v := kit.RetOperand(ret, 0)
		if v == nil || kit.IsNilConst(v) {
			continue
		}
		switch x := kit.Strip(v).(type) {
		case *ssa.Alloc:
			found = true
			okF, why := fieldsFrom(f, x, func(b ssa.Value) bool { return b == ssa.Value(other) })
			for _, n := range idFields {
				if !okF[n] {
					bad = "the consolidated branch's " + n + " is " + why[n] + ", not other." + n
				}
			}
		case *ssa.Call:
			callee := kit.StaticCallee(x)
			if callee == nil || callee.Blocks == nil || len(x.Call.Args) == 0 {
				bad = "the consolidated branch comes from an unresolved call"
				break
			}
			found = true
			// receiver must be other (or *other for a value receiver)
			recv := kit.Strip(x.Call.Args[0])
			if u, isLd := recv.(*ssa.UnOp); isLd && u.Op == token.MUL {
				recv = kit.Strip(u.X)
			}
			if recv != ssa.Value(other) {
				bad = "the consolidated branch is derived from " + describe(recv) + ", not from other"
				break
			}
			var al *ssa.Alloc
			for _, cr := range kit.Returns(callee) {
				if a, isA := kit.Strip(kit.RetOperand(cr, 0)).(*ssa.Alloc); isA {
					al = a
				}
			}
			if al == nil {
				bad = kit.ShortID(kit.FuncID(callee)) + " does not return a branch it allocates"
				break
			}
			okF, why := fieldsFrom(callee, al, func(b ssa.Value) bool {
				if b == ssa.Value(callee.Params[0]) {
					return true
				}
				// a value receiver spilled to a local
				if a2, isA := b.(*ssa.Alloc); isA && !a2.Heap {
					for _, ref := range *a2.Referrers() {
						if st, isSt := ref.(*ssa.Store); isSt && st.Addr == ssa.Value(a2) && st.Val == ssa.Value(callee.Params[0]) {
							return true
						}
					}
				}
				return false
			})
			for _, n := range idFields {
				if !okF[n] {
					bad = kit.ShortID(kit.FuncID(callee)) + " does not copy " + n + " from its receiver (" + why[n] + ")"
				}
			}
		default:
			bad = "the consolidated branch is " + describe(kit.Strip(v))
		}
	}
	if !found && bad == "" {
		r.Unknown(rule, key, pos, "no branch is returned")
		return
	}
	r.Check(bad == "", rule, key, pos, "parent, firstHeader, parentHeight and offset are other's", bad+": the consolidated main chain is named (and saved) as another branch")
}

// checkSplitAboveListedHeight (C19): inside the back-off loop of Branch.GetLocatorHashes the entry
// for a chain split {Height: split.Height, Hash: split.BeforeHash} is inserted only when the height
// about to be listed is strictly below the split height. With `<=` a split at exactly that height
// puts the hash of header S-1 (labelled S) in front of the best-chain hash of header S: the locator
// is no longer newest-first.
func checkSplitAboveListedHeight(p *load.Program, r *kit.Report, rule string) {
	f := fn(p, r, rule, H, "Branch.GetLocatorHashes")
	if f == nil {
		return
	}
	key := "Branch.GetLocatorHashes/split-strictly-above-listed-height"
	beforeF := p.Field(H, "Split", "BeforeHash")
	splitHF := p.Field(H, "Split", "Height")
	hashF := p.Field(H, "HeightHash", "Hash")
	var at *ssa.Call
	for _, c := range kit.CallsTo(f, H+".Branch.AtHeight") {
		if cc, ok := c.(*ssa.Call); ok && len(cycleOf(cc.Block())) > 0 {
			at = cc
		}
	}
	if at == nil || beforeF == nil || splitHF == nil || hashF == nil {
		r.Unknown(rule, key, "-", "AtHeight call in the back-off loop or the Split/HeightHash fields not found")
		return
	}
	loop := cycleOf(at.Block())
	lin := kit.NewLin(f)
	heightL := lin.Of(at.Call.Args[len(at.Call.Args)-1])
	// the entries built from split.BeforeHash inside the loop
	n := 0
	k := newKeyer()
	kit.AllInstrs(f, func(in ssa.Instruction) {
		st, ok := in.(*ssa.Store)
		if !ok || !loop[in.Block()] {
			return
		}
		fl, _ := kit.FieldOfAddr(st.Addr)
		if fl != hashF {
			return
		}
		sf, sbase := kit.LoadedField(st.Val)
		if sf != beforeF {
			return
		}
		n++
		// the Height of the same split
		var shL kit.Lin
		found := false
		kit.AllInstrs(f, func(in2 ssa.Instruction) {
			if u, ok := in2.(*ssa.UnOp); ok && u.Op == token.MUL {
				if f2, b2 := kit.FieldOfAddr(u.X); f2 == splitHF && lin.Key(b2) == lin.Key(sbase) && !found {
					shL = lin.Of(u)
					found = true
				}
			}
			if fv, ok := in2.(*ssa.Field); ok {
				if f2, b2 := kit.FieldOfAddr(fv); f2 == splitHF && lin.Key(b2) == lin.Key(sbase) && !found {
					shL = lin.Of(fv)
					found = true
				}
			}
		})
		kk := k.key(key)
		if !found || !shL.OK || !heightL.OK {
			r.Unknown(rule, kk, posOf(p, in), "split height (%v) or listed height (%s) not normalisable", found, heightL.String())
			return
		}
		gs := kit.FindGuards(f, func(c ssa.Value) (bool, bool) { return cmpMatches(lin, c, shL.Sub(heightL), 1) })
		ok2, path := kit.DominatedByEdges(f, in, edgesOf(gs, true), nil, p.Pos)
		if !(ok2 && len(gs) > 0) {
			// the insertion may sit at the end of an iteration, after the step down: the height
			// about to be listed is then the value carried to the next AtHeight
			if ph, isPhi := kit.Strip(at.Call.Args[len(at.Call.Args)-1]).(*ssa.Phi); isPhi {
				for _, e := range ph.Edges {
					ei, isI := e.(ssa.Instruction)
					if !isI || ei.Block() == nil || !loop[ei.Block()] {
						continue
					}
					nextL := lin.Of(e)
					if !nextL.OK {
						continue
					}
					gs2 := kit.FindGuards(f, func(c ssa.Value) (bool, bool) { return cmpMatches(lin, c, shL.Sub(nextL), 1) })
					if ok3, _ := kit.DominatedByEdges(f, in, edgesOf(gs2, true), nil, p.Pos); ok3 && len(gs2) > 0 {
						// and the stepped value is computed before the insertion in the same iteration
						if ei.Block().Dominates(in.Block()) {
							ok2, gs = true, gs2
						}
					}
				}
			}
		}
		r.Check(ok2 && len(gs) > 0, rule, kk, posOf(p, in), "the split entry is behind split.Height > the height about to be listed",
			"a split entry can be inserted when the height about to be listed is not strictly below split.Height ("+path+"): for a split at exactly that height the hash of the header below it comes before the best-chain hash of the same label, and the locator is not newest-first")
	})
	if n == 0 {
		r.Unknown(rule, key, "-", "no split entry is built inside the back-off loop")
	}
}
