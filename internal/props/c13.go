package props

import (
	"fmt"
	"go/token"
	"go/types"
	"sort"
	"strings"

	"golang.org/x/tools/go/ssa"

	"verif/internal/kit"
	"verif/internal/load"
)

func init() { register("C13", checkC13) }

var preVerifyCommands = map[string]bool{"version": true, "verack": true, "headers": true, "protoconf": true, "ping": true, "reject": true, "extmsg": true}

// handlerInstalls lists the MapUpdates on BitcoinNode.handlers: (function, key, handler function).
type handlerInstall struct {
	in      *ssa.MapUpdate
	owner   *ssa.Function
	key     string
	handler *ssa.Function
	entry   *ssa.MapUpdate // where the entry was decided: in, or the table entry that a copy loop installs
}

func handlerInstalls(p *load.Program) []handlerInstall {
	hf := p.Field(R, "BitcoinNode", "handlers")
	var out []handlerInstall
	for _, f := range pkgFuncs(p, R) {
		kit.AllInstrs(f, func(in ssa.Instruction) {
			mu, ok := in.(*ssa.MapUpdate)
			if !ok {
				return
			}
			if !loadOfField(mu.Map, hf) {
				// a table built as a literal (make + updates on the new map) and then stored into
				// the field
				mk, isMk := kit.Strip(mu.Map).(*ssa.MakeMap)
				stored := false
				if isMk {
					for _, w := range kit.DirectWrites(f) {
						if w.Field == hf && w.Kind == "store" && kit.Strip(w.Val) == ssa.Value(mk) {
							stored = true
						}
					}
				}
				if !stored {
					return
				}
			}
			key, isConst := kit.ConstString(mu.Key)
			if !isConst {
				// `for command, handler := range literal { n.handlers[command] = handler }`: the
				// installs are the entries of the literal
				if ke, ok := mu.Key.(*ssa.Extract); ok && ke.Index == 1 {
					if nx, ok := ke.Tuple.(*ssa.Next); ok {
						if rg, ok := nx.Iter.(*ssa.Range); ok {
							if mk, ok := kit.Strip(rg.X).(*ssa.MakeMap); ok {
								n := 0
								for _, ref := range *mk.Referrers() {
									if lu, ok := ref.(*ssa.MapUpdate); ok && lu.Map == ssa.Value(mk) {
										if k2, isC := kit.ConstString(lu.Key); isC {
											out = append(out, handlerInstall{mu, f, k2, kit.FuncValueTarget(lu.Value), lu})
											n++
										}
									}
								}
								if n > 0 {
									return
								}
							}
						}
					}
				}
			}
			out = append(out, handlerInstall{mu, f, key, kit.FuncValueTarget(mu.Value), mu})
		})
	}
	return out
}

// sinkCall: the call reaches protected state: header repository submission, address book writes,
// tx manager.
func sinkCall(c ssa.CallInstruction) string {
	com := c.Common()
	if com.IsInvoke() {
		recv := com.Value.Type().String()
		m := com.Method.Name()
		switch {
		case strings.HasSuffix(recv, "HeaderRepository") && m == "ProcessHeader":
			return "HeaderRepository.ProcessHeader"
		case strings.HasSuffix(recv, "PeerRepository") && (m == "Add" || m == "UpdateScore" || m == "UpdateTime"):
			return "PeerRepository." + m
		}
		return ""
	}
	id := kit.CallID(c)
	switch {
	case strings.HasPrefix(id, R+".TxManager.") && (strings.HasSuffix(id, ".AddTx") || strings.HasSuffix(id, ".AddTxID")):
		return kit.ShortID(id)
	case id == H+".Repository.ProcessHeader":
		return "headers.Repository.ProcessHeader"
	}
	return ""
}

func checkC13(p *load.Program, r *kit.Report) {
	importRules(p, r, "C03", "accept() follows VerifyHeader() == nil: VerifyHeader must return nil only for the required split header", 1,
		func(o *kit.Obligation) bool {
			return strings.HasPrefix(o.Construct, "VerifyHeader") || strings.HasPrefix(o.Construct, "handleHeadersVerify/accept")
		}, "GUARD-DOM")
	importRules(p, r, "C14", "a read-ahead buffer on the connection keeps dispatching what an unverified, already refused peer sent", 1, nil, "READ-AHEAD")
	r.NotDecided = "message sequences as such (the rule covers all of them at once by covering the handler table and every call path from it), timing; what flows into NodeManager.SetHeaderHandler from outside this module."
	r.Rule("HANDLER-TABLE", "NewBitcoinNode installs handlers only for version, verack, headers, protoconf, ping, reject, extmsg; every other install happens in accept() (which sets ready/verified), in RequestBlock (reached only through nextNode's readiness test) or in exported setters nothing in the program calls", 8)
	r.Rule("NO-SINK-PATH", "from the handlers installed by the constructor no call path reaches HeaderRepository.ProcessHeader, PeerRepository.Add/UpdateScore/UpdateTime or TxManager.AddTx/AddTxID except through a call dominated by the IsReady() true edge; dynamic dispatch through the handler table or the headerHandler field is resolved to every function that can be stored there", 7)
	r.Rule("GUARD-DOM", "accept() is called only behind VerifyHeader()==nil and HandshakeIsComplete(); nextNode returns, and SendTx uses, only a node whose own IsReady() (and !IsStopped()) was tested in the same iteration; a verify-only node stops before sending any request", 4)
	r.Rule("LOCKSET", "the handler table is read and written only under the node mutex", 8)
	r.Rule("HANDSHAKE-BOTH", "sendVerifyInitiation (handshake complete) is called only where both a version and a verack message were received: in the arm of one type and behind a flag that only the other arm sets; no function other than handshake() calls it or sets handshakeIsComplete", 2)
	checkHandshakeBoth(p, r)
	r.Rule("NO-IO-UNDER-LOCK", "nothing that can block on the peer or on another goroutine runs while connectionLock is held (Stop takes that lock to close the connection, e.g. to disconnect a verify-only node)", 1)
	checkNoIOUnderConnectionLock(p, r, "NO-IO-UNDER-LOCK")

	installs := handlerInstalls(p)
	if len(installs) < 8 {
		r.Unknown("HANDLER-TABLE", "installs", "-", "expected at least 8 handler installs, found %d", len(installs))
		return
	}
	ctor := p.Func(R, "NewBitcoinNode")
	accept := p.Func(R, "BitcoinNode.accept")
	k := newKeyer()
	var pre []*ssa.Function
	for _, in := range installs {
		owner := kit.ShortID(kit.FuncID(in.owner))
		key := k.key("install:" + in.key + "@" + owner)
		r.Fn(owner)
		switch {
		case in.owner == ctor:
			ok := preVerifyCommands[in.key] && in.handler != nil
			r.Check(ok, "HANDLER-TABLE", key, posOf(p, in.in), "handshake/verification command", fmt.Sprintf("the constructor enables command %q before the peer is verified", in.key))
			if in.handler != nil {
				pre = append(pre, in.handler)
			}
		case in.owner == accept:
			r.OK("HANDLER-TABLE", key, posOf(p, in.in), "installed by accept(), together with ready/verified")
		case fname(in.owner) == "RequestBlock":
			// only caller: NodeManager.RequestBlock with a node obtained from nextNode
			refs := refsTo(p, in.owner)
			ok := len(refs) > 0
			for _, rf := range refs {
				if fname(rf) != "RequestBlock" {
					ok = false
				}
			}
			r.Check(ok, "HANDLER-TABLE", key, posOf(p, in.in), "block handler installed on a node selected through nextNode", "RequestBlock is reachable without nextNode's readiness test")
		default:
			refs := refsTo(p, in.owner)
			r.Check(len(refs) == 0, "HANDLER-TABLE", key, posOf(p, in.in), "exported setter without any caller in the program",
				fmt.Sprintf("%s installs a handler for %q outside accept(): the command is enabled before the peer is verified (called from %s)", owner, in.key, refNames(refs)))
		}
	}

	// NO-SINK-PATH
	checkNoSinkPath(p, r, pre, installs)

	// GUARD-DOM: nextNode / SendTx
	if f := fn(p, r, "GUARD-DOM", R, "NodeManager.nextNode"); f != nil {
		lin := kit.NewLin(f)
		nodesF := p.Field(R, "NodeManager", "nodes")
		bad := ""
		n := 0
		for _, ret := range kit.Returns(f) {
			v := kit.RetOperand(ret, 0)
			if kit.IsNilConst(v) {
				continue
			}
			n++
			key := lin.Key(v)
			for _, want := range []struct {
				id   string
				pass bool
				msg  string
			}{{R + ".BitcoinNode.IsReady", true, "not verified/ready"}, {R + ".BitcoinNode.IsStopped", false, "stopped"}} {
				gs := kit.FindGuards(f, kit.CallCond(func(c *ssa.Call) bool { return lin.Key(c.Call.Args[0]) == key }, want.id))
				ok, _ := kit.DominatedByEdges(f, ret, edgesOf(gs, want.pass), nil, p.Pos)
				if !ok || len(gs) == 0 {
					bad = "nextNode can return a node that is " + want.msg + ": the test is not made on the node returned (" + key + ")"
					continue
				}
				// no change of the node list between the test and the return
				for _, g := range gs {
					stop := []ssa.Instruction{ret}
					if header, _ := loopBodyEntry(f, g.If); header != nil {
						stop = append(stop, header.Instrs[0])
					}
					rr := kit.Reach(f, []kit.Pt{kit.EdgeStart(kit.Edge{From: g.If.Block(), Succ: map[bool]int{true: g.Pass, false: 1 - g.Pass}[want.pass]})}, kit.Opts{StopAt: kit.InstrSet(stop...)})
					for _, w := range kit.DirectWrites(f) {
						if w.Field == nodesF && rr.Has(w.Instr) {
							bad = "the node list changes between the readiness test and the return"
						}
					}
					// the index used for the test is still the index used for the result: no store
					// to the offset between the test and the load of the returned element
					if vi, ok := kit.Strip(v).(ssa.Instruction); ok {
						r2 := kit.Reach(f, []kit.Pt{kit.EdgeStart(kit.Edge{From: g.If.Block(), Succ: map[bool]int{true: g.Pass, false: 1 - g.Pass}[want.pass]})}, kit.Opts{StopAt: kit.InstrSet(append(stop, vi)...)})
						for _, w := range kit.DirectWrites(f) {
							if w.Field != nil && w.Field == p.Field(R, "NodeManager", "nextNodeOffset") && r2.Has(w.Instr) &&
								kit.Reach(f, kit.After(w.Instr), kit.Opts{StopAt: kit.InstrSet(append(stop, vi)...)}).Has(vi) {
								bad = "the node offset is changed between the readiness test and the selection of the node returned"
							}
						}
					}
				}
			}
		}
		if n == 0 {
			bad = "nextNode never returns a node"
		}
		r.Check(bad == "", "GUARD-DOM", "nextNode/ready-node-only", posOf(p, f.Blocks[0].Instrs[0]), "returned node passed its own IsReady() and !IsStopped() in this iteration", bad)
	}
	if f := fn(p, r, "GUARD-DOM", R, "NodeManager.SendTx"); f != nil {
		lin := kit.NewLin(f)
		bad := ""
		for _, c := range kit.CallsTo(f, R+".BitcoinNode.sendMessage") {
			key := lin.Key(c.Common().Args[0])
			gs := kit.FindGuards(f, kit.CallCond(func(cc *ssa.Call) bool { return lin.Key(cc.Call.Args[0]) == key }, R+".BitcoinNode.IsReady"))
			if ok, _ := kit.DominatedByEdges(f, c, edgesOf(gs, true), nil, p.Pos); !ok || len(gs) == 0 {
				bad = "a tx can be sent to a node that is not ready"
			}
		}
		r.Check(bad == "", "GUARD-DOM", "SendTx/ready-node-only", posOf(p, f.Blocks[0].Instrs[0]), "sendMessage only behind the node's IsReady()", bad)
	}
	// accept gating
	if f := fn(p, r, "GUARD-DOM", R, "BitcoinNode.accept"); f != nil {
		refs := refsTo(p, f)
		ok := len(refs) == 1 && fname(refs[0]) == "handleHeadersVerify"
		r.Check(ok, "GUARD-DOM", "accept/single-call-site", posOf(p, f.Blocks[0].Instrs[0]), "accept() is called only from handleHeadersVerify (guards decided under C03)", "accept() is referenced from "+refNames(refs))
		// verify-only: stop before sending
		voF := p.Field(R, "BitcoinNode", "isVerifyOnly")
		gs := kit.FindGuards(f, func(c ssa.Value) (bool, bool) {
			if loadOfField(c, voF) {
				return true, true
			}
			// copied into a local under the lock
			if u, ok := c.(*ssa.UnOp); ok && u.Op == token.MUL {
				_ = u
			}
			return false, false
		})
		bad := ""
		if len(gs) == 0 {
			bad = "isVerifyOnly is not tested"
		}
		for _, e := range edgesOf(gs, true) {
			rr := kit.Reach(f, []kit.Pt{kit.EdgeStart(e)}, kit.Opts{})
			sawStop := false
			for _, c := range kit.CallsTo(f, R+".BitcoinNode.Stop") {
				if rr.Has(c) {
					sawStop = true
				}
			}
			for _, c := range kit.CallsTo(f, R+".BitcoinNode.sendMessage", R+".BitcoinNode.sendInitialHeaderRequest") {
				if rr.Has(c) {
					bad = "a verify-only node sends requests after verification instead of disconnecting"
				}
			}
			if !sawStop {
				bad = "a verify-only node is not stopped after verification"
			}
		}
		r.Check(bad == "", "GUARD-DOM", "accept/verify-only-stops", posOf(p, f.Blocks[0].Instrs[0]), "verify-only: Stop() and return before any request", bad)
	}

	// LOCKSET on the table
	hf := p.Field(R, "BitcoinNode", "handlers")
	checkGuarded(p, r, "LOCKSET", pkgFuncs(p, R), []guardedBy{{Field: hf, Mutex: "Mutex"}}, nil, func(*ssa.Function, fieldAccess) string { return "" })
}

func refNames(fs []*ssa.Function) string {
	var s []string
	for _, f := range fs {
		s = append(s, kit.ShortID(kit.FuncID(f)))
	}
	sort.Strings(s)
	if len(s) == 0 {
		return "nothing"
	}
	return strings.Join(s, ", ")
}

// fieldFuncValues resolves the functions that may be stored into a function-typed field, tracing
// stores back through parameters (to all call sites) and through other function-typed fields.
func fieldFuncValues(p *load.Program, fld *types.Var, depth int, seen map[*types.Var]bool) (fns []*ssa.Function, external bool) {
	if depth > 4 || seen[fld] {
		return nil, false
	}
	seen[fld] = true
	var trace func(v ssa.Value, d int)
	trace = func(v ssa.Value, d int) {
		if d > 4 {
			return
		}
		v = kit.Strip(v)
		if kit.IsNilConst(v) {
			return
		}
		if f := kit.FuncValueTarget(v); f != nil {
			fns = append(fns, f)
			return
		}
		switch x := v.(type) {
		case *ssa.Parameter:
			owner := x.Parent()
			idx := -1
			for i, prm := range owner.Params {
				if prm == x {
					idx = i
				}
			}
			callers := 0
			for _, g := range p.OwnFunctions() {
				kit.AllInstrs(g, func(in ssa.Instruction) {
					if c, ok := in.(ssa.CallInstruction); ok && kit.StaticCallee(c) == owner && idx < len(c.Common().Args) {
						callers++
						trace(c.Common().Args[idx], d+1)
					}
				})
			}
			if callers == 0 && owner.Object() != nil && owner.Object().Exported() {
				external = true // set from outside the module
			}
		case *ssa.UnOp:
			if f2, _ := kit.LoadedField(x); f2 != nil {
				more, ext := fieldFuncValues(p, f2, depth+1, seen)
				fns = append(fns, more...)
				external = external || ext
			}
		case *ssa.Phi:
			for _, e := range x.Edges {
				trace(e, d+1)
			}
		}
	}
	for _, g := range p.OwnFunctions() {
		for _, w := range kit.DirectWrites(g) {
			if w.Field == fld && w.Kind == "store" {
				trace(w.Val, 0)
			}
		}
	}
	return
}

func checkNoSinkPath(p *load.Program, r *kit.Report, pre []*ssa.Function, installs []handlerInstall) {
	hf := p.Field(R, "BitcoinNode", "handlers")
	hhF := p.Field(R, "BitcoinNode", "headerHandler")
	bhF := p.Field(R, "BitcoinNode", "blockHandler")
	var tableFns []*ssa.Function
	for _, in := range installs {
		if in.handler != nil {
			tableFns = append(tableFns, in.handler)
		}
	}
	hhFns, hhExt := fieldFuncValues(p, hhF, 0, map[*types.Var]bool{})
	if hhExt {
		r.Assume("NodeManager.SetHeaderHandler has no caller inside this module; what an embedding program passes to it is outside the analysed code")
	}
	isReadyGuards := map[*ssa.Function][]kit.Edge{}
	readyPass := func(f *ssa.Function) []kit.Edge {
		if e, ok := isReadyGuards[f]; ok {
			return e
		}
		e := edgesOf(kit.FindGuards(f, kit.CallCond(nil, R+".BitcoinNode.IsReady")), true)
		isReadyGuards[f] = e
		return e
	}
	type frame struct {
		f    *ssa.Function
		path []string
	}
	k := newKeyer()
	for _, h := range pre {
		name := kit.ShortID(kit.FuncID(h))
		r.Fn(name)
		seen := map[*ssa.Function]bool{}
		var found []string
		var walk func(fr frame)
		walk = func(fr frame) {
			if seen[fr.f] || fr.f.Blocks == nil || len(fr.path) > 12 {
				return
			}
			seen[fr.f] = true
			pk := fr.f.Pkg
			if pk == nil && fr.f.Parent() != nil {
				pk = fr.f.Parent().Pkg
			}
			if pk == nil || !(pk.Pkg.Path() == R || pk.Pkg.Path() == H) {
				return
			}
			pass := readyPass(fr.f)
			kit.AllInstrs(fr.f, func(in ssa.Instruction) {
				c, ok := in.(ssa.CallInstruction)
				if !ok {
					return
				}
				guarded := false
				if len(pass) > 0 {
					guarded, _ = kit.DominatedByEdges(fr.f, in, pass, nil, p.Pos)
				}
				if guarded {
					return
				}
				if s := sinkCall(c); s != "" {
					found = append(found, strings.Join(append(fr.path, s+" at "+posOf(p, in)), " → "))
					return
				}
				var next []*ssa.Function
				if sc := kit.StaticCallee(c); sc != nil {
					next = append(next, kit.FuncValueTarget(sc))
					// closures passed as arguments (thread bodies) run as part of the call
				} else if !c.Common().IsInvoke() {
					// dynamic call of a function value: from the handler table or a handler field
					v := kit.Strip(c.Common().Value)
					switch {
					case dependsOnField(v, hf):
						next = append(next, tableFns...)
					case dependsOnField(v, hhF):
						next = append(next, hhFns...)
					case dependsOnField(v, bhF):
						// block handler values come from RequestBlock's argument: downloader.HandleBlock
						if f2 := p.Func(R, "BlockDownloader.HandleBlock"); f2 != nil {
							next = append(next, f2)
						}
					}
				}
				for _, a := range c.Common().Args {
					if mc, ok := a.(*ssa.MakeClosure); ok {
						if cf, ok := mc.Fn.(*ssa.Function); ok {
							next = append(next, cf)
						}
					}
					if ct, ok := a.(*ssa.ChangeType); ok {
						if mc, ok := ct.X.(*ssa.MakeClosure); ok {
							if cf, ok := mc.Fn.(*ssa.Function); ok {
								next = append(next, cf)
							}
						}
					}
				}
				for _, nf := range next {
					if nf != nil {
						walk(frame{nf, append(append([]string{}, fr.path...), kit.ShortID(kit.FuncID(nf)))})
					}
				}
			})
		}
		walk(frame{h, []string{name}})
		key := k.key("pre-verify:" + name)
		if len(found) == 0 {
			r.OK("NO-SINK-PATH", key, posOf(p, h.Blocks[0].Instrs[0]), "%d functions reachable without a readiness guard, none touches the header repository, the address book or the tx manager", len(seen))
		} else {
			r.Bad("NO-SINK-PATH", key, posOf(p, h.Blocks[0].Instrs[0]), "an unverified peer can reach protected state: %s", found[0])
		}
	}
}

func dependsOnField(v ssa.Value, f *types.Var) bool {
	return kit.DependsOn(v, func(x ssa.Value) bool { return loadOfField(x, f) })
}
