package props

import (
	"go/token"

	"golang.org/x/tools/go/ssa"

	"verif/internal/kit"
	"verif/internal/load"
)

// checkIntersect: Branch.IntersectHash(other) walks the ancestries of both branches with one
// cursor per side and, for each side, carries the height and the hash at which that side's chain
// leaves the cursor branch (tip height / last hash to start with, parentHeight / firstHeader.PrevBlock
// after each step to the parent). When the cursors meet, the chains have the cursor branch in
// common up to the LOWER of the two heights, so the hash carried by the side with the lower height
// must be returned. sendBranchUpdate starts its announcements right above that hash.
func checkIntersect(p *load.Program, r *kit.Report) {
	f := fn(p, r, "INTERSECT-SHAPE", H, "Branch.IntersectHash")
	if f == nil {
		return
	}
	pos := posOf(p, f.Blocks[0].Instrs[0])
	if len(f.Params) != 2 {
		r.Unknown("INTERSECT-SHAPE", "IntersectHash/signature", pos, "unexpected signature")
		return
	}
	parentF := p.Field(H, "Branch", "parent")
	phF := p.Field(H, "Branch", "parentHeight")
	firstF := p.Field(H, "Branch", "firstHeader")
	hashF := p.Field(H, "HeaderData", "Hash")
	side := func(v ssa.Value) int { // which parameter a start value belongs to
		v = kit.Strip(v)
		for i, prm := range f.Params {
			if v == ssa.Value(prm) {
				return i + 1
			}
		}
		return 0
	}
	// branch cursors
	cursor := map[*ssa.Phi]int{}
	kit.AllInstrs(f, func(in ssa.Instruction) {
		ph, ok := in.(*ssa.Phi)
		if !ok {
			return
		}
		s := 0
		okAll := true
		for _, e := range ph.Edges {
			if k := side(e); k != 0 {
				if s != 0 && s != k {
					okAll = false
				}
				s = k
				continue
			}
			if fl, base := kit.LoadedField(e); fl == parentF && kit.Strip(base) == ssa.Value(ph) {
				continue
			}
			if e == ssa.Value(ph) {
				continue
			}
			okAll = false
		}
		if okAll && s != 0 {
			cursor[ph] = s
		}
	})
	var c [3]*ssa.Phi
	for ph, s := range cursor {
		if c[s] != nil {
			r.Bad("INTERSECT-SHAPE", "IntersectHash/cursors", pos, "more than one ancestry cursor for one side")
			return
		}
		c[s] = ph
	}
	if c[1] == nil || c[2] == nil {
		r.Bad("INTERSECT-SHAPE", "IntersectHash/cursors", pos, "the ancestries of both branches are not walked (cursor := branch; cursor = cursor.parent)")
		return
	}
	// carried values of a side: kind "height" or "hash"
	carried := func(ph *ssa.Phi) (kind string, s int) {
		for _, e := range ph.Edges {
			e = kit.Strip(e)
			if e == ssa.Value(ph) {
				continue
			}
			k, sd := "", 0
			switch {
			case isCallTo(e, H+".Branch.Height") != nil:
				k, sd = "height", side(recvPtr(isCallTo(e, H+".Branch.Height").Call.Args[0]))
			default:
				if fl, base := kit.LoadedField(e); fl == phF {
					if cp, ok := kit.Strip(base).(*ssa.Phi); ok && cursor[cp] != 0 {
						k, sd = "height", cursor[cp]
					}
				}
				if fa, ok := e.(*ssa.FieldAddr); ok {
					fl, base := kit.FieldOfAddr(fa)
					switch {
					case fl == hashF:
						if lc := isCallTo(base, H+".Branch.Last"); lc != nil {
							k, sd = "hash", side(recvPtr(lc.Call.Args[0]))
						}
					case fl != nil && fl.Name() == "PrevBlock":
						if f2, b2 := kit.LoadedField(base); f2 == firstF {
							if cp, ok := kit.Strip(b2).(*ssa.Phi); ok && cursor[cp] != 0 {
								k, sd = "hash", cursor[cp]
							}
						}
					}
				}
			}
			if k == "" || sd == 0 {
				return "", 0
			}
			if (kind != "" && kind != k) || (s != 0 && s != sd) {
				return "", 0
			}
			kind, s = k, sd
		}
		return
	}
	var h, g [3]*ssa.Phi
	kit.AllInstrs(f, func(in ssa.Instruction) {
		ph, ok := in.(*ssa.Phi)
		if !ok || cursor[ph] != 0 {
			return
		}
		switch k, s := carried(ph); k {
		case "height":
			h[s] = ph
		case "hash":
			g[s] = ph
		}
	})
	for s := 1; s <= 2; s++ {
		if h[s] == nil || g[s] == nil {
			r.Bad("INTERSECT-SHAPE", "IntersectHash/carried", pos, "side %d does not carry the height and the hash at which its chain leaves the cursor branch (tip/last hash at the start, parentHeight/firstHeader.PrevBlock after a step)", s)
			return
		}
		// lockstep: where the cursor keeps its start value so do height and hash; where it steps, so
		// do they
		bad := ""
		if h[s].Block() != c[s].Block() || g[s].Block() != c[s].Block() {
			bad = "cursor, height and hash are not advanced in the same loop"
		} else {
			for i := range c[s].Edges {
				start := side(c[s].Edges[i]) != 0
				hs := isCallTo(kit.Strip(h[s].Edges[i]), H+".Branch.Height") != nil
				_, isFA := kit.Strip(g[s].Edges[i]).(*ssa.FieldAddr)
				gs := false
				if isFA {
					fl, _ := kit.FieldOfAddr(kit.Strip(g[s].Edges[i]))
					gs = fl == hashF
				}
				selfC := c[s].Edges[i] == ssa.Value(c[s])
				selfH := h[s].Edges[i] == ssa.Value(h[s])
				selfG := g[s].Edges[i] == ssa.Value(g[s])
				if start != hs || start != gs || selfC != selfH || selfC != selfG {
					bad = "cursor, height and hash of one side are not updated together"
				}
			}
		}
		r.Check(bad == "", "INTERSECT-SHAPE", "IntersectHash/lockstep-side"+string(rune('0'+s)), posOf(p, c[s]), "cursor, exit height and exit hash advance together", bad)
	}
	// the meeting test
	meet := kit.FindGuards(f, func(cv ssa.Value) (bool, bool) {
		b, ok := cv.(*ssa.BinOp)
		if !ok || (b.Op != token.EQL && b.Op != token.NEQ) {
			return false, false
		}
		if (b.X == ssa.Value(c[1]) && b.Y == ssa.Value(c[2])) || (b.X == ssa.Value(c[2]) && b.Y == ssa.Value(c[1])) {
			return true, b.Op == token.EQL
		}
		return false, false
	})
	if len(meet) != 1 {
		r.Bad("INTERSECT-SHAPE", "IntersectHash/meet", pos, "the two cursors are not compared exactly once")
		return
	}
	// a value "is" a carried value when it is that phi, or a merge of it with the zero values an
	// expanded helper returns on its not-found exit
	var isV func(v ssa.Value, target *ssa.Phi, depth int) bool
	isV = func(v ssa.Value, target *ssa.Phi, depth int) bool {
		v = kit.Strip(v)
		if v == ssa.Value(target) {
			return true
		}
		ph, ok := v.(*ssa.Phi)
		if !ok || depth > 4 {
			return false
		}
		n := 0
		for _, e := range ph.Edges {
			if _, isC := e.(*ssa.Const); isC {
				continue
			}
			if !isV(e, target, depth+1) {
				return false
			}
			n++
		}
		return n > 0
	}
	// comparison of the two heights: edges on which side 2 is (weakly) lower / side 1 is (weakly) lower
	var lower [3][]kit.Edge
	for _, bl := range f.Blocks {
		ifi, ok := bl.Instrs[len(bl.Instrs)-1].(*ssa.If)
		if !ok {
			continue
		}
		cond := ifi.Cond
		neg := false
		for {
			if u, ok := cond.(*ssa.UnOp); ok && u.Op == token.NOT {
				cond, neg = u.X, !neg
				continue
			}
			break
		}
		b, ok := cond.(*ssa.BinOp)
		if !ok {
			continue
		}
		var xs, ys int
		for s := 1; s <= 2; s++ {
			if isV(b.X, h[s], 0) {
				xs = s
			}
			if isV(b.Y, h[s], 0) {
				ys = s
			}
		}
		if xs == 0 || ys == 0 || xs == ys {
			continue
		}
		// X op Y
		t, fe := kit.Edge{From: bl, Succ: 0}, kit.Edge{From: bl, Succ: 1}
		if neg {
			t, fe = fe, t
		}
		switch b.Op {
		case token.LSS, token.LEQ: // true: X lower; false: Y (weakly) lower
			lower[xs] = append(lower[xs], t)
			lower[ys] = append(lower[ys], fe)
		case token.GTR, token.GEQ:
			lower[ys] = append(lower[ys], t)
			lower[xs] = append(lower[xs], fe)
		}
	}
	bad := ""
	fromMeet := kit.Reach(f, []kit.Pt{kit.EdgeStart(meet[0].PassEdge())}, kit.Opts{StopAt: func(in ssa.Instruction) bool {
		_, isRet := in.(*ssa.Return)
		return isRet
	}})
	nRet := 0
	for _, ret := range kit.Returns(f) {
		if !fromMeet.Has(ret) {
			continue
		}
		nRet++
		v := kit.Strip(kit.RetOperand(ret, 0))
		s := 0
		for k := 1; k <= 2; k++ {
			if isV(v, g[k], 0) {
				s = k
			}
		}
		if s == 0 {
			bad = "where the ancestries meet, something other than a side's exit hash is returned (" + describe(v) + ")"
			continue
		}
		if len(lower[s]) == 0 {
			bad = "where the ancestries meet, the two exit heights are not compared: the chains have the common branch in common only up to the lower one"
			continue
		}
		// from the meeting edge, the return of side s's hash is only reachable through an edge on which
		// side s is the lower one
		rr := kit.Reach(f, []kit.Pt{kit.EdgeStart(meet[0].PassEdge())}, kit.Opts{BlockEdge: kit.EdgeSet(lower[s]...), StopAt: func(in ssa.Instruction) bool {
			return in == ssa.Instruction(c[1].Block().Instrs[0]) || in == ssa.Instruction(c[2].Block().Instrs[0])
		}})
		if rr.Has(ret) {
			bad = "the exit hash of a side can be returned although that side does not have the lower exit height"
		}
	}
	if nRet == 0 {
		bad = "nothing is returned where the ancestries meet"
	}
	r.Check(bad == "", "INTERSECT-SHAPE", "IntersectHash/lower-exit", posOf(p, meet[0].If), "at the common branch the hash of the side with the lower exit height is returned", bad)
	_ = load.RootPkg
}
