package props

import (
	"go/token"
	"strings"

	"golang.org/x/tools/go/ssa"

	"verif/internal/kit"
	"verif/internal/load"
)

// Rules added after the sixth round of seeded changes (faults that need a failing dependency, a
// boundary or a rarely run branch).

// checkNoUnconditionalSelfCall (C15): a function every path of which calls the function itself never
// returns: the goroutine's stack grows until the runtime aborts the process (fatal error: stack
// overflow — not a panic, no recover contains it). The classic way in is an Error()/String() method
// that formats its own receiver (`fmt.Sprintf("%s", e)` / `e.Error()` resolving to the method
// itself through an embedded field of the same name).
func checkNoUnconditionalSelfCall(p *load.Program, r *kit.Report, rule string) {
	n := 0
	k := newKeyer()
	for _, f := range pkgFuncs(p, R, H) {
		if f.Blocks == nil || strings.HasSuffix(p.FileOf(f.Pos()), "_test.go") {
			continue
		}
		var self []ssa.Instruction
		kit.AllInstrs(f, func(in ssa.Instruction) {
			c, ok := in.(ssa.CallInstruction)
			if !ok {
				return
			}
			if _, isGo := in.(*ssa.Go); isGo {
				return
			}
			if g := kit.StaticCallee(c); g == f {
				self = append(self, in)
				return
			}
			// formatting the receiver of an Error/String method calls that method again
			if (f.Name() == "Error" || f.Name() == "String") && f.Signature.Recv() != nil && len(f.Params) > 0 && strings.HasPrefix(kit.CallID(c), "fmt.") {
				for _, a := range c.Common().Args {
					if formatsValue(a, f.Params[0]) {
						self = append(self, in)
						return
					}
				}
			}
		})
		if len(self) == 0 {
			continue
		}
		n++
		rr := kit.Reach(f, []kit.Pt{kit.Entry(f)}, kit.Opts{StopAt: kit.InstrSet(self...)})
		escapes := false
		for _, ret := range kit.Returns(f) {
			if rr.Has(ret) {
				escapes = true
			}
		}
		kit.AllInstrs(f, func(in ssa.Instruction) {
			if _, ok := in.(*ssa.Panic); ok && rr.Has(in) {
				escapes = true
			}
		})
		r.Check(escapes, rule, k.key(kit.ShortID(kit.FuncID(f))+"/self-call"), posOf(p, self[0]), "some path returns without calling the function itself",
			"every path through "+kit.ShortID(kit.FuncID(f))+" calls it again on the way (directly, or by formatting its own receiver): it never returns, the stack grows until the runtime aborts the whole process (fatal error: stack overflow — no recover contains it); any peer input that makes this error be rendered kills every connection")
	}
	if n == 0 {
		r.OKTrivial(rule, "self-call/none", "-", "no function of the two packages calls itself")
	}
}

// formatsValue: a (an argument of a fmt call: a value or the variadic slice) carries recv itself
// (or its dereference) boxed in an interface.
func formatsValue(a ssa.Value, recv ssa.Value) bool {
	is := func(v ssa.Value) bool {
		switch x := v.(type) {
		case *ssa.MakeInterface:
			v = x.X
		case *ssa.ChangeInterface:
			v = x.X
		default:
			return false
		}
		if v == recv {
			return true
		}
		if u, ok := v.(*ssa.UnOp); ok && u.Op == token.MUL && u.X == recv {
			return true
		}
		return false
	}
	if is(a) {
		return true
	}
	if sl, ok := a.(*ssa.Slice); ok {
		if al, ok := sl.X.(*ssa.Alloc); ok && al.Referrers() != nil {
			for _, ref := range *al.Referrers() {
				ia, ok := ref.(*ssa.IndexAddr)
				if !ok || ia.Referrers() == nil {
					continue
				}
				for _, r2 := range *ia.Referrers() {
					if st, ok := r2.(*ssa.Store); ok && st.Addr == ssa.Value(ia) && is(st.Val) {
						return true
					}
				}
			}
		}
	}
	return false
}

// checkLoadReadsInvalidList (C11, C17): every way out of load that can report success has read the
// stored invalid-hash list — also the legacy-store path that ends in migrate. A list that is read
// only on the common path is lost by the next Save for stores that take the other one.
func checkLoadReadsInvalidList(p *load.Program, r *kit.Report, rule string) {
	f := fn(p, r, rule, H, "Repository.load")
	if f == nil {
		return
	}
	reads := kit.CallsTo(f, H+".loadInvalidHashes")
	if len(reads) == 0 {
		r.Bad(rule, "load/reads-invalid-list", posOf(p, f.Blocks[0].Instrs[0]), "load does not read the stored invalid-hash list")
		return
	}
	var stop []ssa.Instruction
	for _, c := range reads {
		stop = append(stop, c.(ssa.Instruction))
	}
	rr := kit.Reach(f, []kit.Pt{kit.Entry(f)}, kit.Opts{StopAt: kit.InstrSet(stop...)})
	bad := ""
	at := stop[0]
	for _, ret := range kit.Returns(f) {
		if rr.Has(ret) && kit.ReturnErrClass(ret) != kit.ErrNonNil && rr.ErrClass(ret) != kit.ErrNonNil {
			at = ret
			bad = "load can end (" + retLabel(ret) + ") without having read the stored invalid-hash list: " + rr.PathTo(ret, p.Pos) + " — on that path (a store without a branch index: legacy files, or nothing saved yet) marked headers are accepted again after a restart and the next Save overwrites the list"
		}
	}
	r.Check(bad == "", rule, "load/reads-invalid-list", posOf(p, at), "every non-failing exit of load is behind loadInvalidHashes", bad)
}

// checkClearAlwaysResets (C20): Clear empties the in-memory book on every path — the stored file
// may not exist (nothing saved yet: Remove answers `not found`), which must not leave the old peers
// answering queries and refusing re-adds as duplicates.
func checkClearAlwaysResets(p *load.Program, r *kit.Report, rule string) {
	f := fn(p, r, rule, R, "StoragePeerRepository.Clear")
	if f == nil {
		return
	}
	for _, name := range []string{"list", "lookup"} {
		fld := p.Field(R, "StoragePeerRepository", name)
		var stores []ssa.Instruction
		kit.AllInstrs(f, func(in ssa.Instruction) {
			if st, ok := in.(*ssa.Store); ok {
				if fl, _ := kit.FieldOfAddr(st.Addr); fl != nil && fl == fld {
					stores = append(stores, in)
				}
			}
		})
		key := "Clear/resets:" + name
		if len(stores) == 0 {
			r.Bad(rule, key, posOf(p, f.Blocks[0].Instrs[0]), "Clear does not reset %s", name)
			continue
		}
		rr := kit.Reach(f, []kit.Pt{kit.Entry(f)}, kit.Opts{StopAt: kit.InstrSet(stores...)})
		bad := ""
		at := stores[0]
		for _, ret := range kit.Returns(f) {
			if rr.Has(ret) {
				at = ret
				bad = "Clear can return (" + retLabel(ret) + ") without resetting " + name + ": " + rr.PathTo(ret, p.Pos) + " — when the stored file does not exist (nothing saved yet, or cleared twice) the old peers stay in memory, still answer Get/Count and make Add refuse them as duplicates"
			}
		}
		r.Check(bad == "", rule, key, posOf(p, at), name+" is reset on every path", bad)
	}
}

// checkClaimIsRequested (C06): in handleInventory, once AddTxID has answered true for an item the
// item is put into the getdata message before the loop goes on. AddTxID(true) has already stamped
// the entry as requested from this peer and left the peer out of the retry list: skipping the
// request (peer busy, batch full, …) leaves a tx that nobody asks for while every other announcer
// is told it was requested recently.
func checkClaimIsRequested(p *load.Program, r *kit.Report, rule string) {
	f := fn(p, r, rule, R, "BitcoinNode.handleInventory")
	if f == nil {
		return
	}
	adds := kit.CallsTo(f, R+".TxManager.AddTxID")
	key := "handleInventory/claimed-is-requested"
	if len(adds) == 0 {
		r.Bad(rule, key, posOf(p, f.Blocks[0].Instrs[0]), "handleInventory does not call AddTxID")
		return
	}
	var puts []ssa.Instruction
	kit.AllInstrs(f, func(in ssa.Instruction) {
		if c, ok := in.(ssa.CallInstruction); ok && strings.HasSuffix(kit.CallID(c), ".MsgGetData.AddInvVect") {
			puts = append(puts, in)
		}
	})
	if len(puts) == 0 {
		r.Bad(rule, key, posOf(p, adds[0].(ssa.Instruction)), "no AddInvVect in handleInventory")
		return
	}
	for _, a := range adds {
		call := a.(*ssa.Call)
		// the tests of the boolean answer
		gs := kit.FindGuards(f, func(c ssa.Value) (bool, bool) {
			e, ok := kit.Strip(c).(*ssa.Extract)
			return ok && e.Tuple == ssa.Value(call) && e.Index == 0, true
		})
		if len(gs) == 0 {
			r.Bad(rule, key, posOf(p, call), "the answer of AddTxID is not tested")
			continue
		}
		var starts []kit.Pt
		for _, g := range gs {
			starts = append(starts, kit.EdgeStart(g.PassEdge()))
		}
		rr := kit.Reach(f, starts, kit.Opts{StopAt: kit.InstrSet(puts...)})
		bad := ""
		at := ssa.Instruction(call)
		if rr.Has(call) {
			bad = "after AddTxID answered true the loop can go on to the next item without putting this one into the getdata message: " + rr.PathTo(call, p.Pos)
		}
		for _, ret := range kit.Returns(f) {
			if rr.Has(ret) && kit.ReturnErrClass(ret) != kit.ErrNonNil && rr.ErrClass(ret) != kit.ErrNonNil {
				at = ret
				bad = "after AddTxID answered true handleInventory can return success without requesting the item: " + rr.PathTo(ret, p.Pos)
			}
		}
		if bad != "" {
			bad += " — the entry is already stamped as requested from this peer and the peer is not in its retry list: nobody asks for the tx, and other announcers are told it was requested recently"
		}
		r.Check(bad == "", rule, key, posOf(p, at), "AddTxID == true ⇒ AddInvVect(item) before the next item", bad)
	}
}

// checkDownloadersCountsAll (C16): BlockManager.Downloaders(hash) lists every registered downloader
// of that hash — it is what processRequest compares with the configured number of concurrent
// downloads. A filter on anything else (cancelled, stopped, started) hides downloads that are still
// running, and the block is requested once more than allowed.
func checkDownloadersCountsAll(p *load.Program, r *kit.Report, rule string) {
	f := fn(p, r, rule, R, "BlockManager.Downloaders")
	if f == nil {
		return
	}
	key := "Downloaders/every-downloader-of-the-hash"
	// the append to the result
	var app ssa.Instruction
	kit.AllInstrs(f, func(in ssa.Instruction) {
		if c, ok := in.(*ssa.Call); ok && kit.CallID(c) == "builtin.append" {
			app = in
		}
	})
	if app == nil {
		r.Bad(rule, key, posOf(p, f.Blocks[0].Instrs[0]), "no append to the result found")
		return
	}
	header, loop := innermostLoop(f, app.Block())
	if header == nil {
		r.Bad(rule, key, posOf(p, app), "the result is not built in a loop over the registry")
		return
	}
	// the hash test: Hash32.Equal with the parameter on one side
	eq := kit.FindGuards(f, kit.CallCond(func(c *ssa.Call) bool {
		for _, a := range c.Call.Args {
			if kit.DependsOn(a, func(v ssa.Value) bool { return len(f.Params) > 1 && v == ssa.Value(f.Params[1]) }) {
				return true
			}
		}
		return false
	}, load.BitcoinPkg+".Hash32.Equal"))
	if len(eq) == 0 {
		r.Bad(rule, key, posOf(p, app), "no comparison of a downloader's hash with the requested hash")
		return
	}
	// from the top of an iteration, with the `different hash` edges closed, the next iteration (or
	// the end of the loop) is reachable only through the append
	var starts []kit.Pt
	for _, s := range header.Succs {
		if loop[s] {
			starts = append(starts, kit.Pt{B: s, I: 0})
		}
	}
	rr := kit.Reach(f, starts, kit.Opts{StopAt: kit.InstrSet(app), BlockEdge: kit.EdgeSet(edgesOf(eq, false)...)})
	bad := ""
	if len(header.Instrs) > 0 && rr.Has(header.Instrs[0]) {
		bad = "an iteration can end without adding a downloader whose hash matches (" + rr.PathTo(header.Instrs[0], p.Pos) + "): downloads that are still registered and running are not counted, and processRequest starts more downloads of the block than the configured limit"
	}
	r.Check(bad == "", rule, key, posOf(p, app), "the only way past a matching downloader is the append", bad)
}

// checkTriggerRestarts (C05): TriggerBlockSynchronize leaves the work to the running round (sets
// the restart flag and returns) only after it has asked the round's thread whether it is still
// running. A round can end with an error (a failed lookup): its thread is complete but still
// registered; relying on the round to unregister itself on its normal exit means no round is ever
// started again.
func checkTriggerRestarts(p *load.Program, r *kit.Report, rule string) {
	f := fn(p, r, rule, R, "NodeManager.TriggerBlockSynchronize")
	if f == nil {
		return
	}
	key := "TriggerBlockSynchronize/asks-whether-the-round-still-runs"
	thF := p.Field(R, "NodeManager", "blockManagerThread")
	if thF == nil {
		r.Unknown(rule, key, "-", "field blockManagerThread not found")
		return
	}
	var stops []ssa.Instruction
	var loads []ssa.Instruction
	kit.AllInstrs(f, func(in ssa.Instruction) {
		switch x := in.(type) {
		case ssa.CallInstruction:
			if strings.HasSuffix(kit.CallID(x), ".InterruptableThread.Start") {
				stops = append(stops, in)
			}
		case *ssa.Store:
			if fl, _ := kit.FieldOfAddr(x.Addr); fl == thF && kit.IsNilConst(x.Val) {
				stops = append(stops, in)
			}
		case *ssa.UnOp:
			if x.Op == token.MUL {
				if fl, _ := kit.FieldOfAddr(x.X); fl == thF {
					loads = append(loads, in)
				}
			}
		}
	})
	if len(loads) == 0 {
		r.Bad(rule, key, posOf(p, f.Blocks[0].Instrs[0]), "the registered round is never looked at")
		return
	}
	running := kit.FindGuards(f, kit.CallCond(func(c *ssa.Call) bool { return true }, "github.com/tokenized/threads.InterruptableThread.IsComplete"))
	isThreadNil := func(c ssa.Value) (string, bool, bool) {
		b, ok := c.(*ssa.BinOp)
		if !ok || (b.Op != token.EQL && b.Op != token.NEQ) {
			return "", false, false
		}
		v := b.X
		if kit.IsNilConst(b.X) {
			v = b.Y
		} else if !kit.IsNilConst(b.Y) {
			return "", false, false
		}
		if u, ok := kit.Strip(v).(*ssa.UnOp); ok && u.Op == token.MUL {
			if fl, _ := kit.FieldOfAddr(u.X); fl == thF {
				return "round-registered", b.Op == token.NEQ, true
			}
		}
		return "", false, false
	}
	kill := func(in ssa.Instruction) []string {
		if st, ok := in.(*ssa.Store); ok {
			if fl, _ := kit.FieldOfAddr(st.Addr); fl == thF {
				return []string{"round-registered"}
			}
		}
		return nil
	}
	early := kit.Reach(f, []kit.Pt{kit.Entry(f)}, kit.Opts{StopAt: kit.InstrSet(loads...)})
	rr := kit.Reach(f, []kit.Pt{kit.Entry(f)}, kit.Opts{StopAt: kit.InstrSet(stops...), BlockEdge: kit.EdgeSet(edgesOf(running, false)...), CondKey: isThreadNil, Kill: kill})
	bad := ""
	at := loads[0]
	for _, ret := range kit.Returns(f) {
		if rr.Has(ret) && !early.Has(ret) {
			at = ret
			bad = "TriggerBlockSynchronize can leave the work to the registered round (" + rr.PathTo(ret, p.Pos) + ") without having asked its thread IsComplete(): a round that ended with an error stays registered for ever, every later trigger only sets the restart flag, and no block is requested again"
		}
	}
	r.Check(bad == "", rule, key, posOf(p, at), "the flag-only exit lies behind IsComplete() == false", bad)

	// the dual: no second round is started while one is registered (and was not found complete)
	key2 := "TriggerBlockSynchronize/one-round-at-a-time"
	var starts []ssa.Instruction
	var clears []ssa.Instruction
	kit.AllInstrs(f, func(in ssa.Instruction) {
		switch x := in.(type) {
		case ssa.CallInstruction:
			if strings.HasSuffix(kit.CallID(x), ".InterruptableThread.Start") {
				starts = append(starts, in)
			}
		case *ssa.Store:
			if fl, _ := kit.FieldOfAddr(x.Addr); fl == thF {
				if kit.IsNilConst(x.Val) {
					clears = append(clears, in)
				} else {
					starts = append(starts, in)
				}
			}
		}
	})
	registered := kit.FindGuards(f, func(c ssa.Value) (bool, bool) {
		_, pol, ok := isThreadNil(c)
		return ok, pol
	})
	if len(starts) == 0 || len(registered) == 0 {
		r.Unknown(rule, key2, posOf(p, f.Blocks[0].Instrs[0]), "no thread start (%d) or no test of the registered round (%d) found", len(starts), len(registered))
		return
	}
	var from []kit.Pt
	for _, e := range edgesOf(registered, true) {
		from = append(from, kit.EdgeStart(e))
	}
	r2 := kit.Reach(f, from, kit.Opts{StopAt: kit.InstrSet(clears...), Assume: map[string]bool{"round-registered": true}, CondKey: isThreadNil, Kill: kill})
	bad2 := ""
	at2 := starts[0]
	for _, st := range starts {
		if r2.Has(st) {
			at2 = st
			bad2 = "a new synchronisation round can be started while another one is registered and was not found complete (" + r2.PathTo(st, p.Pos) + "): two rounds walk back to the same processed block and request the same blocks, so blocks are requested and processed more than once and out of order"
		}
	}
	r.Check(bad2 == "", rule, key2, posOf(p, at2), "a round is started only when none is registered (or the registered one is complete and forgotten)", bad2)
}

// checkLoadPrunesBeforeLinking (C11; C07 imports it): load shortens every branch to the retained
// depth before it re-attaches the branches to each other. A side branch whose fork point is below
// the retained depth then fails to link and is dropped — the repository stays consistent. Linking
// first and pruning afterwards keeps that branch attached to a parent that no longer holds the
// fork point: when it overtakes, the reorganisation cannot be announced from the fork.
func checkLoadPrunesBeforeLinking(p *load.Program, r *kit.Report, rule string) {
	f := fn(p, r, rule, H, "Repository.load")
	if f == nil {
		return
	}
	key := "load/prune-before-link"
	links := kit.CallsTo(f, H+".Branch.Link")
	prunes := kit.CallsTo(f, H+".Branch.Prune")
	if len(links) == 0 || len(prunes) == 0 {
		r.Unknown(rule, key, "-", "Branch.Link (%d) / Branch.Prune (%d) calls not found in load", len(links), len(prunes))
		return
	}
	var starts []kit.Pt
	for _, l := range links {
		starts = append(starts, kit.After(l.(ssa.Instruction))...)
	}
	rr := kit.Reach(f, starts, kit.Opts{})
	bad := ""
	at := prunes[0].(ssa.Instruction)
	for _, pr := range prunes {
		if rr.Has(pr.(ssa.Instruction)) {
			at = pr.(ssa.Instruction)
			bad = "a branch is pruned (" + posOf(p, at) + ") after branches have been linked: a side branch that forks below the retained depth stays attached to a parent that no longer holds its fork point; when it overtakes, the new-header stream cannot announce the reorganisation"
		}
	}
	r.Check(bad == "", rule, key, posOf(p, at), "every Prune precedes the first Link", bad)
}

// errOrigin is where a returned error value comes from.
type errOrigin struct {
	kind string // "call" (error result of Call), "global" (package-level sentinel), "new" (made here)
	call *ssa.Call
	name string
	at   ssa.Value
}

// errOrigins walks an error value back through pkg/errors wrappers, phis and result extraction.
func errOrigins(v ssa.Value) []errOrigin {
	var out []errOrigin
	seen := map[ssa.Value]bool{}
	var rec func(v ssa.Value)
	rec = func(v ssa.Value) {
		if v == nil || seen[v] || kit.IsNilConst(v) {
			return
		}
		seen[v] = true
		switch x := v.(type) {
		case *ssa.Phi:
			for _, e := range x.Edges {
				rec(e)
			}
		case *ssa.MakeInterface:
			out = append(out, errOrigin{kind: "new", name: x.X.Type().String(), at: v})
		case *ssa.ChangeInterface:
			rec(x.X)
		case *ssa.UnOp:
			if g, ok := x.X.(*ssa.Global); ok && x.Op == token.MUL {
				out = append(out, errOrigin{kind: "global", name: g.Name(), at: v})
				return
			}
			if c := kit.Cell(x); c != ssa.Value(x) {
				rec(c)
				return
			}
			out = append(out, errOrigin{kind: "new", name: "loaded value", at: v})
		case *ssa.Extract:
			if c, ok := x.Tuple.(*ssa.Call); ok {
				out = append(out, errOrigin{kind: "call", call: c, name: kit.CallID(c), at: v})
			}
		case *ssa.Call:
			switch id := kit.CallID(x); id {
			case "github.com/pkg/errors.Wrap", "github.com/pkg/errors.Wrapf", "github.com/pkg/errors.WithStack", "github.com/pkg/errors.WithMessage":
				rec(x.Call.Args[0])
			case "github.com/pkg/errors.New", "errors.New", "fmt.Errorf", "github.com/pkg/errors.Errorf":
				out = append(out, errOrigin{kind: "new", name: id, at: v})
			default:
				out = append(out, errOrigin{kind: "call", call: x, name: id, at: v})
			}
		default:
			out = append(out, errOrigin{kind: "new", name: describe(v), at: v})
		}
	}
	rec(v)
	return out
}

// checkHeaderRefusals (C14): readHeader refuses a header only because reading it failed or because
// the network magic is not ours. The command, the length and the checksum of a header are data for
// the dispatcher (unknown commands are skipped by their declared length); a refusal that depends on
// them — a command that fills all twelve bytes, an unusual character — turns a well-formed message
// of a conformant peer into a dropped connection, and the ping that follows is never answered.
func checkHeaderRefusals(p *load.Program, r *kit.Report, rule string) {
	f := fn(p, r, rule, R, "readHeader")
	if f == nil {
		return
	}
	if len(f.Params) == 0 {
		r.Unknown(rule, "readHeader/refusals", "-", "readHeader has no reader parameter")
		return
	}
	rd := f.Params[0]
	idx := kit.ErrResultIndex(f)
	k := newKeyer()
	n := 0
	for _, ret := range kit.Returns(f) {
		if idx < 0 || idx >= len(ret.Results) || kit.ReturnErrClass(ret) == kit.ErrNil {
			continue
		}
		for _, o := range errOrigins(kit.RetOperand(ret, idx)) {
			n++
			ok, why := false, ""
			switch o.kind {
			case "global":
				ok = o.name == "ErrWrongNetwork"
				why = "the sentinel " + o.name
			case "call":
				for _, a := range o.call.Call.Args {
					if kit.DependsOn(a, func(v ssa.Value) bool { return v == ssa.Value(rd) }) {
						ok = true
					}
				}
				why = "an error of " + kit.ShortID(o.name) + ", which does not read from the connection"
			default:
				why = "an error made here (" + o.name + ")"
			}
			bad := ""
			if !ok {
				bad = "readHeader can refuse a header with " + why + ": only a failed read and a foreign network magic end a connection at this point; the command, length and checksum fields are for the dispatcher (an unknown or odd-looking command of a conformant peer is skipped by its declared length, not refused)"
			}
			var at ssa.Instruction = ret
			if in, isIn := o.at.(ssa.Instruction); isIn {
				at = in
			}
			r.Check(bad == "", rule, k.key("readHeader/refusal:"+o.kind+":"+kit.ShortID(o.name)), posOf(p, at), "a read error or the wrong-network sentinel", bad)
		}
	}
	if n < 5 {
		r.Unknown(rule, "readHeader/refusals", "-", "expected at least 5 error origins in readHeader (4 reads and the network test), found %d", n)
	}
}
