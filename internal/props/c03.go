package props

import (
	"fmt"
	"go/ast"
	"go/constant"
	"go/token"
	"go/types"
	"strings"

	"golang.org/x/tools/go/ssa"

	"verif/internal/kit"
	"verif/internal/load"
)

func init() { register("C03", checkC03) }

// consensus table (frozen): fork blocks of the foreign chains and the block that identifies BSV.
var splitTable = map[string][3]string{
	"BTC": {"0000000000000000011865af4122fe3b144e2cbeea86142e8ff2fb4107352d43", "00000000000000000019f112ec0a9982926f1258cdcc558dd7c3b7e5dc7fa148", "478559"},
	"BCH": {"00000000000000000102d94fde9bd0807a2cc7582fe85dd6349b73ce4e8d9322", "0000000000000000004626ff6e3b936941d341c5932ece4357eeccac44e6d56c", "556767"},
	"BSV": {"00000000000000000102d94fde9bd0807a2cc7582fe85dd6349b73ce4e8d9322", "000000000000000001d956714215d96ffc00e0afda4cd0a96c96f8d802b1662b", "556767"},
}

func checkC03(p *load.Program, r *kit.Report) {
	importRules(p, r, "C02", "the BSV split header must be accepted on every branch: its required bits come from the three-sample medians, fetched through the branch's ancestry (AtHeight walks into the parents), also when the window straddles a fork point", 4, nil, "MEDIAN")
	importRules(p, r, "C09", "the split rules are applied at the height ProcessHeader derives from the stored hash→height labels: a wrong label shifts the split height", 11, nil, "HEIGHT-LABEL")
	importRules(p, r, "C14", "the node stops reading after it refused a peer: a read-ahead buffer on the connection would still hold (and dispatch) the peer's next message", 1, nil, "READ-AHEAD")
	r.NotDecided = "that the literal hashes are the hashes of the real fork blocks (needs hashing, i.e. execution); the scripted-peer behaviour end to end; message sequences as such."
	r.Rule("WRITERS", "disableSplitProtection/disableDifficulty set true only in functions without production callers; BitcoinNode.verified/isReady receive true only in accept()", 4)
	r.Rule("GUARD-DOM", "under disableSplitProtection=false every effect of ProcessHeader is behind the refusal loop over repo.splits (split.Height == previousHeight+1 && split.AfterHash.Equal(&hash) → ErrWrongChain) and, when previousHeight+1 == requiredSplit.Height, behind requiredSplit.AfterHash.Equal(&hash); VerifyHeader returns nil only behind requiredSplit.AfterHash.Equal(hash); accept() only behind VerifyHeader()==nil and HandshakeIsComplete()", 8)
	r.Rule("MUST-PASS", "in handleHeadersVerify, after the handshake guard every return of nil is preceded by accept() or n.Stop(); the unknown-parent arm of ProcessHeader returns only errors", 2)
	r.Rule("CONST-TABLE", "split table equals the frozen consensus table (names, before/after hashes, heights); every hash literal has 64 hex digits; no foreign after-hash equals the required one", 3)
	r.Rule("NO-REACQUIRE", "the verification path (handleHeadersVerify, VerifyHeader, accept, Stop and what they call) never calls, while holding a mutex, a callee that takes the same mutex: a refused or empty reply must reach Stop() and close the connection, not block for ever", 3)
	{
		reach := staticReach(p.Func(R, "BitcoinNode.handleHeadersVerify"), p.Func(H, "Repository.VerifyHeader"), p.Func(R, "BitcoinNode.accept"), p.Func(R, "BitcoinNode.Stop"))
		checkNoReacquire(p, r, "NO-REACQUIRE", func(f *ssa.Function) bool { return reach[f] })
	}
	r.Rule("STOP-ORDER", "BitcoinNode.Stop closes the connection before the outgoing message channel (a refused peer is disconnected even while a sender is parked on the full queue)", 1)
	checkStopOrder(p, r, "STOP-ORDER")
	r.Rule("SPLITS-FROZEN", "outside NewRepository no function sorts in place or stores into a slice that may share the backing array of repo.splits (the field's value, a re-slice of it, or append(repo.splits, …))", 3)
	checkSplitsFrozen(p, r, "SPLITS-FROZEN")
	r.Assume("Repository.disableSplitProtection is false in production (discharged by WRITERS)")

	checkTestSwitches(p, r, "WRITERS", "disableSplitProtection", "disableDifficulty")
	checkSplitTable(p, r)

	ph := fn(p, r, "GUARD-DOM", H, "Repository.ProcessHeader")
	if ph != nil {
		if g := resolvePH(p, r, "GUARD-DOM", ph); g != nil {
			checkSplitGuards(p, r, ph, g)
		}
	}
	checkVerifyHeader(p, r)
	checkHeadersVerify(p, r)
	checkReadyWriters(p, r, "WRITERS")
	r.Rule("SPLIT-TABLE-FROZEN", "no field of a Split held by the repository is written after NewRepository built the split table (writes on local copies excepted)", 1)
	checkSplitTableFrozen(p, r, "SPLIT-TABLE-FROZEN")
}

func checkSplitTable(p *load.Program, r *kit.Report) {
	pk := p.All[H]
	found := map[string][3]string{}
	bad := ""
	for _, file := range pk.Syntax {
		ast.Inspect(file, func(n ast.Node) bool {
			cl, ok := n.(*ast.CompositeLit)
			if !ok {
				return true
			}
			tv, ok := pk.TypesInfo.Types[cl]
			if !ok {
				return true
			}
			named, ok := tv.Type.(*types.Named)
			if !ok || named.Obj().Name() != "splitHex" {
				return true
			}
			vals := map[string]string{}
			for _, el := range cl.Elts {
				kv, ok := el.(*ast.KeyValueExpr)
				if !ok {
					bad = "positional splitHex literal"
					continue
				}
				key := kv.Key.(*ast.Ident).Name
				cv := pk.TypesInfo.Types[kv.Value].Value
				if cv == nil {
					// a package level string var (SplitNameBSV = "BSV")
					if id, ok := kv.Value.(*ast.Ident); ok {
						if obj, ok := pk.TypesInfo.Uses[id].(*types.Var); ok {
							vals[key] = varInitString(pk.Syntax, pk.TypesInfo, obj)
							continue
						}
					}
					bad = "non-constant split field " + key
					continue
				}
				if cv.Kind() == constant.String {
					vals[key] = constant.StringVal(cv)
				} else {
					vals[key] = cv.ExactString()
				}
			}
			found[vals["name"]] = [3]string{vals["before"], vals["after"], vals["height"]}
			return true
		})
	}
	if bad != "" {
		r.Unknown("CONST-TABLE", "splits/literals", "headers/splits.go", "%s", bad)
		return
	}
	for name, want := range splitTable {
		got, ok := found[name]
		key := "splits/" + name
		if !ok {
			r.Bad("CONST-TABLE", key, "headers/splits.go", "split %s is missing from the table", name)
			continue
		}
		why := ""
		for i, lbl := range []string{"before hash", "after hash", "height"} {
			if got[i] != want[i] {
				why = fmt.Sprintf("%s is %s, consensus value is %s", lbl, got[i], want[i])
			}
		}
		for i := 0; i < 2; i++ {
			if len(got[i]) != 64 || strings.Trim(got[i], "0123456789abcdef") != "" {
				why = "hash literal is not 64 hex digits (the parse error is discarded in NewRepository and the zero value would be dereferenced)"
			}
		}
		r.Check(why == "", "CONST-TABLE", key, "headers/splits.go", "matches the consensus table", why)
	}
	for name := range found {
		if _, ok := splitTable[name]; !ok {
			r.Bad("CONST-TABLE", "splits/"+name, "headers/splits.go", "unexpected split entry %q", name)
		}
	}
}

func varInitString(files []*ast.File, info *types.Info, obj *types.Var) string {
	for _, f := range files {
		for _, d := range f.Decls {
			gd, ok := d.(*ast.GenDecl)
			if !ok {
				continue
			}
			for _, sp := range gd.Specs {
				vs, ok := sp.(*ast.ValueSpec)
				if !ok {
					continue
				}
				for i, n := range vs.Names {
					if info.Defs[n] == obj && i < len(vs.Values) {
						if cv := info.Types[vs.Values[i]].Value; cv != nil && cv.Kind() == constant.String {
							return constant.StringVal(cv)
						}
					}
				}
			}
		}
	}
	return "?"
}

func checkSplitGuards(p *load.Program, r *kit.Report, ph *ssa.Function, g *phGuards) {
	m := headersMutators(p)
	effs := m.EffectsIn(ph)
	dsp := p.Field(H, "Repository", "disableSplitProtection")
	assume := switchEdges(ph, dsp)
	splitsF := p.Field(H, "Repository", "splits")
	reqF := p.Field(H, "Repository", "requiredSplit")
	afterF := p.Field(H, "Split", "AfterHash")
	heightF := p.Field(H, "Split", "Height")
	lin := kit.NewLin(ph)
	heightL := lin.Of(extractOf(g.findPrev, 1)).AddK(1)

	fromSplits := func(v ssa.Value) bool {
		return kit.DependsOn(v, func(x ssa.Value) bool { return loadOfField(x, splitsF) })
	}
	fromReq := func(v ssa.Value) bool {
		return kit.DependsOn(v, func(x ssa.Value) bool { return loadOfField(x, reqF) })
	}
	isHashArg := func(v ssa.Value) bool {
		return kit.DependsOn(v, func(x ssa.Value) bool {
			c, ok := x.(*ssa.Call)
			return ok && kit.CallID(c) == load.WirePkg+".BlockHeader.BlockHash"
		})
	}
	// foreign split loop on the known-parent path: Equal guards on an element of repo.splits that
	// are themselves behind parent-found.
	var loopEq []kit.Guard
	badField := ""
	for _, gd := range kit.FindGuards(ph, kit.CallCond(func(c *ssa.Call) bool {
		return fromSplits(c.Call.Args[0]) && !fromReq(c.Call.Args[0])
	}, load.BitcoinPkg+".Hash32.Equal")) {
		if d, _ := kit.DominatedByEdges(ph, gd.If, g.parentFound, nil, p.Pos); !d {
			continue // the loop on the unknown-parent arm
		}
		c := gd.If.Cond.(*ssa.Call)
		if f, _ := kit.FieldOfAddr(c.Call.Args[0]); f != afterF {
			badField = "the refusal loop compares " + describeField(c.Call.Args[0]) + ", not split.AfterHash"
		}
		if !isHashArg(c.Call.Args[1]) {
			badField = "the refusal loop does not compare with the submitted header's hash"
		}
		loopEq = append(loopEq, gd)
	}
	if len(loopEq) != 1 {
		r.Bad("GUARD-DOM", "ProcessHeader/foreign-split-loop", "-", "refusal loop over repo.splits on the known-parent path not found (%d candidates)", len(loopEq))
		return
	}
	// height test inside the loop
	hg := kit.FindGuards(ph, func(c ssa.Value) (bool, bool) {
		b, ok := c.(*ssa.BinOp)
		if !ok || (b.Op != token.EQL && b.Op != token.NEQ) {
			return false, false
		}
		x, y := b.X, b.Y
		if f, _ := kit.LoadedField(y); f == heightF {
			x, y = y, x
		}
		if f, _ := kit.LoadedField(x); f != heightF || !fromSplits(x) || fromReq(x) {
			return false, false
		}
		_ = y
		return true, b.Op == token.EQL
	})
	// only the tests on the known-parent path count (a shared helper expanded on the unknown-parent
	// arm brings its own copy of the comparison)
	{
		var onPath []kit.Guard
		for _, gd := range hg {
			if d, _ := kit.DominatedByEdges(ph, gd.If, g.parentFound, nil, p.Pos); d {
				onPath = append(onPath, gd)
			}
		}
		hg = onPath
	}
	if badField == "" {
		if len(hg) != 1 {
			badField = "split.Height is not compared inside the refusal loop"
		} else {
			b := hg[0].If.Cond.(*ssa.BinOp)
			other := b.Y
			if f, _ := kit.LoadedField(b.Y); f == heightF {
				other = b.X
			}
			if o := lin.Of(other); !o.Equal(heightL) {
				badField = "split.Height is compared with " + o.String() + ", want previousHeight+1"
			}
			if d, _ := kit.DominatedByEdges(ph, loopEq[0].If, []kit.Edge{hg[0].PassEdge()}, nil, p.Pos); !d {
				badField = "the hash comparison is not inside the height match"
			}
		}
	}
	r.Check(badField == "", "GUARD-DOM", "ProcessHeader/foreign-split-loop", posOf(p, loopEq[0].If),
		"refuses split.Height == previousHeight+1 && split.AfterHash.Equal(&hash)", badField)
	exits := invalidLoopExit(ph, loopEq)
	// every split is looked at: a split that does not match (other height, other hash) leads to the
	// next one, it does not end the scan — the list is sorted highest first, so a `break` on the
	// first height mismatch hides every later split
	if header, loop := innermostLoop(ph, loopEq[0].If.Block()); header != nil && len(header.Instrs) > 0 {
		var starts []kit.Pt
		for _, g := range hg {
			starts = append(starts, kit.EdgeStart(g.FailEdge()))
		}
		starts = append(starts, kit.EdgeStart(loopEq[0].FailEdge()))
		bad := ""
		for _, st := range starts {
			if !loop[st.B] {
				continue
			}
			rr := kit.Reach(ph, []kit.Pt{st}, kit.Opts{StopAt: func(in ssa.Instruction) bool { return in == header.Instrs[0] }})
			if !rr.Has(header.Instrs[0]) {
				bad = "a split that does not match ends the scan of the split list instead of going on with the next split: the split headers listed after it are no longer refused as wrong chain"
			}
		}
		r.Check(bad == "", "GUARD-DOM", "ProcessHeader/foreign-split-loop-covers-all", posOf(p, loopEq[0].If), "a non-matching split leads to the next iteration", bad)
	}
	// refusal returns ErrWrongChain
	{
		reach := kit.Reach(ph, []kit.Pt{kit.EdgeStart(loopEq[0].PassEdge())}, kit.Opts{})
		bad := ""
		for _, ret := range kit.Returns(ph) {
			if reach.Has(ret) && errCauseVia(reach, ret, 0) != "ErrWrongChain" {
				bad = "foreign split header reaches " + retLabel(ret)
			}
		}
		r.Check(bad == "", "GUARD-DOM", "ProcessHeader/foreign-split-refusal", posOf(p, loopEq[0].If), "a foreign split header returns ErrWrongChain", bad)
	}

	// required split
	reqEq := kit.FindGuards(ph, kit.CallCond(func(c *ssa.Call) bool {
		f, _ := kit.FieldOfAddr(c.Call.Args[0])
		return fromReq(c.Call.Args[0]) && f == afterF && isHashArg(c.Call.Args[1])
	}, load.BitcoinPkg+".Hash32.Equal"))
	trig := kit.FindGuards(ph, func(c ssa.Value) (bool, bool) {
		b, ok := c.(*ssa.BinOp)
		if !ok || (b.Op != token.EQL && b.Op != token.NEQ) {
			return false, false
		}
		x, y := b.X, b.Y
		if f, _ := kit.LoadedField(y); f == heightF {
			x, y = y, x
		}
		if f, _ := kit.LoadedField(x); f != heightF || !fromReq(x) {
			return false, false
		}
		if !lin.Of(y).Equal(heightL) {
			return false, false
		}
		return true, b.Op == token.EQL
	})
	reqNil := kit.FindGuards(ph, func(c ssa.Value) (bool, bool) {
		b, ok := c.(*ssa.BinOp)
		if !ok || (b.Op != token.EQL && b.Op != token.NEQ) || !loadOfField(b.X, reqF) || !kit.IsNilConst(b.Y) {
			return false, false
		}
		return true, b.Op == token.NEQ
	})
	if len(reqEq) != 1 || len(trig) != 1 {
		r.Bad("GUARD-DOM", "ProcessHeader/required-split", "-", "test `previousHeight+1 == requiredSplit.Height` (%d) with requiredSplit.AfterHash.Equal(&hash) (%d) not found", len(trig), len(reqEq))
		return
	}
	k := newKeyer()
	passLoop := append(append([]kit.Edge{}, exits...))
	passReq := []kit.Edge{reqEq[0].PassEdge(), trig[0].FailEdge()}
	passReq = append(passReq, edgesOf(reqNil, false)...)
	for _, e := range effs {
		ok1, path1 := kit.DominatedByEdges(ph, e.Instr, passLoop, assume, p.Pos)
		ok2, path2 := kit.DominatedByEdges(ph, e.Instr, passReq, assume, p.Pos)
		key := k.key("ProcessHeader/splits-before:" + e.Desc)
		switch {
		case !ok1:
			r.Bad("GUARD-DOM", key, posOf(p, e.Instr), "state changed without checking the header against the foreign split hashes: %s", path1)
		case !ok2:
			r.Bad("GUARD-DOM", key, posOf(p, e.Instr), "header accepted at the required split height without being the BSV split header: %s", path2)
		default:
			r.OK("GUARD-DOM", key, posOf(p, e.Instr), "behind the foreign-split loop and the required-split test")
		}
	}
	{
		reach := kit.Reach(ph, []kit.Pt{kit.EdgeStart(reqEq[0].FailEdge())}, kit.Opts{})
		bad := ""
		for _, ret := range kit.Returns(ph) {
			if reach.Has(ret) && errCauseVia(reach, ret, 0) != "ErrWrongChain" {
				bad = "wrong header at the required split height reaches " + retLabel(ret)
			}
		}
		for _, e := range effs {
			if reach.Has(e.Instr) {
				bad = "effect reachable after the required split hash mismatched"
			}
		}
		r.Check(bad == "", "GUARD-DOM", "ProcessHeader/required-split-refusal", posOf(p, reqEq[0].If), "wrong header at the split height returns ErrWrongChain", bad)
	}
	// unknown-parent arm: only errors
	{
		var starts []kit.Pt
		for _, e := range g.parentFound {
			starts = append(starts, kit.EdgeStart(kit.Edge{From: e.From, Succ: 1 - e.Succ}))
		}
		reach := kit.Reach(ph, starts, kit.Opts{})
		bad := ""
		for _, ret := range kit.Returns(ph) {
			if reach.Has(ret) && reach.ErrClass(ret) != kit.ErrNonNil {
				bad = "unknown-parent arm reaches " + retLabel(ret)
			}
		}
		r.Check(bad == "", "MUST-PASS", "ProcessHeader/unknown-parent-arm", posOf(p, g.findPrev), "only error returns", bad)
	}
}

func describeField(v ssa.Value) string {
	if f, _ := kit.FieldOfAddr(v); f != nil {
		return "field " + f.Name()
	}
	return describe(v)
}

func checkVerifyHeader(p *load.Program, r *kit.Report) {
	f := fn(p, r, "GUARD-DOM", H, "Repository.VerifyHeader")
	if f == nil {
		return
	}
	reqF := p.Field(H, "Repository", "requiredSplit")
	afterF := p.Field(H, "Split", "AfterHash")
	eq := kit.FindGuards(f, kit.CallCond(func(c *ssa.Call) bool {
		fl, _ := kit.FieldOfAddr(c.Call.Args[0])
		if fl != afterF || !kit.DependsOn(c.Call.Args[0], func(x ssa.Value) bool { return loadOfField(x, reqF) }) {
			return false
		}
		hc := isCallTo(c.Call.Args[1], load.WirePkg+".BlockHeader.BlockHash")
		return hc != nil && len(f.Params) >= 3 && kit.Strip(hc.Call.Args[0]) == ssa.Value(f.Params[2])
	}, load.BitcoinPkg+".Hash32.Equal"))
	k := newKeyer()
	n := 0
	for _, ret := range kit.Returns(f) {
		if kit.ReturnErrClass(ret) == kit.ErrNonNil {
			continue
		}
		n++
		ok, path := kit.DominatedByEdges(f, ret, edgesOf(eq, true), nil, p.Pos)
		if !ok {
			// a merged `return err`: what matters is how the paths that avoid the match arrive
			rr := kit.Reach(f, []kit.Pt{kit.Entry(f)}, kit.Opts{BlockEdge: kit.EdgeSet(edgesOf(eq, true)...)})
			if !rr.Has(ret) || rr.ErrClass(ret) == kit.ErrNonNil {
				ok = true
			}
		}
		r.Check(ok, "GUARD-DOM", k.key("VerifyHeader/return-nil"), posOf(p, ret), "success only behind requiredSplit.AfterHash.Equal(header.BlockHash())",
			"a header other than the BSV split header is reported as verified: "+path)
	}
	if n == 0 {
		r.Bad("GUARD-DOM", "VerifyHeader/return-nil", posOf(p, f.Blocks[0].Instrs[0]), "VerifyHeader can never succeed")
	}
}

func checkHeadersVerify(p *load.Program, r *kit.Report) {
	f := fn(p, r, "GUARD-DOM", R, "BitcoinNode.handleHeadersVerify")
	if f == nil {
		return
	}
	accepts := kit.CallsTo(f, R+".BitcoinNode.accept")
	hs := kit.FindGuards(f, kit.CallCond(nil, R+".BitcoinNode.HandshakeIsComplete"))
	var vcall *ssa.Call
	for _, c := range kit.Calls(f, func(id string) bool { return strings.HasSuffix(id, ".VerifyHeader") }) {
		vcall, _ = c.(*ssa.Call)
	}
	if len(accepts) == 0 || vcall == nil || len(hs) == 0 {
		r.Bad("GUARD-DOM", "handleHeadersVerify/anchors", posOf(p, f.Blocks[0].Instrs[0]), "accept() (%d), VerifyHeader call (%v) or HandshakeIsComplete test (%d) missing", len(accepts), vcall != nil, len(hs))
		return
	}
	vg := errNilGuards(f, vcall)
	// the header passed to VerifyHeader is the first one read from the message
	k := newKeyer()
	for _, a := range accepts {
		ok1, path1 := kit.DominatedByEdges(f, a, edgesOf(vg, true), nil, p.Pos)
		ok2, path2 := kit.DominatedByEdges(f, a, edgesOf(hs, true), nil, p.Pos)
		key := k.key("handleHeadersVerify/accept")
		switch {
		case !ok1:
			r.Bad("GUARD-DOM", key, posOf(p, a), "accept() reachable without VerifyHeader() == nil: %s", path1)
		case !ok2:
			r.Bad("GUARD-DOM", key, posOf(p, a), "accept() reachable before the handshake is complete: %s", path2)
		default:
			r.OK("GUARD-DOM", key, posOf(p, a), "behind VerifyHeader()==nil and HandshakeIsComplete()")
		}
	}
	// first header: VerifyHeader's argument comes from the first deserializeBlockHeader, which is
	// not inside a loop
	{
		bad := ""
		arg := callOf(kit.Provenance(vcall.Call.Args[len(vcall.Call.Args)-1]), 0)
		if arg == nil || kit.CallID(arg) != R+".deserializeBlockHeader" {
			bad = "verified header is not the one read from the message"
		} else if inCycle(arg.Block()) {
			bad = "the verified header is not the first header of the reply"
		}
		r.Check(bad == "", "GUARD-DOM", "handleHeadersVerify/first-header", posOf(p, vcall), "VerifyHeader is applied to the first header of the reply", bad)
	}
	// after the handshake guard: every nil return preceded by accept() or Stop()
	stops := kit.CallsTo(f, R+".BitcoinNode.Stop")
	stopSet := map[ssa.Instruction]bool{}
	for _, s := range append(append([]ssa.CallInstruction{}, stops...), accepts...) {
		stopSet[s] = true
	}
	var starts []kit.Pt
	for _, e := range edgesOf(hs, true) {
		starts = append(starts, kit.EdgeStart(e))
	}
	reach := kit.Reach(f, starts, kit.Opts{StopAt: func(in ssa.Instruction) bool { return stopSet[in] }})
	bad := ""
	for _, ret := range kit.Returns(f) {
		if reach.Has(ret) && reach.ErrClass(ret) != kit.ErrNonNil {
			bad = "a reply can leave the peer connected and unverified: nil return at " + posOf(p, ret) + " without accept() or Stop(): " + reach.PathTo(ret, p.Pos)
		}
	}
	r.Check(bad == "", "MUST-PASS", "handleHeadersVerify/reply-outcomes", posOf(p, f.Blocks[0].Instrs[0]), "every nil return after the handshake guard follows accept() or n.Stop()", bad)
}

func inCycle(b *ssa.BasicBlock) bool {
	return reachBlocks(b, false)[b]
}

// checkReadyWriters: isReady/verified get true only in accept.
func checkReadyWriters(p *load.Program, r *kit.Report, rule string) {
	funcs := pkgFuncs(p, R)
	for _, name := range []string{"isReady", "verified"} {
		fld := p.Field(R, "BitcoinNode", name)
		if fld == nil {
			r.Unknown(rule, "BitcoinNode."+name, "-", "field not found")
			continue
		}
		n := 0
		for _, f := range funcs {
			for _, c := range kit.CallsTo(f, "sync/atomic.Value.Store") {
				fa, _ := kit.FieldOfAddr(c.Common().Args[0])
				if fa != fld {
					continue
				}
				b, isConst := kit.ConstBool(c.Common().Args[1])
				owner := kit.ShortID(kit.FuncID(f))
				key := "BitcoinNode." + name + "/store-in:" + owner
				if isConst && !b {
					r.OKTrivial(rule, key, posOf(p, c), "stores false")
					continue
				}
				n++
				if kit.FuncID(f) == R+".BitcoinNode.accept" {
					r.OK(rule, key, posOf(p, c), "true is stored in accept()")
				} else {
					r.Bad(rule, key, posOf(p, c), "%s is set outside accept(): a peer becomes %s without chain verification", name, name)
				}
			}
		}
		if n == 0 {
			r.Bad(rule, "BitcoinNode."+name+"/store-true", "-", "no store of true to %s found", name)
		}
	}
}

// checkSplitsFrozen: after construction nothing reorders or overwrites the elements of the slice
// repo.splits points to — neither directly nor through a slice that may share its backing array
// (a re-slice, or append(repo.splits, …), which writes into spare capacity and is then sorted in
// place). ProcessHeader/VerifyHeader and the locators read the table on every call.
func checkSplitsFrozen(p *load.Program, r *kit.Report, rule string) {
	fld := p.Field(H, "Repository", "splits")
	if fld == nil {
		r.Unknown(rule, "Repository.splits", "-", "field not found")
		return
	}
	ctor := p.Func(H, "NewRepository")
	k := newKeyer()
	readers := 0
	for _, f := range pkgFuncs(p, H) {
		if f == ctor || strings.HasPrefix(p.FileOf(f.Pos()), "headers/test_helpers.go") {
			continue
		}
		// values that may share the backing array of repo.splits
		derived := map[ssa.Value]bool{}
		kit.AllInstrs(f, func(in ssa.Instruction) {
			if u, ok := in.(*ssa.UnOp); ok && u.Op == token.MUL {
				if fa, ok := u.X.(*ssa.FieldAddr); ok {
					if fl, _ := kit.FieldOfAddr(fa); fl == fld {
						derived[u] = true
					}
				}
			}
		})
		if len(derived) == 0 {
			continue
		}
		readers++
		for changed := true; changed; {
			changed = false
			kit.AllInstrs(f, func(in ssa.Instruction) {
				v, ok := in.(ssa.Value)
				if !ok || derived[v] {
					return
				}
				switch x := in.(type) {
				case *ssa.Slice:
					if derived[x.X] {
						derived[v], changed = true, true
					}
				case *ssa.ChangeType:
					if derived[x.X] {
						derived[v], changed = true, true
					}
				case *ssa.MakeInterface:
					if derived[x.X] {
						derived[v], changed = true, true
					}
				case *ssa.Phi:
					for _, e := range x.Edges {
						if derived[e] {
							derived[v], changed = true, true
						}
					}
				case *ssa.Call:
					if b, ok := x.Call.Value.(*ssa.Builtin); ok && b.Name() == "append" && len(x.Call.Args) > 0 && derived[x.Call.Args[0]] {
						derived[v], changed = true, true
					}
				}
			})
		}
		name := kit.ShortID(kit.FuncID(f))
		bad := false
		kit.AllInstrs(f, func(in ssa.Instruction) {
			switch x := in.(type) {
			case *ssa.Store:
				if ia, ok := x.Addr.(*ssa.IndexAddr); ok && derived[ia.X] {
					bad = true
					r.Bad(rule, k.key(name+"/element-store"), posOf(p, in), "an element of a slice that may share the backing array of repo.splits is overwritten")
				}
			case ssa.CallInstruction:
				if g := kit.StaticCallee(x); g != nil && g.Pkg != nil && g.Pkg.Pkg.Path() == "sort" {
					for _, a := range x.Common().Args {
						if derived[a] {
							bad = true
							r.Bad(rule, k.key(name+"/"+kit.ShortID(kit.CallID(x))), posOf(p, in), "%s reorders in place a slice that may share the backing array of repo.splits (repo.splits itself, a re-slice, or append(repo.splits, …) writing into spare capacity): the split table that ProcessHeader and VerifyHeader consult changes under them", kit.ShortID(kit.CallID(x)))
							break
						}
					}
				}
			}
		})
		if !bad {
			r.OK(rule, name+"/reads-splits", posOf(p, f.Blocks[0].Instrs[0]), "reads repo.splits without reordering or overwriting its elements")
		}
	}
	if readers < 3 {
		r.Unknown(rule, "Repository.splits/readers", "-", "expected at least 3 functions reading repo.splits, found %d", readers)
	}
}
