package props

import (
	"go/token"
	"go/types"

	"golang.org/x/tools/go/ssa"

	"verif/internal/kit"
	"verif/internal/load"
)

func init() { register("C07", checkC07) }

func fromField(v ssa.Value, f *types.Var) bool {
	return kit.DependsOn(v, func(x ssa.Value) bool { return loadOfField(x, f) })
}

func checkC07(p *load.Program, r *kit.Report) {
	importRules(p, r, "C01", "after a restart the announcement of a reorganisation walks the new best branch through its parents: a loaded branch must be attached to the first branch that knows its previous hash, or the headers announced between the fork point and the tip are a sibling's", 1, nil, "LINK-FIRST")
	r.Rule("SENTINEL-EXACT", "sendBranchUpdate separates Find's `not found` answer -1 from the valid fork height 0 (a fork directly above the first header)", 1)
	if sbu := p.Func(H, "Repository.sendBranchUpdate"); sbu != nil {
		sentinelExactIn(p, r, "SENTINEL-EXACT", []*ssa.Function{sbu})
	}
	importRules(p, r, "C11", "after a restart a side branch that overtakes is announced from its fork point, which must still be held by its parent: load prunes before it links, so a branch forking below the retained depth is dropped instead of kept half-attached", 1, nil, "PRUNE-BEFORE-LINK")
	importRules(p, r, "C08", "a submission that fails after the tip has changed leaves the new tip unannounced (the resubmission is a duplicate and sends nothing): errors are returned before any effect only", 12, nil, "NO-EFFECT-BEFORE-ERROR")
	importRules(p, r, "C10", "a reorganisation is announced from the fork point, which IntersectHash finds by walking the parent links of both branches and reads through the parents' height maps: Clean must re-attach every branch to the rebuilt objects and keep in memory the headers every side branch forks from, or the switch is made silently (\"Intersect not found/missing\")", 2, nil, "COVER-ALL")
	r.NotDecided = "that a subscriber's reconstruction equals the reported chain for every tree shape (IntersectHash's result as a value); behaviour when the 10000-slot buffer is full; histories."
	r.Rule("WRITERS", "sends on subscriber channels (elements of Repository.newHeadersChannels) happen only in ProcessHeader and sendBranchUpdate, close only in Stop, registration only in GetNewHeadersAvailableChannel", 4)
	r.Rule("MUST-PASS", "on the accepting paths of ProcessHeader exactly one announcement (sendBranchUpdate xor the single-header loop) is made when the header ends on the best branch, and none when it does not; a tip switch is always announced with sendBranchUpdate(new, old) before repo.longest is stored", 5)
	r.Rule("INTERSECT-SHAPE", "Branch.IntersectHash walks both ancestries carrying, per side, the height and hash at which that side leaves the cursor branch, and where the cursors meet returns the hash of the side with the lower exit height (the last header both chains share)", 3)
	r.Rule("STREAM-SHAPE", "sendBranchUpdate sends branch.AtHeight(h).Header for h = branch.Find(IntersectHash(branch, previousLongest))+1 … branch.Height(), ascending by 1, each to every channel (the channel loop is nested inside the height loop)", 4)

	chF := field(p, r, "WRITERS", H, "Repository", "newHeadersChannels")
	longestF := p.Field(H, "Repository", "longest")
	branchesF := p.Field(H, "Repository", "branches")
	if chF == nil {
		return
	}
	allowedSend := map[string]bool{H + ".Repository.ProcessHeader": true, H + ".Repository.sendBranchUpdate": true}
	k := newKeyer()
	nSend := 0
	for _, f := range pkgFuncs(p, H, R) {
		id := kit.FuncID(f)
		for _, w := range kit.DirectWrites(f) {
			switch w.Kind {
			case "send":
				s := w.Instr.(*ssa.Send)
				if !fromField(s.Chan, chF) {
					continue
				}
				nSend++
				r.Check(allowedSend[id], "WRITERS", k.key("send-in:"+kit.ShortID(id)), posOf(p, w.Instr), "send from the submission path",
					"subscriber channel written outside ProcessHeader/sendBranchUpdate: headers that never entered the best chain can be announced")
			case "close":
				c := w.Instr.(ssa.CallInstruction)
				if !fromField(c.Common().Args[0], chF) {
					continue
				}
				r.Check(id == H+".Repository.Stop", "WRITERS", k.key("close-in:"+kit.ShortID(id)), posOf(p, w.Instr), "closed in Stop", "subscriber channel closed outside Stop")
			case "store":
				if w.Field == chF {
					okf := id == H+".Repository.GetNewHeadersAvailableChannel" || id == H+".Repository.Stop"
					r.Check(okf, "WRITERS", k.key("store-in:"+kit.ShortID(id)), posOf(p, w.Instr), "subscriber list changed only by registration/Stop", "subscriber list modified in "+kit.ShortID(id))
				}
			}
		}
	}
	if nSend < 2 {
		r.Unknown("WRITERS", "sends", "-", "expected sends in ProcessHeader and sendBranchUpdate, found %d", nSend)
	}

	checkSendBranchUpdate(p, r, chF)
	checkIntersect(p, r)

	ph := fn(p, r, "MUST-PASS", H, "Repository.ProcessHeader")
	if ph == nil {
		return
	}
	g := resolvePH(p, r, "MUST-PASS", ph)
	if g == nil {
		return
	}
	// events
	updates := kit.CallsTo(ph, H+".Repository.sendBranchUpdate")
	var marker []ssa.Instruction // entry of the single-header loop: the load of newHeadersChannels
	kit.AllInstrs(ph, func(in ssa.Instruction) {
		if v, ok := in.(ssa.Value); ok && loadOfField(v, chF) {
			marker = append(marker, in)
		}
	})
	if len(marker) == 0 {
		r.Bad("MUST-PASS", "ProcessHeader/announcement-sites", posOf(p, ph.Blocks[0].Instrs[0]), "ProcessHeader never announces a header to the subscribers")
		return
	}
	// the single send forwards the submitted header
	for _, w := range kit.DirectWrites(ph) {
		if w.Kind == "send" && fromField(w.Instr.(*ssa.Send).Chan, chF) {
			r.Check(kit.Strip(w.Val) == ssa.Value(g.header), "MUST-PASS", "ProcessHeader/single-send-value", posOf(p, w.Instr), "the submitted header is announced", "the single announcement does not carry the submitted header")
		}
	}
	isEvent := map[ssa.Instruction]bool{}
	for _, mk := range marker {
		isEvent[mk] = true
	}
	for _, u := range updates {
		isEvent[u] = true
	}
	// condition memo: previousBranch == repo.longest
	condKey := func(c ssa.Value) (string, bool, bool) {
		b, ok := c.(*ssa.BinOp)
		if !ok || (b.Op != token.EQL && b.Op != token.NEQ) {
			return "", false, false
		}
		x, y := b.X, b.Y
		if loadOfField(x, longestF) {
			x, y = y, x
		}
		if loadOfField(y, longestF) && callOf(x, 0) == g.findPrev {
			return "prev==longest", b.Op == token.EQL, true
		}
		return "", false, false
	}
	kill := func(in ssa.Instruction) []string {
		if st, ok := in.(*ssa.Store); ok {
			if f, _ := kit.FieldOfAddr(st.Addr); f == longestF {
				return []string{"prev==longest"}
			}
		}
		if c, ok := in.(ssa.CallInstruction); ok && kit.CallID(c) == H+".Repository.clean" {
			return []string{"prev==longest"}
		}
		return nil
	}
	opts := func(stop func(ssa.Instruction) bool, block func(kit.Edge) bool) kit.Opts {
		return kit.Opts{StopAt: stop, BlockEdge: block, CondKey: condKey, Kill: kill}
	}
	nilRet := func(reach *kit.Reached) *ssa.Return {
		for _, ret := range kit.Returns(ph) {
			if reach.Has(ret) && reach.ErrClass(ret) != kit.ErrNonNil {
				return ret
			}
		}
		return nil
	}

	// (A) every Longest() call: on the differ edge, sendBranchUpdate(longestResult, repo.longest) on
	// every path before the store
	kk := newKeyer()
	for _, c := range kit.CallsTo(ph, H+".Branches.Longest") {
		call, ok := c.(*ssa.Call)
		if !ok || !recvIsField(call.Call.Args[0], branchesF) {
			continue
		}
		key := kk.key("ProcessHeader/announce-switch")
		differ := kit.FindGuards(ph, func(cv ssa.Value) (bool, bool) {
			b, ok := cv.(*ssa.BinOp)
			if !ok || (b.Op != token.EQL && b.Op != token.NEQ) {
				return false, false
			}
			x, y := b.X, b.Y
			if x != ssa.Value(call) {
				x, y = y, x
			}
			if x != ssa.Value(call) || !loadOfField(y, longestF) {
				return false, false
			}
			return true, b.Op == token.NEQ
		})
		var store ssa.Instruction
		for _, w := range kit.DirectWrites(ph) {
			if w.Field == longestF && w.Val == ssa.Value(call) {
				store = w.Instr
			}
		}
		if len(differ) != 1 || store == nil {
			r.Bad("MUST-PASS", key, posOf(p, call), "tip switch (compare + store) not found for this Longest() call")
			continue
		}
		var upd ssa.CallInstruction
		for _, u := range updates {
			a := u.Common().Args
			if len(a) < 2 {
				continue // not the reference signature (reported by STREAM-SHAPE/params)
			}
			// two-argument form: sendBranchUpdate reads repo.longest itself (STREAM-SHAPE/range-start)
			if a[1] == ssa.Value(call) && (len(a) == 2 || loadOfField(a[2], longestF)) {
				upd = u
			}
		}
		bad := ""
		if upd == nil {
			bad = "the reorganisation is not announced with sendBranchUpdate(newLongest, repo.longest): subscribers miss the headers between the fork point and the new tip"
		} else {
			reach := kit.Reach(ph, []kit.Pt{kit.EdgeStart(differ[0].PassEdge())}, kit.Opts{StopAt: kit.InstrSet(upd)})
			if reach.Has(store) {
				bad = "repo.longest can be switched without sendBranchUpdate: " + reach.PathTo(store, p.Pos)
			}
			if kit.Reach(ph, kit.After(store), kit.Opts{}).Has(upd) {
				bad = "the branch update is sent after repo.longest was switched (old tip lost)"
			}
			if d, _ := kit.DominatedByEdges(ph, upd, []kit.Edge{differ[0].PassEdge()}, nil, p.Pos); !d {
				bad = "sendBranchUpdate is sent although the best branch did not change"
			}
		}
		r.Check(bad == "", "MUST-PASS", key, posOf(p, store), "differ edge → sendBranchUpdate(new, old) → store", bad)
	}

	// (B) Add arm
	adds := kit.CallsTo(ph, H+".Branch.Add")
	if len(adds) != 1 {
		r.Unknown("MUST-PASS", "ProcessHeader/add-arm", "-", "expected one Branch.Add call")
		return
	}
	add := adds[0].(*ssa.Call)
	var addOK []kit.Pt
	for _, e := range boolEdges(add, true) {
		addOK = append(addOK, kit.EdgeStart(e))
	}
	// at most one announcement per path
	{
		bad := ""
		for ev := range isEvent {
			reach := kit.Reach(ph, kit.After(ev), opts(nil, nil))
			for ev2 := range isEvent {
				// the loads of the channel list inside one walk over the channels are one
				// announcement
				if cyc := cycleOf(ev.Block()); len(cyc) > 0 && cyc[ev2.Block()] {
					continue
				}
				if reach.Has(ev2) {
					bad = "two announcements on one path: " + posOf(p, ev) + " then " + posOf(p, ev2)
				}
			}
		}
		r.Check(bad == "", "MUST-PASS", "ProcessHeader/at-most-one-announcement", posOf(p, add), "no path announces twice (headersSent tracked exactly)", bad)
	}
	// incumbent extended: exactly one (the single-header loop)
	incumbent := kit.FindGuards(ph, func(c ssa.Value) (bool, bool) { _, pol, ok := condKey(c); return ok, pol })
	var firstInc *kit.Guard
	for i := range incumbent {
		// the first test after Add: reachable from add without passing another incumbent test
		reach := kit.Reach(ph, addOK, kit.Opts{StopAt: func(in ssa.Instruction) bool {
			for _, g2 := range incumbent {
				if in == ssa.Instruction(g2.If) {
					return true
				}
			}
			return false
		}})
		if reach.Has(incumbent[i].If) {
			firstInc = &incumbent[i]
		}
	}
	if firstInc == nil {
		r.Bad("MUST-PASS", "ProcessHeader/extension-announced", posOf(p, add), "no test previousBranch == repo.longest after Add")
		return
	}
	{
		// start on the equal edge with the key recorded: emulate by starting at the If itself with
		// the other edge blocked
		reach := kit.Reach(ph, []kit.Pt{kit.At(firstInc.If)}, opts(func(in ssa.Instruction) bool { return isEvent[in] }, kit.EdgeSet(firstInc.FailEdge())))
		bad := ""
		if ret := nilRet(reach); ret != nil {
			bad = "extending the best branch can return nil without announcing the header: " + reach.PathTo(ret, p.Pos)
		}
		r.Check(bad == "", "MUST-PASS", "ProcessHeader/extension-announced", posOf(p, firstInc.If), "a header extending the tip is announced on every accepting path", bad)
	}
	// side branch extended without switch: no announcement
	for _, c := range kit.CallsTo(ph, H+".Branches.Longest") {
		call := c.(*ssa.Call)
		if ok, _ := kit.DominatedByEdges(ph, call, []kit.Edge{firstInc.FailEdge()}, nil, p.Pos); !ok {
			continue
		}
		differ := kit.FindGuards(ph, func(cv ssa.Value) (bool, bool) {
			b, ok := cv.(*ssa.BinOp)
			if !ok || (b.Op != token.EQL && b.Op != token.NEQ) {
				return false, false
			}
			if (b.X == ssa.Value(call) && loadOfField(b.Y, longestF)) || (b.Y == ssa.Value(call) && loadOfField(b.X, longestF)) {
				return true, b.Op == token.NEQ
			}
			return false, false
		})
		if len(differ) != 1 {
			continue
		}
		// path: firstInc fail edge (prev != longest) → ... → differ fail edge (no switch)
		reach := kit.Reach(ph, []kit.Pt{kit.At(firstInc.If)}, opts(nil, kit.EdgeSet(firstInc.PassEdge(), differ[0].PassEdge())))
		bad := ""
		for ev := range isEvent {
			if reach.Has(ev) {
				bad = "a header that stays on a side branch is announced at " + posOf(p, ev)
			}
		}
		r.Check(bad == "", "MUST-PASS", "ProcessHeader/side-branch-silent", posOf(p, differ[0].If), "no announcement when the best branch is unchanged and the header is not on it", bad)
	}
}

func checkSendBranchUpdate(p *load.Program, r *kit.Report, chF *types.Var) {
	f := fn(p, r, "STREAM-SHAPE", H, "Repository.sendBranchUpdate")
	if f == nil {
		return
	}
	pos := posOf(p, f.Blocks[0].Instrs[0])
	if len(f.Params) != 3 && len(f.Params) != 2 {
		r.Unknown("STREAM-SHAPE", "sendBranchUpdate/params", pos, "unexpected signature")
		return
	}
	// the previous best branch is the second argument, or (two-parameter form) repo.longest read by
	// sendBranchUpdate itself — the caller must then not have switched it yet (MUST-PASS in ProcessHeader)
	branch := f.Params[1]
	longestF := p.Field(H, "Repository", "longest")
	isPrev := func(v ssa.Value) bool {
		if len(f.Params) == 3 {
			return v == ssa.Value(f.Params[2])
		}
		return longestF != nil && loadOfField(v, longestF)
	}
	lin := kit.NewLin(f)
	var send *ssa.Send
	kit.AllInstrs(f, func(in ssa.Instruction) {
		if s, ok := in.(*ssa.Send); ok && fromField(s.Chan, chF) {
			send = s
		}
	})
	if send == nil {
		r.Bad("STREAM-SHAPE", "sendBranchUpdate/send", pos, "nothing is sent to the subscribers")
		return
	}
	headerF := p.Field(H, "HeaderData", "Header")
	fl, base := kit.LoadedField(send.X)
	at := callOf(base, 0)
	bad := ""
	var hL kit.Lin
	switch {
	case fl != headerF || at == nil || kit.CallID(at) != H+".Branch.AtHeight":
		bad = "the value sent is not branch.AtHeight(height).Header"
	case recvPtr(at.Call.Args[0]) != ssa.Value(branch):
		bad = "headers are taken from " + describe(recvPtr(at.Call.Args[0])) + ", not from the new best branch"
	default:
		hL = lin.Of(at.Call.Args[1])
	}
	r.Check(bad == "", "STREAM-SHAPE", "sendBranchUpdate/sent-value", posOf(p, send), "sends branch.AtHeight(h).Header", bad)
	if bad != "" {
		return
	}
	// start = branch.Find(*IntersectHash(branch, previousLongest)) + 1, step +1
	finds := kit.CallsTo(f, H+".Branch.Find")
	inter := kit.CallsTo(f, H+".Branch.IntersectHash")
	bad = ""
	if len(finds) != 1 || len(inter) != 1 {
		bad = "expected one IntersectHash and one Find"
	} else {
		fc, ic := finds[0].(*ssa.Call), inter[0].(*ssa.Call)
		ia := ic.Call.Args
		okInter := (ia[0] == ssa.Value(branch) && isPrev(ia[1])) || (isPrev(ia[0]) && ia[1] == ssa.Value(branch))
		if !okInter {
			bad = "the fork point is not IntersectHash of the new and the previous best branch"
		} else if recvPtr(fc.Call.Args[0]) != ssa.Value(branch) || !kit.DependsOn(fc.Call.Args[1], func(v ssa.Value) bool { return v == ssa.Value(ic) }) {
			bad = "the start height is not branch.Find(intersect)"
		} else {
			// hL = Find + 1 + iter
			start := lin.Of(fc).AddK(1)
			d := hL.Sub(start)
			if !hL.OK {
				bad = "the height cursor is not a simple counter: " + hL.Why + " (it must restart at fork point + 1 and advance by one per header)"
			} else if len(d.T) != 1 || d.K != 0 {
				bad = "heights sent are " + hL.String() + ", want " + start.String() + " + k"
			} else {
				for a, c := range d.T {
					if len(a) < 5 || a[:5] != "iter:" || c != 1 {
						bad = "heights do not ascend by one from fork point + 1: " + hL.String()
					}
				}
			}
		}
	}
	r.Check(bad == "", "STREAM-SHAPE", "sendBranchUpdate/range-start", pos, "h starts at Find(IntersectHash)+1 and ascends by 1", bad)

	// upper bound: loop continues while h <= branch.Height()
	bad = "no loop bound h <= branch.Height()"
	for _, c := range kit.CallsTo(f, H+".Branch.Height") {
		call := c.(*ssa.Call)
		if recvPtr(call.Call.Args[0]) != ssa.Value(branch) {
			continue
		}
		hv := lin.Of(call)
		gs := kit.FindGuards(f, func(cv ssa.Value) (bool, bool) { return cmpMatches(lin, cv, hv.Sub(hL), 0) })
		if len(gs) == 1 {
			if d, _ := kit.DominatedByEdges(f, send, []kit.Edge{gs[0].PassEdge()}, nil, p.Pos); d {
				bad = ""
			}
			// the exit returns nil
			reach := kit.Reach(f, []kit.Pt{kit.EdgeStart(gs[0].FailEdge())}, kit.Opts{})
			for _, ret := range kit.Returns(f) {
				if reach.Has(ret) && reach.ErrClass(ret) != kit.ErrNil {
					bad = "leaving the loop past the tip is reported as an error"
				}
			}
		}
	}
	r.Check(bad == "", "STREAM-SHAPE", "sendBranchUpdate/range-end", pos, "continues up to and including branch.Height()", bad)

	// nesting: the channel loop is inside the height loop; the height step is outside the channel loop
	bad = ""
	sendCycle := cycleOf(send.Block())
	var stepBlock *ssa.BasicBlock
	hArg := kit.Strip(at.Call.Args[1])
	if b, ok := hArg.(*ssa.BinOp); ok && b.Op == token.ADD { // `height++` at the top of the body
		if _, isC := kit.ConstInt(b.Y); isC {
			hArg = b.X
		}
	}
	if ph, ok := hArg.(*ssa.Phi); ok {
		for _, e := range ph.Edges {
			if b, ok := e.(*ssa.BinOp); ok && (b.X == ssa.Value(ph) || b.Y == ssa.Value(ph)) {
				stepBlock = b.Block()
			}
		}
		if !sendCycle[ph.Block()] {
			bad = "the send is not inside the height loop"
		}
	} else {
		bad = "height is not loop-carried"
	}
	if bad == "" {
		// innermost cycle of the send = the channel loop: the range-index phi block
		var chanHeader *ssa.BasicBlock
		if ia, ok := kit.Strip(send.Chan).(*ssa.UnOp); ok {
			if idx, ok := ia.X.(*ssa.IndexAddr); ok {
				if b, ok := idx.Index.(*ssa.BinOp); ok {
					if ph, ok := b.X.(*ssa.Phi); ok {
						chanHeader = ph.Block()
					}
				}
				if ph, ok := idx.Index.(*ssa.Phi); ok { // explicit index loop
					chanHeader = ph.Block()
				}
			}
		}
		if chanHeader == nil {
			bad = "channels are not visited by a range loop"
		} else {
			inner := cycleThrough(chanHeader, at.Block())
			if stepBlock != nil && inner[stepBlock] {
				bad = "the height advances inside the channel loop: later subscribers miss headers"
			}
			if inner[at.Block()] {
				bad = "the height loop is nested inside the channel loop"
			}
		}
	}
	r.Check(bad == "", "STREAM-SHAPE", "sendBranchUpdate/every-channel-every-header", posOf(p, send), "for each height, for each channel", bad)
}

// cycleOf returns the blocks that lie on a cycle through b (b's strongly connected neighbourhood).
func cycleOf(b *ssa.BasicBlock) map[*ssa.BasicBlock]bool {
	fwd, bwd := reachBlocks(b, false), reachBlocks(b, true)
	out := map[*ssa.BasicBlock]bool{}
	for x := range fwd {
		if bwd[x] {
			out[x] = true
		}
	}
	return out
}

// cycleThrough returns the blocks on cycles through header that do not pass through `without`
// (the natural loop of header when `without` is an outer block).
func cycleThrough(header, without *ssa.BasicBlock) map[*ssa.BasicBlock]bool {
	reach := func(back bool) map[*ssa.BasicBlock]bool {
		seen := map[*ssa.BasicBlock]bool{}
		var st []*ssa.BasicBlock
		nx := func(x *ssa.BasicBlock) []*ssa.BasicBlock {
			if back {
				return x.Preds
			}
			return x.Succs
		}
		st = append(st, nx(header)...)
		for len(st) > 0 {
			x := st[len(st)-1]
			st = st[:len(st)-1]
			if seen[x] || x == without {
				continue
			}
			seen[x] = true
			if x == header {
				continue
			}
			st = append(st, nx(x)...)
		}
		return seen
	}
	f, b := reach(false), reach(true)
	out := map[*ssa.BasicBlock]bool{}
	for x := range f {
		if b[x] {
			out[x] = true
		}
	}
	return out
}
