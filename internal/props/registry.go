// Package props holds one file per property: the rule instances (slots filled from this
// repository) and the kit rules that decide them.
package props

import (
	"sort"

	"verif/internal/kit"
	"verif/internal/load"
)

type CheckFunc func(p *load.Program, r *kit.Report)

var registry = map[string]CheckFunc{}

func register(id string, f CheckFunc) { registry[id] = f }

func Get(id string) CheckFunc { return registry[id] }

func IDs() []string {
	var out []string
	for k := range registry {
		out = append(out, k)
	}
	sort.Strings(out)
	return out
}
