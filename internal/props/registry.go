// Package props holds one file per property: the rule instances (slots filled from this
// repository) and the kit rules that decide them.
package props

import (
	"sort"

	"verif/internal/kit"
	"verif/internal/load"
)

type CheckFunc func(p *load.Program, r *kit.Report)

var registry = map[string]CheckFunc{}

// register installs a property's check; a check whose property owns fallible call sites (errdisp.go) is
// followed by the baseline rule over them.
func register(id string, f CheckFunc) {
	registry[id] = func(p *load.Program, r *kit.Report) {
		f(p, r)
		if ownsErrDisposition(id) {
			r.Rule("ERR-DISPOSITION", "every call whose error the reference tree returns from all of its call sites in a function (errdisp.json, frozen with anchors.json) still has its error returned there — on the current tree after renames were followed and new helpers expanded; sites = fallible calls in the static call trees of this property's entry points", 1)
			checkErrDisposition(p, r, "ERR-DISPOSITION")
		}
		if ownsErrTolerance(id) {
			r.Rule("ERR-TOLERANCE", "where the reference tree returns every error of a call except a named package-level sentinel, that sentinel is still tolerated there (or by every caller of the function) as long as the callee can produce it (errdisp.json)", 1)
			checkErrTolerance(p, r, "ERR-TOLERANCE")
			r.Rule("CAUSE-TRANSPARENT", "no fmt.Errorf in the owned call trees takes an error value: errors.Cause, which every sentinel test uses, sees through github.com/pkg/errors wrappers only", 1)
			checkCauseTransparent(p, r, "CAUSE-TRANSPARENT")
		}
		if ownsRetFields(id) {
			r.Rule("RETURN-FIELDS", "a small accessor method of this property's structs (reads its receiver, locks, no other calls) answers from the same receiver fields as in the reference tree (retfields.json)", 1)
			checkRetFields(p, r, "RETURN-FIELDS")
		}
		if ownsErrTolerance(id) {
			r.Rule("SHARED-ELEMENT", "no pointer appended inside a loop of the owned call trees is one object created before the loop and refilled in every iteration", 1)
			checkNoSharedElementInLoop(p, r, "SHARED-ELEMENT")
			r.Rule("SENTINEL-EXACT", "no test of a result whose `not found` value is -1 (Find, HashHeight, …; computed from the tree) puts the valid answer 0 on the `not found` side", 1)
			checkSentinelExact(p, r, "SENTINEL-EXACT")
			r.Rule("COPY-INTO-EMPTY", "no copy() in the owned call trees has a destination made with length 0", 1)
			checkCopyIntoEmpty(p, r, "COPY-INTO-EMPTY")
		}
		if ownsLockRelease(id) {
			r.Rule("LOCK-RELEASE", "no function returns with a mutex of this property's structs that it took itself still held, unless a deferred unlock covers that return", 1)
			checkLockRelease(p, r, "LOCK-RELEASE")
		}
		if ownsLockCover(id) {
			r.Rule("LOCK-COVER", "every access to a mutable field of this property's structs holds the locks the reference tree holds at every access of that field in that function (lockcover.json, frozen with anchors.json): reads in any mode, writes exclusively; objects under construction excepted", 1)
			checkLockCover(p, r, "LOCK-COVER")
		}
	}
}

func Get(id string) CheckFunc { return registry[id] }

func IDs() []string {
	var out []string
	for k := range registry {
		out = append(out, k)
	}
	sort.Strings(out)
	return out
}

// sibling runs (once per program) the check of another property and returns its report, so that
// rules which are necessary conditions of several properties can be imported (kit.Report.Import).
// While a sibling runs, its own imports are skipped.
var (
	siblingCache = map[*load.Program]map[string]*kit.Report{}
	siblingDepth int
)

func sibling(p *load.Program, id string) *kit.Report {
	if siblingDepth > 0 {
		return nil
	}
	if siblingCache[p] == nil {
		siblingCache[p] = map[string]*kit.Report{}
	}
	if r, ok := siblingCache[p][id]; ok {
		return r
	}
	siblingDepth++
	defer func() { siblingDepth-- }()
	sub := kit.NewReport(id, "quick", 0)
	func() {
		defer func() {
			if rec := recover(); rec != nil {
				sub.Unknown("analysis-failed", "panic", "-", "%v", rec)
			}
		}()
		registry[id](p, sub)
	}()
	siblingCache[p][id] = sub
	return sub
}

// importRules imports rules of a sibling property into r (no-op while running as a sibling).
func importRules(p *load.Program, r *kit.Report, from, why string, floor int, match func(*kit.Obligation) bool, rules ...string) {
	sub := sibling(p, from)
	if sub == nil {
		return
	}
	r.Import(sub, why, floor, match, rules...)
}
