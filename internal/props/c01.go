package props

import (
	"fmt"
	"go/token"
	"go/types"
	"strings"

	"golang.org/x/tools/go/ssa"

	"verif/internal/kit"
	"verif/internal/load"
)

func init() { register("C01", checkC01) }

const bigInt = "math/big.Int"

// writesTo lists the direct writes to field f in the given functions.
func writesTo(funcs []*ssa.Function, f *types.Var) []kit.Write {
	var out []kit.Write
	for _, fn := range funcs {
		for _, w := range kit.DirectWrites(fn) {
			if w.Field == f {
				out = append(out, w)
			}
		}
	}
	return out
}

func isCallTo(v ssa.Value, id string) *ssa.Call {
	c, ok := kit.Strip(v).(*ssa.Call)
	if ok && kit.CallID(c) == id {
		return c
	}
	return nil
}

func checkC01(p *load.Program, r *kit.Report) {
	importRules(p, r, "C17", "MarkHeaderInvalid removes the marked header's descendants and nothing else: a sibling fork that is removed with them leaves a heavier chain of still accepted headers unreported", 2, nil, "TRIM-SHAPE")
	importRules(p, r, "C11", "after a restart the reported chain is what Save managed to write: a write that failed but is reported as saved leaves the most-work branch out of the files, and the next Load comes up on a lighter chain", 3,
		func(o *kit.Obligation) bool {
			return strings.HasPrefix(o.Construct, "headers.Repository.save") || strings.HasPrefix(o.Construct, "headers.Repository.Save") || strings.HasPrefix(o.Construct, "headers.Branch.Save")
		}, "ERR-DISPOSITION")
	importRules(p, r, "C11", "the header reported for a pruned height is read from the files saveMainBranch wrote: their layout must be what the readers compute", 3, nil, "MAIN-FILE-SHAPE")
	importRules(p, r, "C17", "MarkHeaderInvalid removes branches: the tip must be re-selected from what is left on every path", 1,
		func(o *kit.Obligation) bool { return strings.Contains(o.Construct, "reselect-after-trim") }, "MUST-PASS")
	importRules(p, r, "C11", "Clean saves a side branch and prunes it from memory: what the repository reports for pruned heights afterwards is what Branch.Save wrote", 2,
		func(o *kit.Obligation) bool { return strings.HasPrefix(o.Construct, "Branch.Save") }, "MERGE-SHAPE")
	importRules(p, r, "C09", "Hash(h)/Header(h) must answer from the tip's in-memory ancestry before the header files, and only up to the tip: the files still hold the previous best chain until the next save", 6, nil, "TIP-BOUND")
	importRules(p, r, "C10", "Hash(h)/Header(h) fall back to the main header files for heights the tip's ancestry no longer holds in memory: prune must keep the fork point of every side branch (a deep old fork can still overtake), or those heights are answered from the abandoned chain's files", 1,
		func(o *kit.Obligation) bool { return strings.HasPrefix(o.Construct, "prune/") }, "COVER-ALL")
	r.NotDecided = "that the tree built by a particular history has the cumulative work a model assigns; arrival-order independence; the effect of Clean/Save/Load in between (C10/C11); numerical work values."
	r.Rule("ARGMAX", "Branches.Longest replaces the incumbent exactly on the edge where the candidate's Last().AccumulatedWork compares greater (or greater-or-equal) through (*big.Int).Cmp; the incumbent is kept otherwise", 1)
	r.Rule("WRITERS", "every store to Repository.longest takes its value from Branches.Longest(), from a root branch built by NewBranch(nil, …) or from Consolidate() of the previous longest", 7)
	r.Rule("MUST-PASS", "in ProcessHeader every path from a tree mutation to `return nil` re-selects the tip (Longest() compared with and stored into repo.longest) or extends the incumbent; once Longest() differs from repo.longest the store post-dominates (no return in between)", 3)
	r.Rule("WORK-FLOW", "AccumulatedWork of a new HeaderData = predecessor's AccumulatedWork + ConvertToWork(ConvertToDifficulty(header.Bits)), computed in a big.Int allocated in the function; stored work values are never the receiver of a mutating big.Int method", 3)
	r.Rule("GUARD-DOM", "every append to Branch.headers of a submitted header is behind last.Hash.Equal(&header.PrevBlock); AtHeight indexes headers[height-parentHeight-offset] and delegates to parent.AtHeight(height) exactly when height <= parentHeight", 3)
	r.Rule("PROVENANCE", "Height/LastHash/LastTime/AccumulatedWork/Hash/header read the tip through repo.longest", 6)

	r.Rule("ATOMIC-SWITCH", "no helper that ProcessHeader (or any other entry point) calls with the repository mutex held releases that mutex: selecting the most-work branch and storing it as the tip stay one critical section", 5)
	{
		reach := staticReach(p.Func(H, "Repository.ProcessHeader"), p.Func(H, "Repository.MarkHeaderInvalid"), p.Func(H, "Repository.Clean"), p.Func(H, "Repository.Load"), p.Func(H, "Repository.Save"))
		checkNoReleaseOfCallerLock(p, r, "ATOMIC-SWITCH", func(f *ssa.Function) bool { return reach[f] })
	}
	r.Rule("LINK-FIRST", "Branch.Link (load) attaches a branch to the first branch of the oldest-first list that knows its previous hash and stops there: Find answers through ancestors, so a later match is an older sibling, not the parent", 1)
	checkLinkFirst(p, r, "LINK-FIRST")

	funcs := pkgFuncs(p, H)
	longestF := field(p, r, "WRITERS", H, "Repository", "longest")
	branchesF := field(p, r, "WRITERS", H, "Repository", "branches")
	workF := field(p, r, "WORK-FLOW", H, "HeaderData", "AccumulatedWork")
	headersF := field(p, r, "GUARD-DOM", H, "Branch", "headers")
	if longestF == nil || branchesF == nil || workF == nil || headersF == nil {
		return
	}

	checkLongestArgmax(p, r, workF)

	// WRITERS on Repository.longest
	k := newKeyer()
	for _, w := range writesTo(funcs, longestF) {
		fnName := kit.ShortID(kit.FuncID(w.Instr.Parent()))
		key := k.key(fnName + "/store:longest")
		r.Fn(fnName)
		ok, why := longestProvenance(w.Val, longestF, 0)
		r.Check(ok, "WRITERS", key, posOf(p, w.Instr), "value is "+why, "tip set from "+why+": not the arg-max of accumulated work over the accepted branches")
	}

	checkReselect(p, r, longestF, branchesF)
	checkWorkFlow(p, r, funcs, workF)
	checkLinkGuards(p, r, headersF)
	checkAtHeight(p, r, headersF)
	checkTipReaders(p, r, longestF)
}

// longestProvenance decides whether v is an allowed source for Repository.longest.
func longestProvenance(v ssa.Value, longestF *types.Var, depth int) (bool, string) {
	if depth > 6 {
		return false, "deep value"
	}
	v = kit.Strip(v)
	if c := isCallTo(v, H+".Branches.Longest"); c != nil {
		return true, "Branches.Longest()"
	}
	if e, ok := v.(*ssa.Extract); ok && e.Index == 0 {
		if c, ok := e.Tuple.(*ssa.Call); ok {
			switch kit.CallID(c) {
			case H + ".NewBranch":
				if kit.IsNilConst(c.Call.Args[0]) {
					return true, "NewBranch(nil, …) root branch"
				}
				return false, "NewBranch with a parent"
			case H + ".Branch.Consolidate":
				if recvIsField(c.Call.Args[0], longestF) {
					return true, "repo.longest.Consolidate(…)"
				}
				return false, "Consolidate of a branch other than repo.longest"
			}
		}
	}
	if ph, ok := v.(*ssa.Phi); ok {
		for _, e := range ph.Edges {
			if kit.IsNilConst(e) {
				continue
			}
			if ok, why := longestProvenance(e, longestF, depth+1); !ok {
				return false, why
			}
		}
		return true, "phi of allowed sources"
	}
	// a load of a local (e.g. `branch` in migrate): follow its stores
	if u, ok := v.(*ssa.UnOp); ok && u.Op == token.MUL {
		if a, ok := u.X.(*ssa.Alloc); ok {
			n := 0
			for _, ref := range *a.Referrers() {
				if st, ok := ref.(*ssa.Store); ok && st.Addr == ssa.Value(a) {
					if kit.IsNilConst(st.Val) {
						continue
					}
					n++
					if ok, why := longestProvenance(st.Val, longestF, depth+1); !ok {
						return false, why
					}
				}
			}
			if n > 0 {
				return true, "local holding allowed sources"
			}
		}
		if loadOfField(v, longestF) {
			return true, "repo.longest itself"
		}
	}
	return false, describe(v)
}

func describe(v ssa.Value) string {
	switch x := v.(type) {
	case *ssa.Call:
		return "call " + kit.ShortID(kit.CallID(x))
	case *ssa.UnOp:
		if f, _ := kit.LoadedField(x); f != nil {
			return "load of field " + f.Name()
		}
		if ia, ok := x.X.(*ssa.IndexAddr); ok {
			if f, _ := kit.LoadedField(ia.X); f != nil {
				return "element of " + f.Name()
			}
			return "element of " + ia.X.Name()
		}
	case *ssa.Extract:
		if c, ok := x.Tuple.(*ssa.Call); ok {
			return "result of " + kit.ShortID(kit.CallID(c))
		}
	case *ssa.Parameter:
		return "parameter " + x.Name()
	}
	return v.Name() + " (" + strings.TrimPrefix(v.Type().String(), H+".") + ")"
}

func checkLongestArgmax(p *load.Program, r *kit.Report, workF *types.Var) {
	f := fn(p, r, "ARGMAX", H, "Branches.Longest")
	if f == nil {
		return
	}
	cmps := kit.CallsTo(f, bigInt+".Cmp")
	viaIsLonger := false
	if len(cmps) == 0 {
		// the comparison may be delegated to Branch.IsLonger (checked on its own below)
		if ils := kit.CallsTo(f, H+".Branch.IsLonger"); len(ils) == 1 {
			cmps = ils
			viaIsLonger = true
			checkIsLonger(p, r, workF)
		}
	}
	if len(cmps) != 1 {
		r.Unknown("ARGMAX", "Branches.Longest/cmp", "-", "expected one (*big.Int).Cmp call, found %d", len(cmps))
		return
	}
	cmp := cmps[0].(*ssa.Call)
	// result phi: the *Branch phi in a loop header that is returned
	var resPhi *ssa.Phi
	for _, ret := range kit.Returns(f) {
		if ph, ok := kit.RetOperand(ret, 0).(*ssa.Phi); ok {
			resPhi = ph
		}
	}
	if resPhi == nil {
		r.Unknown("ARGMAX", "Branches.Longest/result", "-", "returned value is not a loop-carried selection")
		return
	}
	isElem := func(v ssa.Value) bool { // the current range element bs[i]
		u, ok := v.(*ssa.UnOp)
		if !ok || u.Op != token.MUL {
			return false
		}
		_, ok = u.X.(*ssa.IndexAddr)
		return ok
	}
	// candidate operand: derives from the element's Last(); incumbent: from a phi
	fromElem := func(v ssa.Value) bool {
		return kit.DependsOnNoPhi(v, func(x ssa.Value) bool { return isElem(x) }) && loadOfField(v, workF)
	}
	// the phi an incumbent operand is read from: the *HeaderData (or *big.Int) carried next to the
	// selection
	var companion *ssa.Phi
	fromPhi := func(v ssa.Value) bool {
		if kit.DependsOnNoPhi(v, func(x ssa.Value) bool { return isElem(x) }) {
			return false
		}
		var found *ssa.Phi
		kit.DependsOnNoPhi(v, func(x ssa.Value) bool {
			if ph, ok := x.(*ssa.Phi); ok && found == nil {
				found = ph
			}
			return false
		})
		if ph, ok := kit.Strip(v).(*ssa.Phi); ok {
			found = ph
		}
		if found == nil {
			return false
		}
		if !loadOfField(v, workF) && !strings.HasSuffix(found.Type().String(), "big.Int") {
			return false
		}
		companion = found
		return true
	}
	recv, arg := cmp.Call.Args[0], cmp.Call.Args[1]
	var candIsRecv bool
	isSel := func(v ssa.Value) bool { _, ok := kit.Strip(v).(*ssa.Phi); return ok }
	switch {
	case viaIsLonger && isElem(kit.Strip(recvPtr(recv))) && isSel(arg):
		candIsRecv = true
	case viaIsLonger && isSel(recvPtr(recv)) && isElem(kit.Strip(arg)):
		candIsRecv = false
	case viaIsLonger:
		r.Bad("ARGMAX", "Branches.Longest/cmp", posOf(p, cmp), "IsLonger does not compare the candidate with the incumbent (operands: %s, %s)", describe(recv), describe(arg))
		return
	case fromElem(recv) && fromPhi(arg):
		candIsRecv = true
	case fromPhi(recv) && fromElem(arg):
		candIsRecv = false
	default:
		r.Bad("ARGMAX", "Branches.Longest/cmp", posOf(p, cmp), "Cmp does not compare the candidate's Last().AccumulatedWork with the incumbent's (operands: %s, %s)", describe(recv), describe(arg))
		return
	}
	gs := kit.FindGuards(f, func(c ssa.Value) (bool, bool) {
		if viaIsLonger {
			// cand.IsLonger(inc): replace when true; inc.IsLonger(cand): replace when false (≥)
			return c == ssa.Value(cmp), candIsRecv
		}
		b, ok := c.(*ssa.BinOp)
		if !ok || b.X != ssa.Value(cmp) {
			return false, false
		}
		if z, ok := kit.ConstInt(b.Y); !ok || z != 0 {
			return false, false
		}
		// "replace" fact holds when...
		op := b.Op
		if !candIsRecv { // mirror
			switch op {
			case token.LSS:
				op = token.GTR
			case token.LEQ:
				op = token.GEQ
			case token.GTR:
				op = token.LSS
			case token.GEQ:
				op = token.LEQ
			}
		}
		switch op {
		case token.GTR, token.GEQ: // cand > inc : replace when true
			return true, true
		case token.LEQ, token.LSS: // cand <= inc : replace when false
			return true, false
		}
		return true, true // == / != : wrong, detected below through opOK
	})
	if len(gs) != 1 {
		r.Unknown("ARGMAX", "Branches.Longest/cmp", posOf(p, cmp), "Cmp result is not compared with 0 in exactly one branch")
		return
	}
	b := gs[0].If.Cond
	for {
		if u, ok := b.(*ssa.UnOp); ok && u.Op == token.NOT {
			b = u.X
			continue
		}
		break
	}
	if !viaIsLonger {
		op := b.(*ssa.BinOp).Op
		if op == token.EQL || op == token.NEQ {
			r.Bad("ARGMAX", "Branches.Longest/cmp", posOf(p, cmp), "work comparison uses %s: not an ordering", op)
			return
		}
	}
	// polarity under mirror: replacing on "cand < inc" is the inverted selection
	replace := gs[0].PassEdge()
	// every phi edge that installs the element must come from a block dominated by the replace
	// edge or by the `result == nil` edge; at least one must come through the replace edge.
	nilGs := kit.FindGuards(f, func(c ssa.Value) (bool, bool) {
		bo, ok := c.(*ssa.BinOp)
		if !ok || (bo.Op != token.EQL && bo.Op != token.NEQ) {
			return false, false
		}
		if bo.X == ssa.Value(resPhi) && kit.IsNilConst(bo.Y) {
			return true, bo.Op == token.EQL
		}
		return false, false
	})
	// the selection is a web of phis (loop header, and the join after the conditional replace):
	// collect every edge on which a non-phi value enters it
	type install struct {
		v    ssa.Value
		last ssa.Instruction
		pred *ssa.BasicBlock
	}
	var installs []install
	web := map[*ssa.Phi]bool{}
	var walk func(ph *ssa.Phi)
	walk = func(ph *ssa.Phi) {
		if web[ph] {
			return
		}
		web[ph] = true
		for i, e := range ph.Edges {
			if ip, isPhi := e.(*ssa.Phi); isPhi {
				walk(ip)
				continue
			}
			pred := ph.Block().Preds[i]
			installs = append(installs, install{e, pred.Instrs[len(pred.Instrs)-1], pred})
		}
	}
	walk(resPhi)
	// blocks of the loop: those that can reach the comparison and be reached from it
	fromCmp := kit.Reach(f, kit.After(cmp), kit.Opts{})
	inLoop := func(b *ssa.BasicBlock) bool {
		if len(b.Instrs) == 0 || !fromCmp.Has(b.Instrs[0]) {
			return false
		}
		return kit.Reach(f, []kit.Pt{{B: b, I: 0}}, kit.Opts{}).Has(cmp)
	}
	viaReplace := 0
	seeded := false
	ok := true
	why := ""
	for _, in := range installs {
		switch {
		case isElem(in.v):
			dRep, _ := kit.DominatedByEdges(f, in.last, []kit.Edge{replace}, nil, p.Pos)
			dNil, _ := kit.DominatedByEdges(f, in.last, edgesOf(nilGs, true), nil, p.Pos)
			// `result == nil || cand > inc`: one install block behind either edge
			dEither, _ := kit.DominatedByEdges(f, in.last, append([]kit.Edge{replace}, edgesOf(nilGs, true)...), nil, p.Pos)
			fromRep := inLoop(in.pred) && kit.Reach(f, []kit.Pt{kit.EdgeStart(replace)}, kit.Opts{StopAt: kit.InstrSet(resPhi.Block().Instrs[0])}).Has(in.last)
			switch {
			case dRep:
				viaReplace++
			case dNil:
				// (the first element always takes the nil edge; later ones may come through the
				// greater-work edge into the same install block)
				if fromRep {
					viaReplace++
				}
			case dEither && inLoop(in.pred):
				if fromRep {
					viaReplace++
				}
			case !inLoop(in.pred):
				// the selection starts as an element before the loop: must be the first one
				ia := in.v.(*ssa.UnOp).X.(*ssa.IndexAddr)
				if k, isC := kit.ConstInt(ia.Index); !isC || k != 0 {
					ok, why = false, "the selection is seeded with an element other than the first"
				}
				seeded = true
			default:
				ok, why = false, "the selection is replaced on a path that passes neither the first-element test nor the greater-work edge"
			}
		case kit.IsNilConst(in.v):
		default:
			ok, why = false, "selection takes a value that is neither the candidate nor the incumbent: "+describe(in.v)
		}
	}
	if viaReplace == 0 {
		ok, why = false, "no path installs the candidate on the greater-work edge (comparison polarity inverted or result unused)"
	}
	// unchanged incumbent on the other edge: the fail edge must not lead to an element install
	keep := gs[0].FailEdge()
	for _, in := range installs {
		if isElem(in.v) && inLoop(in.pred) {
			if d, _ := kit.DominatedByEdges(f, in.last, []kit.Edge{keep}, nil, p.Pos); d {
				ok, why = false, "the candidate is installed on the not-greater edge"
			}
		}
	}
	// the work compared against is the work of the current selection: wherever an element becomes
	// the selection, the value carried next to it is derived from the same element
	if ok && companion != nil {
		type cinst struct {
			v    ssa.Value
			pred *ssa.BasicBlock
			blk  *ssa.BasicBlock
		}
		var cins []cinst
		cweb := map[*ssa.Phi]bool{}
		var cwalk func(ph *ssa.Phi)
		cwalk = func(ph *ssa.Phi) {
			if cweb[ph] {
				return
			}
			cweb[ph] = true
			for i, e := range ph.Edges {
				if ip, isPhi := e.(*ssa.Phi); isPhi {
					cwalk(ip)
					continue
				}
				cins = append(cins, cinst{e, ph.Block().Preds[i], ph.Block()})
			}
		}
		cwalk(companion)
		elemAddr := func(v ssa.Value) *ssa.IndexAddr {
			var ia *ssa.IndexAddr
			kit.DependsOnNoPhi(v, func(x ssa.Value) bool {
				if isElem(x) && ia == nil {
					ia = x.(*ssa.UnOp).X.(*ssa.IndexAddr)
				}
				return false
			})
			return ia
		}
		for _, in := range installs {
			if !isElem(in.v) {
				continue
			}
			want := in.v.(*ssa.UnOp).X.(*ssa.IndexAddr)
			matched := false
			for _, c := range cins {
				if c.pred != in.pred {
					continue
				}
				if got := elemAddr(c.v); got != nil && kit.Strip(got.X) == kit.Strip(want.X) && sameIndex(got.Index, want.Index) {
					matched = true
				}
			}
			if !matched {
				ok, why = false, "the work the candidates are compared with is not updated together with the selection (it can belong to another branch)"
			}
		}
	}
	// no candidate is passed over without its work having been compared: from the start of an
	// iteration the next one is reached only through the comparison or the first-element seed
	if ok {
		if header, body := loopBodyEntry(f, cmp); header != nil && body != nil {
			nilSeed := map[kit.Edge]bool{}
			for _, e := range edgesOf(nilGs, true) {
				nilSeed[e] = true
			}
			rr := kit.Reach(f, []kit.Pt{{B: body, I: 0}}, kit.Opts{StopAt: kit.InstrSet(cmp), BlockEdge: func(e kit.Edge) bool { return nilSeed[e] }})
			if rr.Has(header.Instrs[0]) {
				ok, why = false, "a candidate can be passed over without its accumulated work being compared with the incumbent's ("+rr.PathTo(header.Instrs[0], p.Pos)+"): a branch with fewer headers but more work never becomes the tip"
			}
		}
	}
	// the candidates are all elements: bs[i] for i from 0 (1 when seeded with bs[0]) in steps of 1
	// while i < len(bs)
	if ok {
		if w := candidateCoverage(f, cmp, seeded); w != "" {
			ok, why = false, w
		}
	}
	r.Check(ok, "ARGMAX", "Branches.Longest/cmp", posOf(p, cmp),
		"candidate replaces the incumbent exactly on the greater(-or-equal)-work edge of Cmp", why)
}

// sameIndex: two index operands denote the same value (same SSA value or equal constants).
func sameIndex(a, b ssa.Value) bool {
	a, b = kit.Strip(a), kit.Strip(b)
	if a == b {
		return true
	}
	ka, oka := kit.ConstInt(a)
	kb, okb := kit.ConstInt(b)
	return oka && okb && ka == kb
}

// candidateCoverage checks the index of the candidate element compared by cmp.
func candidateCoverage(f *ssa.Function, cmp *ssa.Call, seeded bool) string {
	var ia *ssa.IndexAddr
	for _, a := range cmp.Call.Args {
		kit.DependsOnNoPhi(a, func(x ssa.Value) bool {
			if u, ok := x.(*ssa.UnOp); ok && u.Op == token.MUL {
				if i, ok := u.X.(*ssa.IndexAddr); ok {
					if _, isC := kit.ConstInt(i.Index); !isC {
						ia = i
					}
				}
			}
			return false
		})
	}
	if ia == nil {
		return "the candidate is not an indexed element of the list"
	}
	if len(f.Params) == 0 {
		return "no list parameter"
	}
	base := kit.Strip(ia.X)
	low := int64(0)
	if sl, isSl := base.(*ssa.Slice); isSl && kit.Strip(sl.X) == ssa.Value(f.Params[0]) && sl.High == nil && sl.Max == nil {
		// bs[L:] with the first L elements handled before the loop
		if sl.Low != nil {
			l, isC := kit.ConstInt(sl.Low)
			if !isC {
				return "the candidates are taken from a part of the list with a computed start"
			}
			low = l
		}
	} else if base != ssa.Value(f.Params[0]) {
		return "the candidates are taken from " + describe(base) + ", not from the whole list"
	}
	idx := kit.Strip(ia.Index)
	var ph *ssa.Phi
	k := int64(0)
	switch x := idx.(type) {
	case *ssa.Phi:
		ph = x
	case *ssa.BinOp:
		if c, isC := kit.ConstInt(x.Y); isC && x.Op == token.ADD {
			ph, _ = x.X.(*ssa.Phi)
			k = c
		}
	}
	if ph == nil {
		return "the candidate index is not a simple loop counter"
	}
	var init, step ssa.Value
	for _, e := range ph.Edges {
		if _, isC := kit.ConstInt(e); isC {
			if init != nil {
				return "the candidate index is reset inside the loop"
			}
			init = e
		} else {
			if step != nil && step != e {
				return "the candidate index is not a simple loop counter"
			}
			step = e
		}
	}
	if init == nil || step == nil {
		return "the candidate index is not a simple loop counter"
	}
	c0, _ := kit.ConstInt(init)
	sb, isB := step.(*ssa.BinOp)
	if !isB || sb.Op != token.ADD || sb.X != ssa.Value(ph) {
		return "the candidate index does not advance by one"
	}
	if c, isC := kit.ConstInt(sb.Y); !isC || c != 1 {
		return "the candidate index does not advance by one"
	}
	first := low + c0 + k
	limit := int64(0)
	if seeded {
		limit = 1
	}
	if first < 0 || first > limit {
		return fmt.Sprintf("the first candidate is element %d: earlier branches are never considered", first)
	}
	// the loop continues while idx < len(bs)
	gs := kit.FindGuards(f, func(c ssa.Value) (bool, bool) {
		b, ok := c.(*ssa.BinOp)
		if !ok {
			return false, false
		}
		isLen := func(v ssa.Value) bool {
			call, ok := v.(*ssa.Call)
			return ok && kit.CallID(call) == "builtin.len" && kit.Strip(call.Call.Args[0]) == base
		}
		switch {
		case b.Op == token.LSS && kit.Strip(b.X) == idx && isLen(b.Y):
			return true, true
		case b.Op == token.GTR && kit.Strip(b.Y) == idx && isLen(b.X):
			return true, true
		case b.Op == token.GEQ && kit.Strip(b.X) == idx && isLen(b.Y):
			return true, false
		case b.Op == token.LEQ && kit.Strip(b.Y) == idx && isLen(b.X):
			return true, false
		}
		return false, false
	})
	if len(gs) != 1 {
		return "the loop is not bounded by index < len(list): trailing branches may be skipped"
	}
	return ""
}

func checkReselect(p *load.Program, r *kit.Report, longestF, branchesF *types.Var) {
	ph := fn(p, r, "MUST-PASS", H, "Repository.ProcessHeader")
	if ph == nil {
		return
	}
	g := resolvePH(p, r, "MUST-PASS", ph)
	if g == nil {
		return
	}
	// mutations of the tree
	type mut struct {
		in    ssa.Instruction
		start []kit.Pt
		name  string
		isAdd bool
	}
	var muts []mut
	for _, w := range kit.DirectWrites(ph) {
		if w.Field == branchesF && w.Kind == "store" {
			muts = append(muts, mut{w.Instr, kit.After(w.Instr), "append(repo.branches)", false})
		}
	}
	for _, c := range kit.CallsTo(ph, H+".Branch.Add") {
		call := c.(*ssa.Call)
		edges := boolEdges(call, true)
		var st []kit.Pt
		for _, e := range edges {
			st = append(st, kit.EdgeStart(e))
		}
		if len(st) == 0 {
			st = kit.After(call)
		}
		muts = append(muts, mut{call, st, "previousBranch.Add", true})
	}
	if len(muts) < 2 {
		r.Unknown("MUST-PASS", "ProcessHeader/mutations", "-", "expected the new-branch append and the Add call, found %d mutation sites", len(muts))
		return
	}
	longestCalls := kit.CallsTo(ph, H+".Branches.Longest")
	stop := map[ssa.Instruction]bool{}
	for _, c := range longestCalls {
		if call, ok := c.(*ssa.Call); ok && recvIsField(call.Call.Args[0], branchesF) {
			stop[c] = true
		}
	}
	// incumbent-extended bypass: previousBranch == repo.longest (equal edge)
	incumbent := kit.FindGuards(ph, func(c ssa.Value) (bool, bool) {
		b, ok := c.(*ssa.BinOp)
		if !ok || (b.Op != token.EQL && b.Op != token.NEQ) {
			return false, false
		}
		x, y := b.X, b.Y
		if loadOfField(x, longestF) {
			x, y = y, x
		}
		if !loadOfField(y, longestF) || callOf(x, 0) != g.findPrev {
			return false, false
		}
		return true, b.Op == token.EQL
	})
	k := newKeyer()
	for _, m := range muts {
		key := k.key("ProcessHeader/reselect-after:" + m.name)
		var bypass []kit.Edge
		if m.isAdd {
			bypass = edgesOf(incumbent, true)
		}
		reach := kit.Reach(ph, m.start, kit.Opts{StopAt: func(in ssa.Instruction) bool { return stop[in] }, BlockEdge: kit.EdgeSet(bypass...)})
		bad := ""
		for _, ret := range kit.Returns(ph) {
			if reach.Has(ret) && reach.ErrClass(ret) != kit.ErrNonNil {
				bad = "accepting return at " + posOf(p, ret) + " reachable without re-selecting the tip: " + reach.PathTo(ret, p.Pos)
			}
		}
		r.Check(bad == "", "MUST-PASS", key, posOf(p, m.in), "every accepting path calls repo.branches.Longest() (or extends the incumbent tip)", bad)
	}
	// each Longest() call: compared with repo.longest; on the differ edge the store post-dominates
	for c := range stop {
		call := c.(*ssa.Call)
		key := k.key("ProcessHeader/tip-switch")
		differ := kit.FindGuards(ph, func(cv ssa.Value) (bool, bool) {
			b, ok := cv.(*ssa.BinOp)
			if !ok || (b.Op != token.EQL && b.Op != token.NEQ) {
				return false, false
			}
			x, y := b.X, b.Y
			if x != ssa.Value(call) {
				x, y = y, x
			}
			if x != ssa.Value(call) || !loadOfField(y, longestF) {
				return false, false
			}
			return true, b.Op == token.NEQ
		})
		if len(differ) != 1 {
			r.Bad("MUST-PASS", key, posOf(p, call), "Longest() result is not compared with repo.longest")
			continue
		}
		var store ssa.Instruction
		for _, w := range kit.DirectWrites(ph) {
			if w.Field == longestF && w.Val == ssa.Value(call) {
				store = w.Instr
			}
		}
		if store == nil {
			r.Bad("MUST-PASS", key, posOf(p, call), "Longest() result is never stored into repo.longest")
			continue
		}
		// no path from Longest() to the comparison may return; from differ edge every path to a return passes the store
		reach := kit.Reach(ph, []kit.Pt{kit.EdgeStart(differ[0].PassEdge())}, kit.Opts{StopAt: kit.InstrSet(store)})
		bad := ""
		for _, ret := range kit.Returns(ph) {
			if reach.Has(ret) {
				bad = "the tip switch can be abandoned: " + retLabel(ret) + " at " + posOf(p, ret) + " reachable after Longest() differed and before repo.longest is stored"
			}
		}
		pre := kit.Reach(ph, kit.After(call), kit.Opts{StopAt: kit.InstrSet(differ[0].If)})
		for _, ret := range kit.Returns(ph) {
			if pre.Has(ret) {
				bad = "return between Longest() and its comparison with repo.longest"
			}
		}
		r.Check(bad == "", "MUST-PASS", key, posOf(p, store), "after Longest() != repo.longest the store repo.longest = longest is on every path to a return", bad)
	}
}

// boolEdges returns the edges taken when call (a bool result tested directly by an If) is val.
func boolEdges(call *ssa.Call, val bool) []kit.Edge {
	var out []kit.Edge
	for _, ref := range *call.Referrers() {
		if ifi, ok := ref.(*ssa.If); ok && ifi.Cond == ssa.Value(call) {
			s := 0
			if !val {
				s = 1
			}
			out = append(out, kit.Edge{From: ifi.Block(), Succ: s})
		}
		if u, ok := ref.(*ssa.UnOp); ok && u.Op == token.NOT {
			for _, r2 := range *u.Referrers() {
				if ifi, ok := r2.(*ssa.If); ok {
					s := 1
					if !val {
						s = 0
					}
					out = append(out, kit.Edge{From: ifi.Block(), Succ: s})
				}
			}
		}
	}
	return out
}

var bigMutating = map[string]bool{"Add": true, "Sub": true, "Mul": true, "Div": true, "Set": true, "SetBytes": true,
	"SetInt64": true, "SetUint64": true, "Xor": true, "Or": true, "And": true, "Neg": true, "Lsh": true, "Rsh": true,
	"Mod": true, "Quo": true, "Rem": true, "Exp": true, "SetString": true, "SetBit": true, "Not": true, "Abs": true,
	"DivMod": true, "QuoRem": true, "Sqrt": true, "AndNot": true, "SetBits": true, "ModInverse": true, "GCD": true}

func checkWorkFlow(p *load.Program, r *kit.Report, funcs []*ssa.Function, workF *types.Var) {
	// (a) immutability of stored work: receivers of mutating big.Int methods are fresh
	k := newKeyer()
	n := 0
	for _, f := range funcs {
		kit.AllInstrs(f, func(in ssa.Instruction) {
			c, ok := in.(ssa.CallInstruction)
			if !ok {
				return
			}
			id := kit.CallID(c)
			if !strings.HasPrefix(id, bigInt+".") || !bigMutating[strings.TrimPrefix(id, bigInt+".")] {
				return
			}
			n++
			recv := c.Common().Args[0]
			fresh := false
			switch x := kit.Strip(recv).(type) {
			case *ssa.Alloc:
				fresh = true
			case *ssa.Call:
				cid := kit.CallID(x)
				fresh = strings.HasPrefix(cid, load.BitcoinPkg+".ConvertTo") || cid == "math/big.NewInt" || strings.HasPrefix(cid, bigInt+".")
				if strings.HasPrefix(cid, bigInt+".") {
					// chained: result of a big.Int method is its receiver
					fresh = false
					if a, ok := kit.Strip(x.Call.Args[0]).(*ssa.Alloc); ok && a != nil {
						fresh = true
					}
				}
			}
			key := k.key(kit.ShortID(kit.FuncID(f)) + "/bigint-" + strings.TrimPrefix(id, bigInt+"."))
			if fresh {
				r.OK("WORK-FLOW", key, posOf(p, in), "receiver is allocated in this function")
			} else {
				r.Bad("WORK-FLOW", key, posOf(p, in), "mutating big.Int method on %s: this changes a work value that may be shared with a stored header (accumulated work of accepted headers must never change)", describe(kit.Strip(recv)))
			}
		})
	}
	if n == 0 {
		r.Unknown("WORK-FLOW", "bigint-receivers", "-", "no big.Int arithmetic found in the headers package")
	}
	// (b) dataflow of the two producers
	bitsF := p.Field(load.WirePkg, "BlockHeader", "Bits")
	for _, name := range []string{"NewBranch", "Branch.Add"} {
		f := fn(p, r, "WORK-FLOW", H, name)
		if f == nil {
			continue
		}
		var stored []ssa.Value
		for _, w := range kit.DirectWrites(f) {
			if w.Field == workF && w.Kind == "store" {
				stored = append(stored, w.Val)
			}
		}
		if len(stored) != 1 {
			r.Unknown("WORK-FLOW", name+"/accumulate", "-", "expected one store of AccumulatedWork into the new HeaderData, found %d", len(stored))
			continue
		}
		// the bits are those of the submitted header (a parameter), not of its predecessor
		ownBits := func(v ssa.Value) bool {
			lf, base := kit.LoadedField(v)
			if lf == nil || lf != bitsF {
				return false
			}
			_, isParam := kit.Strip(base).(*ssa.Parameter)
			return isParam
		}
		// the stored work is decided per alternative: a merge of the root case (no predecessor: the
		// header's own work, reached only with parent == nil) and the linked case is the same sum
		evalAlt := func(v ssa.Value, rootOnly bool) string {
			if rootOnly {
				if cw := isCallTo(v, load.BitcoinPkg+".ConvertToWork"); cw != nil {
					if cd := isCallTo(cw.Call.Args[0], load.BitcoinPkg+".ConvertToDifficulty"); cd != nil && ownBits(cd.Call.Args[0]) {
						return ""
					}
				}
			}
			a, isAlloc := bigArg(v).(*ssa.Alloc)
			why := ""
			if !isAlloc {
				why = "stored work is not a big.Int allocated in this function (" + describe(v) + ")"
			} else {
				sawPred, sawOwn, other := false, false, ""
				for _, ref := range *a.Referrers() {
					c, ok := ref.(*ssa.Call)
					if !ok || len(c.Call.Args) == 0 || c.Call.Args[0] != ssa.Value(a) {
						continue
					}
					m := strings.TrimPrefix(kit.CallID(c), bigInt+".")
					if !bigMutating[m] {
						continue
					}
					if m != "Add" && m != "Set" {
						other = "work is modified with big.Int." + m
					}
					for _, op := range c.Call.Args[1:] {
						if loadOfField(op, workF) {
							sawPred = true
						} else if ph, isPhi := kit.Strip(op).(*ssa.Phi); isPhi {
							// the predecessor's work, or a fresh zero when there is no predecessor
							loads, okAll := 0, true
							for _, e := range ph.Edges {
								switch {
								case loadOfField(e, workF):
									loads++
								default:
									if al, isAlloc := kit.Strip(e).(*ssa.Alloc); isAlloc {
										for _, ref := range *al.Referrers() {
											if c, isCall := ref.(*ssa.Call); isCall && len(c.Call.Args) > 0 && c.Call.Args[0] == ssa.Value(al) &&
												bigMutating[strings.TrimPrefix(kit.CallID(c), bigInt+".")] {
												okAll = false
											}
										}
									} else {
										okAll = false
									}
								}
							}
							if okAll && loads > 0 {
								sawPred = true
							}
						}
						if cw := isCallTo(op, load.BitcoinPkg+".ConvertToWork"); cw != nil && m == "Add" {
							if cd := isCallTo(cw.Call.Args[0], load.BitcoinPkg+".ConvertToDifficulty"); cd != nil && ownBits(cd.Call.Args[0]) {
								sawOwn = true
							}
						}
					}
				}
				switch {
				case other != "":
					why = other
				case !sawPred:
					why = "the predecessor's AccumulatedWork does not flow into the new header's work"
				case !sawOwn:
					why = "ConvertToWork(ConvertToDifficulty(header.Bits)) is not added to the new header's work"
				}
			}
			return why
		}
		v := stored[0]
		why := ""
		if ph, isPhi := kit.Strip(v).(*ssa.Phi); isPhi && name == "NewBranch" && len(f.Params) > 0 {
			for i, e := range ph.Edges {
				pred := ph.Block().Preds[i]
				root := false
				parent := f.Params[0]
				ng := kit.FindGuards(f, func(c ssa.Value) (bool, bool) {
					b, ok := c.(*ssa.BinOp)
					if !ok || (b.Op != token.EQL && b.Op != token.NEQ) || b.X != ssa.Value(parent) || !kit.IsNilConst(b.Y) {
						return false, false
					}
					return true, b.Op == token.EQL
				})
				if len(ng) > 0 && len(pred.Instrs) > 0 {
					root, _ = kit.DominatedByEdges(f, pred.Instrs[len(pred.Instrs)-1], edgesOf(ng, true), nil, p.Pos)
				}
				if w := evalAlt(e, root); w != "" {
					why = w
				}
			}
		} else {
			why = evalAlt(v, false)
		}
		r.Check(why == "", "WORK-FLOW", name+"/accumulate", posOf(p, f.Blocks[0].Instrs[0]), "work = predecessor work + work(header.Bits)", why)
	}
}

func checkLinkGuards(p *load.Program, r *kit.Report, headersF *types.Var) {
	prevBlock := p.Field(load.WirePkg, "BlockHeader", "PrevBlock")
	equalOnPrev := func(f *ssa.Function, lastFrom string) []kit.Guard {
		return kit.FindGuards(f, kit.CallCond(func(c *ssa.Call) bool {
			a := c.Call.Args
			if len(a) != 2 {
				return false
			}
			isPrev := func(v ssa.Value) bool { fld, _ := kit.FieldOfAddr(v); return fld == prevBlock }
			isLast := func(v ssa.Value) bool {
				return kit.DependsOn(v, func(x ssa.Value) bool {
					cc, ok := x.(*ssa.Call)
					return ok && kit.CallID(cc) == lastFrom
				})
			}
			return (isPrev(a[1]) && isLast(a[0])) || (isPrev(a[0]) && isLast(a[1]))
		}, load.BitcoinPkg+".Hash32.Equal"))
	}
	if f := fn(p, r, "GUARD-DOM", H, "Branch.Add"); f != nil {
		gs := equalOnPrev(f, H+".Branch.Last")
		n := 0
		for _, w := range kit.DirectWrites(f) {
			if w.Field == headersF {
				n++
				ok, path := kit.DominatedByEdges(f, w.Instr, edgesOf(gs, true), nil, p.Pos)
				r.Check(ok, "GUARD-DOM", "Branch.Add/append-behind-link", posOf(p, w.Instr),
					"append is dominated by Last().Hash.Equal(&header.PrevBlock)", "header appended without the previous-hash link test: "+path)
			}
		}
		if n == 0 {
			r.Unknown("GUARD-DOM", "Branch.Add/append-behind-link", "-", "no write to headers in Add")
		}
	}
	if f := fn(p, r, "GUARD-DOM", H, "NewBranch"); f != nil {
		gs := equalOnPrev(f, H+".Branch.AtHeight")
		// parent != nil true edge
		var parent *ssa.Parameter
		if len(f.Params) > 0 {
			parent = f.Params[0]
		}
		pg := kit.FindGuards(f, func(c ssa.Value) (bool, bool) {
			b, ok := c.(*ssa.BinOp)
			if !ok || (b.Op != token.EQL && b.Op != token.NEQ) || b.X != ssa.Value(parent) || !kit.IsNilConst(b.Y) {
				return false, false
			}
			return true, b.Op == token.NEQ
		})
		bad := ""
		if len(pg) == 0 {
			bad = "no parent != nil test"
		} else {
			var starts []kit.Pt
			for _, e := range edgesOf(pg, true) {
				starts = append(starts, kit.EdgeStart(e))
			}
			reach := kit.Reach(f, starts, kit.Opts{BlockEdge: kit.EdgeSet(edgesOf(gs, true)...)})
			for _, ret := range kit.Returns(f) {
				if reach.Has(ret) && reach.ErrClass(ret) != kit.ErrNonNil {
					bad = "a branch with a parent can be created without testing that the parent header's hash equals header.PrevBlock: " + reach.PathTo(ret, p.Pos)
				}
			}
		}
		r.Check(bad == "", "GUARD-DOM", "NewBranch/link-to-parent", posOf(p, f.Blocks[0].Instrs[0]),
			"with a parent, success is only reachable through parent.AtHeight(parentHeight).Hash.Equal(&header.PrevBlock)", bad)
	}
}

func checkAtHeight(p *load.Program, r *kit.Report, headersF *types.Var) {
	f := fn(p, r, "GUARD-DOM", H, "Branch.AtHeight")
	if f == nil {
		return
	}
	lin := kit.NewLin(f)
	parentHeightF := p.Field(H, "Branch", "parentHeight")
	offsetF := p.Field(H, "Branch", "offset")
	parentF := p.Field(H, "Branch", "parent")
	recvKey := lin.Key(f.Params[0])
	bad := ""
	n := 0
	kit.AllInstrs(f, func(in ssa.Instruction) {
		ia, ok := in.(*ssa.IndexAddr)
		if !ok || !loadOfField(ia.X, headersF) {
			return
		}
		n++
		// the branch whose headers are indexed: the receiver, or the cursor of a walk up the parents
		_, base := kit.LoadedField(ia.X)
		bk := lin.Key(base)
		want := pAtom(f, 1).Sub(kit.LinAtom("f:" + bk + "." + parentHeightF.Name())).Sub(kit.LinAtom("f:" + bk + "." + offsetF.Name()))
		got := lin.Of(ia.Index)
		if !got.Equal(want) {
			bad = "headers index is " + got.String() + ", want " + want.String()
		}
		// guarded by height > parentHeight
		gs := kit.FindGuards(f, func(c ssa.Value) (bool, bool) {
			return cmpMatches(lin, c, pAtom(f, 1).Sub(kit.LinAtom("f:"+bk+"."+parentHeightF.Name())), 1)
		})
		if ok, _ := kit.DominatedByEdges(f, in, edgesOf(gs, true), nil, p.Pos); !ok {
			bad = "headers are indexed without the guard height > parentHeight"
		}
		rec := kit.CallsTo(f, H+".Branch.AtHeight")
		cursor, isCursor := kit.Strip(base).(*ssa.Phi)
		switch {
		case bk == recvKey:
			// recursion on the other edge with the same height
			if len(rec) != 1 {
				bad = "expected exactly one delegation to parent.AtHeight"
			} else {
				call := rec[0].(*ssa.Call)
				if !lin.Of(call.Call.Args[1]).Equal(pAtom(f, 1)) {
					bad = "delegation to the parent changes the height: " + lin.Of(call.Call.Args[1]).String()
				}
				if lin.Key(call.Call.Args[0]) != recvKey+"."+parentF.Name() {
					bad = "delegation goes to " + lin.Key(call.Call.Args[0]) + ", not to the parent"
				}
				if ok, _ := kit.DominatedByEdges(f, call, edgesOf(gs, false), nil, p.Pos); !ok {
					bad = "parent.AtHeight is not confined to height <= parentHeight"
				}
			}
		case isCursor:
			// iterative form: the cursor starts at the receiver and moves to its own parent only on
			// the edge height <= cursor.parentHeight
			if len(rec) != 0 {
				bad = "walk up the parents mixed with recursion"
			}
			starts, steps := 0, 0
			for i, e := range cursor.Edges {
				k := lin.Key(e)
				pred := cursor.Block().Preds[i]
				switch k {
				case recvKey:
					starts++
				case bk + "." + parentF.Name():
					steps++
					if ok, _ := kit.DominatedByEdges(f, pred.Instrs[len(pred.Instrs)-1], edgesOf(gs, false), nil, p.Pos); !ok {
						bad = "the walk moves to the parent although height > parentHeight"
					}
				default:
					bad = "the walk takes a branch that is neither the receiver nor the current branch's parent: " + k
				}
			}
			if starts != 1 || steps == 0 {
				bad = "the walk does not start at the receiver / never moves to the parent"
			}
		default:
			bad = "headers of " + bk + " are indexed, not the receiver's"
		}
	})
	if n != 1 {
		r.Unknown("GUARD-DOM", "Branch.AtHeight/index", "-", "expected one indexing of headers, found %d", n)
		return
	}
	r.Check(bad == "", "GUARD-DOM", "Branch.AtHeight/index", posOf(p, f.Blocks[0].Instrs[0]),
		"headers[height-parentHeight-offset] behind height > parentHeight, else parent.AtHeight(height)", bad)
}

// cmpMatches: condition c is a comparison equivalent to (expr >= lo) i.e. expr > lo-1, where expr
// is a linear form: returns (matched, holdsWhenTrue). Recognises X op Y with X-Y or Y-X == expr.
func cmpMatches(lin *kit.LinEval, c ssa.Value, expr kit.Lin, lo int64) (bool, bool) {
	b, ok := c.(*ssa.BinOp)
	if !ok {
		return false, false
	}
	switch b.Op {
	case token.GTR, token.GEQ, token.LSS, token.LEQ:
	default:
		return false, false
	}
	x, y := lin.Of(b.X), lin.Of(b.Y)
	if !x.OK || !y.OK {
		return false, false
	}
	d := x.Sub(y) // condition: d op 0
	// normalise to form  expr >= lo  <=>  expr - lo >= 0
	t := expr.AddK(-lo)
	switch {
	case d.Equal(t): // (expr-lo) op 0
		switch b.Op {
		case token.GEQ:
			return true, true
		case token.LSS:
			return true, false
		}
	case d.Equal(t.AddK(1)): // (expr-lo+1) op 0 : > 0 means expr-lo >= 0
		switch b.Op {
		case token.GTR:
			return true, true
		case token.LEQ:
			return true, false
		}
	case d.Equal(t.Scale(-1)): // -(expr-lo) op 0 : <= 0
		switch b.Op {
		case token.LEQ:
			return true, true
		case token.GTR:
			return true, false
		}
	case d.Equal(t.Scale(-1).AddK(-1)): // -(expr-lo)-1 < 0
		switch b.Op {
		case token.LSS:
			return true, true
		case token.GEQ:
			return true, false
		}
	}
	return false, false
}

func checkTipReaders(p *load.Program, r *kit.Report, longestF *types.Var) {
	for _, name := range []string{"Repository.Height", "Repository.LastHash", "Repository.LastTime", "Repository.AccumulatedWork", "Repository.Hash", "Repository.header"} {
		f := fn(p, r, "PROVENANCE", H, name)
		if f == nil {
			continue
		}
		bad := ""
		n := 0
		kit.AllInstrs(f, func(in ssa.Instruction) {
			c, ok := in.(*ssa.Call)
			if !ok {
				return
			}
			switch kit.CallID(c) {
			case H + ".Branch.Height", H + ".Branch.Last", H + ".Branch.AtHeight":
				n++
				if !recvIsField(c.Call.Args[0], longestF) {
					bad = kit.ShortID(kit.CallID(c)) + " is called on " + describe(recvPtr(c.Call.Args[0])) + ", not on repo.longest"
				}
			}
		})
		if n == 0 {
			bad = "does not read the tip through repo.longest"
		}
		r.Check(bad == "", "PROVENANCE", name+"/reads-longest", posOf(p, f.Blocks[0].Instrs[0]), "reads the tip branch through repo.longest", bad)
	}
}

// checkLinkFirst: Branch.Link attaches a loaded branch to the FIRST branch of the (oldest-first
// sorted) list whose Find knows the previous hash. Find recurses into ancestors, so a later branch
// — an older sibling that forked lower from the same parent — also "contains" the hash; taking it
// makes AtHeight serve the sibling's headers for the heights between the two fork points.
func checkLinkFirst(p *load.Program, r *kit.Report, rule string) {
	f := fn(p, r, rule, H, "Branch.Link")
	if f == nil {
		return
	}
	parentF := p.Field(H, "Branch", "parent")
	if parentF == nil || len(f.Params) < 2 {
		r.Unknown(rule, "Branch.Link/parent", "-", "Branch.parent or the branches parameter not found")
		return
	}
	list := f.Params[1]
	isElem := func(v ssa.Value) *ssa.UnOp {
		u, ok := kit.Strip(v).(*ssa.UnOp)
		if !ok || u.Op != token.MUL {
			return nil
		}
		ia, ok := u.X.(*ssa.IndexAddr)
		if !ok || kit.Strip(ia.X) != ssa.Value(list) {
			return nil
		}
		return u
	}
	reaches := func(from []*ssa.BasicBlock, target *ssa.BasicBlock) bool {
		seen := map[*ssa.BasicBlock]bool{}
		st := append([]*ssa.BasicBlock{}, from...)
		for len(st) > 0 {
			b := st[len(st)-1]
			st = st[:len(st)-1]
			if seen[b] {
				continue
			}
			seen[b] = true
			if b == target {
				return true
			}
			st = append(st, b.Succs...)
		}
		return false
	}
	n := 0
	bad := ""
	var check func(v ssa.Value, after []*ssa.BasicBlock, depth int)
	check = func(v ssa.Value, after []*ssa.BasicBlock, depth int) {
		if depth > 6 || bad != "" {
			return
		}
		if kit.IsNilConst(v) {
			return
		}
		if e := isElem(v); e != nil {
			n++
			ctr, lo, okC := indexCounter(kit.Strip(e.X.(*ssa.IndexAddr).Index))
			if !okC || lo != 0 {
				bad = "the list is not scanned from its first (oldest) branch upwards in steps of one: Find answers through ancestors, so with any other order the first branch that knows the previous hash can be a sibling that forked lower, not the parent"
				return
			}
			// the loop is the one whose header carries the index (a block that leaves the loop
			// right after taking the element is not part of the natural loop)
			h := ctr.Block()
			if h == nil {
				bad = "the branch stored as parent is not taken inside a loop over the list"
				return
			}
			if reaches(after, h) {
				bad = "after a branch that knows the previous hash was chosen the loop over the (oldest-first) list goes on: a later match — an older sibling whose Find answers through the shared ancestor — replaces the first one"
			}
			return
		}
		if phi, ok := v.(*ssa.Phi); ok {
			for _, e := range phi.Edges {
				if e == ssa.Value(phi) {
					continue
				}
				check(e, []*ssa.BasicBlock{phi.Block()}, depth+1)
			}
			return
		}
		// delegated to Branches.Find on the same list: its own first-match shape is checked
		if c := callOf(v, 0); c != nil && kit.CallID(c) == H+".Branches.Find" && len(c.Call.Args) > 0 && kit.Strip(c.Call.Args[0]) == ssa.Value(list) {
			n++
			if why := firstMatchReturn(p, p.Func(H, "Branches.Find")); why != "" {
				bad = "Branches.Find: " + why
			}
			return
		}
		bad = "parent is " + describe(v) + ", not an element of the list"
	}
	var at ssa.Instruction
	for _, w := range kit.DirectWrites(f) {
		if w.Field != parentF || w.Kind != "store" {
			continue
		}
		at = w.Instr
		check(w.Val, w.Instr.Block().Succs, 0)
	}
	if at == nil {
		r.Bad(rule, "Branch.Link/first-match", posOf(p, f.Blocks[0].Instrs[0]), "Link never stores b.parent")
		return
	}
	if n == 0 && bad == "" {
		bad = "no element of the list is stored as parent"
	}
	r.Check(bad == "", rule, "Branch.Link/first-match", posOf(p, at), "b.parent is the first branch of the list that knows the previous hash (the loop ends there)", bad)
}

// checkIsLonger: Branch.IsLonger(right) is b.Last().AccumulatedWork.Cmp(right.Last().AccumulatedWork) > 0.
func checkIsLonger(p *load.Program, r *kit.Report, workF *types.Var) {
	f := fn(p, r, "ARGMAX", H, "Branch.IsLonger")
	if f == nil {
		return
	}
	bad := ""
	cmps := kit.CallsTo(f, bigInt+".Cmp")
	if len(cmps) != 1 || len(f.Params) < 2 {
		bad = "expected one (*big.Int).Cmp call"
	} else {
		cmp := cmps[0].(*ssa.Call)
		from := func(v ssa.Value, prm *ssa.Parameter) bool {
			return loadOfField(v, workF) && kit.DependsOn(v, func(x ssa.Value) bool { return kit.Strip(x) == ssa.Value(prm) || x == ssa.Value(prm) })
		}
		if !from(cmp.Call.Args[0], f.Params[0]) || !from(cmp.Call.Args[1], f.Params[1]) {
			bad = "IsLonger does not compare the receiver's accumulated work with the argument's"
		}
		for _, ret := range kit.Returns(f) {
			b, ok := kit.RetOperand(ret, 0).(*ssa.BinOp)
			if !ok || b.X != ssa.Value(cmp) || b.Op != token.GTR {
				bad = "IsLonger is not `Cmp(...) > 0`"
			} else if z, isC := kit.ConstInt(b.Y); !isC || z != 0 {
				bad = "IsLonger is not `Cmp(...) > 0`"
			}
		}
	}
	r.Check(bad == "", "ARGMAX", "Branch.IsLonger/cmp", posOf(p, f.Blocks[0].Instrs[0]), "receiver's Last().AccumulatedWork.Cmp(argument's) > 0", bad)
}

// firstMatchReturn: g (a method on a list type) returns, as its first result, the element of its
// receiver list at which it stops: the element is indexed by a counter ascending from 0 in steps of
// one and the return is taken right there (so it is the first match). "" when that holds.
func firstMatchReturn(p *load.Program, g *ssa.Function) string {
	if g == nil || g.Blocks == nil || len(g.Params) == 0 {
		return "function not found"
	}
	list := g.Params[0]
	n := 0
	for _, ret := range kit.Returns(g) {
		v := kit.RetOperand(ret, 0)
		if kit.IsNilConst(v) {
			continue
		}
		u, ok := kit.Strip(v).(*ssa.UnOp)
		if !ok || u.Op != token.MUL {
			return "returns " + describe(v) + ", not an element of the list"
		}
		ia, ok := u.X.(*ssa.IndexAddr)
		if !ok || kit.Strip(ia.X) != ssa.Value(list) {
			return "returns " + describe(v) + ", not an element of the list"
		}
		if _, lo, okC := indexCounter(kit.Strip(ia.Index)); !okC || lo != 0 {
			return "the list is not scanned upwards from its first element"
		}
		n++
	}
	if n == 0 {
		return "never returns an element"
	}
	return ""
}
