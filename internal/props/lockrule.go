package props

import (
	"go/token"
	"go/types"
	"strings"

	"golang.org/x/tools/go/ssa"

	"verif/internal/kit"
	"verif/internal/load"
)

// guardedBy describes one guarded-by fact: accesses to Field (of struct Owner) need the lock
// "<lockBase>.<Mutex>", where lockBase is the accessed object itself (Self) or the function's
// receiver (Recv).
type guardedBy struct {
	Field  *types.Var
	Mutex  string
	ByRecv bool // the lock lives in the method receiver, not in the accessed object
}

// fieldAccesses lists the reads and writes of field f in fn: (instruction, base value, isWrite).
type fieldAccess struct {
	in    ssa.Instruction
	base  ssa.Value
	write bool
}

func fieldAccesses(fn *ssa.Function, f *types.Var) []fieldAccess {
	var out []fieldAccess
	kit.AllInstrs(fn, func(in ssa.Instruction) {
		fa, ok := in.(*ssa.FieldAddr)
		if !ok {
			return
		}
		fl, base := kit.FieldOfAddr(fa)
		if fl != f {
			return
		}
		// classify by referrers of the address
		write, read := false, false
		for _, ref := range *fa.Referrers() {
			switch x := ref.(type) {
			case *ssa.Store:
				if x.Addr == ssa.Value(fa) {
					write = true
				} else {
					read = true
				}
			case *ssa.UnOp:
				if x.Op == token.MUL {
					read = true
					// a loaded map/slice that is then updated counts as a write of the field's content
					for _, r2 := range *x.Referrers() {
						switch y := r2.(type) {
						case *ssa.MapUpdate:
							if y.Map == ssa.Value(x) {
								write = true
							}
						case ssa.CallInstruction:
							if kit.CallID(y) == "builtin.delete" && y.Common().Args[0] == ssa.Value(x) {
								write = true
							}
						}
					}
				}
			default:
				read = true
			}
		}
		if write {
			out = append(out, fieldAccess{in, base, true})
		} else if read {
			out = append(out, fieldAccess{in, base, false})
		}
	})
	return out
}

// checkGuarded applies LOCKSET to the functions given. exempt says why an access needs no lock
// ("" = not exempt).
func checkGuarded(p *load.Program, r *kit.Report, rule string, funcs []*ssa.Function, gb []guardedBy,
	entry func(*ssa.Function) map[string]bool, exempt func(fn *ssa.Function, a fieldAccess) string) int {
	n := 0
	k := newKeyer()
	for _, f := range funcs {
		var li *kit.LockInfo
		for _, g := range gb {
			for _, a := range fieldAccesses(f, g.Field) {
				if li == nil {
					var e map[string]bool
					if entry != nil {
						e = entry(f)
					} else {
						// unexported helpers that are only called directly: the locks held at every
						// call site
						e = entryLocks(p)[f]
					}
					li = kit.Lockset(f, e)
				}
				if !li.Reached(a.in) {
					continue
				}
				n++
				name := kit.ShortID(kit.FuncID(f))
				r.Fn(name)
				mode := "read"
				if a.write {
					mode = "write"
				}
				key := k.key(name + "/" + mode + ":" + g.Field.Name())
				if kit.IsFresh(kit.Root(a.base)) {
					r.OKTrivial(rule, key, posOf(p, a.in), "object under construction (not yet published)")
					continue
				}
				if why := exempt(f, a); why != "" {
					r.OKTrivial(rule, key, posOf(p, a.in), "exempt: %s", why)
					continue
				}
				base := li.Key(a.base)
				if g.ByRecv && len(f.Params) > 0 {
					base = li.Key(f.Params[0])
				}
				lock := base + "." + curName(p, g.Mutex)
				if li.Holds(a.in, lock, a.write) {
					r.OK(rule, key, posOf(p, a.in), "%s of %s under %s", mode, g.Field.Name(), lock)
				} else {
					r.Bad(rule, key, posOf(p, a.in), "%s of %s without holding %s (held: %s): the decision based on it is not atomic with respect to concurrent callers", mode, g.Field.Name(), lock, li.HeldAt(a.in))
				}
			}
		}
	}
	return n
}

var entryLocksCache = map[*load.Program]map[*ssa.Function]map[string]bool{}

// entryLocks: see kit.EntryLocks; computed once per program over both packages.
func entryLocks(p *load.Program) map[*ssa.Function]map[string]bool {
	if m, ok := entryLocksCache[p]; ok {
		return m
	}
	m := kit.EntryLocks(pkgFuncs(p, R, H))
	entryLocksCache[p] = m
	return m
}

// checkNoReacquire reports calls made while a non-reentrant lock is held (on every path) to a
// callee of the two packages that may take the same lock of the same object: the goroutine blocks
// for ever with the lock held. keep selects the callers to report on (nil: all).
func checkNoReacquire(p *load.Program, r *kit.Report, rule string, keep func(f *ssa.Function) bool) {
	funcs := pkgFuncs(p, R, H)
	reps, sites := kit.SelfReacquire(funcs, entryLocks(p))
	k := newKeyer()
	n := 0
	bad := map[*ssa.Function]bool{}
	for _, rep := range reps {
		if keep != nil && !keep(rep.Caller) {
			continue
		}
		bad[rep.Caller] = true
		r.Bad(rule, k.key(kit.ShortID(kit.FuncID(rep.Caller))+"/call:"+kit.ShortID(kit.FuncID(rep.Callee))+" holding "+rep.Key), posOf(p, rep.Call),
			"%s is held here (on every path) and the callee takes it again (%s): sync mutexes are not reentrant, the goroutine blocks for ever with the lock held", rep.Key, strings.Join(rep.Via, " → "))
	}
	for _, f := range funcs {
		if keep != nil && !keep(f) {
			continue
		}
		if bad[f] || f.Blocks == nil {
			continue
		}
		locks := len(entryLocks(p)[f]) > 0
		lin := kit.NewLin(f)
		kit.AllInstrs(f, func(in ssa.Instruction) {
			if c, ok := in.(ssa.CallInstruction); ok {
				if _, _, op := kit.LockOp(lin, c); op > 0 {
					locks = true
				}
			}
		})
		if locks {
			n++
			r.OK(rule, kit.ShortID(kit.FuncID(f))+"/calls-under-lock", posOf(p, f.Blocks[0].Instrs[0]), "no callee re-takes a lock held at its call")
		}
	}
	_ = n
	r.CallSites += sites
}

// staticReach: the functions of the two packages reachable from roots through statically resolved
// calls (roots included).
func staticReach(roots ...*ssa.Function) map[*ssa.Function]bool {
	seen := map[*ssa.Function]bool{}
	var walk func(f *ssa.Function)
	walk = func(f *ssa.Function) {
		if f == nil || seen[f] || f.Blocks == nil {
			return
		}
		seen[f] = true
		kit.AllInstrs(f, func(in ssa.Instruction) {
			if c, ok := in.(ssa.CallInstruction); ok {
				if g := kit.StaticCallee(c); g != nil && g.Pkg != nil && (g.Pkg.Pkg.Path() == R || g.Pkg.Pkg.Path() == H) {
					walk(g)
				}
			}
			if mc, ok := in.(*ssa.MakeClosure); ok {
				if g, ok := mc.Fn.(*ssa.Function); ok {
					walk(g)
				}
			}
		})
	}
	for _, f := range roots {
		walk(f)
	}
	return seen
}

// checkPersistUnderLock: in the methods of one repository type, every persisting call selected by
// isPersist (a storage write, or a helper that writes) is made while a lock rooted at the receiver
// is held. Serialising a snapshot under the lock and writing it after releasing it lets a slower
// writer overwrite a newer state with an older one (the in-memory state and the stored state then
// disagree after a restart).
func checkPersistUnderLock(p *load.Program, r *kit.Report, rule, pkg, typ string, isPersist func(c ssa.CallInstruction) string, floor int) {
	k := newKeyer()
	n := 0
	for _, f := range pkgFuncs(p, pkg) {
		if f.Signature.Recv() == nil || len(f.Params) == 0 || !strings.HasSuffix(strings.TrimPrefix(f.Signature.Recv().Type().String(), "*"), "."+typ) {
			continue
		}
		if strings.HasSuffix(p.FileOf(f.Pos()), "_test.go") || strings.Contains(p.FileOf(f.Pos()), "test_helpers") {
			continue
		}
		var li *kit.LockInfo
		recv := f.Params[0].Name()
		kit.AllInstrs(f, func(in ssa.Instruction) {
			c, ok := in.(ssa.CallInstruction)
			if !ok {
				return
			}
			what := isPersist(c)
			if what == "" {
				return
			}
			if li == nil {
				li = kit.Lockset(f, entryLocks(p)[f])
			}
			if !li.Reached(in) {
				return
			}
			n++
			held := li.HeldAt(in)
			ok2 := strings.Contains(held, "{"+recv+".") || strings.Contains(held, ","+recv+".")
			key := k.key(kit.ShortID(kit.FuncID(f)) + "/" + what)
			if ok2 {
				r.OK(rule, key, posOf(p, in), "made with %s held", held)
			} else {
				r.Bad(rule, key, posOf(p, in), "%s is written to storage here without the %s lock held (held: %s): a snapshot taken under the lock and written after releasing it can overwrite a newer state that a concurrent caller has already persisted", what, typ, held)
			}
		})
	}
	if n < floor {
		r.Unknown(rule, typ+"/persist-sites", "-", "expected at least %d persisting calls in methods of %s, found %d", floor, typ, n)
	}
}

// checkNoReleaseOfCallerLock: an unexported helper that runs with a lock its callers hold (the
// "caller holds the lock" convention, kit.EntryLocks) never releases that lock itself. Releasing it
// in the middle (e.g. around a blocking send) breaks the atomicity of whatever the caller is doing
// across the call — in ProcessHeader: choosing the most-work branch and storing it as the tip.
func checkNoReleaseOfCallerLock(p *load.Program, r *kit.Report, rule string, keep func(f *ssa.Function) bool) {
	el := entryLocks(p)
	k := newKeyer()
	n := 0
	for _, f := range pkgFuncs(p, R, H) {
		held := el[f]
		if len(held) == 0 || (keep != nil && !keep(f)) || f.Blocks == nil {
			continue
		}
		n++
		lin := kit.NewLin(f)
		bad := ""
		kit.AllInstrs(f, func(in ssa.Instruction) {
			c, ok := in.(ssa.CallInstruction)
			if !ok {
				return
			}
			key, mode, op := kit.LockOp(lin, c)
			if op < 0 && held[key+":"+mode] && bad == "" {
				bad = key + " is held by every caller of this helper and is released here (" + posOf(p, in) + "): what the callers do across the call is no longer one critical section"
			}
		})
		r.Check(bad == "", rule, k.key(kit.ShortID(kit.FuncID(f))+"/keeps-callers-lock"), posOf(p, f.Blocks[0].Instrs[0]), "the lock held by the callers is never released inside", bad)
	}
	if n == 0 {
		r.Unknown(rule, "helpers/keeps-callers-lock", "-", "no helper with a caller-held lock found")
	}
}
