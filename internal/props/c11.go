package props

import (
	"fmt"
	"go/constant"
	"go/token"
	"go/types"
	"strings"

	"golang.org/x/tools/go/ssa"

	"verif/internal/kit"
	"verif/internal/load"
)

func init() {
	register("C11", checkC11)
	register("C12", checkC12)
}

func normLayout(items []kit.WireItem) []kit.WireItem {
	out := make([]kit.WireItem, len(items))
	copy(out, items)
	for i := range out {
		if out[i].Kind == "ser" && (strings.HasSuffix(out[i].Type, "bitcoin.Hash32") || out[i].Type == "32") {
			out[i].Kind, out[i].Type = "raw", "32"
		}
	}
	return out
}

func codecPair(p *load.Program, r *kit.Report, rule, name string, w, rd *ssa.Function, expand map[string]bool, skipW, skipR int) {
	if w == nil || rd == nil {
		return
	}
	lw := normLayout(kit.WireLayout(w, expand, 0))
	lr := normLayout(kit.WireLayout(rd, expand, 0))
	if skipW <= len(lw) {
		lw = lw[skipW:]
	}
	if skipR <= len(lr) {
		lr = lr[skipR:]
	}
	if len(lw) == 0 {
		r.Unknown(rule, name, posOf(p, w.Blocks[0].Instrs[0]), "no wire items extracted from the writer")
		return
	}
	ok, why := kit.LayoutsAgree(lw, lr)
	r.CallSites += len(lw) + len(lr)
	if ok {
		r.OK(rule, name, posOf(p, w.Blocks[0].Instrs[0]), "writer and reader agree on %d items: %s", len(lw), kit.LayoutString(lw))
	} else {
		r.Bad(rule, name, posOf(p, w.Blocks[0].Instrs[0]), "encoder and decoder disagree: %s", why)
	}
}

// storageCalls lists invoke-mode calls to the storage interface method m in f.
func storageCalls(f *ssa.Function, m string) []*ssa.Call {
	var out []*ssa.Call
	kit.AllInstrs(f, func(in ssa.Instruction) {
		c, ok := in.(*ssa.Call)
		if !ok || !c.Call.IsInvoke() || c.Call.Method.Name() != m {
			return
		}
		if pk := c.Call.Method.Pkg(); pk == nil || pk.Path() != load.StoragePkg {
			return
		}
		out = append(out, c)
	})
	return out
}

// keyShape renders the storage key expression of a call: constant string or fmt.Sprintf format
// with the (field/callee) description of its arguments.
func keyShape(v ssa.Value) string { return keyShapeRec(v, map[ssa.Value]bool{}) }

func keyShapeRec(v ssa.Value, seen map[ssa.Value]bool) string {
	v = kit.Strip(v)
	if seen[v] {
		return ""
	}
	seen[v] = true
	if s, ok := kit.ConstString(v); ok {
		return fmt.Sprintf("%q", s)
	}
	if c, ok := v.(*ssa.Call); ok {
		switch kit.CallID(c) {
		case "fmt.Sprintf":
			f, _ := kit.ConstString(c.Call.Args[0])
			return fmt.Sprintf("Sprintf(%q,%s)", f, sprintfArgs(c))
		case H + ".headersFilePath":
			return "headersFilePath(int)"
		case H + ".Branch.path":
			return `Sprintf("%s/%s","headers/branches",hash)`
		}
	}
	if ph, ok := v.(*ssa.Phi); ok {
		s := map[string]bool{}
		for _, e := range ph.Edges {
			if ks := keyShapeRec(e, seen); ks != "" {
				s[ks] = true
			}
		}
		if len(s) == 1 {
			for k := range s {
				return k
			}
		}
	}
	if fl, _ := kit.LoadedField(v); fl != nil {
		return "field " + fl.Name()
	}
	return "?" + v.Name()
}

func sprintfArgs(c *ssa.Call) string {
	// variadic slice literal: collect stored element descriptions
	var parts []string
	if sl, ok := c.Call.Args[1].(*ssa.Slice); ok {
		if a, ok := sl.X.(*ssa.Alloc); ok {
			for _, ref := range *a.Referrers() {
				ia, ok := ref.(*ssa.IndexAddr)
				if !ok {
					continue
				}
				for _, r2 := range *ia.Referrers() {
					if st, ok := r2.(*ssa.Store); ok {
						v := kit.Strip(st.Val)
						if s, ok := kit.ConstString(v); ok {
							parts = append(parts, fmt.Sprintf("%q", s))
						} else if strings.Contains(v.Type().String(), "Hash32") {
							parts = append(parts, "hash")
						} else {
							parts = append(parts, types.TypeString(v.Type(), nil))
						}
					}
				}
			}
		}
	}
	return strings.Join(parts, ",")
}

func checkC11(p *load.Program, r *kit.Report) {
	importRules(p, r, "C09", "Save consolidates first: the branches it writes are re-based through Consolidate, Truncate and Connect, and a side branch is re-connected (and so kept in the saved index) only if the hash→height labels those functions write are the positional heights", 3,
		func(o *kit.Obligation) bool {
			return strings.Contains(o.Construct, "Branch.Consolidate/") || strings.Contains(o.Construct, "Branch.Truncate/") || strings.Contains(o.Construct, "Branch.Connect/")
		}, "HEIGHT-LABEL")
	r.Rule("CONSOLIDATE-IDENTITY", "the branch Consolidate builds has the parent, firstHeader, parentHeight and offset of the branch it replaces (other)", 1)
	checkConsolidateIdentity(p, r, "CONSOLIDATE-IDENTITY")
	importRules(p, r, "C10", "Save consolidates first and writes the index from the rebuilt branch list: every branch except the old root and the old tip must be reconnected, or it is missing from what Load restores", 1,
		func(o *kit.Obligation) bool { return strings.HasPrefix(o.Construct, "consolidate/") }, "COVER-ALL")
	r.Rule("TIE-KEEPS-FIRST", "Branches.Longest replaces its selection only for strictly more accumulated work: equal-work branches keep their order across Save and Load", 1)
	checkLongestTiesKeepFirst(p, r, "TIE-KEEPS-FIRST")
	importRules(p, r, "C09", "Save consolidates first: the branch objects it rebuilds must get their own hash maps, or a side branch is dropped from memory and from the index because its parent hash is `found` in the wrong branch", 3, nil, "FRESH-MAP")
	r.Rule("RESTORE-INVALID-LIST", "every exit of load that can report success — also the legacy-store exit through migrate — lies behind loadInvalidHashes", 1)
	checkLoadReadsInvalidList(p, r, "RESTORE-INVALID-LIST")
	r.Rule("PRUNE-BEFORE-LINK", "load shortens the restored branches to the retained depth before it links them: a branch whose fork point is not retained must fail to link", 1)
	checkLoadPrunesBeforeLinking(p, r, "PRUNE-BEFORE-LINK")
	importRules(p, r, "C12", "a legacy store is restored by reading old files until one is missing: that miss ends the scan, it is not a failure (a chain that fills its last file exactly ends with it)", 1,
		func(o *kit.Obligation) bool { return strings.HasPrefix(o.Construct, "migrate/") }, "TOLERATE")
	importRules(p, r, "C09", "a loaded repository holds less in memory than the original: ranges and heights are then served from the files, which must be read only where memory has no answer and at the record the writer put there", 4, nil, "LOOKUP-SHAPE")
	importRules(p, r, "C09", "a loaded repository holds less in memory than the original: ranges and heights are then served from the files, which must be read only where memory has no answer and only up to the tip", 6, nil, "TIP-BOUND")
	importRules(p, r, "C01", "load re-attaches every restored branch with Branch.Link: it must pick the parent (the first branch of the oldest-first list that knows the previous hash), or heights between two sibling forks resolve to the wrong branch after a restart", 1, nil, "LINK-FIRST")
	r.NotDecided = "equality of the loaded repository with the saved one for a given history (a runtime relation over values); which side branches share a file; migration of real version-0 files. Decided are layout symmetry, key agreement, record-size constants, load-time labels, merge arithmetic and always-write facts that are necessary for the round trip."
	r.Rule("CODEC-SYM", "encoder and decoder of each persisted structure emit/consume the same ordered list of wire items (kind, width, loop): Branch, HeaderData (+ 32-byte big-int), invalid list, branch index, main header files", 6)
	r.Rule("KEY-AGREE", "every storage key written has a reader with the same key shape (format and argument kinds)", 4)
	r.Rule("CONST-TABLE", "headerDataSerializeSize equals 80 (wire block header) + 32 (work) and is the record size used by getData, loadHistoricalHashHeights and saveMainBranch's byte offset", 2)
	r.Rule("HEIGHT-LABEL", "labels written while loading (LoadBranch, Reload, loadBranchHashHeights, loadHistoricalHashHeights) equal positional heights", 4)
	r.Rule("ORDER", "load selects the tip from the branch list in stored order, before re-sorting it for linking (ties of accumulated work are broken by position); the hashes of a loaded branch enter the long-lived height map only when the branch is kept", 2)
	r.Rule("RESTORE-REGISTERS", "every function below Load that installs branches read from storage (load, migrate) enters their hashes into Repository.heights before it returns success; initializeWithGenesis installs only the genesis header, which the constructor registers", 3)
	checkRestoreRegisters(p, r, "RESTORE-REGISTERS")
	r.Rule("COVER-ALL", "loadHistoricalHashHeights starts at the file that holds the height right below the main branch's lowest in-memory height (every best-chain hash below the in-memory part gets its height back)", 1)
	r.Rule("MUST-PASS", "saveInvalidHashes writes its key on every successful path (an emptied list replaces the stored one)", 1)
	r.Rule("MAIN-FILE-SHAPE", "saveMainBranch starts in file lowest/headersPerFile at byte (lowest - file·headersPerFile)·recordSize + 1 (version byte), keeps exactly that prefix of the stored file, rolls over to file+1 every headersPerFile heights; readers (C09) use the same constants", 3)
	r.Rule("MERGE-SHAPE", "Branch.Save stores previous.headers[:b.offset-previous.offset] ++ b.headers (all in-memory headers) and writes on every successful path; Save runs saveMainBranch, saveBranches, saveInvalidHashes each behind the previous success; saveInvalidHashes always writes; load merges the configured invalid hashes behind a not-found test, and every configured hash that no stored hash equals is appended (the found flag does not survive from one configured hash to the next)", 6)

	hd := func(n string) *ssa.Function { return fn(p, r, "CODEC-SYM", H, n) }
	expand := map[string]bool{H + ".serializeBigInt": true, H + ".deserializeBigInt": true}
	codecPair(p, r, "CODEC-SYM", "Branch.Serialize↔Deserialize", hd("Branch.Serialize"), hd("Branch.Deserialize"), expand, 0, 0)
	codecPair(p, r, "CODEC-SYM", "HeaderData.Serialize↔Deserialize", hd("HeaderData.Serialize"), hd("HeaderData.Deserialize"), expand, 0, 0)
	codecPair(p, r, "CODEC-SYM", "serializeBigInt↔deserializeBigInt", hd("serializeBigInt"), hd("deserializeBigInt"), expand, 0, 0)
	codecPair(p, r, "CODEC-SYM", "saveInvalidHashes↔loadInvalidHashes", hd("saveInvalidHashes"), hd("loadInvalidHashes"), expand, 0, 0)
	// branch index: saveBranches writes count + hash per branch into indexBuf; load reads them
	if w, rd := hd("Repository.saveBranches"), hd("Repository.load"); w != nil && rd != nil {
		lw := normLayout(kit.WireLayout(w, expand, 0))
		lr := normLayout(kit.WireLayout(rd, expand, 0))
		ok, why := kit.LayoutsAgree(lw, lr)
		if ok {
			r.OK("CODEC-SYM", "branch-index save↔load", posOf(p, w.Blocks[0].Instrs[0]), "index layout %s", kit.LayoutString(lw))
		} else {
			r.Bad("CODEC-SYM", "branch-index save↔load", posOf(p, w.Blocks[0].Instrs[0]), "index writer and reader disagree: %s", why)
		}
	}
	// main files: version byte + records: saveNewFile/saveMainBranch ↔ getData/loadHistoricalHashHeights
	{
		exp2 := map[string]bool{}
		names := []string{"Repository.saveNewFile", "Repository.getData", "Repository.loadHistoricalHashHeights"}
		var lay []string
		for _, n := range names {
			if f := hd(n); f != nil {
				// the historical loader repeats the per-file layout in a loop over files: compare the
				// per-file item types
				lay = append(lay, strings.ReplaceAll(kit.LayoutString(normLayout(kit.WireLayout(f, exp2, 0))), "*", ""))
			}
		}
		ok := len(lay) == 3 && lay[0] == lay[1] && lay[1] == lay[2]
		r.Check(ok, "CODEC-SYM", "main-file saveNewFile↔getData↔loadHistoricalHashHeights", "headers/headers.go", "layout "+strings.Join(lay[:1], ""),
			"main header file layouts differ: "+strings.Join(lay, " | "))
		if f := hd("Repository.saveMainBranch"); f != nil {
			l := kit.LayoutString(normLayout(kit.WireLayout(f, exp2, 0)))
			// version byte (either branch) then looped records
			okm := strings.Contains(l, "bin:1") && strings.Contains(l, "*ser:headers.HeaderData")
			r.Check(okm, "CODEC-SYM", "main-file saveMainBranch", posOf(p, f.Blocks[0].Instrs[0]), "writes version byte and HeaderData records: "+l, "saveMainBranch layout unexpected: "+l)
		}
	}

	// KEY-AGREE
	written := map[string][]string{}
	readk := map[string][]string{}
	for _, f := range pkgFuncs(p, H) {
		for _, c := range storageCalls(f, "Write") {
			ks := keyShape(c.Call.Args[1])
			written[ks] = append(written[ks], kit.ShortID(kit.FuncID(f)))
		}
		for _, c := range storageCalls(f, "Read") {
			ks := keyShape(c.Call.Args[1])
			readk[ks] = append(readk[ks], kit.ShortID(kit.FuncID(f)))
		}
	}
	if len(written) == 0 {
		r.Unknown("KEY-AGREE", "keys", "-", "no storage writes found")
	}
	for ks, ws := range written {
		if strings.HasPrefix(ks, "?") {
			r.Unknown("KEY-AGREE", "key:"+ks, ws[0], "storage key of a write in %s is not a recognised expression", ws[0])
			continue
		}
		if rs, ok := readk[ks]; ok {
			r.OK("KEY-AGREE", "key:"+ks, ws[0], "written by %s, read by %s", strings.Join(uniq(ws), ","), strings.Join(uniq(rs), ","))
		} else {
			var have []string
			for k := range readk {
				have = append(have, k)
			}
			r.Bad("KEY-AGREE", "key:"+ks, ws[0], "key written by %s has no reader with the same shape (readers use: %s)", strings.Join(uniq(ws), ","), strings.Join(have, " ; "))
		}
	}

	checkRecordSize(p, r)
	checkHistoricalStart(p, r)

	if c := newLabelCtx(p, r, "HEIGHT-LABEL"); c != nil {
		for _, n := range []string{"LoadBranch", "Branch.Reload", "Repository.loadBranchHashHeights", "Repository.loadHistoricalHashHeights"} {
			if f := fn(p, r, "HEIGHT-LABEL", H, n); f != nil {
				if c.checkFunc(f) == 0 {
					r.Unknown("HEIGHT-LABEL", n+"/labels", posOf(p, f.Blocks[0].Instrs[0]), "no labelling event found")
				}
			}
		}
	}

	checkBranchSave(p, r)
	checkSaveMainBranch(p, r)
	if f := fn(p, r, "MERGE-SHAPE", H, "Repository.Save"); f != nil {
		// saveMainBranch writes the header files from repo.longest, starting at that branch's own
		// lowest height: it is only right for the consolidated main branch (D20: a Save while a side
		// branch holds the most work wrote the files from the fork point and left out everything
		// below; on a store that had never been cleaned the next Load failed)
		orderedBehindSuccess(p, r, "MERGE-SHAPE", f, "Save", H+".Repository.consolidate", H+".Repository.saveMainBranch", H+".Repository.saveBranches", H+".saveInvalidHashes")
	}
	checkSaveInvalidWrites(p, r)
	// load merges config hashes behind not-found
	if f := fn(p, r, "MERGE-SHAPE", H, "Repository.load"); f != nil {
		invalidF := p.Field(H, "Repository", "invalidHashes")
		cfgF := p.Field(H, "Config", "InvalidHeaderHashes")
		bad := "loaded invalid list is not stored into the repository"
		merged := false
		for _, w := range kit.DirectWrites(f) {
			if w.Field != invalidF {
				continue
			}
			if kit.DependsOn(w.Val, func(v ssa.Value) bool {
				c := callOf(v, 0)
				return c != nil && kit.CallID(c) == H+".loadInvalidHashes"
			}) {
				bad = ""
			}
			if kit.DependsOn(w.Val, func(v ssa.Value) bool {
				c, ok := v.(*ssa.Call)
				return ok && kit.CallID(c) == "builtin.append" && kit.DependsOn(c.Call.Args[1], func(x ssa.Value) bool { return loadOfField(x, cfgF) })
			}) {
				merged = true
			}
		}
		if bad == "" && !merged {
			bad = "configured invalid hashes are not merged into the loaded list"
		}
		r.Check(bad == "", "MERGE-SHAPE", "load/invalid-list", posOf(p, f.Blocks[0].Instrs[0]), "invalid list = stored list ∪ configured hashes", bad)
		checkConfigMerge(p, r, "MERGE-SHAPE", f, cfgF)
		// the tip is selected from the branches in stored (= creation) order: Longest() breaks
		// ties of accumulated work by position, and the running repository's order is the index
		// order; the list is re-sorted by parent height only afterwards, for linking
		longestF := p.Field(H, "Repository", "longest")
		badT := "load does not select the tip with Longest()"
		for _, w := range kit.DirectWrites(f) {
			if w.Field != longestF {
				continue
			}
			lc := isCallTo(w.Val, H+".Branches.Longest")
			if lc == nil {
				continue
			}
			badT = ""
			for _, c := range kit.Calls(f, func(id string) bool {
				return id == "sort.Sort" || id == "sort.Stable" || id == "sort.Slice" || id == "sort.SliceStable"
			}) {
				if kit.Reach(f, kit.After(c), kit.Opts{}).Has(lc) {
					badT = "the tip is selected after the branch list was re-sorted (" + posOf(p, c) + "): with two branches of equal work the loaded repository reports a different tip than the one that was saved"
				}
			}
		}
		// a stored branch is dropped while loading only when its tip is below the retained depth
		// (the same condition prune() uses): everything else the index names is kept
		{
			badK := ""
			lbs := kit.CallsTo(f, H+".LoadBranch")
			if len(lbs) != 1 {
				badK = "expected one LoadBranch call in load"
			} else {
				lb := lbs[0].(*ssa.Call)
				br := extractOf(lb, 0)
				var keep ssa.Instruction
				kit.AllInstrs(f, func(in ssa.Instruction) {
					c, ok := in.(*ssa.Call)
					if !ok || kit.CallID(c) != "builtin.append" || len(cycleOf(c.Block())) == 0 {
						return
					}
					if sl, ok := c.Call.Args[1].(*ssa.Slice); ok {
						if al, ok := sl.X.(*ssa.Alloc); ok {
							for _, ref := range *al.Referrers() {
								if ia, ok := ref.(*ssa.IndexAddr); ok {
									for _, r2 := range *ia.Referrers() {
										if st, ok := r2.(*ssa.Store); ok && kit.Strip(st.Val) == br {
											keep = c
										}
									}
								}
							}
						}
					}
				})
				below := kit.FindGuards(f, func(c ssa.Value) (bool, bool) {
					b, ok := c.(*ssa.BinOp)
					if !ok {
						return false, false
					}
					isTip := func(v ssa.Value) bool {
						hc := isCallTo(v, H+".Branch.Height")
						return hc != nil && kit.Strip(recvPtr(hc.Call.Args[0])) == br
					}
					switch {
					case b.Op == token.LSS && isTip(b.X), b.Op == token.GTR && isTip(b.Y):
						return true, true
					case b.Op == token.GEQ && isTip(b.X), b.Op == token.LEQ && isTip(b.Y):
						return true, false
					}
					return false, false
				})
				// every entry of the index is loaded: no path from the start of an iteration to the
				// next one avoids LoadBranch except by returning an error
				if hdr, body := loopBodyEntry(f, lb); hdr != nil && body != nil {
					rr := kit.Reach(f, []kit.Pt{{B: body, I: 0}}, kit.Opts{StopAt: kit.InstrSet(lb)})
					if rr.Has(hdr.Instrs[0]) {
						badK = "an entry of the branch index can be skipped without loading its branch (" + rr.PathTo(hdr.Instrs[0], p.Pos) + "): a re-attached branch keeps its first header, which the consolidated main branch also holds, so `already loaded` tests drop live branches"
					}
				}
				if badK != "" {
				} else if keep == nil {
					badK = "loaded branches are not collected"
				} else if header, _ := loopBodyEntry(f, keep); header != nil {
					var starts []kit.Pt
					for _, e := range edgesOf(errNilGuards(f, lb), true) {
						starts = append(starts, kit.EdgeStart(e))
					}
					rr := kit.Reach(f, starts, kit.Opts{StopAt: kit.InstrSet(keep), BlockEdge: kit.EdgeSet(edgesOf(below, true)...)})
					if rr.Has(header.Instrs[0]) {
						badK = "a stored branch can be dropped while loading although its tip is not below the retained depth (" + rr.PathTo(header.Instrs[0], p.Pos) + "): its headers become unknown and a submission that extends it is refused"
					}
					// the long-lived height map gets the hashes of a loaded branch only when the branch
					// is kept: a branch that load drops (deeper than the retained depth) must stay
					// unknown, or its headers are answered as pruned best-chain history
					badH := ""
					regs := kit.CallsTo(f, H+".Repository.loadBranchHashHeights")
					if len(regs) == 0 {
						badH = "load does not register the hashes of the loaded branches"
					}
					pre := kit.Reach(f, starts, kit.Opts{StopAt: kit.InstrSet(keep)})
					for _, c := range regs {
						if !pre.Has(c) {
							continue // after the branch was appended to the kept list
						}
						post := kit.Reach(f, kit.After(c.(ssa.Instruction)), kit.Opts{StopAt: kit.InstrSet(keep)})
						if post.Has(header.Instrs[0]) {
							badH = "the hashes of a loaded branch are registered in the long-lived height map before load decides whether to keep it (" + post.PathTo(header.Instrs[0], p.Pos) + "): the headers of a dropped side branch stay known, at their heights, as if they were pruned best-chain history"
						}
					}
					r.Check(badH == "", "ORDER", "load/heights-only-for-kept-branches", posOf(p, f.Blocks[0].Instrs[0]), "loadBranchHashHeights runs only for a branch that is appended to the kept list", badH)
				}
			}
			r.Check(badK == "", "COVER-ALL", "load/keeps-branches-within-depth", posOf(p, f.Blocks[0].Instrs[0]), "a loaded branch is skipped only behind branch.Height() < pruneHeight", badK)
		}
		r.Check(badT == "", "ORDER", "load/tip-before-sort", posOf(p, f.Blocks[0].Instrs[0]), "Longest() runs on the list in stored order, before sort.Sort", badT)
	}
}

func uniq(in []string) []string {
	m := map[string]bool{}
	var out []string
	for _, s := range in {
		if !m[s] {
			m[s] = true
			out = append(out, s)
		}
	}
	return out
}

// checkHistoricalStart: loadHistoricalHashHeights registers the best-chain hashes below the main
// branch's lowest in-memory height h from the header files. The first file it reads must be the one
// that holds height h-1, i.e. (h-1)/headersPerFile, and nothing is read for h == 0. Decided by
// evaluating the code between h and the first file read for one representative of each position of
// h relative to a file boundary.
func checkHistoricalStart(p *load.Program, r *kit.Report) {
	f := fn(p, r, "COVER-ALL", H, "Repository.loadHistoricalHashHeights")
	if f == nil {
		return
	}
	pos := posOf(p, f.Blocks[0].Instrs[0])
	var h *ssa.Call
	for _, c := range kit.CallsTo(f, H+".Branch.PrunedLowestHeight") {
		h, _ = c.(*ssa.Call)
	}
	var first *ssa.Call
	for _, c := range kit.CallsTo(f, H+".headersFilePath") {
		if first == nil {
			first, _ = c.(*ssa.Call)
		}
	}
	if h == nil || first == nil {
		r.Unknown("COVER-ALL", "loadHistoricalHashHeights/first-file", pos, "lowest in-memory height or file path computation not found")
		return
	}
	per := int64(1000)
	if c, ok := p.All[H].Types.Scope().Lookup("headersPerFile").(*types.Const); ok {
		if v, isInt := constInt64(c); isInt {
			per = v
		}
	}
	bad := ""
	for _, v := range []int64{0, 1, per - 1, per, per + 1, 2*per - 1, 2 * per, 2*per + 1, 50 * per, 50*per + 100} {
		outs, why := evalSlice(h, v, first, first.Call.Args[0])
		if why != "" && !(v == 0) {
			bad = why
			break
		}
		for _, got := range outs {
			switch {
			case v == 0 && got != evalReturned:
				bad = fmt.Sprintf("with nothing below the main branch (lowest height 0) file %d is read", got)
			case v > 0 && got == evalReturned:
				bad = fmt.Sprintf("with the main branch starting at height %d no file is read: heights below it are not registered", v)
			case v > 0 && got != (v-1)/per:
				bad = fmt.Sprintf("with the main branch starting at height %d the first file read is %d, want %d (the file holding height %d): best-chain hashes between the file start and the main branch are not registered", v, got, (v-1)/per, v-1)
			}
		}
	}
	r.Check(bad == "", "COVER-ALL", "loadHistoricalHashHeights/first-file", pos, "the first file read holds height lowest-1; nothing is read for lowest == 0", bad)
}

func constInt64(c *types.Const) (int64, bool) {
	v, ok := constant.Int64Val(constant.ToInt(c.Val()))
	return v, ok
}

func checkRecordSize(p *load.Program, r *kit.Report) {
	sc := p.All[H].Types.Scope()
	c, _ := sc.Lookup("headerDataSerializeSize").(*types.Const)
	v, ok := kit.ConstFromTypes(c)
	if !ok {
		r.Unknown("CONST-TABLE", "headerDataSerializeSize", "-", "constant not found")
		return
	}
	// 80 from the dependency: MaxBlockHeaderPayload or blockHeaderLen
	hdrLen := int64(-1)
	if wp := p.All[load.WirePkg]; wp != nil {
		for _, n := range []string{"MaxBlockHeaderPayload", "blockHeaderLen"} {
			if cc, ok := wp.Types.Scope().Lookup(n).(*types.Const); ok {
				if x, ok := kit.ConstFromTypes(cc); ok {
					hdrLen = x
				}
			}
		}
	}
	// big-int width from serializeBigInt's make
	width := int64(-1)
	if f := p.Func(H, "serializeBigInt"); f != nil {
		for _, it := range kit.WireLayout(f, nil, 0) {
			if it.Kind == "raw" {
				fmt.Sscanf(it.Type, "%d", &width)
			}
		}
	}
	r.Check(hdrLen > 0 && width > 0 && v == hdrLen+width, "CONST-TABLE", "headerDataSerializeSize", "headers/header_data.go",
		fmt.Sprintf("%d = %d (block header) + %d (work)", v, hdrLen, width),
		fmt.Sprintf("record size constant is %d but a record is %d + %d bytes: file offsets and record counts are wrong", v, hdrLen, width))
	// users
	bad := ""
	n := 0
	for _, name := range []string{"Repository.getData", "Repository.loadHistoricalHashHeights", "Repository.saveMainBranch"} {
		f := p.Func(H, name)
		if f == nil {
			continue
		}
		used := false
		kit.AllInstrs(f, func(in ssa.Instruction) {
			if b, ok := in.(*ssa.BinOp); ok && (b.Op == token.QUO || b.Op == token.MUL || b.Op == token.GEQ || b.Op == token.LSS) {
				if k, ok := kit.ConstInt(b.Y); ok && k == v {
					used = true
				}
			}
		})
		if used {
			n++
		} else {
			bad = name + " does not use the record size constant"
		}
	}
	r.Check(bad == "" && n == 3, "CONST-TABLE", "headerDataSerializeSize/users", "headers/headers.go", "getData, loadHistoricalHashHeights and saveMainBranch use the same record size", bad)
}

func checkBranchSave(p *load.Program, r *kit.Report) {
	f := fn(p, r, "MERGE-SHAPE", H, "Branch.Save")
	if f == nil {
		return
	}
	headersF := p.Field(H, "Branch", "headers")
	offF := p.Field(H, "Branch", "offset")
	lin := kit.NewLin(f)
	pos := posOf(p, f.Blocks[0].Instrs[0])
	// every successful return is preceded by a storage Write
	ws := storageCalls(f, "Write")
	var wi []ssa.Instruction
	for _, w := range ws {
		wi = append(wi, w)
	}
	reach := kit.Reach(f, []kit.Pt{kit.Entry(f)}, kit.Opts{StopAt: kit.InstrSet(wi...)})
	bad := ""
	for _, ret := range kit.Returns(f) {
		if reach.Has(ret) && reach.ErrClass(ret) != kit.ErrNonNil {
			bad = "Branch.Save can succeed without writing the branch file (" + reach.PathTo(ret, p.Pos) + "): changes to headers already on disk are not persisted"
		}
	}
	r.Check(bad == "" && len(ws) > 0, "MERGE-SHAPE", "Branch.Save/always-writes", pos, "every successful path writes the branch file", bad)
	// merge: store to previousBranch.headers = append(prev.headers[:b.offset-prev.offset], b.headers...)
	bad = "merge with the stored file not found"
	for _, w := range kit.DirectWrites(f) {
		if w.Field != headersF || w.Kind != "store" {
			continue
		}
		ap := isCallTo(w.Val, "builtin.append")
		if ap == nil {
			bad = "merged headers are not previous[:n] ++ current"
			continue
		}
		sl, ok := ap.Call.Args[0].(*ssa.Slice)
		if !ok || sl.High == nil || sl.Low != nil {
			bad = "stored headers are not cut at the prune offset difference"
			continue
		}
		hi := lin.Of(sl.High)
		recv := recvPtr(f.Params[0])
		_ = recv
		// b is a value receiver spilled to a local; its offset atom
		var prevBase ssa.Value
		if fl, base := kit.LoadedField(sl.X); fl == headersF {
			prevBase = base
		}
		if prevBase == nil {
			bad = "merge does not start from the stored branch's headers"
			continue
		}
		want := lin.FieldAt(f.Params[0], offF, ap).Sub(lin.FieldAt(prevBase, offF, ap))
		if !hi.Equal(want) {
			// the receiver is spilled: compare by atom names
			want2 := kit.LinAtom("f:" + lin.Key(f.Params[0]) + ".offset").Sub(kit.LinAtom("f:" + lin.Key(prevBase) + ".offset"))
			if !hi.Equal(want2) {
				bad = "stored headers are cut at " + hi.String() + ", want b.offset - previous.offset"
				continue
			}
		}
		// appended: all of b.headers
		if fl, base := kit.LoadedField(ap.Call.Args[1]); fl != headersF || lin.Key(base) != lin.Key(f.Params[0]) {
			bad = "not all in-memory headers are appended (" + describe(ap.Call.Args[1]) + "): headers already in the file are not refreshed"
			continue
		}
		bad = ""
	}
	r.Check(bad == "", "MERGE-SHAPE", "Branch.Save/merge", pos, "previous.headers[:b.offset-previous.offset] ++ b.headers", bad)
}

func checkC12(p *load.Program, r *kit.Report) {
	importRules(p, r, "C11", "Save and Clean write the consolidated main chain under the name its first header gives it: it must be the replaced oldest branch's, or the chain is merged into a stored side-branch file and the next Load reports a chain that was never saved", 1, nil, "CONSOLIDATE-IDENTITY")
	importRules(p, r, "C11", "a crash image holds the branch files of one Save and the header files of another: load must read the header files from the lowest height the loaded best branch still holds in memory, not from its tip", 1,
		func(o *kit.Obligation) bool { return strings.HasPrefix(o.Construct, "loadHistoricalHashHeights/") }, "COVER-ALL")
	importRules(p, r, "C01", "Load reports the branch with the most stored work: the work stored with a header must be its own value (NewBranch adds into a copy, never into the parent header's big.Int), or a one-header stub outweighs the saved tip after a restart", 4, nil, "WORK-FLOW")
	importRules(p, r, "C11", "a crash image is loadable only if every file that was completely written has the layout Load expects, and Save writes the main files before the branch files and index that depend on them", 3,
		func(o *kit.Obligation) bool {
			return o.Rule == "MAIN-FILE-SHAPE" || strings.HasPrefix(o.Construct, "Save/order") || strings.HasPrefix(o.Construct, "Branch.Save")
		}, "MAIN-FILE-SHAPE", "MERGE-SHAPE")
	importRules(p, r, "C11", "Load must report at least the work of the last completed Save: every branch the index names is loaded and kept unless its tip is below the retained depth", 1,
		func(o *kit.Obligation) bool { return strings.HasPrefix(o.Construct, "load/keeps-branches") }, "COVER-ALL")
	importRules(p, r, "C01", "after Load the reported tip must be the heaviest of the branches that could be read", 1,
		func(o *kit.Obligation) bool {
			return strings.Contains(o.Construct, "Repository.load") || strings.Contains(o.Construct, "Repository.migrate")
		}, "WRITERS")
	r.NotDecided = "the property proper — enumeration of write prefixes and what Load reconstructs from each (crash points are runtime states); per-key atomicity is the property's own assumption. Decided are the ordering and tolerance facts without which some prefix is unloadable."
	r.Rule("ORDER", "in saveBranches the index write happens after every branch file it names was saved (dominated by the loop exit; no Save reachable after the index write; a Save error returns before the index is written)", 2)
	r.Rule("WRITERS", "the only storage removal in the headers package is saveMainBranch's removal of the file after the last main-chain file; no branch file is removed; clean never writes the branch index; in saveMainBranch nothing is written after the removal and the removal is not repeated", 3)
	r.Rule("TOLERATE", "load skips a branch that cannot be linked (no error return on the Link failure edge) and re-selects the tip with Longest() from what it read; migrate ends its scan on an unreadable old-format file instead of failing", 3)

	if f := fn(p, r, "ORDER", H, "Repository.saveBranches"); f != nil {
		ws := storageCalls(f, "Write")
		saves := kit.CallsTo(f, H+".Branch.Save")
		bad := ""
		if len(ws) != 1 || len(saves) != 1 {
			bad = fmt.Sprintf("expected one index Write and one Branch.Save in a loop, found %d and %d", len(ws), len(saves))
		} else {
			save := saves[0].(*ssa.Call)
			if kit.Reach(f, kit.After(ws[0]), kit.Opts{}).Has(save) {
				bad = "a branch file is saved after the index that names it was written: a crash in between leaves an index entry without a file and Load fails"
			}
			header, _ := loopBodyEntry(f, save)
			if header == nil {
				bad = "Branch.Save is not in a loop over the branches"
			} else if cycleOf(save.Block())[ws[0].Block()] {
				bad = "the index is written inside the branch loop"
			}
			for _, e := range edgesOf(errNilGuards(f, save), false) {
				if kit.Reach(f, []kit.Pt{kit.EdgeStart(e)}, kit.Opts{}).Has(ws[0]) {
					bad = "the index is written although saving a branch failed"
				}
			}
			if !strings.Contains(keyShape(ws[0].Call.Args[1]), "index") {
				bad = "the write after the loop is not the index key: " + keyShape(ws[0].Call.Args[1])
			}
		}
		r.Check(bad == "", "ORDER", "saveBranches/index-last", posOf(p, f.Blocks[0].Instrs[0]), "index written once, after all branch files", bad)
		// the index entry written per branch is the first header's hash of the branch just saved
		if len(saves) == 1 {
			okE := false
			for _, c := range kit.Calls(f, func(id string) bool { return strings.HasSuffix(id, ".Buffer.Write") }) {
				if kit.DependsOn(c.Common().Args[1], func(v ssa.Value) bool { fl, _ := kit.LoadedField(v); return fl != nil && fl.Name() == "firstHeader" }) &&
					c.Block() == saves[0].Block() || cycleOf(saves[0].Block())[c.Block()] {
					okE = true
				}
			}
			r.Check(okE, "ORDER", "saveBranches/index-entry", posOf(p, saves[0]), "index entry = hash of the saved branch's first header, in the same iteration", "index entries are not written per saved branch")
		}
	}
	// WRITERS: Remove
	n := 0
	for _, f := range pkgFuncs(p, H) {
		for _, c := range storageCalls(f, "Remove") {
			n++
			id := kit.FuncID(f)
			ok := id == H+".Repository.saveMainBranch" && keyShape(c.Call.Args[1]) == "headersFilePath(int)"
			r.Check(ok, "WRITERS", "remove-in:"+kit.ShortID(id), posOf(p, c), "removes only the main-chain file after the last one",
				"storage removal of "+keyShape(c.Call.Args[1])+" in "+kit.ShortID(id)+": a crash between the removal and the next index write can leave the index naming a missing file")
		}
	}
	if n == 0 {
		r.OKTrivial("WRITERS", "remove-sites", "-", "no storage removal at all")
	}
	// the removal comes last: nothing is written after a header file was removed (removing the
	// files first and re-writing them afterwards leaves, between the two, an image in which files
	// that Load reads unconditionally are missing) and it is not repeated in a loop
	if f := p.Func(H, "Repository.saveMainBranch"); f != nil {
		bad := ""
		for _, rm := range storageCalls(f, "Remove") {
			after := kit.Reach(f, kit.After(rm), kit.Opts{})
			for _, w := range storageCalls(f, "Write") {
				if after.Has(w) {
					bad = "a main-chain header file is written (" + posOf(p, w) + ") after header files were removed (" + posOf(p, rm) + "): a crash in between leaves an image without files that Load reads unconditionally (below the loaded best branch's lowest in-memory height)"
				}
			}
			if after.Has(rm) {
				bad = "main-chain header files are removed in a loop: more than the one file after the last written can disappear before anything replaces them"
			}
		}
		r.Check(bad == "", "WRITERS", "saveMainBranch/remove-is-last", posOf(p, f.Blocks[0].Instrs[0]), "no Write is reachable after the Remove, which runs once", bad)
	}
	// clean never reaches the index write
	if cl := fn(p, r, "WRITERS", H, "Repository.clean"); cl != nil {
		seen := map[*ssa.Function]bool{}
		var reach func(f *ssa.Function) string
		reach = func(f *ssa.Function) string {
			if seen[f] || f.Blocks == nil {
				return ""
			}
			seen[f] = true
			for _, w := range storageCalls(f, "Write") {
				if strings.Contains(keyShape(w.Call.Args[1]), "index") {
					return kit.ShortID(kit.FuncID(f))
				}
			}
			res := ""
			kit.AllInstrs(f, func(in ssa.Instruction) {
				if c, ok := in.(ssa.CallInstruction); ok && res == "" {
					if sc := kit.StaticCallee(c); sc != nil && sc.Pkg != nil && sc.Pkg.Pkg.Path() == H {
						res = reach(sc)
					}
				}
			})
			return res
		}
		via := reach(cl)
		r.Check(via == "", "WRITERS", "clean/no-index-write", posOf(p, cl.Blocks[0].Instrs[0]), "clean rewrites branch files but leaves the index alone (interrupted clean keeps a consistent index)", "clean writes the branch index via "+via)
	}
	// TOLERATE
	if f := fn(p, r, "TOLERATE", H, "Repository.load"); f != nil {
		links := kit.CallsTo(f, H+".Branch.Link")
		bad := ""
		if len(links) != 1 {
			bad = "expected one Link call"
		} else {
			link := links[0].(*ssa.Call)
			header, _ := loopBodyEntry(f, link)
			eg := errNilGuards(f, link)
			if header == nil || len(eg) == 0 {
				bad = "Link is not error-checked inside the branch loop"
			} else {
				for _, e := range edgesOf(eg, false) {
					reach := kit.Reach(f, []kit.Pt{kit.EdgeStart(e)}, kit.Opts{StopAt: kit.InstrSet(header.Instrs[0])})
					for _, ret := range kit.Returns(f) {
						if reach.Has(ret) {
							bad = "an unlinkable branch makes the whole Load fail (" + retLabel(ret) + "): after an interrupted Clean the old index can name a fork whose parent moved, and the state becomes unloadable"
						}
					}
				}
			}
		}
		r.Check(bad == "", "TOLERATE", "load/skip-unlinkable", posOf(p, f.Blocks[0].Instrs[0]), "a branch that cannot be linked is logged and skipped", bad)
		longestF := p.Field(H, "Repository", "longest")
		okL := false
		for _, w := range kit.DirectWrites(f) {
			if w.Field == longestF && isCallTo(w.Val, H+".Branches.Longest") != nil {
				okL = true
			}
		}
		r.Check(okL, "TOLERATE", "load/recompute-longest", posOf(p, f.Blocks[0].Instrs[0]), "tip recomputed with Longest() over the loaded branches", "load does not recompute the most-work branch from what it read")
	}
	// migrate (Load's path when there is no branch index yet — e.g. after a crash during the very
	// first Save, which writes the version-1 main file before the index): a header file that is not
	// in the old format ends the scan, it does not make Load fail for ever
	if f := fn(p, r, "TOLERATE", H, "Repository.migrate"); f != nil {
		gets := kit.CallsTo(f, H+".getOldData")
		bad := ""
		if len(gets) != 1 {
			bad = fmt.Sprintf("expected one getOldData call, found %d", len(gets))
		} else {
			get := gets[0].(*ssa.Call)
			eg := errNilGuards(f, get)
			if len(eg) == 0 {
				bad = "the result of getOldData is not error-checked"
			}
			for _, e := range edgesOf(eg, false) {
				reach := kit.Reach(f, []kit.Pt{kit.EdgeStart(e)}, kit.Opts{})
				for _, ret := range kit.Returns(f) {
					if !reach.Has(ret) || len(ret.Results) == 0 {
						continue
					}
					if kit.DependsOn(ret.Results[len(ret.Results)-1], func(v ssa.Value) bool {
						ex, ok := v.(*ssa.Extract)
						return ok && ex.Tuple == ssa.Value(get) && ex.Index == 1
					}) {
						bad = "an unreadable old-format file makes migrate — and with it Load — fail (" + retLabel(ret) + " at " + posOf(p, ret) + "): a crash during the first Save leaves a version-1 main file without an index, and every later Load then fails instead of starting from genesis"
					}
				}
			}
		}
		r.Check(bad == "", "TOLERATE", "migrate/old-file-error-ends-scan", posOf(p, f.Blocks[0].Instrs[0]), "a getOldData error ends the scan; it is never returned", bad)
	}
}

func checkSaveMainBranch(p *load.Program, r *kit.Report) {
	f := fn(p, r, "MAIN-FILE-SHAPE", H, "Repository.saveMainBranch")
	if f == nil {
		return
	}
	pos := posOf(p, f.Blocks[0].Instrs[0])
	sc := p.All[H].Types.Scope()
	perC, _ := sc.Lookup("headersPerFile").(*types.Const)
	recC, _ := sc.Lookup("headerDataSerializeSize").(*types.Const)
	per, ok1 := kit.ConstFromTypes(perC)
	rec, ok2 := kit.ConstFromTypes(recC)
	if !ok1 || !ok2 {
		r.Unknown("MAIN-FILE-SHAPE", "saveMainBranch/constants", pos, "constants not found")
		return
	}
	lin := kit.NewLin(f)
	longestF := p.Field(H, "Repository", "longest")
	var lowest kit.Lin
	for _, c := range kit.CallsTo(f, H+".Branch.PrunedLowestHeight") {
		if recvIsField(c.Common().Args[0], longestF) {
			lowest = lin.Of(c.(*ssa.Call))
		}
	}
	paths := kit.CallsTo(f, H+".headersFilePath")
	bad := ""
	fileAtom := fmt.Sprintf("(%s)/(%d)", lowest.String(), per)
	if !lowest.OK || len(paths) == 0 {
		bad = "start height (repo.longest.PrunedLowestHeight()) or file path not found"
	} else {
		first := paths[0]
		for _, c := range paths {
			if c.Block().Dominates(first.Block()) {
				first = c
			}
		}
		if got := lin.Of(first.Common().Args[0]); !got.Equal(kit.LinAtom(fileAtom)) {
			bad = "first file index is " + got.String() + ", want lowest/" + fmt.Sprint(per)
		}
	}
	r.Check(bad == "", "MAIN-FILE-SHAPE", "saveMainBranch/first-file", pos, "file = PrunedLowestHeight()/headersPerFile", bad)
	// kept prefix of the stored file
	bad = "the stored file's prefix is not kept when the branch starts inside a file"
	kit.AllInstrs(f, func(in ssa.Instruction) {
		sl, ok := in.(*ssa.Slice)
		if !ok || sl.High == nil || sl.Low != nil {
			return
		}
		if e, ok := kit.Strip(sl.X).(*ssa.Extract); !ok || e.Index != 0 {
			return
		}
		want := lowest.Sub(kit.LinAtom(fileAtom).Scale(per)).Scale(rec).AddK(1)
		if got := lin.Of(sl.High); got.Equal(want) {
			bad = ""
		} else {
			bad = "prefix kept is " + got.String() + " bytes, want (lowest - file·" + fmt.Sprint(per) + ")·" + fmt.Sprint(rec) + " + 1"
		}
	})
	r.Check(bad == "", "MAIN-FILE-SHAPE", "saveMainBranch/kept-prefix", pos, "data[:(lowest-fileHeight)·recordSize+1]", bad)
	// rollover: next file every `per` heights, file+1
	bad = ""
	sawNext, sawFile := false, false
	kit.AllInstrs(f, func(in ssa.Instruction) {
		b, ok := in.(*ssa.BinOp)
		if !ok || b.Op != token.ADD || len(cycleOf(b.Block())) == 0 {
			return
		}
		if _, isPhi := b.X.(*ssa.Phi); !isPhi {
			return
		}
		k, ok := kit.ConstInt(b.Y)
		if !ok {
			return
		}
		// used as argument of headersFilePath → file index step; compared with height+1 → boundary
		// the counter (directly, or through the loop phi it feeds) is the file index handed to
		// headersFilePath
		isFileIdx := false
		seenV := map[ssa.Value]bool{}
		var follow func(v ssa.Value, d int)
		follow = func(v ssa.Value, d int) {
			if d > 3 || seenV[v] || v.Referrers() == nil {
				return
			}
			seenV[v] = true
			for _, ref := range *v.Referrers() {
				switch x := ref.(type) {
				case *ssa.Call:
					if kit.CallID(x) == H+".headersFilePath" {
						isFileIdx = true
					}
				case *ssa.Phi:
					follow(x, d+1)
				}
			}
		}
		follow(b, 0)
		if isFileIdx {
			sawFile = true
			if k != 1 {
				bad = "file index advances by " + fmt.Sprint(k)
			}
		}
		if k == per {
			sawNext = true
		} else if k != 1 {
			bad = fmt.Sprintf("a loop counter advances by %d, neither 1 nor headersPerFile", k)
		}
	})
	if bad == "" && !(sawNext && sawFile) {
		bad = "no rollover to the next file every headersPerFile heights"
	}
	r.Check(bad == "", "MAIN-FILE-SHAPE", "saveMainBranch/rollover", pos, "file+1 and boundary+headersPerFile at each file end", bad)
}

// checkConfigMerge: in load, every configured invalid hash that equals none of the hashes of the
// list is appended to it. Decided on the loop over config.InvalidHeaderHashes: from the start of an
// iteration, along the paths on which no Equal answers true, the append is reached before the next
// iteration (a `found` flag that is not reset per configured hash fails this: once one configured
// hash was found, the following ones are skipped and are accepted when submitted).
func checkConfigMerge(p *load.Program, r *kit.Report, rule string, f *ssa.Function, cfgF *types.Var) {
	var ap *ssa.Call
	kit.AllInstrs(f, func(in ssa.Instruction) {
		c, ok := in.(*ssa.Call)
		if ok && kit.CallID(c) == "builtin.append" && len(c.Call.Args) == 2 && kit.DependsOn(c.Call.Args[1], func(x ssa.Value) bool { return loadOfField(x, cfgF) }) {
			// the append that takes one configured hash inside the loop over them (a later
			// `append(merged, missing...)` that installs the collected hashes is not it)
			if ap == nil || (len(cycleOf(c.Block())) > 0 && len(cycleOf(ap.Block())) == 0) {
				ap = c
			}
		}
	})
	key := "load/every-configured-hash-merged"
	if ap == nil {
		r.Bad(rule, key, posOf(p, f.Blocks[0].Instrs[0]), "no append of a configured invalid hash")
		return
	}
	// the loop over the configured hashes: the outermost loop around the append whose range is the
	// config field
	var header, body *ssa.BasicBlock
	for _, h := range f.Blocks {
		back := false
		for _, pr := range h.Preds {
			if h.Dominates(pr) {
				back = true
			}
		}
		if !back {
			continue
		}
		l := naturalLoop(h)
		if !l[ap.Block()] {
			continue
		}
		if header == nil || len(l) > len(naturalLoop(header)) {
			header = h
		}
	}
	if header != nil {
		l := naturalLoop(header)
		for _, sc := range header.Succs {
			if l[sc] && sc != header {
				body = sc
			}
		}
	}
	if header == nil || body == nil {
		r.Unknown(rule, key, posOf(p, ap), "the append is not inside a loop over the configured hashes")
		return
	}
	eqTrue := map[kit.Edge]bool{}
	for _, e := range edgesOf(kit.FindGuards(f, kit.CallCond(func(c *ssa.Call) bool { return naturalLoop(header)[c.Block()] }, load.BitcoinPkg+".Hash32.Equal")), true) {
		eqTrue[e] = true
	}
	rr := kit.Reach(f, []kit.Pt{{B: body, I: 0}}, kit.Opts{StopAt: kit.InstrSet(ap), BlockEdge: func(e kit.Edge) bool { return eqTrue[e] }})
	bad := ""
	if rr.Has(header.Instrs[0]) {
		bad = "a configured invalid hash that equals none of the listed hashes can be skipped (" + rr.PathTo(header.Instrs[0], p.Pos) + "): the decision depends on state left by an earlier configured hash; the skipped hash is accepted when it is submitted"
	} else if !rr.Has(ap) {
		bad = "the append of a configured hash is not reachable when no listed hash equals it"
	}
	r.Check(bad == "", rule, key, posOf(p, ap), "each configured hash without an equal in the list is appended in its own iteration", bad)
}

// checkRestoreRegisters: the functions that rebuild the branch tree from storage (everything Load
// reaches that stores Repository.branches: load, migrate) must also enter the hashes of what they
// install into the long-lived hash→height map. While the headers are in memory the branches answer
// for them; once clean prunes them, that map is the only way a by-hash lookup finds a best-chain
// header (until the next restart re-reads the files).
func checkRestoreRegisters(p *load.Program, r *kit.Report, rule string) {
	branchesF := p.Field(H, "Repository", "branches")
	heightsF := p.Field(H, "Repository", "heights")
	root := p.Func(H, "Repository.Load")
	if branchesF == nil || heightsF == nil || root == nil {
		r.Unknown(rule, "Load/restore-registers-heights", "-", "anchors not found")
		return
	}
	funcs := pkgFuncs(p, H)
	// functions that write the height map (directly or through callees)
	writes := map[*ssa.Function]bool{}
	for _, g := range funcs {
		for _, w := range kit.DirectWrites(g) {
			if w.Field == heightsF && w.Kind == "mapupdate" {
				writes[g] = true
			}
		}
	}
	for changed := true; changed; {
		changed = false
		for _, g := range funcs {
			if writes[g] {
				continue
			}
			kit.AllInstrs(g, func(in ssa.Instruction) {
				if c, ok := in.(ssa.CallInstruction); ok {
					if sc := kit.StaticCallee(c); sc != nil && writes[sc] && !writes[g] {
						writes[g] = true
						changed = true
					}
				}
			})
		}
	}
	reach := staticReach(root)
	n := 0
	for g := range reach {
		if g == root || strings.HasPrefix(p.FileOf(g.Pos()), "headers/test_helpers.go") {
			continue
		}
		var stores []ssa.Instruction
		for _, w := range kit.DirectWrites(g) {
			if w.Field == branchesF && w.Kind == "store" && !kit.IsNilConst(w.Val) {
				stores = append(stores, w.Instr)
			}
		}
		if len(stores) == 0 {
			continue
		}
		name := kit.ShortID(kit.FuncID(g))
		// a function that only ever installs the genesis header: its hash is registered by the
		// constructor (C10 GUARD-DOM NewRepository/genesis-height-registered)
		genesisOnly := true
		nb := 0
		for _, c := range kit.CallsTo(g, H+".NewBranch") {
			nb++
			args := c.Common().Args
			if !kit.DependsOn(args[len(args)-1], func(v ssa.Value) bool {
				cc, ok := v.(*ssa.Call)
				return ok && kit.CallID(cc) == H+".genesisHeader"
			}) {
				genesisOnly = false
			}
		}
		if nb > 0 && genesisOnly && len(kit.CallsTo(g, H+".Branch.Add")) == 0 && len(kit.CallsTo(g, H+".LoadBranch")) == 0 {
			r.OK(rule, name+"/registers-heights", posOf(p, stores[0]), "installs the genesis header only (registered by the constructor)")
			n++
			continue
		}
		var regs []ssa.Instruction
		kit.AllInstrs(g, func(in ssa.Instruction) {
			if mu, ok := in.(*ssa.MapUpdate); ok {
				if fl, _ := kit.LoadedField(mu.Map); fl == heightsF {
					regs = append(regs, in)
				}
			}
			if c, ok := in.(ssa.CallInstruction); ok {
				if sc := kit.StaticCallee(c); sc != nil && writes[sc] {
					regs = append(regs, in)
				}
			}
		})
		bad := ""
		pre := kit.Reach(g, []kit.Pt{kit.Entry(g)}, kit.Opts{StopAt: kit.InstrSet(regs...)})
		for _, st := range stores {
			if !pre.Has(st) {
				continue // every path to this store registered heights before
			}
			post := kit.Reach(g, kit.After(st), kit.Opts{StopAt: kit.InstrSet(regs...)})
			for _, ret := range kit.Returns(g) {
				if !post.Has(ret) || post.ErrClass(ret) == kit.ErrNonNil {
					continue
				}
				// delegated to another restore function (`return repo.initializeWithGenesis()`)
				if c := callOf(kit.RetOperand(ret, 0), 0); c != nil {
					if sc := kit.StaticCallee(c); sc != nil && reach[sc] {
						continue
					}
				}
				if c, ok := kit.RetOperand(ret, 0).(*ssa.Call); ok {
					if sc := kit.StaticCallee(c); sc != nil && reach[sc] {
						continue
					}
				}
				bad = name + " installs branches read from storage (" + posOf(p, st) + ") and can return success (" + posOf(p, ret) + ") without entering their hashes into Repository.heights: once these headers are pruned from memory they are unknown by hash although they are on the best chain"
			}
		}
		n++
		r.Check(bad == "", rule, name+"/registers-heights", posOf(p, stores[0]), "the restored branches' hashes are registered in the height map on every successful path", bad)
	}
	if n < 2 {
		r.Unknown(rule, "Load/restore-registers-heights", "-", "expected at least 2 restore functions below Load that install branches, found %d", n)
	}
}
