package props

import (
	"go/token"
	"go/types"
	"strings"

	"golang.org/x/tools/go/ssa"

	"verif/internal/kit"
	"verif/internal/load"
)

func init() {
	register("C18", checkC18)
	register("C19", checkC19)
}

func checkC18(p *load.Program, r *kit.Report) {
	importRules(p, r, "C01", "`on the current best chain` is relative to the branch with the most accumulated work: the work stored with a header is its own value, never shared with the header it forks from", 4, nil, "WORK-FLOW")
	importRules(p, r, "C09", "the height reported for a verified proof is the label stored for the header's hash", 11, nil, "HEIGHT-LABEL")
	importRules(p, r, "C09", "a proof for a pruned height is compared with header(height) read from the 1000-header files: anything the repository caches from those files must be refreshed whenever they are rewritten, or a block that was invalidated and replaced keeps verifying as best chain", 1, nil, "NEW-STATE")
	importRules(p, r, "C08", "CheckHeader treats every entry of the hash→height map as a known header: a refused header must leave no entry", 12, nil, "NO-EFFECT-BEFORE-ERROR")
	importRules(p, r, "C11", "a header the repository does not know must make the proof fail: load must not register the hashes of side branches it drops, or their headers verify as pruned history", 1,
		func(o *kit.Obligation) bool { return strings.HasPrefix(o.Construct, "load/heights-only") }, "ORDER")
	importRules(p, r, "C01", "`on the current best chain` is relative to repo.longest: Longest() must pick the branch with the most accumulated work", 1, nil, "ARGMAX")
	importRules(p, r, "C09", "the height-map arm of the lookups compares with header(height): it must refuse heights beyond the tip, or a trimmed (invalidated) block still in the files verifies as best chain", 6, nil, "TIP-BOUND")
	importRules(p, r, "C09", "GetHeader resolves a block hash through the branches' hash maps, main branch first: a consolidated branch must start with a map of its own, or the hashes of displaced blocks resolve to the block that replaced them and a proof naming them verifies", 1, nil, "FRESH-MAP")
	importRules(p, r, "C17", "`on the current best chain` is a comparison with repo.longest: after an invalidation removed branches the tip must be re-selected on every path, or blocks of a deleted branch keep verifying as best chain", 1,
		func(o *kit.Obligation) bool {
			return strings.HasPrefix(o.Construct, "MarkHeaderInvalid/reselect-after-trim")
		}, "MUST-PASS")
	importRules(p, r, "C17", "a header removed by Trim must leave the branch's hash map, or GetHeader binds a proof that names its hash to the header that replaced it", 2, nil, "TRIM-SHAPE")
	importRules(p, r, "C17", "a header removed by Trim must leave the branch's hash map, or GetHeader binds a proof that names its hash to the header that replaced it", 2, nil, "SHRINK-SIBLING")
	r.NotDecided = "that the lookups answer truthfully for every history (C09); the merkle path arithmetic inside the dependency (CalculateRoot); proof corruption cases as values."
	r.Rule("GUARD-DOM", "VerifyMerkleProof returns success only behind (a) the nil-error edge of CheckHeader(hash of the header the proof carries) or of GetHeader(*proof.BlockHash), and (b) the nil-error edge of proof.Verify(); neither-arm returns an error", 3)
	r.Rule("ORDER", "on the hash-only arm the repository's header is installed into proof.BlockHeader before Verify(); Verify() is never called before the lookup", 2)
	r.Rule("PROVENANCE", "the returned height and most-work flag are the lookup's results", 1)
	r.Rule("FLAG-RULE", "the most-work flag returned comes from CheckHeader/GetHeader, which decide it by comparing the hash with the most-work chain's header at that height (in memory and on the height-map arm), never by membership of the long-lived height map", 4)
	checkFlagRule(p, r)
	r.Rule("DEP-FACT", "merkle_proof.MerkleProof.Verify (dependency body) returns nil with a header present only behind BlockHeader.MerkleRoot.Equal(computed root)", 1)

	f := fn(p, r, "GUARD-DOM", H, "Repository.VerifyMerkleProof")
	if f == nil {
		return
	}
	proof := f.Params[len(f.Params)-1]
	bhF := p.Field(load.MerklePkg, "MerkleProof", "BlockHeader")
	bhashF := p.Field(load.MerklePkg, "MerkleProof", "BlockHash")
	if bhF == nil || bhashF == nil {
		r.Unknown("GUARD-DOM", "anchor:MerkleProof-fields", "-", "dependency fields not found")
		return
	}
	checks := kit.CallsTo(f, H+".Repository.CheckHeader")
	gets := kit.CallsTo(f, H+".Repository.GetHeader")
	verifs := kit.CallsTo(f, load.MerklePkg+".MerkleProof.Verify")
	pos := posOf(p, f.Blocks[0].Instrs[0])
	if len(checks) != 1 || len(gets) != 1 || len(verifs) != 1 {
		r.Bad("GUARD-DOM", "VerifyMerkleProof/anchors", pos, "expected one CheckHeader, one GetHeader and one Verify call; found %d, %d, %d", len(checks), len(gets), len(verifs))
		return
	}
	check, get, verify := checks[0].(*ssa.Call), gets[0].(*ssa.Call), verifs[0].(*ssa.Call)
	isProofField := func(v ssa.Value, fld *types.Var) bool {
		fl, base := kit.LoadedField(v)
		return fl == fld && kit.Strip(base) == ssa.Value(proof)
	}
	// header arm: CheckHeader(*proof.BlockHeader.BlockHash())
	{
		bad := ""
		arg := kit.Strip(check.Call.Args[len(check.Call.Args)-1])
		var hc *ssa.Call
		if u, ok := arg.(*ssa.UnOp); ok && u.Op == token.MUL {
			hc = isCallTo(u.X, load.WirePkg+".BlockHeader.BlockHash")
		}
		if hc == nil || !isProofField(hc.Call.Args[0], bhF) {
			bad = "the hash looked up with CheckHeader is not the hash of the header the proof carries (" + describe(arg) + "): a forged header can ride on a known block's hash"
		}
		// only on the arm where the proof carries a header
		hasHdr := kit.FindGuards(f, func(c ssa.Value) (bool, bool) {
			b, ok := c.(*ssa.BinOp)
			if !ok || (b.Op != token.EQL && b.Op != token.NEQ) || !kit.IsNilConst(b.Y) || !isProofField(b.X, bhF) {
				return false, false
			}
			return true, b.Op == token.NEQ
		})
		if d, _ := kit.DominatedByEdges(f, check, edgesOf(hasHdr, true), nil, p.Pos); !d && bad == "" {
			bad = "CheckHeader is not confined to proofs that carry a header"
		}
		r.Check(bad == "", "GUARD-DOM", "VerifyMerkleProof/header-arm-lookup", posOf(p, check), "CheckHeader(hash of proof.BlockHeader)", bad)
		// on the header arm, GetHeader must not replace the check: the success return reachable via
		// the has-header edge must pass CheckHeader's nil edge
		var starts []kit.Pt
		for _, e := range edgesOf(hasHdr, true) {
			starts = append(starts, kit.EdgeStart(e))
		}
		// every test of proof.BlockHeader reads the same field until it is assigned
		hdrKey := func(c ssa.Value) (string, bool, bool) {
			b, ok := c.(*ssa.BinOp)
			if !ok || (b.Op != token.EQL && b.Op != token.NEQ) || !kit.IsNilConst(b.Y) || !isProofField(b.X, bhF) {
				return "", false, false
			}
			return "has-header", b.Op == token.NEQ, true
		}
		hdrKill := func(in ssa.Instruction) []string {
			if st, ok := in.(*ssa.Store); ok {
				if fl, _ := kit.FieldOfAddr(st.Addr); fl == bhF {
					return []string{"has-header"}
				}
			}
			return nil
		}
		reach := kit.Reach(f, starts, kit.Opts{BlockEdge: kit.EdgeSet(edgesOf(errNilGuards(f, check), true)...),
			CondKey: hdrKey, Kill: hdrKill, Assume: map[string]bool{"has-header": true}})
		bad = ""
		for _, ret := range kit.Returns(f) {
			if reach.Has(ret) && reach.ErrClass(ret) != kit.ErrNonNil {
				bad = "a proof that carries a header can verify without that header being looked up: " + reach.PathTo(ret, p.Pos)
			}
		}
		r.Check(bad == "" && len(hasHdr) > 0, "GUARD-DOM", "VerifyMerkleProof/header-arm-guard", posOf(p, check), "with a carried header, success only behind CheckHeader == nil", bad)
	}
	// hash arm: GetHeader(*proof.BlockHash), store proof.BlockHeader = header before Verify
	{
		bad := ""
		arg := kit.Strip(get.Call.Args[len(get.Call.Args)-1])
		if u, ok := arg.(*ssa.UnOp); !ok || u.Op != token.MUL || !isProofField(u.X, bhashF) {
			bad = "GetHeader is not keyed by *proof.BlockHash"
		}
		var store ssa.Instruction
		for _, w := range kit.DirectWrites(f) {
			if w.Field == bhF && kit.Strip(w.Val) == extractOf(get, 0) {
				store = w.Instr
			}
		}
		if store == nil {
			bad = "the repository's header is not installed into proof.BlockHeader on the hash-only arm: Verify() would have no header to compare the root with"
		} else {
			eg := errNilGuards(f, get)
			if d, _ := kit.DominatedByEdges(f, store, edgesOf(eg, true), nil, p.Pos); !d {
				bad = "header installed although GetHeader failed"
			}
			// every path from GetHeader's nil edge to Verify passes the store
			var starts []kit.Pt
			for _, e := range edgesOf(eg, true) {
				starts = append(starts, kit.EdgeStart(e))
			}
			if kit.Reach(f, starts, kit.Opts{StopAt: kit.InstrSet(store)}).Has(verify) {
				bad = "Verify() can run on the hash-only arm before the looked-up header is installed"
			}
		}
		r.Check(bad == "", "ORDER", "VerifyMerkleProof/hash-arm", posOf(p, get), "GetHeader(*proof.BlockHash) → proof.BlockHeader = header → Verify()", bad)
	}
	// Verify after a lookup, success behind Verify()==nil
	{
		pre := kit.Reach(f, []kit.Pt{kit.Entry(f)}, kit.Opts{StopAt: kit.InstrSet(check, get)})
		r.Check(!pre.Has(verify), "ORDER", "VerifyMerkleProof/lookup-before-verify", posOf(p, verify), "Verify() only after a lookup", "proof.Verify() reachable without any header lookup")
		vg := errNilGuards(f, verify)
		lookups := append(edgesOf(errNilGuards(f, check), true), edgesOf(errNilGuards(f, get), true)...)
		k := newKeyer()
		n := 0
		for _, ret := range kit.Returns(f) {
			if kit.ReturnErrClass(ret) == kit.ErrNonNil {
				continue
			}
			n++
			// a merged return (helper expansion) carries the error in a phi: what matters is that
			// the paths avoiding the pass edges arrive with a non-nil error
			behind := func(pass []kit.Edge) (bool, string) {
				rr := kit.Reach(f, []kit.Pt{kit.Entry(f)}, kit.Opts{BlockEdge: kit.EdgeSet(pass...)})
				if !rr.Has(ret) || rr.ErrClass(ret) == kit.ErrNonNil {
					return true, ""
				}
				return false, rr.PathTo(ret, p.Pos)
			}
			ok1, path1 := behind(edgesOf(vg, true))
			if !ok1 && len(vg) == 0 {
				// Verify's error is merged with the lookup's before it is tested (`if err == nil {
				// err = Wrap(proof.Verify()) }; if err != nil { return }`): no test of its own, so the
				// two halves are asked separately — no success without calling Verify, and no success
				// once Verify has failed
				ok1, path1 = true, ""
				skip := kit.Reach(f, []kit.Pt{kit.Entry(f)}, kit.Opts{StopAt: kit.InstrSet(verify)})
				if skip.Has(ret) && skip.ErrClass(ret) != kit.ErrNonNil {
					ok1, path1 = false, skip.PathTo(ret, p.Pos)
				}
				if ok1 {
					failed := kit.Reach(f, kit.After(verify), kit.Opts{AssumeNonNil: []ssa.Value{verify}})
					if failed.Has(ret) && failed.ErrClass(ret) != kit.ErrNonNil {
						ok1, path1 = false, failed.PathTo(ret, p.Pos)
					}
				}
			}
			ok2, path2 := behind(lookups)
			key := k.key("VerifyMerkleProof/success")
			switch {
			case !ok1:
				r.Bad("GUARD-DOM", key, posOf(p, ret), "success without proof.Verify() == nil: %s", path1)
			case !ok2:
				r.Bad("GUARD-DOM", key, posOf(p, ret), "success without a successful header lookup: %s", path2)
			default:
				r.OK("GUARD-DOM", key, posOf(p, ret), "behind a successful lookup and Verify() == nil")
			}
			// provenance of height / flag
			okP := true
			for i := 0; i < 2; i++ {
				v := kit.RetOperand(ret, i)
				okP = okP && kit.DependsOn(v, func(x ssa.Value) bool {
					e, ok := x.(*ssa.Extract)
					return ok && (e.Tuple == ssa.Value(check) || e.Tuple == ssa.Value(get))
				})
			}
			r.Check(okP, "PROVENANCE", k.key("VerifyMerkleProof/results"), posOf(p, ret), "height and flag come from CheckHeader/GetHeader", "returned height/flag do not come from the header lookup")
		}
		if n == 0 {
			r.Bad("GUARD-DOM", "VerifyMerkleProof/success", pos, "no successful return")
		}
	}
	// dependency fact
	if dep := p.Func(load.MerklePkg, "MerkleProof.Verify"); dep != nil && dep.Blocks != nil {
		rootF := p.Field(load.WirePkg, "BlockHeader", "MerkleRoot")
		hasHdr := kit.FindGuards(dep, func(c ssa.Value) (bool, bool) {
			b, ok := c.(*ssa.BinOp)
			if !ok || (b.Op != token.EQL && b.Op != token.NEQ) || !kit.IsNilConst(b.Y) {
				return false, false
			}
			if fl, _ := kit.LoadedField(b.X); fl != bhF {
				return false, false
			}
			return true, b.Op == token.NEQ
		})
		eq := kit.FindGuards(dep, kit.CallCond(func(c *ssa.Call) bool {
			fl, _ := kit.FieldOfAddr(c.Call.Args[0])
			return fl == rootF
		}, load.BitcoinPkg+".Hash32.Equal"))
		var starts []kit.Pt
		for _, e := range edgesOf(hasHdr, true) {
			starts = append(starts, kit.EdgeStart(e))
		}
		reach := kit.Reach(dep, starts, kit.Opts{BlockEdge: kit.EdgeSet(edgesOf(eq, true)...)})
		bad := ""
		for _, ret := range kit.Returns(dep) {
			if reach.Has(ret) && reach.ErrClass(ret) != kit.ErrNonNil {
				bad = "the dependency's Verify can return nil with a header present without comparing the computed root with the header's merkle root"
			}
		}
		r.Check(bad == "" && len(hasHdr) > 0 && len(eq) > 0, "DEP-FACT", "MerkleProof.Verify/root-compare", "pkg/merkle_proof/merkle_proof.go", "recomputed from the dependency source: header present ⇒ nil only behind MerkleRoot.Equal(root)", bad)
	} else {
		r.Unknown("DEP-FACT", "MerkleProof.Verify/root-compare", "-", "dependency body not loaded")
	}
}

func checkC19(p *load.Program, r *kit.Report) {
	r.Rule("SPLIT-ABOVE", "inside the back-off loop a chain-split entry is inserted only when the height about to be listed is strictly below split.Height", 1)
	checkSplitAboveListedHeight(p, r, "SPLIT-ABOVE")
	r.Rule("BASE-LABEL", "the locator entry of a side branch carries the height its hash was read at", 1)
	checkSideBaseLabel(p, r, "BASE-LABEL")
	importRules(p, r, "C09", "a peer's reply connects to a locator hash only if that hash is found at its true height: the labels Truncate/Connect/Consolidate write when Clean rebuilds the branches", 11, nil, "HEIGHT-LABEL")
	importRules(p, r, "C17", "locators are built from the best chain: a descendant branch that survives the trim of an invalidated header keeps the invalidated chain as the tip the locator starts from", 2, nil, "TRIM-SHAPE")
	importRules(p, r, "C11", "after a restart the best chain is what Branch.Save wrote: headers of an abandoned chain left in a branch file come back between the fork and the tip, and the locator names them", 2,
		func(o *kit.Obligation) bool { return strings.HasPrefix(o.Construct, "Branch.Save") }, "MERGE-SHAPE")
	importRules(p, r, "C17", "locators are built from repo.longest: after MarkHeaderInvalid removed branches the tip must be re-selected, or the locator names removed headers", 1,
		func(o *kit.Obligation) bool { return strings.Contains(o.Construct, "reselect-after-trim") }, "MUST-PASS")
	importRules(p, r, "C10", "a locator names the base of every tracked side branch: pruning must keep the headers side branches fork from", 1, nil, "COVER-ALL")
	importRules(p, r, "C01", "best-chain locator hashes are read from repo.longest: after a restart load must select the most-work branch (the branch index lists a displaced branch first until the next consolidation), or the locator walks the displaced chain", 1,
		func(o *kit.Obligation) bool { return strings.Contains(o.Construct, "Repository.load") }, "WRITERS")
	importRules(p, r, "C09", "a peer's reply connects only if ProcessHeader finds its previous hash in the branch that really holds it: Find answers from each branch's own heightsMap, which two branches must never share", 3, nil, "FRESH-MAP")
	importRules(p, r, "C08", "no hash appears twice in a locator only if a re-delivered side-branch base is recognised as known: the duplicate lookup must search every branch, or a second branch with the same base is created", 2,
		func(o *kit.Obligation) bool { return strings.HasSuffix(o.Construct, "-lookup-scope") }, "ORDER")
	r.NotDecided = "that a protocol-conformant peer's reply connects to a header we hold (needs a peer model); whether sorting by height makes every duplicate adjacent; locator contents for a given history."
	r.Rule("PROVENANCE", "every hash placed in a locator is AtHeight(h).Hash / Last().Hash of the branch, a split's BeforeHash, or AtHeight(PrunedLowestHeight()).Hash of a branch other than the best one", 5)
	r.Rule("START-SHAPE", "the best-chain walk starts at Height()-1 (genesis alone at height 0), steps down by a positive, doubling delta, tests len(result) >= max after every best-chain hash, and ends before adding a hash only where AtHeight(height) has no header", 3)
	r.Rule("DEDUP", "the locator returned on the wire is de-duplicated by a loop that keeps an element exactly when it is the first or its hash differs from the previous kept hash, the previous hash being carried across iterations", 2)
	r.Rule("DERIVED-STATE", "locators are computed from the tree state; any other Repository field they read is rewritten by every function that changes branches/longest", 1)
	r.Rule("CALL-SITE", "senders request locators with positive maxima (10 initial, 3 follow-up) and use the verify-only locator for verification", 3)

	beforeF := p.Field(H, "Split", "BeforeHash")
	hashF := p.Field(H, "HeaderData", "Hash")
	hhHash := p.Field(H, "HeightHash", "Hash")
	longestF := p.Field(H, "Repository", "longest")

	// PROVENANCE: every store to HeightHash.Hash in the three functions
	for _, name := range []string{"Branch.GetLocatorHashes", "Repository.GetLocatorHashes", "Repository.GetVerifyOnlyLocatorHashes"} {
		f := fn(p, r, "PROVENANCE", H, name)
		if f == nil {
			continue
		}
		k := newKeyer()
		n := 0
		for _, w := range kit.DirectWrites(f) {
			if w.Field != hhHash {
				continue
			}
			n++
			v := kit.Strip(w.Val)
			fl, base := kit.LoadedField(v)
			what, ok := "", false
			switch {
			case fl == beforeF:
				what, ok = "split.BeforeHash", true
			case fl == hashF:
				c := callOf(base, 0)
				if c != nil && (kit.CallID(c) == H+".Branch.AtHeight" || kit.CallID(c) == H+".Branch.Last") {
					what, ok = kit.ShortID(kit.CallID(c))+"(…).Hash", true
					if name == "Repository.GetLocatorHashes" {
						// side-branch base: AtHeight(PrunedLowestHeight()) of a branch that is not the longest
						if kit.CallID(c) != H+".Branch.AtHeight" || isCallTo(c.Call.Args[1], H+".Branch.PrunedLowestHeight") == nil {
							what, ok = "side-branch hash that is not the branch's lowest available header", false
						}
					}
				}
			}
			if !ok && what == "" {
				what = describe(v)
			}
			r.Check(ok, "PROVENANCE", k.key(name+"/locator-hash"), posOf(p, w.Instr), "hash is "+what, "a locator hash comes from "+what+": not a best-chain header, a split fork point or a tracked side-branch base")
		}
		if n == 0 && name != "Repository.GetLocatorHashes" {
			r.Unknown("PROVENANCE", name+"/locator-hash", "-", "no locator entries built")
		}
		if name == "Repository.GetLocatorHashes" {
			// best part comes from repo.longest.GetLocatorHashes(repo.splits, 5, max)
			cs := kit.CallsTo(f, H+".Branch.GetLocatorHashes")
			bad := ""
			if len(cs) != 1 || !recvIsField(cs[0].Common().Args[0], longestF) {
				bad = "the best-chain part of the locator is not built from repo.longest"
			} else {
				a := cs[0].Common().Args
				if d, ok := kit.ConstInt(a[2]); !ok || d <= 0 {
					bad = "initial back-off delta is not a positive constant"
				}
				if kit.Strip(a[3]) != ssa.Value(f.Params[len(f.Params)-1]) {
					bad = "the requested maximum is not passed on"
				}
			}
			r.Check(bad == "", "PROVENANCE", name+"/best-chain-part", posOf(p, f.Blocks[0].Instrs[0]), "repo.longest.GetLocatorHashes(repo.splits, delta>0, max)", bad)
			// side branches exclude the longest
			gs := kit.FindGuards(f, func(c ssa.Value) (bool, bool) {
				b, ok := c.(*ssa.BinOp)
				if !ok || (b.Op != token.EQL && b.Op != token.NEQ) {
					return false, false
				}
				if loadOfField(b.X, longestF) || loadOfField(b.Y, longestF) {
					return true, b.Op == token.NEQ
				}
				return false, false
			})
			okS := len(gs) > 0
			for _, w := range kit.DirectWrites(f) {
				if w.Field == hhHash {
					if d, _ := kit.DominatedByEdges(f, w.Instr, edgesOf(gs, true), nil, p.Pos); !d {
						okS = false
					}
				}
			}
			r.Check(okS, "PROVENANCE", name+"/side-branches-only", posOf(p, f.Blocks[0].Instrs[0]), "side-branch bases are added only for branch != repo.longest", "the best branch's own base is added as a side-branch base")
		}
	}

	// START-SHAPE on Branch.GetLocatorHashes
	if f := fn(p, r, "START-SHAPE", H, "Branch.GetLocatorHashes"); f != nil {
		lin := kit.NewLin(f)
		pos := posOf(p, f.Blocks[0].Instrs[0])
		var hcall *ssa.Call
		for _, c := range kit.CallsTo(f, H+".Branch.Height") {
			hcall = c.(*ssa.Call)
		}
		ats := kit.CallsTo(f, H+".Branch.AtHeight")
		bad := ""
		if hcall == nil || len(ats) != 1 {
			bad = "expected Height() and one AtHeight walk"
		} else {
			at := ats[0].(*ssa.Call)
			hphi, ok := at.Call.Args[1].(*ssa.Phi)
			if !ok {
				bad = "walk height is not loop-carried"
			} else {
				// init edge = Height()-1 ; other edge = phi - delta
				hL := lin.Of(hcall)
				okInit, okStep := false, false
				for _, e := range hphi.Edges {
					if lin.Of(e).Equal(hL.AddK(-1)) {
						okInit = true
					}
					if b, ok := e.(*ssa.BinOp); ok && b.Op == token.SUB && b.X == ssa.Value(hphi) {
						// delta phi: init parameter delta, doubled
						if dphi, ok := b.Y.(*ssa.Phi); ok {
							okStep = true
							for _, de := range dphi.Edges {
								if de == ssa.Value(prmAt(f, 2)) {
									continue
								}
								m, ok := de.(*ssa.BinOp)
								if !ok || m.Op != token.MUL || m.X != ssa.Value(dphi) {
									okStep = false
								} else if k, ok := kit.ConstInt(m.Y); !ok || k < 1 {
									okStep = false
								}
							}
						}
					}
				}
				if !okInit {
					bad = "the walk does not start at Height()-1: the peer's reply would not start with our tip"
				} else if !okStep {
					bad = "the walk does not step down by the (growing, positive) delta"
				}
			}
			// genesis alone at height 0
			g0 := kit.FindGuards(f, func(c ssa.Value) (bool, bool) {
				b, ok := c.(*ssa.BinOp)
				if !ok || (b.Op != token.EQL && b.Op != token.NEQ) || b.X != ssa.Value(hcall) {
					return false, false
				}
				if z, ok := kit.ConstInt(b.Y); !ok || z != 0 {
					return false, false
				}
				return true, b.Op == token.EQL
			})
			if len(g0) != 1 && bad == "" {
				bad = "no special case for height 0 (genesis alone)"
			}
		}
		r.Check(bad == "", "START-SHAPE", "Branch.GetLocatorHashes/walk", pos, "starts at Height()-1, steps down by delta, delta doubles; genesis alone at 0", bad)
		// max test after every best-chain append
		bad = ""
		maxP := prmAt(f, 3)
		var bestAppend ssa.Instruction
		for _, w := range kit.DirectWrites(f) {
			if w.Field == hhHash {
				if fl, _ := kit.LoadedField(kit.Strip(w.Val)); fl == hashF {
					if d, _ := kit.DominatedByEdges(f, w.Instr, nil, nil, p.Pos); !d {
						if len(cycleOf(w.Instr.Block())) > 0 {
							bestAppend = w.Instr
						}
					}
				}
			}
		}
		mg := kit.FindGuards(f, func(c ssa.Value) (bool, bool) {
			b, ok := c.(*ssa.BinOp)
			if !ok || b.Y != ssa.Value(maxP) {
				return false, false
			}
			switch b.Op {
			case token.GEQ, token.GTR, token.EQL:
				return true, true
			}
			return false, false
		})
		if bestAppend == nil || len(mg) == 0 {
			bad = "no test of len(result) against max in the walk"
		} else {
			header, _ := loopBodyEntry(f, bestAppend)
			var stops []ssa.Instruction
			for _, g := range mg {
				stops = append(stops, g.If)
			}
			if header != nil && kit.Reach(f, kit.After(bestAppend), kit.Opts{StopAt: kit.InstrSet(stops...)}).Has(header.Instrs[0]) {
				bad = "a best-chain hash can be added and the walk continue without testing the maximum"
			}
			// the test compares len(result) with max using >= (or ==)
			for _, g := range mg {
				b := g.If.Cond.(*ssa.BinOp)
				if b.Op == token.GTR {
					bad = "the maximum is tested with >: one hash more than requested is returned"
				}
				if b.Op == token.EQL {
					// equality is only a bound when the list grows by one between two tests
					rr := kit.Reach(f, []kit.Pt{kit.EdgeStart(g.FailEdge())}, kit.Opts{StopAt: kit.InstrSet(g.If)})
					nApp := 0
					kit.AllInstrs(f, func(in ssa.Instruction) {
						if c, ok := in.(*ssa.Call); ok && kit.CallID(c) == "builtin.append" && rr.Has(in) && c.Type() == b.X.(*ssa.Call).Call.Args[0].Type() {
							nApp++
						}
					})
					if nApp > 1 {
						bad = "the maximum is tested with == although the list can grow by more than one entry between two tests (fork points are added in the same walk): the length steps over max and the walk runs on"
					}
				}
			}
		}
		r.Check(bad == "", "START-SHAPE", "Branch.GetLocatorHashes/max", pos, "len(result) >= max tested after each best-chain hash", bad)
		// the walk gives up before adding a best-chain hash only when AtHeight(height) — which
		// walks into the parent branches — has no header (or the height ran below 0): a bound taken
		// from the branch's own pruned height stops a one-header child branch before its parent's
		// header, and the locator then starts at genesis instead of at the tip's parent
		{
			badW := ""
			ats := kit.CallsTo(f, H+".Branch.AtHeight")
			var inLoopAt *ssa.Call
			for _, c := range ats {
				if len(cycleOf(c.Block())) > 0 {
					inLoopAt, _ = c.(*ssa.Call)
				}
			}
			if inLoopAt == nil {
				badW = "AtHeight is not asked inside the walk"
			} else if header, loop := innermostLoop(f, inLoopAt.Block()); header == nil {
				badW = "the walk is not a loop"
			} else {
				var body *ssa.BasicBlock
				for _, sc := range header.Succs {
					if loop[sc] && sc != header {
						body = sc
					}
				}
				if body == nil {
					body = header
				}
				var keeps []ssa.Instruction
				kit.AllInstrs(f, func(in ssa.Instruction) {
					c, ok := in.(*ssa.Call)
					if !ok || kit.CallID(c) != "builtin.append" || !loop[c.Block()] {
						return
					}
					if kit.DependsOn(c.Call.Args[1], func(v ssa.Value) bool {
						cc, ok := v.(*ssa.Call)
						return ok && kit.CallID(cc) == H+".Branch.AtHeight"
					}) {
						keeps = append(keeps, in)
					} else if sl, ok := c.Call.Args[1].(*ssa.Slice); ok {
						// append(result, &HeightHash{Hash: data.Hash}): the element is stored into
						// the variadic array
						if al, ok := sl.X.(*ssa.Alloc); ok {
							for _, ref := range *al.Referrers() {
								if ia, ok := ref.(*ssa.IndexAddr); ok {
									for _, r2 := range *ia.Referrers() {
										if st, ok := r2.(*ssa.Store); ok {
											if obj, ok := kit.Strip(st.Val).(*ssa.Alloc); ok {
												for _, r3 := range *obj.Referrers() {
													if fa, ok := r3.(*ssa.FieldAddr); ok {
														for _, r4 := range *fa.Referrers() {
															if st2, ok := r4.(*ssa.Store); ok && kit.DependsOn(st2.Val, func(v ssa.Value) bool {
																cc, ok := v.(*ssa.Call)
																return ok && kit.CallID(cc) == H+".Branch.AtHeight"
															}) {
																keeps = append(keeps, in)
															}
														}
													}
												}
											}
										}
									}
								}
							}
						}
					}
				})
				nilOrNeg := kit.FindGuards(f, func(c ssa.Value) (bool, bool) {
					b, ok := c.(*ssa.BinOp)
					if !ok {
						return false, false
					}
					if (b.Op == token.EQL || b.Op == token.NEQ) && kit.IsNilConst(b.Y) {
						if cc, ok := kit.Strip(b.X).(*ssa.Call); ok && kit.CallID(cc) == H+".Branch.AtHeight" {
							return true, b.Op == token.EQL
						}
					}
					if k, isC := kit.ConstInt(b.Y); isC && k == 0 && b.Op == token.LSS {
						return true, true
					}
					return false, false
				})
				if len(keeps) == 0 {
					badW = "no hash taken from AtHeight is added inside the walk"
				} else {
					rr := kit.Reach(f, []kit.Pt{{B: body, I: 0}}, kit.Opts{StopAt: kit.InstrSet(keeps...), BlockEdge: kit.EdgeSet(edgesOf(nilOrNeg, true)...)})
					for _, b := range f.Blocks {
						if !loop[b] && len(b.Instrs) > 0 && rr.Has(b.Instrs[0]) {
							badW = "the walk can stop before adding the hash at the current height although AtHeight(height) was not asked or returned a header (" + rr.PathTo(b.Instrs[0], p.Pos) + "): AtHeight walks into the parent branches, any other bound (the branch's own pruned height) drops the tip's parent from the locator of a short child branch"
							break
						}
					}
				}
			}
			r.Check(badW == "", "START-SHAPE", "Branch.GetLocatorHashes/stops-only-without-header", pos, "before a best-chain hash is added the walk ends only behind AtHeight(height) == nil (or height < 0)", badW)
		}
	}

	// DEDUP
	for _, name := range []string{"Repository.GetLocatorHashes", "Repository.GetVerifyOnlyLocatorHashes"} {
		f := fn(p, r, "DEDUP", H, name)
		if f == nil {
			continue
		}
		bad := ""
		for _, ret := range kit.Returns(f) {
			if kit.ReturnErrClass(ret) == kit.ErrNonNil {
				continue
			}
			c := listSourceCall(p, f, kit.RetOperand(ret, 0), 0)
			var d *ssa.Function
			if c != nil {
				d = kit.StaticCallee(c)
			}
			if d == nil || d.Blocks == nil {
				// the de-duplication loop may be written (or expanded) in the function itself
				fromLoop := kit.DependsOn(kit.RetOperand(ret, 0), func(v ssa.Value) bool {
					c, ok := v.(*ssa.Call)
					return ok && kit.CallID(c) == "builtin.append" && len(cycleOf(c.Block())) > 0
				})
				if why := dedupShape(p, f); why == "" && fromLoop {
					continue
				}
				bad = "the locator is returned without passing through a de-duplication function"
				continue
			}
			if why := dedupShape(p, d); why != "" {
				bad = kit.ShortID(kit.FuncID(d)) + ": " + why
			}
		}
		r.Check(bad == "", "DEDUP", name+"/dedup", posOf(p, f.Blocks[0].Instrs[0]), "result = dedup(sorted hashes), dedup keeps first and hash-different elements, previous hash carried", bad)
	}

	// DERIVED-STATE
	if f := fn(p, r, "DERIVED-STATE", H, "Repository.GetLocatorHashes"); f != nil {
		allowed := map[string]bool{"longest": true, "branches": true, "splits": true, "requiredSplit": true, "Mutex": true, "genesisHash": true, "config": true}
		derived := map[*types.Var]bool{}
		// an address inside a Repository field that is not tree state
		isOther := func(addr ssa.Value) bool {
			for i := 0; i < 8; i++ {
				fa, ok := addr.(*ssa.FieldAddr)
				if !ok {
					return false
				}
				fl, base := kit.FieldOfAddr(fa)
				if kit.Strip(base) == ssa.Value(f.Params[0]) || kit.Root(base) == ssa.Value(f.Params[0]) && isRecvField(fa, f.Params[0]) {
					return fl != nil && !allowed[fl.Name()]
				}
				addr = fa.X
			}
			return false
		}
		kit.AllInstrs(f, func(in ssa.Instruction) {
			if fa, ok := in.(*ssa.FieldAddr); ok {
				if fl, base := kit.FieldOfAddr(fa); fl != nil && kit.Root(base) == ssa.Value(f.Params[0]) && !allowed[fl.Name()] {
					if diagnosticOnly(fa, isOther) {
						return // counters and statistics: written, never used for the answer
					}
					derived[fl] = true
				}
			}
		})
		bad := ""
		if len(derived) > 0 {
			branchesF := p.Field(H, "Repository", "branches")
			funcs := pkgFuncs(p, H)
			for d := range derived {
				// writesD: stores d directly or through a callee
				writesD := map[*ssa.Function]bool{}
				for _, g := range funcs {
					for _, w := range kit.DirectWrites(g) {
						if w.Field == d {
							writesD[g] = true
						}
					}
				}
				callers := map[*ssa.Function][]*ssa.Function{}
				for _, g := range funcs {
					kit.AllInstrs(g, func(in ssa.Instruction) {
						if c, ok := in.(ssa.CallInstruction); ok {
							if sc := kit.StaticCallee(c); sc != nil {
								callers[sc] = append(callers[sc], g)
							}
						}
					})
				}
				for changed := true; changed; {
					changed = false
					for _, g := range funcs {
						if writesD[g] {
							continue
						}
						kit.AllInstrs(g, func(in ssa.Instruction) {
							if c, ok := in.(ssa.CallInstruction); ok {
								if sc := kit.StaticCallee(c); sc != nil && writesD[sc] && !writesD[g] {
									writesD[g] = true
									changed = true
								}
							}
						})
					}
				}
				var covered func(g *ssa.Function, depth int) bool
				covered = func(g *ssa.Function, depth int) bool {
					if writesD[g] {
						return true
					}
					if depth > 4 || g.Object() == nil || g.Object().Exported() || len(callers[g]) == 0 {
						return false
					}
					for _, c := range callers[g] {
						if !covered(c, depth+1) {
							return false
						}
					}
					return true
				}
				for _, g := range funcs {
					changes := false
					for _, w := range kit.DirectWrites(g) {
						if (w.Field == branchesF || w.Field == longestF) && !kit.IsFresh(w.Base) {
							changes = true
						}
					}
					for _, c := range kit.CallsTo(g, H+".Branches.Trim") {
						if fl, _ := kit.FieldOfAddr(c.Common().Args[0]); fl == branchesF {
							changes = true
						}
					}
					if !changes || fname(g) == "NewRepository" || strings.HasPrefix(p.FileOf(g.Pos()), "headers/test_helpers.go") {
						continue
					}
					if !covered(g, 0) {
						if bad == "" {
							bad = "the locator reads Repository." + d.Name() + ", which is not refreshed by every function that changes the tree (a stale locator can be sent): "
						}
						bad += kit.ShortID(kit.FuncID(g)) + " "
					}
				}
			}
		}
		r.Check(bad == "", "DERIVED-STATE", "Repository.GetLocatorHashes/inputs", posOf(p, f.Blocks[0].Instrs[0]), "reads only tree state (longest, branches, splits)", bad)
	}

	// CALL-SITE
	for _, s := range []struct {
		fn, callee string
		want       int64
	}{{"BitcoinNode.sendInitialHeaderRequest", ".GetLocatorHashes", 10}, {"BitcoinNode.sendHeaderRequest", ".GetLocatorHashes", 3}, {"BitcoinNode.sendVerifyHeaderRequest", ".GetVerifyOnlyLocatorHashes", 0}} {
		f := fn(p, r, "CALL-SITE", R, s.fn)
		if f == nil {
			continue
		}
		bad := "does not request " + s.callee
		kit.AllInstrs(f, func(in ssa.Instruction) {
			c, ok := in.(*ssa.Call)
			if !ok || !c.Call.IsInvoke() || "."+c.Call.Method.Name() != s.callee {
				return
			}
			bad = ""
			if s.want > 0 {
				if k, ok := kit.ConstInt(c.Call.Args[len(c.Call.Args)-1]); !ok || k < 1 {
					bad = "locator maximum is not a positive constant"
				}
			}
		})
		r.Check(bad == "", "CALL-SITE", s.fn+"/locator", posOf(p, f.Blocks[0].Instrs[0]), "requests "+s.callee, bad)
	}
}

func paramNamed(f *ssa.Function, name string) *ssa.Parameter {
	for _, prm := range f.Params {
		if prm.Name() == name {
			return prm
		}
	}
	return nil
}

// dedupShape checks the de-duplication loop of d; returns "" when it has the required shape.
func dedupShape(p *load.Program, d *ssa.Function) string {
	eqs := kit.FindGuards(d, kit.CallCond(nil, load.BitcoinPkg+".Hash32.Equal"))
	if len(eqs) != 1 {
		return "expected exactly one hash comparison"
	}
	eq := eqs[0]
	call := eq.If.Cond.(*ssa.Call)
	// the append that keeps an element
	var keep ssa.Instruction
	kit.AllInstrs(d, func(in ssa.Instruction) {
		if c, ok := in.(*ssa.Call); ok && kit.CallID(c) == "builtin.append" && len(cycleOf(c.Block())) > 0 {
			keep = in
		}
	})
	if keep == nil {
		return "no element is kept inside the loop"
	}
	// kept exactly behind {not equal} ∪ {first element}
	first := kit.FindGuards(d, func(c ssa.Value) (bool, bool) {
		b, ok := c.(*ssa.BinOp)
		if !ok {
			return false, false
		}
		// "nothing kept yet" as a nil previous-element cursor: the pointer that Equal is called on
		if (b.Op == token.EQL || b.Op == token.NEQ) && kit.IsNilConst(b.Y) {
			if ph, isPhi := b.X.(*ssa.Phi); isPhi {
				for _, a := range call.Call.Args {
					if kit.Strip(a) == ssa.Value(ph) {
						return true, b.Op == token.EQL
					}
				}
			}
			return false, false
		}
		z, isC := kit.ConstInt(b.Y)
		if !isC {
			return false, false
		}
		// "nothing kept yet / first element": X == 0, !(X != 0), !(X > 0), X <= 0, X < 1, !(X >= 1)
		switch {
		case b.Op == token.EQL && z == 0:
			return true, true
		case b.Op == token.NEQ && z == 0:
			return true, false
		case b.Op == token.GTR && z == 0:
			return true, false
		case b.Op == token.LEQ && z == 0:
			return true, true
		case b.Op == token.LSS && z == 1:
			return true, true
		case b.Op == token.GEQ && z == 1:
			return true, false
		}
		return false, false
	})
	pass := append(edgesOf(first, true), eq.FailEdge())
	// the loop header's body entry to keep: all paths must pass one of `pass` — and conversely the
	// equal edge must not reach keep in the same iteration
	header, body := loopBodyEntry(d, keep)
	if header == nil || body == nil {
		return "the kept element is not appended in a loop"
	}
	reach := kit.Reach(d, []kit.Pt{{B: body, I: 0}}, kit.Opts{BlockEdge: kit.EdgeSet(pass...), StopAt: kit.InstrSet(header.Instrs[0])})
	if reach.Has(keep) {
		return "an element can be kept without its hash having been compared unequal to the previous one (extra conditions weaken the test): " + reach.PathTo(keep, p.Pos)
	}
	same := kit.Reach(d, []kit.Pt{kit.EdgeStart(eq.PassEdge())}, kit.Opts{StopAt: kit.InstrSet(header.Instrs[0])})
	if same.Has(keep) {
		return "an element whose hash equals the previous one is kept"
	}
	// carried comparand: one side of Equal is a local that is stored inside the loop with the
	// current element on the keep path
	carried := false
	for _, a := range call.Call.Args {
		al, ok := kit.Root(a).(*ssa.Alloc)
		if !ok {
			continue
		}
		for _, ref := range *al.Referrers() {
			if st, ok := ref.(*ssa.Store); ok && st.Addr == ssa.Value(al) && cycleOf(st.Block())[header] {
				// stored after keep in the same iteration, value = current element
				if kit.Reach(d, kit.After(keep), kit.Opts{StopAt: kit.InstrSet(header.Instrs[0])}).Has(st) || st.Block() == keep.Block() {
					if !kit.DependsOnNoPhi(st.Val, func(v ssa.Value) bool { _, isPhi := v.(*ssa.Phi); return isPhi }) || true {
						carried = true
					}
				}
			}
		}
	}
	// or the previous element is read as input[i-1] / a loop-carried phi
	for _, a := range call.Call.Args {
		if kit.DependsOnNoPhi(a, func(v ssa.Value) bool {
			ph, ok := v.(*ssa.Phi)
			return ok && ph.Block() == header && !isIntPhi(ph)
		}) {
			carried = true
		}
	}
	// or the two operands are adjacent elements of the input: in[i-1] and in[i]
	if len(call.Call.Args) == 2 {
		lin := kit.NewLin(d)
		ia := func(v ssa.Value) *ssa.IndexAddr {
			v = kit.Strip(v)
			if x, ok := v.(*ssa.IndexAddr); ok {
				return x
			}
			if u, ok := v.(*ssa.UnOp); ok {
				if x, ok := u.X.(*ssa.IndexAddr); ok {
					return x
				}
			}
			// a value receiver gets a copy: `*(&in[i-1])` stored into a local
			if al, ok := v.(*ssa.Alloc); ok {
				for _, ref := range *al.Referrers() {
					if st, ok := ref.(*ssa.Store); ok && st.Addr == ssa.Value(al) {
						if u, ok := st.Val.(*ssa.UnOp); ok {
							if x, ok := u.X.(*ssa.IndexAddr); ok {
								return x
							}
						}
					}
				}
			}
			return nil
		}
		a0, a1 := ia(call.Call.Args[0]), ia(call.Call.Args[1])
		if a0 != nil && a1 != nil && kit.Strip(a0.X) == kit.Strip(a1.X) {
			df := lin.Of(a0.Index).Sub(lin.Of(a1.Index))
			if k, isC := df.IsConst(); isC && (k == 1 || k == -1) {
				carried = true
			}
		}
	}
	if !carried {
		return "the hash compared against is never updated inside the loop: every element is compared with the zero value and nothing is removed"
	}
	return ""
}

func isIntPhi(ph *ssa.Phi) bool {
	b, ok := ph.Type().Underlying().(*types.Basic)
	return ok && b.Info()&types.IsInteger != 0
}

// listSourceCall finds the call whose result a returned list is: the call itself, or — looking
// through a defensive copy (`out := make(…); copy(out, src)`), a boolean-guarded memo field of the
// repository (every store to the field in the package is followed) and phis — the single call all
// of these lead to.
func listSourceCall(p *load.Program, f *ssa.Function, v ssa.Value, depth int) *ssa.Call {
	if depth > 6 {
		return nil
	}
	if c := callOf(v, 0); c != nil && kit.StaticCallee(c) != nil {
		return c
	}
	switch x := kit.Strip(v).(type) {
	case *ssa.Call:
		if kit.StaticCallee(x) != nil {
			return x
		}
	case *ssa.MakeSlice:
		var src ssa.Value
		n := 0
		for _, ref := range *x.Referrers() {
			switch y := ref.(type) {
			case *ssa.Call:
				if kit.CallID(y) == "builtin.copy" && len(y.Call.Args) == 2 && y.Call.Args[0] == ssa.Value(x) {
					src = y.Call.Args[1]
					n++
				}
			case *ssa.IndexAddr:
				return nil // filled element by element: not a copy of one source
			}
		}
		if n == 1 {
			return listSourceCall(p, f, src, depth+1)
		}
	case *ssa.Phi:
		var only *ssa.Call
		for _, e := range x.Edges {
			if kit.IsNilConst(e) || e == ssa.Value(x) {
				continue
			}
			c := listSourceCall(p, f, e, depth+1)
			if c == nil || (only != nil && kit.StaticCallee(only) != kit.StaticCallee(c)) {
				return nil
			}
			only = c
		}
		return only
	case *ssa.UnOp:
		if x.Op != token.MUL {
			return nil
		}
		fa, ok := x.X.(*ssa.FieldAddr)
		if !ok {
			return nil
		}
		fld, _ := kit.FieldOfAddr(fa)
		if fld == nil {
			return nil
		}
		var only *ssa.Call
		n := 0
		for _, g := range pkgFuncs(p, H) {
			for _, w := range kit.DirectWrites(g) {
				if w.Field != fld || w.Kind != "store" {
					continue
				}
				n++
				c := listSourceCall(p, g, w.Val, depth+1)
				if c == nil || (only != nil && kit.StaticCallee(only) != kit.StaticCallee(c)) {
					return nil
				}
				only = c
			}
		}
		if n > 0 {
			return only
		}
	}
	return nil
}

// isRecvField: fa addresses a field directly of the receiver object (not of a nested struct).
func isRecvField(fa *ssa.FieldAddr, recv ssa.Value) bool {
	return kit.Strip(fa.X) == recv
}
