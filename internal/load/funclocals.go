package load

import (
	"fmt"
	"go/ast"
	"go/token"
	"go/types"
	"sort"
	"strings"

	"golang.org/x/tools/go/packages"
)

// ResolveFuncLocals rewrites a call through a local function variable into a call of the function
// the variable is bound to, when that binding is fixed:
//
//	var stage func(context.Context) error
//	stage = repo.consolidate            (the only assignment; or `stage := repo.consolidate`)
//	…
//	stage(ctx)              →           repo.consolidate(ctx)
//
// A refactoring that hands the steps of a sequence to a small runner as method values leaves, once
// the runner is expanded into its caller, exactly this shape; the call rules (who calls what, under
// which lock, with which error disposition) see through it only when the call names its callee.
//
// Conditions (anything else leaves the variable alone):
//   - the variable is a local of function type, declared in the function body, never address-taken,
//     assigned exactly once (by its definition or by one plain assignment after a `var` without value);
//   - the bound value is a package-level function, a method value `x.m` whose x is a parameter or
//     receiver of the enclosing function that the body never assigns, or another such local;
//   - the variable is only called, copied into another such local, or named in `_ = v`.
//
// The bindings stay in the source (they are dead but keep the file well-typed); only the call
// operands change.
func ResolveFuncLocals(pkgs []*packages.Package, read func(string) ([]byte, error)) (map[string][]byte, []string) {
	overlay := map[string][]byte{}
	var notes []string
	for _, p := range pkgs {
		info := p.TypesInfo
		for _, f := range p.Syntax {
			fname := p.Fset.Position(f.Pos()).Filename
			if strings.HasSuffix(fname, "_test.go") {
				continue
			}
			var src []byte
			var edits []edit
			off := func(pos token.Pos) int { return p.Fset.Position(pos).Offset }
			for _, d := range f.Decls {
				fd, ok := d.(*ast.FuncDecl)
				if !ok || fd.Body == nil {
					continue
				}
				// fixed identifiers: parameters and receiver never assigned in the body
				fixed := map[types.Object]bool{}
				addFields := func(fl *ast.FieldList) {
					if fl == nil {
						return
					}
					for _, fld := range fl.List {
						for _, n := range fld.Names {
							if o := info.Defs[n]; o != nil {
								fixed[o] = true
							}
						}
					}
				}
				addFields(fd.Recv)
				addFields(fd.Type.Params)
				// candidates and their assignments
				type binding struct {
					rhs   ast.Expr
					count int
					plain bool // bound by `x = e` or `var x T = e`: e can be replaced by nil
				}
				binds := map[types.Object]*binding{}
				isFuncVar := func(o types.Object) bool {
					v, ok := o.(*types.Var)
					if !ok || v.IsField() {
						return false
					}
					_, isSig := v.Type().Underlying().(*types.Signature)
					return isSig
				}
				bad := map[types.Object]bool{}
				note := func(o types.Object, rhs ast.Expr, plain bool) {
					if o == nil {
						return
					}
					if fixed[o] {
						delete(fixed, o) // assigned in the body
						return
					}
					if !isFuncVar(o) {
						return
					}
					b := binds[o]
					if b == nil {
						b = &binding{}
						binds[o] = b
					}
					b.count++
					b.rhs = rhs
					b.plain = plain
				}
				ast.Inspect(fd.Body, func(n ast.Node) bool {
					switch x := n.(type) {
					case *ast.AssignStmt:
						for i, l := range x.Lhs {
							id, ok := l.(*ast.Ident)
							if !ok || id.Name == "_" {
								continue
							}
							o := info.Defs[id]
							if o == nil {
								o = info.Uses[id]
							}
							if o == nil {
								continue
							}
							if len(x.Lhs) != len(x.Rhs) || (x.Tok != token.DEFINE && x.Tok != token.ASSIGN) {
								if fixed[o] {
									delete(fixed, o)
								} else {
									bad[o] = true
								}
								continue
							}
							note(o, x.Rhs[i], x.Tok == token.ASSIGN)
						}
					case *ast.ValueSpec:
						for i, nm := range x.Names {
							o := info.Defs[nm]
							if o == nil || !isFuncVar(o) {
								continue
							}
							if len(x.Values) == len(x.Names) {
								note(o, x.Values[i], x.Type != nil)
							} else if len(x.Values) != 0 {
								bad[o] = true
							} else if binds[o] == nil {
								binds[o] = &binding{}
							}
						}
					case *ast.RangeStmt:
						for _, e := range []ast.Expr{x.Key, x.Value} {
							if id, ok := e.(*ast.Ident); ok {
								o := info.Defs[id]
								if o == nil {
									o = info.Uses[id]
								}
								if o != nil {
									if fixed[o] {
										delete(fixed, o)
									} else {
										bad[o] = true
									}
								}
							}
						}
					case *ast.IncDecStmt:
						if id, ok := x.X.(*ast.Ident); ok {
							if o := info.Uses[id]; o != nil && fixed[o] {
								delete(fixed, o)
							}
						}
					case *ast.UnaryExpr:
						if x.Op == token.AND {
							if id, ok := sroaUnparen(x.X).(*ast.Ident); ok {
								if o := info.Uses[id]; o != nil {
									if fixed[o] {
										delete(fixed, o)
									} else {
										bad[o] = true
									}
								}
							}
						}
					}
					return true
				})
				if len(binds) == 0 {
					continue
				}
				// uses: called, copied into another candidate, or blank-assigned
				parents := map[ast.Node]ast.Node{}
				var stack []ast.Node
				ast.Inspect(fd.Body, func(n ast.Node) bool {
					if n == nil {
						stack = stack[:len(stack)-1]
						return true
					}
					if len(stack) > 0 {
						parents[n] = stack[len(stack)-1]
					}
					stack = append(stack, n)
					return true
				})
				calls := map[types.Object][]*ast.CallExpr{}
				ast.Inspect(fd.Body, func(n ast.Node) bool {
					id, ok := n.(*ast.Ident)
					if !ok {
						return true
					}
					o := info.Uses[id]
					if o == nil || binds[o] == nil {
						return true
					}
					var par ast.Node = parents[id]
					var child ast.Node = id
					for {
						pe, ok := par.(*ast.ParenExpr)
						if !ok {
							break
						}
						child = pe
						par = parents[pe]
					}
					switch x := par.(type) {
					case *ast.CallExpr:
						if x.Fun == child {
							calls[o] = append(calls[o], x)
							return true
						}
					case *ast.AssignStmt:
						if len(x.Lhs) == len(x.Rhs) {
							for i, r := range x.Rhs {
								if r == child {
									if l, ok := x.Lhs[i].(*ast.Ident); ok {
										if l.Name == "_" {
											return true
										}
										lo := info.Defs[l]
										if lo == nil {
											lo = info.Uses[l]
										}
										if lo != nil && binds[lo] != nil {
											return true
										}
									}
								}
							}
							for _, l := range x.Lhs {
								if l == child {
									return true // the binding itself
								}
							}
						}
					case *ast.ValueSpec:
						for i, r := range x.Values {
							if r == child && i < len(x.Names) {
								if lo := info.Defs[x.Names[i]]; lo != nil && binds[lo] != nil {
									return true
								}
							}
						}
					}
					bad[o] = true
					return true
				})
				// resolve
				var resolve func(o types.Object, depth int) (string, bool)
				getSrc := func() bool {
					if src == nil {
						b, err := read(fname)
						if err != nil {
							return false
						}
						src = b
					}
					return true
				}
				resolve = func(o types.Object, depth int) (string, bool) {
					b := binds[o]
					if b == nil || bad[o] || b.count != 1 || b.rhs == nil || depth > 6 {
						return "", false
					}
					switch x := sroaUnparen(b.rhs).(type) {
					case *ast.Ident:
						ro := info.Uses[x]
						if fn, ok := ro.(*types.Func); ok && fn.Pkg() == p.Types && fn.Parent() == p.Types.Scope() {
							return x.Name, true
						}
						if ro != nil && binds[ro] != nil {
							return resolve(ro, depth+1)
						}
					case *ast.SelectorExpr:
						sel := info.Selections[x]
						if sel == nil || sel.Kind() != types.MethodVal {
							return "", false
						}
						rid, ok := sroaUnparen(x.X).(*ast.Ident)
						if !ok || !fixed[info.Uses[rid]] {
							return "", false
						}
						// the name must still mean the same object at the call: checked by the caller
						if !getSrc() {
							return "", false
						}
						return rid.Name + "." + x.Sel.Name, true
					}
					return "", false
				}
				allResolved := true
				for o := range binds {
					if _, ok := resolve(o, 0); !ok {
						allResolved = false
					}
				}
				for o, cs := range calls {
					text, ok := resolve(o, 0)
					if !ok || !getSrc() {
						allResolved = false
						continue
					}
					for _, c := range cs {
						// the receiver name must resolve to the same object at the call site
						if i := strings.IndexByte(text, '.'); i > 0 {
							scope := p.Types.Scope().Innermost(c.Pos())
							if scope == nil {
								continue
							}
							_, so := scope.LookupParent(text[:i], c.Pos())
							if so == nil || !fixed[so] {
								allResolved = false
								continue
							}
						}
						edits = append(edits, edit{off(c.Fun.Pos()), off(c.Fun.End()), text})
						notes = append(notes, fmt.Sprintf("call through the function variable %s in %s (%s) read as a call of %s", o.Name(), fd.Name.Name, shortPos(p.Fset.Position(c.Pos())), text))
					}
				}
				// every reader of every function variable now names its callee: the bound method
				// values are dead, and left in place they would keep a `$bound` wrapper calling the
				// method from an unknown context
				if allResolved && src != nil {
					for _, b := range binds {
						if b.count != 1 || !b.plain || b.rhs == nil {
							continue
						}
						if _, isSel := sroaUnparen(b.rhs).(*ast.SelectorExpr); isSel {
							edits = append(edits, edit{off(b.rhs.Pos()), off(b.rhs.End()), "nil"})
						}
					}
				}
			}
			if len(edits) == 0 || src == nil {
				continue
			}
			sort.Slice(edits, func(i, j int) bool { return edits[i].start > edits[j].start })
			out := append([]byte{}, src...)
			okE := true
			for i, e := range edits {
				if i > 0 && e.end > edits[i-1].start {
					okE = false
				}
			}
			if !okE {
				continue
			}
			for _, e := range edits {
				out = append(out[:e.start], append([]byte(e.text), out[e.end:]...)...)
			}
			overlay[fname] = out
		}
	}
	sort.Strings(notes)
	return overlay, notes
}
