// Package load loads the repository under analysis (type-checked syntax of every package of the
// module plus its dependencies), lowers it to SSA and builds a VTA call graph.
package load

import (
	"fmt"
	"go/token"
	"go/types"
	"os"
	"sort"
	"strings"

	"golang.org/x/tools/go/callgraph"
	"golang.org/x/tools/go/callgraph/cha"
	"golang.org/x/tools/go/callgraph/vta"
	"golang.org/x/tools/go/packages"
	"golang.org/x/tools/go/ssa"
	"golang.org/x/tools/go/ssa/ssautil"
)

const (
	RootPkg    = "github.com/tokenized/bitcoin_reader"
	HeadersPkg = "github.com/tokenized/bitcoin_reader/headers"
	TestsPkg   = "github.com/tokenized/bitcoin_reader/internal/platform/tests"
	CmdPkg     = "github.com/tokenized/bitcoin_reader/cmd/node"
	WirePkg    = "github.com/tokenized/pkg/wire"
	BitcoinPkg = "github.com/tokenized/pkg/bitcoin"
	ThreadsPkg = "github.com/tokenized/threads"
	MerklePkg  = "github.com/tokenized/pkg/merkle_proof"
	StoragePkg = "github.com/tokenized/pkg/storage"
)

// Program is the loaded, resolved program.
type Program struct {
	Dir      string
	Fset     *token.FileSet
	Pkgs     []*packages.Package          // the module's own packages
	All      map[string]*packages.Package // every package by path
	SSA      *ssa.Program
	SSAPkgs  map[string]*ssa.Package
	cg       *callgraph.Graph
	allFuncs map[*ssa.Function]bool
	// Renames relative to the anchor table (nil when none / no table)
	Renames *Renames
	// CanonicalFunc, when set, resolves "pkg.Name" / "pkg.Type.Method" through renames
	FuncByID func(id string) *ssa.Function
	// Skip: raw IDs of functions that are not analysed: helpers that do not exist in the reference
	// tree, are unexported, and whose every call has been expanded in place (dead after expansion)
	Skip map[string]bool
	// RawID names a function as spelled in the current tree (set by the driver)
	RawID func(*ssa.Function) string
	// Notes of the preparation step (renames followed, helpers expanded)
	Notes []string
	// RefFields: "pkg.Struct" → field names of the reference tree (nil without an anchor table)
	RefFields map[string]map[string]bool
	// RefErrDisp: function id → callee key → error dispositions in the reference tree (errdisp.json)
	// RefLockCover: function → "pkg.Struct.field" → locks the reference tree holds at every access
	RefLockCover map[string]map[string][]string
	// RefRetFields: accessor method → receiver fields its results come from in the reference tree
	RefRetFields map[string][]string
	RefErrDisp   map[string]map[string][]string
}

// Load loads ./... in dir. Any load or type error is returned as an error: an analysis that could
// not see the whole program must fail, never pass.
func Load(dir string) (*Program, error) { return LoadOverlay(dir, nil) }

// LoadOverlay is Load with some files replaced by the given contents (see reinline.go).
func LoadOverlay(dir string, overlay map[string][]byte) (*Program, error) {
	os.Unsetenv("GOWORK")
	env := append(os.Environ(), "GOFLAGS=-mod=mod", "GOPROXY=off", "GOSUMDB=off",
		"GOTOOLCHAIN=local", "GOWORK=off")
	cfg := &packages.Config{
		Mode:    packages.LoadAllSyntax,
		Dir:     dir,
		Env:     env,
		Tests:   false,
		Overlay: overlay,
	}
	pkgs, err := packages.Load(cfg, "./...")
	if err != nil {
		return nil, fmt.Errorf("packages.Load: %w", err)
	}
	if len(pkgs) == 0 {
		return nil, fmt.Errorf("no packages loaded from %s", dir)
	}
	var errs []string
	all := map[string]*packages.Package{}
	packages.Visit(pkgs, nil, func(p *packages.Package) {
		all[p.PkgPath] = p
		for _, e := range p.Errors {
			errs = append(errs, e.Error())
		}
	})
	if len(errs) > 0 {
		sort.Strings(errs)
		if len(errs) > 8 {
			errs = errs[:8]
		}
		return nil, fmt.Errorf("type/load errors: %s", strings.Join(errs, "; "))
	}
	for _, want := range []string{RootPkg, HeadersPkg} {
		if all[want] == nil {
			return nil, fmt.Errorf("package %s not loaded", want)
		}
	}
	prog, _ := ssautil.AllPackages(pkgs, ssa.InstantiateGenerics)
	prog.Build()
	p := &Program{Dir: dir, Fset: pkgs[0].Fset, Pkgs: pkgs, All: all, SSA: prog,
		SSAPkgs: map[string]*ssa.Package{}}
	for _, sp := range prog.AllPackages() {
		p.SSAPkgs[sp.Pkg.Path()] = sp
	}
	return p, nil
}

// CallGraph builds (once) the VTA call graph seeded by CHA.
func (p *Program) CallGraph() *callgraph.Graph {
	if p.cg == nil {
		p.allFuncs = ssautil.AllFunctions(p.SSA)
		p.cg = vta.CallGraph(p.allFuncs, cha.CallGraph(p.SSA))
	}
	return p.cg
}

func (p *Program) AllFunctions() map[*ssa.Function]bool {
	if p.allFuncs == nil {
		p.allFuncs = ssautil.AllFunctions(p.SSA)
	}
	return p.allFuncs
}

// Func finds a package-level function or a method "T.m" / "(*T).m" written as "T.m".
func (p *Program) Func(pkgPath, name string) *ssa.Function {
	if f := p.funcExact(pkgPath, name); f != nil {
		return f
	}
	if p.FuncByID != nil {
		return p.FuncByID(pkgPath + "." + name)
	}
	return nil
}

func (p *Program) funcExact(pkgPath, name string) *ssa.Function {
	sp := p.SSAPkgs[pkgPath]
	if sp == nil {
		return nil
	}
	if i := strings.Index(name, "."); i >= 0 {
		tname, mname := name[:i], name[i+1:]
		m := sp.Members[tname]
		t, ok := m.(*ssa.Type)
		if !ok {
			return nil
		}
		named := t.Type()
		for _, recv := range []types.Type{named, types.NewPointer(named)} {
			sel := p.SSA.MethodSets.MethodSet(recv).Lookup(sp.Pkg, mname)
			if sel != nil {
				return p.SSA.MethodValue(sel)
			}
		}
		return nil
	}
	return sp.Func(name)
}

// Named returns the named type pkg.name.
func (p *Program) Named(pkgPath, name string) *types.Named {
	pk := p.All[pkgPath]
	if pk == nil || pk.Types == nil {
		return nil
	}
	o := pk.Types.Scope().Lookup(name)
	if o == nil {
		return nil
	}
	n, _ := o.Type().(*types.Named)
	return n
}

// Field returns the field object of struct type pkg.typ.
func (p *Program) Field(pkgPath, typ, field string) *types.Var {
	n := p.Named(pkgPath, typ)
	if n == nil {
		return nil
	}
	st, ok := n.Underlying().(*types.Struct)
	if !ok {
		return nil
	}
	for i := 0; i < st.NumFields(); i++ {
		if st.Field(i).Name() == field {
			return st.Field(i)
		}
	}
	if p.Renames != nil {
		if alias, ok := p.Renames.FieldAlias[pkgPath+"."+typ][field]; ok {
			for i := 0; i < st.NumFields(); i++ {
				if st.Field(i).Name() == alias {
					return st.Field(i)
				}
			}
		}
	}
	return nil
}

// OwnFunctions returns every SSA function (incl. anonymous) whose package is one of the module's.
func (p *Program) OwnFunctions() []*ssa.Function {
	var out []*ssa.Function
	for fn := range p.AllFunctions() {
		if fn.Pkg == nil && fn.Parent() == nil {
			continue
		}
		pk := fn.Pkg
		if pk == nil && fn.Parent() != nil {
			pk = fn.Parent().Pkg
		}
		if pk == nil {
			continue
		}
		if strings.HasPrefix(pk.Pkg.Path(), RootPkg) && fn.Blocks != nil {
			if len(p.Skip) > 0 && p.RawID != nil {
				top := fn
				for top.Parent() != nil {
					top = top.Parent()
				}
				if p.Skip[p.RawID(top)] {
					continue
				}
			}
			out = append(out, fn)
		}
	}
	sort.Slice(out, func(i, j int) bool { return out[i].String() < out[j].String() })
	return out
}

// NewFields returns the fields of struct pkg.typ that do not exist in the reference tree (and are
// not renames of reference fields): state added since the rule instances were confirmed.
func (p *Program) NewFields(pkgPath, typ string) []*types.Var {
	ref := p.RefFields[pkgPath+"."+typ]
	if ref == nil {
		return nil
	}
	n := p.Named(pkgPath, typ)
	if n == nil {
		return nil
	}
	st, ok := n.Underlying().(*types.Struct)
	if !ok {
		return nil
	}
	renamed := map[string]bool{}
	if p.Renames != nil {
		for _, cur := range p.Renames.FieldAlias[pkgPath+"."+typ] {
			renamed[cur] = true
		}
	}
	var out []*types.Var
	for i := 0; i < st.NumFields(); i++ {
		f := st.Field(i)
		if !ref[f.Name()] && !renamed[f.Name()] {
			out = append(out, f)
		}
	}
	return out
}

// Skipped says whether fn (or its outermost enclosing function) is a dead new helper that is not
// analysed on its own (see Skip).
func (p *Program) Skipped(fn *ssa.Function) bool {
	if len(p.Skip) == 0 || p.RawID == nil || fn == nil {
		return false
	}
	for fn.Parent() != nil {
		fn = fn.Parent()
	}
	return p.Skip[p.RawID(fn)]
}

// Pos renders a position relative to the repository directory.
func (p *Program) Pos(pos token.Pos) string {
	if !pos.IsValid() {
		return "?"
	}
	ps := p.Fset.Position(pos)
	f := strings.TrimPrefix(ps.Filename, p.Dir+"/")
	return fmt.Sprintf("%s:%d", f, ps.Line)
}

// IsTestOnlyFile says whether pos lies in a file that is only used for testing support.
func (p *Program) FileOf(pos token.Pos) string {
	if !pos.IsValid() {
		return ""
	}
	return strings.TrimPrefix(p.Fset.Position(pos).Filename, p.Dir+"/")
}
