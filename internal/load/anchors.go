package load

import (
	"encoding/json"
	"go/types"
	"os"
	"sort"
	"strings"

	"golang.org/x/tools/go/ssa"
)

// Anchor table: the functions and struct fields of the two packages as they were when the rule
// instances were confirmed by hand (written by `vcheck -gen-anchors`, committed as anchors.json).
// When a rule's anchor is missing from the current tree, the table lets the loader follow a pure
// rename: an unexported function with the same receiver, the same signature and (mostly) the same
// callees, or a field of the same struct with the same type at the same position.

type FuncAnchor struct {
	ID      string   `json:"id"`
	Recv    string   `json:"recv"`
	Sig     string   `json:"sig"`
	Callees []string `json:"callees"`
}

type StructAnchor struct {
	Pkg    string      `json:"pkg"`
	Name   string      `json:"name"`
	Fields [][2]string `json:"fields"` // name, type
}

type AnchorTable struct {
	Funcs   []FuncAnchor   `json:"funcs"`
	Structs []StructAnchor `json:"structs"`
}

func qual(p *types.Package) string {
	if p == nil {
		return ""
	}
	return p.Path()
}

func funcAnchor(id string, f *ssa.Function, idOf func(*ssa.Function) string, calleeID func(ssa.CallInstruction) string) FuncAnchor {
	a := FuncAnchor{ID: id}
	if f.Signature.Recv() != nil {
		a.Recv = types.TypeString(f.Signature.Recv().Type(), qual)
	}
	a.Sig = types.TypeString(f.Signature, qual)
	seen := map[string]bool{}
	for _, b := range f.Blocks {
		for _, in := range b.Instrs {
			if c, ok := in.(ssa.CallInstruction); ok {
				if cid := calleeID(c); cid != "" && !seen[cid] {
					seen[cid] = true
					a.Callees = append(a.Callees, cid)
				}
			}
		}
	}
	sort.Strings(a.Callees)
	return a
}

// BuildAnchors describes the current program.
func (p *Program) BuildAnchors(idOf func(*ssa.Function) string, calleeID func(ssa.CallInstruction) string) AnchorTable {
	var t AnchorTable
	for _, f := range p.OwnFunctions() {
		if f.Parent() != nil || f.Synthetic != "" {
			continue
		}
		t.Funcs = append(t.Funcs, funcAnchor(idOf(f), f, idOf, calleeID))
	}
	for _, pkg := range []string{RootPkg, HeadersPkg} {
		sc := p.All[pkg].Types.Scope()
		for _, n := range sc.Names() {
			tn, ok := sc.Lookup(n).(*types.TypeName)
			if !ok {
				continue
			}
			st, ok := tn.Type().Underlying().(*types.Struct)
			if !ok {
				continue
			}
			sa := StructAnchor{Pkg: pkg, Name: n}
			for i := 0; i < st.NumFields(); i++ {
				sa.Fields = append(sa.Fields, [2]string{st.Field(i).Name(), types.TypeString(st.Field(i).Type(), qual)})
			}
			t.Structs = append(t.Structs, sa)
		}
	}
	return t
}

// Renames holds the detected renames of the current tree relative to the anchor table.
type Renames struct {
	FuncToCanonical map[string]string            // current ID → canonical ID
	FieldAlias      map[string]map[string]string // "pkg.Struct" → canonical field name → current field name
	Notes           []string
}

func ReadAnchors(path string) (*AnchorTable, error) {
	b, err := os.ReadFile(path)
	if err != nil {
		return nil, err
	}
	var t AnchorTable
	if err := json.Unmarshal(b, &t); err != nil {
		return nil, err
	}
	return &t, nil
}

func jaccard(a, b []string) float64 {
	if len(a) == 0 && len(b) == 0 {
		return 1
	}
	m := map[string]bool{}
	for _, x := range a {
		m[x] = true
	}
	inter := 0
	for _, x := range b {
		if m[x] {
			inter++
		}
	}
	union := len(a) + len(b) - inter
	if union == 0 {
		return 1
	}
	return float64(inter) / float64(union)
}

// DetectRenames compares the table with the current program.
func (p *Program) DetectRenames(t *AnchorTable, idOf func(*ssa.Function) string, calleeID func(ssa.CallInstruction) string) *Renames {
	r := &Renames{FuncToCanonical: map[string]string{}, FieldAlias: map[string]map[string]string{}}
	cur := p.BuildAnchors(idOf, calleeID)
	curByID := map[string]FuncAnchor{}
	for _, f := range cur.Funcs {
		curByID[f.ID] = f
	}
	canon := map[string]FuncAnchor{}
	for _, f := range t.Funcs {
		canon[f.ID] = f
	}
	var missing []FuncAnchor
	for _, f := range t.Funcs {
		if _, ok := curByID[f.ID]; !ok {
			missing = append(missing, f)
		}
	}
	var added []FuncAnchor
	for _, f := range cur.Funcs {
		if _, ok := canon[f.ID]; !ok {
			added = append(added, f)
		}
	}
	// callee names of missing functions may themselves be renamed: compare on the callees that
	// still exist on both sides
	for _, m := range missing {
		var best *FuncAnchor
		bestScore, second := 0.0, 0.0
		for i := range added {
			a := &added[i]
			if a.Recv != m.Recv || a.Sig != m.Sig {
				continue
			}
			s := jaccard(m.Callees, a.Callees)
			if s > bestScore {
				second = bestScore
				bestScore, best = s, a
			} else if s > second {
				second = s
			}
		}
		if best != nil && bestScore >= 0.5 && bestScore > second {
			r.FuncToCanonical[best.ID] = m.ID
			r.Notes = append(r.Notes, "function "+m.ID+" is now "+best.ID+" (same receiver and signature, callee similarity "+strings.TrimRight(strings.TrimRight(fmtFloat(bestScore), "0"), ".")+")")
		}
	}
	// fields
	for _, sa := range t.Structs {
		pk := p.All[sa.Pkg]
		if pk == nil {
			continue
		}
		tn, ok := pk.Types.Scope().Lookup(sa.Name).(*types.TypeName)
		if !ok {
			continue
		}
		st, ok := tn.Type().Underlying().(*types.Struct)
		if !ok {
			continue
		}
		have := map[string]bool{}
		for i := 0; i < st.NumFields(); i++ {
			have[st.Field(i).Name()] = true
		}
		old := map[string]bool{}
		for _, f := range sa.Fields {
			old[f[0]] = true
		}
		for _, f := range sa.Fields {
			if have[f[0]] {
				continue
			}
			// a new field (not in the table) with the same type; unique
			var cands []string
			for i := 0; i < st.NumFields(); i++ {
				fl := st.Field(i)
				if !old[fl.Name()] && types.TypeString(fl.Type(), qual) == f[1] {
					cands = append(cands, fl.Name())
				}
			}
			if len(cands) == 1 {
				key := sa.Pkg + "." + sa.Name
				if r.FieldAlias[key] == nil {
					r.FieldAlias[key] = map[string]string{}
				}
				r.FieldAlias[key][f[0]] = cands[0]
				r.Notes = append(r.Notes, "field "+key+"."+f[0]+" is now "+cands[0]+" (same struct, same type)")
			}
		}
	}
	return r
}

func fmtFloat(f float64) string {
	s := strings.Builder{}
	n := int(f*100 + 0.5)
	s.WriteString(string(rune('0' + n/100)))
	s.WriteString(".")
	s.WriteString(string(rune('0' + (n/10)%10)))
	s.WriteString(string(rune('0' + n%10)))
	return s.String()
}
